"""C02 Rejected programs fail with a located user error, never a crash.

Decided by: spec/Lifecycle.tla (engine lifecycle automaton Raw -> Parsed -> Checked ->
Compiled -> Validated | Rejected(located, rendered); no Crash transition; model-checked over
the full event alphabet) and spec/Lifecycle_Trace.tla (validates recorded lifecycles).

Binding (code -> spec): a corpus of well-typed programs (harness/diag_seeds.py) is put through
near-miss AST mutations (harness/diag_mutate.py: type swaps, deleted / duplicated / moved
statements, qubit uses, arity, unsupported syntax, bad annotations, generics misuse, placed
also in unreachable code, nested functions, loops, comprehensions); every top-level definition
of every mutant is compiled by the real engine and validated (harness/diag_lifecycle.py), the
lifecycle is recorded as events and TLC checks that it is a behaviour of the automaton.
Any other exception class, a diagnostic span outside decorated source, a renderer failure, a
hang or an invalid HUGR after acceptance is an unmatched event -> violation keyed by
exception class + raising site (file:function#source line of the innermost /repo frame).
"""
import ast
import collections
import hashlib
import json
import os
import random

import lib
import pool

import diag_lifecycle as dl
import diag_mutate as dm
import diag_probes
import diag_seeds


def make_mutants(seed, n):
    rng = random.Random(seed * 104729 + 2)
    names = sorted(diag_seeds.SEEDS)
    jobs, seen, tries = [], set(), 0
    while len(jobs) < n and tries < 40 * n:
        tries += 1
        nm = rng.choice(names)
        s = diag_seeds.SEEDS[nm]
        exp = s["experimental"] or rng.random() < 0.3
        m = dm.mutate(s["src"], rng)
        if m is None:
            continue
        src, ops = m
        hsh = hashlib.sha1((src + str(exp)).encode()).hexdigest()
        if hsh in seen:
            continue
        seen.add(hsh)
        jobs.append({"id": len(jobs), "src": src, "experimental": exp, "ops": ops, "seed": nm, "timeout": 60})
    return jobs


def run_all(jobs, chunk=40):
    chunks = [jobs[i:i + chunk] for i in range(0, len(jobs), chunk)]
    res = dl.map_programs(jobs, chunk=chunk)
    # a timeout under machine load is not an observation: repeat those alone, generously
    for i, r in enumerate(res):
        if r["status"].startswith("not_a_case:timeout") or any(e["out"] == "timeout" for t in r["traces"] for e in t):
            res[i] = dl.run_program(dict(jobs[i], timeout=900))
    mach = [r for r in res if r["status"] == "machinery"]
    if mach:
        raise lib.Machinery(f"lifecycle harness failed on {len(mach)} programs: {mach[0].get('error')}\n{mach[0].get('tb')}")
    return res


def validate(ctx, traces):
    """traces: list of {"id", "mode", "events"}; returns {id: verdict} of the rejected ones."""
    path = os.path.join(ctx.workdir, "lifecycle_trace.json")
    with open(path, "w") as f:
        json.dump(traces, f)
    r = ctx.tlc("Lifecycle_Trace", env={"VERIF_TRACE": path}, timeout=1800)
    if not r.ok:
        raise lib.Machinery("Lifecycle_Trace failed:\n" + (r.error or r.out[-2000:]))
    acc = [p for p in r.printed if isinstance(p, dict) and "accepted" in p]
    if len({p["accepted"] for p in acc}) != 16 or max(p["upto"] for p in acc) != len(traces):
        raise lib.Machinery(f"Lifecycle_Trace walked {len(acc)} of 16 chunks:\n{r.out[-1500:]}")
    bad = {p["bad"]: p for p in r.printed if isinstance(p, dict) and "bad" in p}
    if sum(p["nbad"] for p in acc) != len(bad):
        raise lib.Machinery("Lifecycle_Trace: number of rejected traces and printed verdicts differ")
    return bad


def key_of(event, info):
    if event["out"] == "exc":
        return f"crash:{event['cls']}@{event['site']}"
    if event["out"] == "invalid":
        return f"invalid-hugr:{event['site']}"
    if event["out"] == "timeout":
        return f"hang:{event['stage']}"
    if event["out"] == "reject":
        if not event["rendered"]:
            return f"render-crash:{info.get('diag', '?')}:{info.get('render', '')}"
        if not event["located"]:
            why = info.get("where", "")
            why = "".join(c for c in why if not c.isdigit())[:60]
            return f"unlocated:{info.get('diag', '?')}:{why}"
    return f"lifecycle:{event['stage']}:{event['out']}"


def collect(jobs, res):
    """-> (distinct trace list for TLC, occurrences per distinct trace)"""
    index, traces, occ = {}, [], collections.defaultdict(list)
    for j, r in zip(jobs, res):
        if r["status"] != "case":
            continue
        for name, mode, tr, info in zip(r["names"], r["modes"], r["traces"], r["infos"]):
            canon = json.dumps([mode, tr], sort_keys=True)
            if canon not in index:
                index[canon] = len(traces)
                traces.append({"id": len(traces), "mode": mode, "events": tr})
            occ[index[canon]].append((j, name, info))
    return traces, occ


def _stmt_slots(tree):
    out = []
    for node in ast.walk(tree):
        for field in ("body", "orelse", "finalbody"):
            body = getattr(node, field, None)
            if isinstance(body, list) and body and isinstance(body[0], ast.stmt):
                out += [(body, i) for i in range(len(body))]
    return out


def shrink(job, key, budget=40):
    """Greedy statement deletion keeping the same violation key (replay aid, not a verdict)."""
    src = job["src"]

    def same(s):
        r = dl.run_program(dict(job, src=s, timeout=120))
        return r["status"] == "case" and any(tr[-1]["out"] != "ok" and key_of(tr[-1], info) == key
                                             for tr, info in zip(r["traces"], r["infos"]))

    progress = True
    while progress and budget > 0:
        progress = False
        n = len(_stmt_slots(ast.parse(src)))
        for k in reversed(range(n)):
            if budget <= 0:
                break
            tree = ast.parse(src)
            body, i = _stmt_slots(tree)[k]
            del body[i]
            try:
                s2 = ast.unparse(ast.fix_missing_locations(tree)) + "\n"
                compile(s2, "<shrink>", "exec")
            except Exception:  # noqa: BLE001  (e.g. an emptied body)
                continue
            budget -= 1
            if same(s2):
                src, progress = s2, True
                break
    return src


def run(ctx):
    ctx.level = "model_checking"
    r = ctx.tlc("Lifecycle", coverage=False)
    if not r.ok:
        raise lib.Machinery("Lifecycle.tla invariants violated (specification error):\n" + r.error)
    # the corpus itself must be accepted
    seeds = [{"id": i, "src": s["src"], "experimental": s["experimental"], "ops": [], "seed": nm, "timeout": 300}
             for i, (nm, s) in enumerate(sorted(diag_seeds.SEEDS.items()))]
    sres = run_all(seeds, chunk=3)
    # A seed that /repo rejects with a proper user error is no longer a well-typed starting point on this
    # tree (not this property's business; noted in the evidence).  A seed that crashes is a finding like
    # any other: its lifecycle goes to TLC with the rest.
    not_accepted = [j["seed"] for j, rr in zip(seeds, sres)
                    if rr["status"] != "case" or any(t[-1]["out"] == "reject" for t in rr["traces"])]
    if len(not_accepted) > len(seeds) // 2:
        raise lib.Machinery(f"{len(not_accepted)} of {len(seeds)} seed programs are rejected by /repo, e.g. "
                            f"{not_accepted[:3]}: {[i for rr in sres for i in rr['infos'] if i][:1]}")
    probes = [{"id": k, "src": src, "experimental": exp, "ops": ["probe"], "seed": f"probe{i}", "timeout": 120}
              for k, (i, src, exp) in enumerate((i, src, exp) for i, src in enumerate(diag_probes.PROBES) for exp in (False, True))]
    # VERIF_C02_MUTANTS overrides the number of random mutants (used for seeded-defect experiments on a loaded machine)
    nmut = int(os.environ.get("VERIF_C02_MUTANTS", "") or ctx.pick(1500, 10000))
    jobs = probes + make_mutants(ctx.seed, nmut)
    for k, j in enumerate(jobs):
        j["id"] = k
    ctx.log(f"{len(probes)} hand-written near-miss programs, {len(jobs) - len(probes)} distinct mutants of {len(seeds)} seed programs")
    res = run_all(jobs)
    ctx.log("programs run; validating lifecycles")
    traces, occ = collect(seeds + jobs, sres + res)
    bad = validate(ctx, traces)
    groups = collections.defaultdict(list)
    for tid, verdict in bad.items():
        for job, name, info in occ[tid]:
            groups[key_of(verdict["event"], info)].append((job, name, info, verdict))
    ctx.log(f"{len(bad)} unmatched traces in {len(groups)} groups")
    for key, items in sorted(groups.items()):
        items.sort(key=lambda it: (len(it[0]["src"]), it[0]["id"]))
        job, name, info, verdict = items[0]
        small = shrink(job, key) if len(groups) <= 40 and len(job["src"]) > 350 else job["src"]
        what = (f"{key}: {len(items)} lifecycles of {len({it[0]['id'] for it in items})} mutants are not behaviours of the "
                f"Lifecycle automaton (unmatched event {json.dumps(verdict['event'])} in state {verdict['state']}); "
                f"entry `{name}`, experimental={job['experimental']}, operators={job['ops']}, program:\n{small}\n"
                f"{info.get('msg', '')} {info.get('where', '')} {info.get('render', '')}\n{info.get('tb', '')[-900:]}")
        ctx.violation(key, what, {"src": small, "original_src": job["src"], "experimental": job["experimental"],
                                  "entry": name, "ops": job["ops"], "seed": job["seed"], "info": info})
    status = collections.Counter(r["status"] for r in res)
    outcomes = collections.Counter()
    ops = collections.Counter()
    rejected_mutants = 0
    for j, rr in zip(jobs, res):
        for o in j["ops"]:
            ops[o] += 1
        if rr["status"] == "case":
            last = [t[-1] for t in rr["traces"]]
            rejected_mutants += any(e["out"] != "ok" for e in last)
            for e in last:
                outcomes[f"{e['stage']}:{e['out']}"] += 1
    ntr = sum(len(v) for v in occ.values())
    ctx.coverage.update({
        "traces_validated_against_impl": ntr,
        "distinct_traces_sent_to_TLC": len(traces),
        "evaluations": len(jobs),
        "distinct_nontrivial": rejected_mutants,
        "rule": "a case is one distinct mutant source that reaches the engine; non-trivial = at least one of its "
                "definitions does not end in Validated/Checked (i.e. the mutation is seen by the compiler)",
        "mutant_status": dict(status),
        "final_events": dict(outcomes),
        "operators": dict(ops),
        "seeds": len(seeds),
        "seeds_not_accepted": not_accepted,
        "handwritten_probes": len(probes),
        "module_body_exceptions": dict(collections.Counter(r.get("module_body", "") for r in res if r.get("module_body"))),
        "unmatched_traces": len(bad),
        "samples": [{"seed": j["seed"], "ops": j["ops"], "src": j["src"][:400]} for j in jobs[:3]],
        "exhaustive": False,
    })
    ctx.assumptions += ["TLC", "hugr-core validator", "stage attribution by traceback (engine.check/parse/compile frames)",
                        "span containment computed by harness/diag_lifecycle.located from DEF_STORE.sources",
                        "programs failing in the module body at Python level (annotation evaluation etc.) are not cases"]


def replay(ctx, data):
    d = data["replay"]
    r = dl.run_program({"id": 0, "src": d["src"], "experimental": d["experimental"], "timeout": 300})
    print(d["src"])
    for name, mode, tr, info in zip(r["names"], r["modes"], r["traces"], r["infos"]):
        print(f"-- {name} ({mode}):", [f"{e['stage']}:{e['out']}" for e in tr], {k: v for k, v in info.items() if k != "tb"})
        if info.get("tb"):
            print(info["tb"][-1500:])
    traces, _ = collect([{"id": 0}], [r])
    bad = validate(ctx, traces)
    print("spec:", "all lifecycles accepted" if not bad else json.dumps(list(bad.values())))


def selftest(ctx):
    import gp  # noqa: F401
    from guppylang_internals.diagnostic import Error
    from guppylang_internals.engine import DEF_STORE
    from guppylang_internals.span import Loc, Span

    # 1. the harness flags see what they claim to see
    ok_prog = {"id": 0, "src": "@guppy\ndef main(x: int) -> int:\n    return x + 'a'\n", "experimental": False}
    r = dl.run_program(ok_prog)
    e = r["traces"][-1][-1]
    if not (e["out"] == "reject" and e["located"] and e["rendered"]):
        raise lib.Machinery(f"selftest: a plain type error was not recorded as located+rendered: {r}")
    cls = type("Fake", (Error,), {"title": "t", "span_label": "l"})
    DEF_STORE.sources.add_file("<selftest>", "abc\n")
    for span, want in ((Span(Loc("<selftest>", 1, 0), Loc("<selftest>", 1, 2)), True),
                       (Span(Loc("<selftest>", 1, 0), Loc("<selftest>", 3, 0)), False),
                       (Span(Loc("<selftest>", 1, 1), Loc("<selftest>", 1, 9)), False),
                       (Span(Loc("<nowhere>", 1, 0), Loc("<nowhere>", 1, 1)), False)):
        got, _ = dl.located(cls(span), "<own>", [], DEF_STORE.sources)
        if got != want:
            raise lib.Machinery(f"selftest: located({span}) = {got}, expected {want}")
    got, _ = dl.located(cls(Span(Loc("<selftest>", 1, 0), Loc("<selftest>", 1, 1))), "<selftest>", [(5, 9)], DEF_STORE.sources)
    if got:
        raise lib.Machinery("selftest: span outside every decorated definition counted as located")
    ren, _, _ = dl.rendered(cls(Span(Loc("<nowhere>", 1, 0), Loc("<nowhere>", 1, 1))), DEF_STORE.sources)
    if ren:
        raise lib.Machinery("selftest: a renderer failure was recorded as rendered")
    # 2. the trace spec rejects every corruption of accepted lifecycles
    E = dl.ev
    good = [
        {"mode": "compile", "events": [E("parse", "ok"), E("check", "ok"), E("compile", "ok"), E("validate", "ok")]},
        {"mode": "compile", "events": [E("parse", "ok"), E("check", "reject", located=True, rendered=True, cls="GuppyError")]},
        {"mode": "compile", "events": [E("parse", "reject", located=True, rendered=True, cls="GuppyError")]},
        {"mode": "compile", "events": [E("parse", "ok"), E("check", "ok"), E("compile", "reject", located=True, rendered=True)]},
        {"mode": "check", "events": [E("parse", "ok"), E("check", "ok")]},
    ]
    corrupt = [
        ("span outside source", {"mode": "compile", "events": [E("parse", "ok"), E("check", "reject", located=False, rendered=True)]}),
        ("render crash", {"mode": "compile", "events": [E("parse", "ok"), E("check", "reject", located=True, rendered=False)]}),
        ("internal error", {"mode": "compile", "events": [E("parse", "ok"), E("check", "exc", cls="InternalGuppyError", site="x")]}),
        ("assertion in lowering", {"mode": "compile", "events": [E("parse", "ok"), E("check", "ok"), E("compile", "exc", cls="AssertionError")]}),
        ("invalid hugr", {"mode": "compile", "events": [E("parse", "ok"), E("check", "ok"), E("compile", "ok"), E("validate", "invalid")]}),
        ("reject after lowering", {"mode": "compile", "events": [E("parse", "ok"), E("check", "ok"), E("compile", "ok"),
                                                                E("validate", "reject", located=True, rendered=True)]}),
        ("stage skipped", {"mode": "compile", "events": [E("parse", "ok"), E("compile", "ok"), E("validate", "ok")]}),
        ("validate event dropped", {"mode": "compile", "events": [E("parse", "ok"), E("check", "ok"), E("compile", "ok")]}),
        ("hang", {"mode": "compile", "events": [E("parse", "ok"), E("check", "timeout", cls="Timeout")]}),
        ("event after rejection", {"mode": "compile", "events": [E("parse", "reject", located=True, rendered=True), E("check", "ok")]}),
        ("struct compiled", {"mode": "check", "events": [E("parse", "ok"), E("check", "ok"), E("compile", "ok")]}),
    ]
    traces = [dict(t, id=i) for i, t in enumerate(good + [c for _, c in corrupt])]
    bad = validate(ctx, traces)
    for i in range(len(good)):
        if i in bad:
            raise lib.Machinery(f"selftest: legal lifecycle {good[i]} rejected: {bad[i]}")
    for k, (name, _) in enumerate(corrupt):
        if len(good) + k not in bad:
            raise lib.Machinery(f"selftest: corrupted lifecycle ({name}) was accepted")
    print(f"selftest: {len(good)} legal lifecycles accepted, {len(corrupt)} corrupted ones rejected; harness flags verified")


if __name__ == "__main__":
    lib.main("C02", run, replay, selftest)
