"""C11 Compiling a definition does not depend on session history.

Decided by: spec/Engine.tla - state machine of the engine's session caches (reset / pre-parse /
worklist loop with parse + check / lowering worklist / trace / fail), with the invariants
NoStaleRead, CachesOfThisEpoch, OutputIndependent, OutcomeIndependent, LoweredOnlyNow model-checked by
TLC over all histories of public calls (check / compile_function / compile) on a pool of 19 entry
points (plain function, callers, failing type error and its caller, good and failing comptime
functions, a comptime expression that calls a Guppy function, recursive capturing closure, generic function used twice, monomorphised function used at
two instantiations, struct with method, overloaded function, nested loops, a loop whose long-named variables share block rows
with generated temporaries, a comptime function that pushes the session's %tmp counter past 10 and 100, comptime functions
interrupted by KeyboardInterrupt / SystemExit after tracing side-effecting ops, and a function with result() effects).
Binding (spec -> code): every history printed by TLC (exhaustive to length 2/3, simulated to length 12)
is executed in one forked interpreter session (harness/eng_engine.py); after every call the outcome
class and the projected engine state (ENGINE.parsed/checked/compiled key sets, worklists, DEF_STORE growth)
are compared with the spec's, and the canonicalised HUGR of every successful compile with the one a
fresh interpreter process produces for the same definition (OutputIndependent made concrete).
"""
import json
import os
import random

import lib


def histories_from(ctx, cfg, **kw):
    kw.setdefault("workers", 4)
    r = ctx.tlc("Engine", cfg, **kw)
    if not r.ok:
        raise lib.Machinery(f"Engine.tla ({cfg}): TLC reports an error (specification problem):\n{r.error}")
    return r, [p for p in r.printed if isinstance(p, list) and p and isinstance(p[0], dict) and "op" in p[0]]


def references(ops, procs):
    import eng_engine as E

    return E.references(ops, procs)


def compare(hists, obs, refs):
    """Yields mismatch records; counts evaluations."""
    import eng_engine as E

    bad, nsteps, ndigest = [], 0, 0
    seen = set()
    for h in hists:
        path = []
        for i, st in enumerate(h):
            path.append(E.label(st))
            key = tuple(path)
            if key in seen:
                continue
            seen.add(key)
            o = obs.get(key)
            if o is None or "machinery" in o:
                raise lib.Machinery(f"history {path}: no observation ({o})")
            nsteps += 1
            e, c = E.norm_expected(st), E.norm_observed(o)
            for fld in e:  # "outcome" first; one record per step (the first differing field)
                if e[fld] != c[fld]:
                    bad.append({"kind": "state" if fld != "outcome" else "outcome", "field": fld, "path": list(path),
                                "spec": e[fld], "code": c[fld]})
                    break
            if st["op"] != "check" and st["outcome"] == "ok" and o["outcome"] == "ok":
                ref = refs[("compile", st["d"])]
                ndigest += 1
                if o.get("digest") != ref.get("digest"):
                    bad.append({"kind": "hugr", "field": "digest", "path": list(path), "spec": ref.get("digest"),
                                "code": o.get("digest"), "n_nodes": [ref.get("n_nodes"), o.get("n_nodes")]})
    return bad, nsteps, ndigest


def key_of(m):
    last = m["path"][-1]
    if m["kind"] == "hugr":
        return f"hugr of {last.split(':', 1)[1]} differs from the fresh-session reference"
    if m["kind"] == "outcome":
        return f"outcome of {last.split(':', 1)[1]}: spec {m['spec']} code {m['code']}"
    if isinstance(m["code"], list):
        extra, missing = set(m["code"]) - set(m["spec"]), set(m["spec"]) - set(m["code"])
        how = "+".join(w for w, c in (("extra entries", extra), ("missing entries", missing)) if c) or "multiplicity"
    else:
        how = f"spec {m['spec']} code {m['code']}"
    return f"engine state after {last}: {m['field']} ({how})"


def report(ctx, bad):
    import eng_canon
    import eng_engine as E

    groups = {}
    for m in bad:
        groups.setdefault(key_of(m), []).append(m)
    for key, cases in sorted(groups.items()):
        m = min(cases, key=lambda c: (len(c["path"]), c["path"]))
        detail = ""
        if m["kind"] == "hugr":
            try:
                ref = E.reference("compile", m["path"][-1].split(":", 1)[1], want_text=True)
                got = E.session_text(m["path"])
                detail = " " + eng_canon.explain_diff(ref.get("text", ""), got.get("text", ""))
            except Exception as e:  # noqa: BLE001
                detail = f" (no diff available: {e})"
        ctx.violation(key, f"{len(cases)} history steps: {key}; shortest history {m['path']}: spec/reference {m['spec']} "
                      f"code {m['code']}.{detail}", {"history": m["path"], "mismatch": m})


def run(ctx):
    import eng_tree

    eng_tree.freeze_tree(ctx)
    import eng_engine as E
    import eng_pool

    ctx.level = "model_checking"
    procs = ctx.pick(12, 14)
    # 1. model + exhaustive histories
    cfg = ctx.pick("Engine.cfg", "Engine_thorough.cfg")
    r, hists = histories_from(ctx, cfg, coverage=ctx.quick, timeout=ctx.pick(900, 3000), heap="4g")
    if not ctx.quick:  # all length-2 histories over the full pool as well
        r2, h2 = histories_from(ctx, "Engine_full2.cfg", timeout=3000)
        hists = hists + h2
    else:  # every call of the full pool right after a compile interrupted by KeyboardInterrupt / SystemExit
        r2, h2 = histories_from(ctx, "Engine_intr.cfg", timeout=900)
        hists = hists + h2
    if ctx.quick:
        for act in ("Start", "PreParse", "LoopPop", "ParseDef", "CheckDef", "LoopDone", "CompileDef", "CompileDone"):
            if r.coverage.get(act, (0, 0))[1] == 0:
                raise lib.Machinery(f"vacuous model run: action {act} never taken ({r.coverage})")
        ctx.coverage["tlc_action_coverage"] = {k: list(v) for k, v in r.coverage.items()}
    nexh = len(hists)
    # 2. long random histories
    nsim = ctx.pick(8, 60)
    rs, sim = histories_from(ctx, "Engine_sim.cfg", simulate=f"num={nsim // 4 + 1}", depth=600, seed=ctx.seed + 1,
                             timeout=ctx.pick(900, 3000))
    eng_tree.count_sim_states(ctx, rs)
    uniq = sorted({json.dumps(h, sort_keys=True) for h in sim})
    random.Random(ctx.seed).shuffle(uniq)
    sim = [json.loads(s) for s in uniq[:nsim]]
    ctx.log(f"TLC: {nexh} exhaustive histories ({cfg}), {len(sim)} simulated histories of length 12")
    # 3. references: each compile as the only call of a fresh interpreter process
    used = {st["d"] for h in hists + sim for st in h if st["op"] != "check"}
    ops = [("compile", d) for d in eng_pool.ENTRIES if d in used]
    refs = references(ops, procs)
    single = {(h[0]["op"], h[0]["d"]): h[0] for h in hists + sim}
    for (op, d), ref in refs.items():
        st = single.get((op, d))
        if st is None:
            continue
        if E.norm_expected(st) != E.norm_observed(ref):
            ctx.violation(f"fresh process: {op}:{d} disagrees with the spec",
                          f"fresh interpreter {op}:{d}: spec {E.norm_expected(st)} code {E.norm_observed(ref)}",
                          {"history": [f"{op}:{d}"], "mismatch": {"kind": "fresh"}})
    ctx.log(f"references: {len(refs)} fresh-process compiles, "
            f"{sum(1 for r_ in refs.values() if r_['outcome'] == 'ok')} succeed")
    # 4. replay
    allh = hists + sim
    obs = E.run_histories(allh, ctx.workdir, procs)
    bad, nsteps, ndigest = compare(allh, obs, refs)
    ctx.log(f"replayed {len(allh)} histories = {nsteps} distinct session steps, {ndigest} HUGR comparisons, "
            f"{len(bad)} mismatching fields")
    report(ctx, bad)
    # vacuity / coverage numbers
    nontriv = sum(1 for h in allh if len({st["d"] for st in h}) >= 2)
    after_fail = sum(1 for h in allh for i, st in enumerate(h)
                     if i > 0 and st["outcome"] == "ok" and st["op"] != "check" and any(p["outcome"] != "ok" for p in h[:i]))
    repeated = sum(1 for h in allh for i, st in enumerate(h)
                   if st["op"] != "check" and any(p["d"] == st["d"] and p["op"] != "check" for p in h[:i]))
    leaks = sum(1 for o in obs.values() if o.get("state", {}).get("tracing_active"))
    intr = ("raised:KeyboardInterrupt", "raised:SystemExit")
    after_intr = sum(1 for h in allh for i, st in enumerate(h)
                     if i > 0 and st["outcome"] == "ok" and st["op"] != "check" and any(p["outcome"] in intr for p in h[:i])
                     and obs[tuple(E.label(x) for x in h[:i + 1])].get("outcome") == "ok")
    intr_defs = sorted({st["d"] for h in allh for i, st in enumerate(h)
                        if i > 0 and st["op"] != "check" and h[i - 1]["outcome"] in intr})
    if not (nontriv and after_fail and repeated and ndigest and after_intr):
        raise lib.Machinery(f"vacuous enumeration: nontrivial={nontriv} after_fail={after_fail} repeated={repeated} "
                            f"compiles_compared_after_an_interrupted_compile={after_intr}")
    missing = sorted(set(eng_pool.ENTRIES) - set(intr_defs))
    if missing:
        raise lib.Machinery(f"no history compiles {missing} right after an interrupted compile")
    ctx.coverage.update({
        "traces_validated_against_impl": len(allh),
        "evaluations": nsteps,
        "distinct_nontrivial": nontriv,
        "rule": "histories of public engine calls emitted by TLC from Engine.tla, each run in one forked interpreter "
                "session; evaluations = distinct (history prefix, call) steps compared; non-trivial = history over "
                ">= 2 different definitions",
        "samples": [[E.label(st) for st in h] for h in (allh[len(allh) // 3], allh[-1])],
        "exhaustive": True,
        "bounds": (f"all {nexh} histories: length 2 over 14 calls (7 core entry points x check/compile) + every one of the 38 "
                    f"calls of the full pool after compile:ct_intr (KeyboardInterrupt) and after compile:ct_exit (SystemExit)"
                   if ctx.quick else
                   f"all {nexh} histories: length 3 over 16 core calls (8 entry points x check/compile) + length 2 over all 40 calls (19 entry points "
                   f"x check/compile + compile() on 2)") + f"; plus {len(sim)} random histories of length 12 over all 40 "
                  f"calls (seed {ctx.seed + 1})",
        "hugr_comparisons_with_fresh_process_reference": ndigest,
        "successful_compiles_after_an_earlier_failure": after_fail,
        "recompiles_of_same_definition": repeated,
        "successful_compiles_compared_after_an_interrupted_compile": after_intr,
        "mismatching_fields": len(bad),
        "side_observation_tracing_state": {
            "session_steps_with_tracing_active_true_afterwards": leaks,
            "note": "number of session steps after which tracing_active() was still True (a failed trace used to leave "
                    "the tracing state set; its effect on later outcomes is what the ct_expr entry point detects)"},
    })
    ctx.assumptions += ["TLC", "canonicalisation (eng_canon.py): DFS renumbering of nodes, %tmpN / name.N renamed by first "
                        "occurrence, everything else compared verbatim", "fork() clones an interpreter session faithfully",
                        "emulate() is not exercised (selene cannot run this tree's HUGR); its compile step is defn.compile()"]


def replay(ctx, data):
    import eng_tree

    eng_tree.freeze_tree(ctx)
    import eng_canon
    import eng_engine as E

    path = data["replay"]["history"]
    print("history:", path)
    got = E.session_text(path)
    op, d = path[-1].split(":", 1)
    ref = E.reference(op, d, want_text=True)
    show = lambda r: {k: r[k] for k in ("outcome", "digest", "state") if k in r}  # noqa: E731
    print("last call at the end of the session:", show(got))
    print("same call alone in a fresh process: ", show(ref))
    if got["outcome"] != ref["outcome"]:
        ctx.violation(data.get("key", "replay"), f"outcome still differs: {got['outcome']} vs fresh {ref['outcome']}",
                      data["replay"])
    elif got.get("digest") != ref.get("digest"):
        print(eng_canon.explain_diff(ref.get("text", ""), got.get("text", "")))
        ctx.violation(data.get("key", "replay"), "HUGR still differs from the fresh-session one", data["replay"])
    else:
        print("outcome and canonical HUGR agree with the fresh session "
              "(engine-state expectations come from the spec: run the check to compare them)")


def selftest(ctx):
    import copy

    import eng_tree

    eng_tree.freeze_tree(ctx)
    import eng_engine as E
    import eng_session as S

    r, hists = histories_from(ctx, "Engine.cfg")
    rnd = random.Random(ctx.seed)
    rnd.shuffle(hists)
    some = [h for h in hists if h[0]["d"] != h[1]["d"]][:40] + [h for h in hists if h[1]["op"] != "check" and
                                                                h[1]["outcome"] == "ok"][:20]
    ops = sorted({("compile", st["d"]) for h in some for st in h})
    refs = references(ops, 6)
    obs = E.run_histories(some, ctx.workdir, 6)
    bad, nsteps, nd = compare(some, obs, refs)
    if bad:
        raise lib.Machinery(f"selftest: baseline histories already disagree: {bad[:2]}")
    # (a) corrupted expectations
    n = 0
    for h in some[:40]:
        for mut in ("outcome", "parsed", "compiled", "store"):
            c = copy.deepcopy(h)
            st = c[-1]
            if mut == "outcome":
                st["outcome"] = "ok" if st["outcome"] != "ok" else "rejected:Type mismatch"
            elif mut == "parsed":
                st["parsed"] = st["parsed"][1:] if st["parsed"] else ["plain"]
            elif mut == "compiled":
                st["compiled"] = st["compiled"] + ["plain"]
            else:
                st["store"] += 1
            n += 1
            b, _, _ = compare([c], obs, refs)
            if not b:
                raise lib.Machinery(f"selftest: corrupted expectation ({mut}) accepted: {c}")
    # (b) corrupted reference digest
    refs2 = {k: dict(v, digest="0" * 20) for k, v in refs.items()}
    b, _, _ = compare(some, obs, refs2)
    if nd and not any(m["kind"] == "hugr" for m in b):
        raise lib.Machinery("selftest: corrupted reference digests accepted")
    # (c) engine without reset(): caches survive into the next call
    from guppylang_internals.engine import CompilationEngine

    orig = CompilationEngine.reset
    CompilationEngine.reset = lambda self: None
    try:
        obs2 = E.run_histories(some[:30], ctx.workdir, 6)
    finally:
        CompilationEngine.reset = orig
    b, _, _ = compare(some[:30], obs2, refs)
    if not b:
        raise lib.Machinery("selftest: engine with reset() disabled not detected")
    ctx.log(f"selftest: {n} corrupted expectations and corrupted digests rejected; reset()-less engine detected "
            f"({len(b)} mismatching fields)")


if __name__ == "__main__":
    lib.main("C11", run, replay, selftest)
