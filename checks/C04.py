"""C04 Numeric operators compute Python's results.

Decided by: spec/NumOps.tla over spec/BitVec64.tla (Python's numeric semantics on 16-bit limbs:
two's-complement words, unbounded integers, exact dyadic floats).
 1. design level: spec/BitVecLaws.tla - the limb operators are model-checked exhaustively over all
    operand pairs at a small width against TLC's native integers and the algebraic laws of Python's
    integer semantics (a = (a//b)*b + a%b, sign of % follows the divisor, shifts, two's complement,
    nearest-even rounding ...); thorough tier also spec/NumOpsLaws.tla (laws relating the operators of
    NumOps!Expected that are computed by independent routes, over all nat/int type pairs).
 2. binding (code -> spec): one Guppy function per (operator | builtin, operand types, syntactic
    shape: operator, augmented assignment, literal operand on either side, builtin call, truthiness)
    is compiled ONCE from /repo and called on the reference interpreter on anchor x anchor operand
    sets plus seeded random operands; every call is an event validated by spec/NumOps_Trace.tla:
    result type and value must equal Wrap(PyOp(a, b)) whenever the property's side conditions hold.
 3. the spec is cross-checked against CPython on the very same events inside the same TLC run
    (num_values.py_expected); a disagreement is a machinery failure.
Floats: operands are dyadic rationals with small numerators; a result is required only when the exact
result is representable (decides operator selection, operand order and coercion direction, not
rounding); float ** only for small integral exponents; nan/inf/rounding are NOT covered.
"""
import json

import lib
import num_forms as nf
import num_trace as nt
import num_values as nv


def laws(ctx):
    """design-level TLC runs on the limb library (VERIF_NUM_NOLAWS=1 skips them: development aid for
    repeated runs against mutated trees; the evidence then says so)"""
    import os
    if os.environ.get("VERIF_NUM_NOLAWS"):
        return [{"skipped": "VERIF_NUM_NOLAWS"}]
    runs = [("BitVecLaws", "BitVecLawsQ.cfg")] if ctx.quick else [("BitVecLaws", "BitVecLawsD.cfg"), ("BitVecLaws", "BitVecLaws.cfg"),
                                                                   ("NumOpsLaws", "NumOpsLaws.cfg")]
    out = []
    for mod, cfg in runs:
        r = ctx.tlc(mod, cfg, env={"JAVA_TOOL_OPTIONS": "-Xmx8g -XX:+UseParallelGC -Xss64m"}, timeout=3000)
        if not r.ok:
            raise lib.Machinery(f"{cfg}: a law of the limb arithmetic is violated (specification error):\n{r.error}")
        out.append({"cfg": cfg, "states": r.distinct})
    return out


# which combinations must be accepted at all (the property quantifies over the combinations Guppy
# accepts; a combination of plain numeric operands that stops compiling would silently shrink it)
def must_accept(f: dict) -> bool:
    if f["style"] != "bin":
        return False
    num = {"nat", "int", "float"}
    if f["ta"] in num and f["tb"] in num:
        if f["op"] in ("<<", ">>", "&", "|", "^"):
            return "float" not in (f["ta"], f["tb"])
        return True
    return f["ta"] == "bool" and f["op"] in ("&", "|", "^", "==", "!=")


def case_of(forms, meta_i, exp):
    f = forms[meta_i["form"]]
    got = "panic: " + str(meta_i["msg"]) if meta_i["end"] == "panic" else f"{meta_i['rty']}:{meta_i['r']!r}"
    return {"form": f["key"], "src": nf.form_source(f, meta_i["rty"] if not f["rets"][0].startswith("tuple") else
                                                     f"tuple[{meta_i['rty']}, {meta_i['rty']}]"),
            "a": repr(meta_i["a"]), "b": repr(meta_i["b"]), "guppy": got, "python": nt.show_exp(exp)}


def failure_class(f, m) -> str:
    """operand class of a failing call (part of the violation key, so that a known defect on one class
    does not hide a new one on another)"""
    J = nv.op_type(f)
    if J == "float" or f["ta"] == "bool":
        return "any"
    a = nv.true_value(f["ta"], m["a"])
    b = nv.true_value(f["tb"], m["b"]) if m["b"] is not None else None
    if f["op"] in ("//", "%", "divmod0", "divmod1", "/"):
        return "negative-divisor" if b < 0 else "nonnegative-divisor"
    if f["op"] in (">>", "<<"):
        return "negative-lhs" if a < 0 else "nonnegative-lhs"
    if m["end"] == "panic":
        return "panic"
    return "any"


def analyse(ctx, forms, results, what="C04"):
    """trace-validate the results; -> (violations {key: [cases]}, stats)"""
    trace, meta, problems = nt.build_trace(forms, results)
    if problems:
        raise lib.Machinery(f"{len(problems)} events could not be produced/evaluated, e.g. {problems[:3]}")
    bad, orc, nok, nskip = nt.validate(ctx, trace)
    if orc:
        i, exp = orc[0]
        raise lib.Machinery(f"spec and CPython disagree on {len(orc)} events, e.g. {forms[meta[i]['form']]['key']} "
                            f"a={meta[i]['a']!r} b={meta[i]['b']!r}: spec {nt.show_exp(exp)} vs CPython {meta[i]['py']}")
    viol = {}
    for i, exp in bad:
        f = forms[meta[i]["form"]]
        viol.setdefault(f"{nt.method_of(f)}:{failure_class(f, meta[i])}", []).append(case_of(forms, meta[i], exp))
    return viol, {"events": len(meta), "required": nok, "not_required": nskip, "mismatches": len(bad)}, trace, meta


def run(ctx):
    ctx.level = "model_checking"
    law_runs = laws(ctx)
    forms = nf.build_forms(ctx.tier)
    results = nt.execute(forms, ctx.tier, ctx.seed)
    ok = [r for r in results if r["status"] == "ok"]
    for r in results:
        f = forms[r["idx"]]
        if r["status"] == "crash":
            ctx.violation(f"crash:{f['key']}", f"compiling `{f['expr']}` ({f['key']}) crashed: {r['error']}",
                          {"src": nf.form_source(f, f['rets'][0])})
        elif r["status"] == "rejected" and must_accept(f):
            ctx.violation(f"rejected:{f['key']}", f"`{f['expr']}` with operands {f['ta']}, {f['tb']} is rejected ({r['error']})",
                          {"src": nf.form_source(f, f['rets'][0])})
    # compiled functions whose HUGR the validator rejects cannot run on any real backend
    invalid = {}
    for r in ok:
        if r.get("valid") is not True:
            f = forms[r["idx"]]
            invalid.setdefault(nt.method_of(f), []).append({"form": f["key"], "src": nf.form_source(f, r["ret"]),
                                                            "validator": r["valid"]})
    for k, cases in invalid.items():
        ctx.violation(f"invalid-hugr:{k}", f"{k}: the compiled operator is not valid HUGR ({len(cases)} forms), "
                      f"e.g. {cases[0]['form']}: {cases[0]['validator'][:300]}", {"cases": cases[:10]})
    viol, stats, trace, meta = analyse(ctx, forms, results)
    for k, cases in sorted(viol.items()):
        ctx.violation(f"value:{k}", f"{k}: {len(cases)} calls differ from Python, e.g. {json.dumps(cases[0])}",
                      {"cases": cases[:25], "count": len(cases)})
    nontrivial = len({(m["form"], repr(m["a"]), repr(m["b"])) for m in meta if m["py"][0]})
    ctx.coverage.update({
        "traces_validated_against_impl": stats["events"],
        "evaluations": stats["events"],
        "distinct_nontrivial": nontrivial,
        "rule": "one event per call of a compiled Guppy function (form x operand tuple); non-trivial = distinct "
                "(form, operands) whose result is required by the property's side conditions (spec and CPython agree "
                "on definedness)",
        "required_events": stats["required"], "not_required_events": stats["not_required"],
        "mismatches": stats["mismatches"],
        "candidate_forms": len(forms), "accepted_forms": len(ok),
        "forms_by_style": {s: sum(1 for r in ok if forms[r["idx"]]["style"] == s) for s in sorted({f["style"] for f in forms})},
        "law_runs": law_runs,
        "samples": [{"form": forms[m["form"]]["key"], "a": repr(m["a"]), "b": repr(m["b"]), "r": repr(m["r"])}
                    for m in (meta[:: max(1, len(meta) // 5)][:5])],
        "exhaustive": False,
        "floats": "partial: dyadic operands, results required only when exactly representable; "
                  "rounding, nan/inf, float ** with non-integral exponents not covered",
    })
    ctx.assumptions += ["TLC", "reference HUGR interpreter (semantics of arithmetic.int/float/conversions ops from the "
                        "hugr extension documentation)", "CPython as cross-check of the spec",
                        "mixed nat/int operands >= 2^63 are outside the statement for non-ring operations (C16: the "
                        "implicit nat->int coercion is only promised to preserve representable values)"]


def replay(ctx, data):
    for c in data["replay"].get("cases", []):
        if "a" not in c:
            print(c)
            continue
        a, b = eval(c["a"]), eval(c["b"])
        print(c["form"], "a =", a, "b =", b, "| code:", nt.replay_case(c["src"], a, b, c["form"].startswith("lit_l")),
              "| spec (Python):", c["python"])


def selftest(ctx):
    """corrupt recorded results / drop the definedness of the oracle and require rejection"""
    forms = [f for f in nf.build_forms() if f["style"] in ("bin", "un") and f["op"] in ("+", "*", "<", "neg", "float", "&")
             and "bool" not in (f["ta"], f["tb"])]
    for i, f in enumerate(forms):
        f["idx"] = i
    results = nt.execute(forms, "quick", ctx.seed, validate=False)
    trace, meta, problems = nt.build_trace(forms, results)
    if problems:
        raise lib.Machinery(str(problems[:3]))
    base_bad, orc, nok, _ = nt.validate(ctx, trace, "self0.json")
    if orc or base_bad:
        raise lib.Machinery(f"selftest baseline not clean: {len(base_bad)} bad, {len(orc)} oracle mismatches")
    req = [i for i, m in enumerate(meta) if m["py"][0]]
    import copy
    t2 = copy.deepcopy(trace)
    picks = {}
    # 1: flip one bit of a recorded integer result, 2: change a recorded result type, 3: turn a return into a panic,
    # 4: corrupt a float result, 5: corrupt the oracle (must be reported as oracle mismatch, not as violation)
    for i in req:
        m = meta[i]
        if m["rty"] in ("int", "nat") and "bit" not in picks:
            t2["events"][i]["r"][0] ^= 1
            picks["bit"] = i
        elif m["rty"] == "int" and "type" not in picks and i != picks.get("bit"):
            t2["events"][i]["tr"] = "nat"
            picks["type"] = i
        elif m["rty"] == "bool" and "panic" not in picks:
            t2["events"][i]["end"] = "panic"
            picks["panic"] = i
        elif m["rty"] == "float" and "float" not in picks and m["r"] != 0:
            t2["events"][i]["r"][5] += 1  # exponent
            picks["float"] = i
        elif m["rty"] in ("int", "nat") and "oracle" not in picks and i not in picks.values():
            t2["events"][i]["pv"][1] ^= 4
            picks["oracle"] = i
    if len(picks) != 5:
        raise lib.Machinery(f"selftest could not place all corruptions: {picks}")
    bad, orc, _, _ = nt.validate(ctx, t2, "self1.json")
    badi = {i for i, _ in bad}
    for k in ("bit", "type", "panic", "float"):
        if picks[k] not in badi:
            raise lib.Machinery(f"selftest: corrupted event ({k}) {picks[k]} was accepted")
    if badi - set(picks.values()):
        raise lib.Machinery("selftest: uncorrupted events rejected")
    if {i for i, _ in orc} != {picks["oracle"]}:
        raise lib.Machinery("selftest: corrupted oracle value not reported as spec/CPython disagreement")
    # a wrong expected verdict: dropping an event must be noticed by the accounting
    t3 = copy.deepcopy(trace)
    t3["events"] = t3["events"][:-1]
    _, _, nok3, nskip3 = nt.validate(ctx, t3, "self2.json")
    if nok3 + nskip3 != len(trace["events"]) - 1:
        raise lib.Machinery("selftest: event accounting wrong")


if __name__ == "__main__":
    lib.main("C04", run, replay, selftest)
