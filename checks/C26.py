"""C26 Loaded pytket circuits act like the circuit.

Decided by: spec/Pytket.tla (reusing the exact gate semantics of spec/QuantumDefs.tla): the
action of a loaded circuit on the CALLER's qubits with registers and symbolic parameters
matched lexicographically, one bool per classical bit in lexicographic order, and which stub
signatures / array call shapes fit.  Binding (spec -> code): TLC enumerates circuits over
register layouts whose creation order differs from their lexicographic order (and evaluates
longer circuits sampled from ctx.seed over the same operations), printing expected bools and
exact final state for every measurement branch; each circuit is built with pytket in creation
order, loaded with guppy.load_pytket (flat and arrays) and @guppy.pytket, compiled by /repo,
run on the reference interpreter on pairwise distinguishable qubits with the outcomes forced,
and compared.  TLC's accept/reject verdicts for candidate signatures are compared with
check() of the real stubs / calls.
"""
import copy
import json
import os
import random

import lib
import pool
import q_circ
import q_pytket

WAYS = ("flat", "stub", "arr")


def op_text(op):
    a = ",".join(f"{x[0]}:{x[1]}" for x in op["a"])
    extra = f"->bit{op['bit']}" if op["g"] == "measure" else ""
    out = f"={op['b']}" if op["b"] in (0, 1) else ""
    return f"{op['g']}({a + ';' if a else ''}{','.join(map(str, op['qs']))}){extra}{out}"


def circ_text(shape, ops):
    regs = ",".join(f"{n}[{s}]" for n, s in shape["q"]) + "|" + ",".join(f"{n}[{s}]" for n, s in shape["c"])
    return f"{regs}: " + " ".join(op_text(o) for o in ops)


def parse(r):
    meta, cases, stubs = None, [], []
    for p in r.printed:
        if "prep" in p and "shapes" in p:
            meta = p
        elif "stubs" in p:
            stubs.append(p)
        elif "ops" in p and "st" in p:
            cases.append(p)
    if meta is None:
        raise lib.Machinery("Pytket.tla did not print its shapes:\n" + r.out[-1500:])
    shapes = [{"q": s["q"], "c": s["c"]} for s in meta["shapes"]]
    return meta["prep"], shapes, cases, stubs


def lex_pos(regs, c):
    us = q_pytket.units(regs)
    return sorted(us).index(us[c])


def forced(shape, ops):
    per = {}
    for op in ops:
        if op["g"] in ("measure", "reset"):
            per.setdefault(lex_pos(shape["q"], op["qs"][0]), []).append(op["b"])
    return per


def tlc_enum(ctx, cfg):
    empty = os.path.join(ctx.workdir, "empty.json")
    json.dump([], open(empty, "w"))
    r = ctx.tlc("Pytket", cfg, env={"VERIF_CASES": empty}, timeout=ctx.pick(900, 3000))
    if not r.ok:
        raise lib.Machinery(f"Pytket/{cfg} failed:\n{r.error}")
    return parse(r)


def tlc_perm(ctx):
    """the parameter-binding family of Pytket.tla (mode "perm") with TLC's expectations"""
    empty = os.path.join(ctx.workdir, "empty_perm.json")
    json.dump([], open(empty, "w"))
    r = ctx.tlc("Pytket", "Pytket_perm.cfg", env={"VERIF_CASES": empty}, timeout=ctx.pick(900, 3000))
    if not r.ok:
        raise lib.Machinery("Pytket/perm failed:\n" + r.error)
    fam = next((p["family"] for p in r.printed if "family" in p), None)
    _, _, out, _ = parse(r)
    if fam is None or sorted(c["cid"] for c in out) != list(range(1, len(fam) + 1)):
        raise lib.Machinery(f"Pytket/perm: family of {fam and len(fam)} cases, {len(out)} expectations")
    info = {f["cid"]: f for f in fam}
    for c in out:
        f = info[c["cid"]]
        c["label"] = f"perm:{'>'.join(f['occ'])}:{f['layout']}"
        c["occ"], c["noninvolutive"] = f["occ"], f["noninvolutive"]
    # vacuity (also an ASSUME of the spec): every order of 3 symbols, non-involutive orders for 3 and 4
    occ3 = {tuple(c["occ"]) for c in out if len(c["occ"]) == 3}
    if len(occ3) != 6 or not any(c["noninvolutive"] and len(c["occ"]) == n for n in (3, 4) for c in out) \
            or not all(any(c["noninvolutive"] and len(c["occ"]) == n for c in out) for n in (3, 4)):
        raise lib.Machinery("Pytket/perm: the family does not contain the discriminating occurrence orders")
    return out


def non_involutive(order):
    """is position j |-> lexicographic rank of order[j] a permutation that is not its own inverse?"""
    rank = [sorted(order).index(x) for x in order]
    return any(rank[rank[j]] != j for j in range(len(order)))


def tlc_cases(ctx, cases):
    path = os.path.join(ctx.workdir, f"pk_cases_{len(os.listdir(ctx.workdir))}.json")
    json.dump(cases, open(path, "w"))
    r = ctx.tlc("Pytket", "Pytket_cases.cfg", env={"VERIF_CASES": path}, timeout=ctx.pick(900, 3000))
    if not r.ok:
        raise lib.Machinery("Pytket/cases failed:\n" + r.error)
    _, _, out, _ = parse(r)
    if {c["cid"] for c in out} != set(range(1, len(cases) + 1)):
        raise lib.Machinery("Pytket/cases: some sampled circuit has no expectation")
    return out


def execute(ctx, prep, shapes, cases, validate_every=10):
    jobs = []
    for i, c in enumerate(cases):
        sh = shapes[c["shape"] - 1]
        jobs.append({"key": f"k{i}", "shape": sh, "ops": c["ops"], "nparams": len(c["params"]), "prep": prep,
                     "want_param_order": "label" in c,
                     "force": forced(sh, c["ops"]),
                     # symbolic circuits do not validate with the installed tket (its circuit takes
                     # `rotation` parameters, /repo passes float half-turns): dependency mismatch
                     "validate": (i % validate_every == 0 or not ctx.quick) and not c["params"]})
    res = pool.map_jobs(q_pytket.run_case, jobs, chunksize=2)
    for r in res:
        if r["status"] == "machinery":
            raise lib.Machinery(f"harness failure: {r['error']}")
    return res


def judge(case, res):
    """-> list of (way, reason)"""
    bad = []
    if res["status"] != "ok":
        return [("load", f"defining the loaded functions failed: {res.get('error')}")]
    exp = q_circ.state_to_complex(case["st"])
    for way in WAYS:
        w = res["ways"].get(way)
        if w is None:
            bad.append((way, "not run"))
            continue
        if w["end"] in ("unsupported", "budget"):
            raise lib.Machinery(f"interpreter {w['end']}: {w.get('msg')}")
        if w["end"] == "interp_error":
            if "impossible outcome" in (w.get("msg") or ""):
                bad.append((way, f"a measurement outcome the spec allows has probability 0 in the executed program ({w['msg']})"))
                continue
            raise lib.Machinery(f"interpreter error: {w.get('msg')}")
        if w["end"] != "return":
            bad.append((way, f"caller {w['end']}: {w.get('error')}"))
            continue
        if w.get("valid") is False:
            bad.append((way, f"compiled HUGR is invalid: {w.get('invalid_msg')}"))
            continue
        if w.get("unforced_measurements") or w.get("leftover_forced"):
            bad.append((way, f"measurements hit other qubits than the circuit's: {w['unforced_measurements']} unexpected, "
                             f"{w['leftover_forced']} expected ones missing"))
            continue
        if [None if b is None else int(b) for b in w["bools"]] != list(case["bools"]):
            bad.append((way, f"returned bools {w['bools']} but the circuit's bits in lexicographic order are {case['bools']}"))
            continue
        if w["state"] is None:
            bad.append((way, "no pure state reported for the caller's qubits"))
            continue
        ok, d = q_circ.proportional(exp, [complex(*x) for x in w["state"]])
        if not ok:
            bad.append((way, f"caller's qubits end in a different state than the circuit prescribes (distance {d:.3g})"))
    return bad


def check_circuits(ctx, prep, shapes, cases, viol, stats):
    res = execute(ctx, prep, shapes, cases)
    for c, r in zip(cases, res):
        sh = shapes[c["shape"] - 1]
        stats["evaluations"] += 3
        stats["circuits"] += 1
        for way, why in judge(c, r):
            cat = "prep" if not c["ops"] else c["ops"][0]["g"] if len(c["ops"]) == 1 else "multi"
            key = f"shape{c['shape']}/{way}/{cat}" + (f"/sym{len(c['params'])}" if c["params"] else "")
            if "label" in c:
                key = f"shape{c['shape']}/{way}/{c['label']}"
            viol.setdefault(key, []).append(
                (f"{circ_text(sh, c['ops'])} via {way}: {why}",
                 {"shape": sh, "shape_id": c["shape"], "ops": c["ops"], "params": c["params"],
                  "bools": c["bools"], "st": c["st"], "way": way, "why": why, "prep": prep}))
    return res


def check_sigs(ctx, shapes, stubs, viol, stats):
    jobs = []
    for i, s in enumerate(stubs):
        jobs.append({"key": f"s{i}", "shape": shapes[s["stubs"] - 1], "syms": sorted(s["syms"]),
                     "cands": [c["c"] for c in s["cands"]], "calls": [c["sizes"] for c in s["calls"]]})
    res = pool.map_jobs(q_pytket.run_sigs, jobs, chunksize=1)
    for s, job, r in zip(stubs, jobs, res):
        if r["status"] != "ok":
            raise lib.Machinery(f"harness failure: {r.get('error')}")
        sh = shapes[s["stubs"] - 1]
        for kind, cands, got in (("stub", s["cands"], r["cands"]), ("array-call", s["calls"], r["calls"])):
            for c, g in zip(cands, got):
                stats["evaluations"] += 1
                stats["signatures"] += 1
                if c["accept"]:
                    stats["sig_accept"] += 1
                desc = c["c"] if kind == "stub" else c["sizes"]
                if g["accept"] is None:
                    why = f"crashed instead of accept/reject: {g['error']}"
                elif g["accept"] != c["accept"]:
                    why = ("rejected although it matches the circuit: " + str(g.get("error"))) if c["accept"] else \
                        "accepted although it does not match the circuit's shape"
                else:
                    continue
                key = f"signature/{kind}/shape{s['stubs']}/np{len(s['syms'])}/" + json.dumps(desc, sort_keys=True)
                viol.setdefault(key, []).append(
                    (f"{kind} {desc} for circuit {circ_text(sh, [])} with symbols {sorted(s['syms'])} "
                     f"(signature {s['sig']}): {why}",
                     {"sig": True, "shape": sh, "syms": sorted(s["syms"]), "kind": kind, "cand": desc,
                      "expected_accept": c["accept"]}))


def sample(rng, shapes, alphabet, n, maxlen):
    out = []
    for _ in range(n):
        s = rng.randrange(len(shapes))
        ops = [copy.deepcopy(rng.choice(alphabet[s])) for _ in range(rng.randint(2, maxlen))]
        for o in ops:
            if o["g"] in ("measure", "reset"):
                o["b"] = -1
        out.append({"shape": s + 1, "ops": ops})
    return out


def probes(shapes):
    """two-symbol circuits on every layout, symbols first used in both orders and on different qubits"""
    out = []
    g = lambda name, q, kind, s: {"g": name, "qs": [q], "a": [[kind, s]], "bit": -1, "b": -1}
    for i, sh in enumerate(shapes):
        n = sum(size for _, size in sh["q"])
        for first, second in (("y", "x"), ("x", "y")):
            out.append({"shape": i + 1, "ops": [g("rz", 0, "sym", first), g("rx", n - 1, "sym", second)]})
            out.append({"shape": i + 1, "ops": [g("ry", n - 1, "sym2", first), g("rz", 0, "symp", second),
                                                g("rx", 0, "sym", first)]})
    return out


def warm_up():
    """import pytket / sympy / tket once in the parent so that the forked workers inherit them"""
    sh = {"q": [["q", 1]], "c": []}
    q_pytket.run_case({"key": "warm", "shape": sh, "ops": [{"g": "h", "qs": [0], "a": [], "bit": -1, "b": -1}],
                       "nparams": 0, "prep": [], "force": {}, "validate": False})


def run(ctx):
    ctx.level = "model_checking"
    warm_up()
    viol, stats = {}, {"evaluations": 0, "circuits": 0, "signatures": 0, "sig_accept": 0}
    prep, shapes, cases, stubs = tlc_enum(ctx, ctx.pick("Pytket.cfg", "Pytket.cfg"))
    ctx.log(f"TLC enumerated {len(cases)} circuits, {len(stubs)} signature reports")
    if len(stubs) != 3 * len(shapes) or not cases:
        raise lib.Machinery(f"Pytket enum incomplete: {len(cases)} circuits, {len(stubs)} signature reports")
    if ctx.quick:
        # every layout x gate x qubit assignment, measurements with both outcomes; of the 8 angle
        # variants of a rotation one (crz: two) per assignment, cycling through the variants
        rng0 = random.Random(ctx.seed + 26)
        groups = {}
        for c in cases:
            o = c["ops"][0] if c["ops"] else None
            k = (c["shape"],) if o is None else (c["shape"], o["g"], tuple(o["qs"]), o["bit"], o["b"])
            groups.setdefault(k, []).append(c)
        keep, n = [], rng0.randrange(8)
        for k in sorted(groups):
            g = sorted(groups[k], key=lambda c: json.dumps(c["ops"], sort_keys=True))
            if len(g) == 1:
                keep += g
            else:
                for _ in range(2 if k[1] == "crz" else 1):
                    keep.append(g[n % len(g)])
                    n += 3
    else:
        keep = cases
    # longer circuits sampled over the enumerated operations, expectation from TLC; TLC evaluates
    # them (a subprocess) while the enumerated circuits are replayed
    alphabet = [[] for _ in shapes]
    for c in cases:
        if len(c["ops"]) == 1:
            alphabet[c["shape"] - 1].append(c["ops"][0])
    rng = random.Random(ctx.seed * 104729 + 26)
    sampled = probes(shapes) + sample(rng, shapes, alphabet, ctx.pick(80, 2500), ctx.pick(4, 4))
    box = {}

    def evaluate():
        try:
            box["expect"] = tlc_cases(ctx, sampled)
        except BaseException as e:  # noqa: BLE001
            box["error"] = e

    def evaluate_perm():
        try:
            box["perm"] = tlc_perm(ctx)
        except BaseException as e:  # noqa: BLE001
            box["error"] = e

    # (the worker pool is forked by this first map_jobs call, before the thread exists)
    check_sigs(ctx, shapes, stubs, viol, stats)
    ctx.log(f"signatures checked: {stats['signatures']}")
    # (no threads next to the fork pool: a worker forked while another thread holds a lock can deadlock)
    evaluate()
    evaluate_perm()
    check_circuits(ctx, prep, shapes, keep, viol, stats)
    ctx.log(f"enumerated circuits: {len(keep)} of {len(cases)} replayed, findings {len(viol)}")
    if "error" in box:
        raise box["error"]
    expect = box["expect"]
    ctx.log(f"TLC evaluated {len(sampled)} sampled circuits: {len(expect)} branches")
    # one measurement branch per sampled circuit (chosen by the seed), all branches in thorough
    by_cid = {}
    for e in expect:
        by_cid.setdefault(e["cid"], []).append(e)
    chosen = []
    for cid in sorted(by_cid):
        br = sorted(by_cid[cid], key=lambda e: json.dumps(e["ops"], sort_keys=True))
        chosen += br if not ctx.quick else [rng.choice(br)]
    check_circuits(ctx, prep, shapes, chosen, viol, stats)
    # parameter binding: >= 3 symbols first occurring in every order
    perm = box["perm"]
    pres = check_circuits(ctx, prep, shapes, perm, viol, stats)
    orders = [r.get("param_order") for r in pres]
    if any(o is None or sorted(o) != sorted(c["params"]) for o, c in zip(orders, perm)):
        raise lib.Machinery(f"TKET1.input_parameters missing or not the circuit's symbols: {orders[:3]}")
    real_noninv = {n: sum(1 for o in orders if len(o) == n and non_involutive(o)) for n in (3, 4)}
    if not all(real_noninv.values()):
        raise lib.Machinery("parameter-binding family is vacuous with the installed tket: no circuit whose "
                            f"TKET1.input_parameters order is a non-involutive permutation ({real_noninv})")
    ctx.log(f"parameter-binding family: {len(perm)} circuits, findings {len(viol)}")
    for n, (k, lst) in enumerate(sorted(viol.items())):
        if n >= 60:
            break
        ctx.violation(k, f"{k}: {len(lst)} case(s), e.g. {lst[0][0]}", {"cases": [r for _, r in lst[:10]]})
    asym = sum(1 for c in keep + chosen if c["ops"] and c["shape"] in (1, 3, 7))
    ctx.coverage.update({
        "traces_validated_against_impl": stats["circuits"],
        "evaluations": stats["evaluations"],
        "distinct_nontrivial": asym + sum(1 for c in chosen if c["params"]),
        "rule": "one evaluation = one (circuit, loading way) compiled by /repo, executed and compared with TLC's "
                "bools and exact state, or one candidate signature checked; non-trivial = circuit on a register "
                "layout whose creation order differs from lexicographic order, or with symbolic parameters",
        "circuits": stats["circuits"], "ways": list(WAYS),
        "enumerated_depth1": len(cases), "sampled_longer": len(sampled), "sampled_branches_run": len(chosen),
        "with_symbols": sum(1 for c in keep + chosen if c["params"]),
        "with_two_symbols": sum(1 for c in keep + chosen if len(c["params"]) == 2),
        "perm_family": len(perm), "perm_family_noninvolutive_spec": sum(1 for c in perm if c["noninvolutive"]),
        "perm_family_noninvolutive_in_tket_metadata": real_noninv,
        "perm_family_distinct_metadata_orders": len({tuple(o) for o in orders}),
        "with_measure": sum(1 for c in keep + chosen if any(o["g"] == "measure" for o in c["ops"])),
        "signatures_checked": stats["signatures"], "signatures_expected_accept": stats["sig_accept"],
        "shapes": [circ_text(s, []) for s in shapes],
        "samples": [{"circuit": circ_text(shapes[c["shape"] - 1], c["ops"]), "params": c["params"],
                     "bools": c["bools"]} for c in chosen[:3] + keep[5:7]],
        "exhaustive": False,
        "mismatch_keys": len(viol),
    })
    ctx.assumptions += [
        "TLC", "reference HUGR interpreter and its tket.quantum op table (as C20)", "compat shim incl. tket.circuit.Tk2Circuit",
        "pytket 2.x: Circuit.qubits/bits/q_registers sort lexicographically; gate definitions of H..CCX/Rx/Ry/Rz/CRz",
        "hugr validation skipped for circuits with symbolic parameters (installed tket emits `rotation`-typed "
        "parameters, /repo passes float half-turns: dependency mismatch, the interpreter treats both as half-turns)",
        "gates outside the interpreter's table (CH, ZZMax, ZZPhase, PhasedX -> tket.qsystem.helios / TKET1.tk1op) not generated",
    ]


def replay(ctx, data):
    for c in data["replay"]["cases"]:
        if c.get("sig"):
            job = {"key": "r", "shape": c["shape"], "syms": c["syms"],
                   "cands": [c["cand"]] if c["kind"] == "stub" else [],
                   "calls": [c["cand"]] if c["kind"] != "stub" else []}
            print(c["kind"], c["cand"], "spec accept:", c["expected_accept"], "code:", q_pytket.run_sigs(job))
            continue
        job = {"key": "r", "shape": c["shape"], "ops": c["ops"], "nparams": len(c["params"]),
               "prep": c.get("prep") or tlc_enum(ctx, "Pytket_self.cfg")[0], "force": forced(c["shape"], c["ops"]), "validate": False}
        r = q_pytket.run_case(job)
        print(circ_text(c["shape"], c["ops"]), "recorded:", c["way"], c["why"])
        print(r.get("src"))
        print("spec bools", c["bools"], "state", [complex(round(x.real, 5), round(x.imag, 5)) for x in q_circ.state_to_complex(c["st"])])
        for way, w in r["ways"].items():
            print(way, w["end"], w.get("bools"), w.get("state"))
        print("verdict now:", judge(c, r))


def selftest(ctx):
    ctx.tier = "quick"
    warm_up()
    prep, shapes, cases, stubs = tlc_enum(ctx, "Pytket_self.cfg")
    pick = {}
    for c in cases:
        if c["shape"] == 1 and len(c["ops"]) == 1:
            o = c["ops"][0]
            k = o["g"] + ("/sym" if c["params"] else "")
            if o["g"] == "measure" and o["b"] == 0:
                continue
            pick.setdefault(k, c)
    sel = [pick[k] for k in sorted(pick)]
    res = execute(ctx, prep, shapes, sel)
    for c, r in zip(sel, res):
        b = judge(c, r)
        if b:
            raise lib.Machinery(f"selftest: genuine circuit flagged: {circ_text(shapes[0], c['ops'])}: {b}")
    # the same expectations against programs that differ in one wiring detail must be rejected
    sh = shapes[0]  # b[2], a[1] | z[1], m[1]
    n_rej = 0
    for c in sel:
        o = c["ops"][0]
        m = copy.deepcopy(c)
        mo = m["ops"][0]
        if o["g"] == "measure":
            mo["bit"] = 1 - o["bit"]            # writes the other classical bit
        elif o["g"] == "reset":
            mo["qs"] = [(o["qs"][0] + 1) % 3]
        elif len(o["qs"]) >= 2:
            mo["qs"] = o["qs"][1:] + o["qs"][:1] if o["g"] != "cz" else [o["qs"][0], 3 - sum(o["qs"])]
        else:
            mo["qs"] = [(o["qs"][0] + 1) % 3]   # acts on another circuit qubit (= register order mistaken)
        r = q_pytket.run_case({"key": "m", "shape": sh, "ops": m["ops"], "nparams": len(c["params"]), "prep": prep,
                               "force": forced(sh, m["ops"]), "validate": False})
        if not judge(c, r):
            raise lib.Machinery(f"selftest: program for {circ_text(sh, m['ops'])} accepted against the expectation "
                                f"for {circ_text(sh, c['ops'])}")
        n_rej += 1
    # parameter order: a two-symbol circuit run with the caller's angles swapped
    two = {"shape": 1, "ops": [{"g": "rz", "qs": [0], "a": [["sym", "y"]], "bit": -1, "b": -1},
                               {"g": "rx", "qs": [2], "a": [["sym", "x"]], "bit": -1, "b": -1}]}
    e = tlc_cases(ctx, [two])[0]
    r = execute(ctx, prep, shapes, [e])[0]
    if judge(e, r):
        raise lib.Machinery(f"selftest: genuine two-symbol circuit flagged: {judge(e, r)}")
    swapped = copy.deepcopy(e)
    swapped["ops"][0]["a"], swapped["ops"][1]["a"] = [["sym", "x"]], [["sym", "y"]]
    r = q_pytket.run_case({"key": "m2", "shape": sh, "ops": swapped["ops"], "nparams": 2, "prep": prep,
                           "force": {}, "validate": False})
    if not judge(e, r):
        raise lib.Machinery("selftest: swapped parameter binding accepted")
    # corrupted expectation: bools flipped
    m = next(c for c in sel if c["ops"][0]["g"] == "measure")
    r = execute(ctx, prep, shapes, [m])[0]
    m2 = copy.deepcopy(m)
    m2["bools"] = [1 - b for b in m["bools"]]
    if not judge(m2, r):
        raise lib.Machinery("selftest: flipped expected bools accepted")
    # signatures: flipped verdicts are noticed
    viol, stats = {}, {"evaluations": 0, "signatures": 0, "sig_accept": 0}
    s2 = copy.deepcopy(stubs[:2])
    check_sigs(ctx, shapes, s2, viol, stats)
    if viol:
        raise lib.Machinery(f"selftest: genuine signature verdicts disagree: {list(viol)[:3]}")
    for s in s2:
        s["cands"][0]["accept"] = not s["cands"][0]["accept"]
        s["calls"][0]["accept"] = not s["calls"][0]["accept"]
    check_sigs(ctx, shapes, s2, viol, stats)
    if len(viol) != 4:
        raise lib.Machinery(f"selftest: flipped signature verdicts not all noticed: {list(viol)}")


if __name__ == "__main__":
    lib.main("C26", run, replay, selftest)
