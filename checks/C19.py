"""C19 Array access is bounds-safe and alias-free.

Decided by: spec/Arrays.tla - cells in {Val(v), Borrowed}; get/set/aug/swap on copyable
elements, project_z/x/mem_swap/cx on qubit elements as lend = borrow..apply..return step
sequences; observers unpack (plain + three starred shapes), iteration, comprehension,
copy(), static subscripts.  TLC checks the frame / panic-iff-bad-index-or-double-lend /
order laws on the model and enumerates (or simulates) operation scripts with RUNTIME
indices in -2..n+1, printing for each script the exact event stream the program must
produce (values, `panic`, and the contents of all cells reported by the observer).

Binding (spec -> code): every script is replayed on a driver function over
`array[int, n]` / `array[qubit, n]` compiled from /repo and executed on the reference
interpreter; the observed event stream must equal the one TLC printed.
"""
import collections
import json
import random

import lib
import coll_arrays as ca

CHUNK = 300


def gen_scripts(ctx, cfg, simulate=None, seed=None):
    kw = {}
    if simulate is not None:
        kw = dict(simulate=f"num={simulate}", depth=400, seed=seed, workers=1)
    r = ctx.tlc("Arrays", cfg, timeout=3000, **kw)
    if r.error:
        raise lib.Machinery(f"script generation {cfg} failed:\n{r.error}")
    seen, out = set(), []
    for p in r.printed:
        if isinstance(p, dict) and "expect" in p:
            key = json.dumps([p["kind"], p["n"], p["ops"], p["term"]])
            if key not in seen:
                seen.add(key)
                out.append(p)
    if not out:
        raise lib.Machinery(f"script generation {cfg} printed no scripts:\n{r.out[-1500:]}")
    out.sort(key=lambda s: json.dumps([s["kind"], s["n"], s["ops"], s["term"]]))
    return out


def length_for(s):
    return next((n for n in (2, 3, 5) if len(s["ops"]) <= n), len(s["ops"]))


def run_scripts(scripts, driver=ca.driver_src):
    """-> (observed event streams (None if the driver was rejected), rejected drivers)"""
    import pool
    import runner

    groups = {}
    for idx, s in enumerate(scripts):
        term = s["term"] if s["term"] != "none" else "index"     # the script panics before the observer
        groups.setdefault((s["kind"], s["n"], term, length_for(s)), []).append(idx)
    jobs = []
    for (kind, n, term, length), idxs in sorted(groups.items()):
        src = driver(kind, n, term, length)
        for c in range(0, len(idxs), CHUNK):
            part = idxs[c:c + CHUNK]
            jobs.append({"id": part, "src": src, "entry": "main", "validate": c == 0, "budget": 200_000,
                         "args": [ca.encode(kind, scripts[i]["ops"], length) for i in part],
                         "group": [kind, n, term, length]})
    results = pool.map_jobs(runner.run_job, jobs, chunksize=1)
    observed = [None] * len(scripts)
    rejected = {}
    for job, res in zip(jobs, results):
        if res["status"] in ("rejected", "invalid", "crash"):
            rejected.setdefault(tuple(job["group"][:3]), res)
            continue
        if res["status"] != "ok":
            raise lib.Machinery(f"driver {job['group']}: {res['status']} {res.get('error')}")
        for i, run in zip(job["id"], res["runs"]):
            if run["end"] in ("unsupported", "interp_error"):
                raise lib.Machinery(f"interpreter: {run['end']} {run.get('msg')} on {ca.show(scripts[i])}")
            ev = ca.project(run.get("events", []))
            if run["end"] == "budget":
                ev.append(["step budget exhausted", []])
            observed[i] = ev
    return observed, rejected


def mismatches(scripts, observed):
    return [i for i, (s, o) in enumerate(zip(scripts, observed)) if o is not None and o != s["expect"]]


def classify(s, o):
    """Name the first point of disagreement (for the report)."""
    e = s["expect"]
    k = next((j for j in range(min(len(e), len(o))) if e[j] != o[j]), min(len(e), len(o)))
    exp = e[k] if k < len(e) else ["<end>", []]
    got = o[k] if k < len(o) else ["<end>", []]
    if exp[0] == "panic":
        what = "no panic where the specification requires one"
    elif got[0] == "panic":
        what = "panic where the specification allows none"
    else:
        what = "different value/contents"
    if k < len(s["ops"]):
        where, site = f"operation {k} {s['ops'][k]}", s["ops"][k][0]
    else:
        where, site = f"observer {s['term']}", s["term"]
    return what, where, site, exp, got


def report(ctx, scripts, observed, bad, limit=8):
    groups = collections.defaultdict(list)
    for i in bad:
        what, where, site, exp, got = classify(scripts[i], observed[i])
        s = scripts[i]
        groups[(s["kind"], site, what)].append((len(s["ops"]), ca.show(s), i, where, exp, got))
    for (kind, site, what), lst in sorted(groups.items()):
        lst.sort()
        for _, shown, i, where, exp, got in lst[:limit]:
            ctx.violation(shown, f"array[{kind}] `{shown}`: {what} at {where}: specification {json.dumps(exp)}, "
                          f"code {json.dumps(got)}; expected stream {json.dumps(scripts[i]['expect'])}, observed "
                          f"{json.dumps(observed[i])} [{len(lst)} scripts disagree at {kind}/{site}: {what}]",
                          {k: scripts[i][k] for k in ("kind", "n", "ops", "term", "expect")})


def design_check(ctx):
    r = ctx.tlc("Arrays", coverage=True, timeout=3000)
    if not r.ok:
        raise lib.Machinery("Arrays.tla violates its own laws (specification error):\n" + r.error)
    dead = [a for a in ("Borrow", "Apply", "Return", "Terminal") if r.coverage.get(a, (0, 0))[0] == 0]
    if dead:
        raise lib.Machinery(f"Arrays.tla: vacuous run, actions never taken: {dead}")


def run(ctx):
    ctx.level = "model_checking"
    design_check(ctx)
    scripts = gen_scripts(ctx, "Arrays_GenA.cfg")
    if not ctx.quick:
        scripts += gen_scripts(ctx, "Arrays_GenB.cfg")
    n_exh = len(scripts)
    sim = ctx.pick(1500, 30000)
    scripts += gen_scripts(ctx, "Arrays_GenS.cfg", simulate=sim, seed=ctx.seed + 1)
    seen, uniq = set(), []
    for s in scripts:
        k = json.dumps([s["kind"], s["n"], s["ops"], s["term"]])
        if k not in seen:
            seen.add(k)
            uniq.append(s)
    scripts = uniq
    ctx.log(f"{len(scripts)} scripts")
    observed, rejected = run_scripts(scripts)
    for (kind, n, term), res in sorted(rejected.items()):
        ctx.violation(f"driver-not-compilable:{kind}[{n}]:{term}",
                      f"driver over array[{kind}, {n}] with observer {term} is {res['status']}: "
                      f"{json.dumps(res.get('error'))[:400]}", {"kind": kind, "n": n, "term": term, "ops": [], "expect": []})
    bad = mismatches(scripts, observed)
    report(ctx, scripts, observed, bad)
    done = [s for s, o in zip(scripts, observed) if o is not None]
    opcount = collections.Counter(f"{s['kind']}.{o[0]}" for s in done for o in s["ops"])
    terms = collections.Counter(f"{s['kind']}.{s['term']}" for s in done)
    oob = sum(1 for s in done for o in s["ops"] if not (0 <= o[1] < s["n"] and 0 <= o[2] < s["n"]))
    neg = sum(1 for s in done for o in s["ops"] if o[1] < 0 or o[2] < 0)
    dbl = sum(1 for s in done for o in s["ops"] if s["kind"] == "qubit" and o[0] in ("swap", "cx") and o[1] == o[2]
              and 0 <= o[1] < s["n"])
    panics = sum(1 for s in done if s["expect"] and s["expect"][-1][0] == "panic")
    nontrivial = sum(1 for s in done if any(e[0] == "ok" for e in s["expect"]))
    rnd = random.Random(ctx.seed)
    ctx.coverage.update({
        "traces_validated_against_impl": len(done),
        "evaluations": sum(len(s["expect"]) for s in done),
        "distinct_nontrivial": nontrivial,
        "rule": "distinct (element kind, n, operation script with runtime indices, observer) replayed on the compiled "
                "code with the full event stream compared; non-trivial = at least one write / lend completes before the observer or the panic",
        "samples": [{"script": ca.show(s), "expect": s["expect"]} for s in rnd.sample(done, min(4, len(done)))],
        "exhaustive": True,
        "exhaustive_scope": ("all scripts with <= 2 operations for n in 1..3" + ("" if ctx.quick else
                             ", <= 3 operations for n in 1..2") + f", indices -2..n+1, all observers ({n_exh} scripts); "
                             f"plus {sim} simulated scripts with 5 operations (n in 2..3)"),
        "mismatches": len(bad), "scripts_ending_in_panic": panics, "ops_with_out_of_range_index": oob,
        "ops_with_negative_index": neg, "double_lend_ops": dbl,
        "operations": dict(sorted(opcount.items())), "observers": dict(sorted(terms.items())),
    })
    ctx.assumptions += ["TLC", "reference HUGR interpreter incl. its semantics of collections.borrow_arr ops",
                        "compat shim", "driver control loop compiled by the same compiler"]


def replay(ctx, data):
    s = data["replay"]
    if not s.get("ops") and not s.get("expect"):
        print(ca.driver_src(s["kind"], s["n"], s["term"], 2))
        return
    observed, rejected = run_scripts([s])
    print("script:", ca.show(s))
    print("spec  :", json.dumps(s["expect"]))
    print("code  :", json.dumps(observed[0]), rejected or "")


def wrapping_driver(kind, n, term, length):
    """A driver whose subscripts wrap negative indices like Python lists (what the property forbids)."""
    src = ca.driver_src(kind, n, term, length)
    wrap = f"\n@guppy\ndef wrap(i: int) -> int:\n    if i < 0:\n        return i + {n}\n    return i\n"
    return wrap + src.replace("xs[a[k]]", "xs[wrap(a[k])]")


def selftest(ctx):
    S = lambda kind, n, ops, term, expect: {"kind": kind, "n": n, "ops": ops, "term": term, "expect": expect}
    ok, c, p = ["ok", []], (lambda v: ["c", [v]]), ["panic", []]
    genuine = [
        S("int", 3, [["set", 1, 1], ["swap", 0, 2]], "starM", [ok, ok, c(12), ["rest", [20]], c(10)]),
        S("int", 3, [["aug", 2, 2], ["get", -1, -1]], "none", [ok, p]),
        S("int", 2, [["get", 1, 1]], "copy", [["get", [11]], ["ys", [10, 11]], ["xs", [-1, -1]]]),
        S("qubit", 3, [["cx", 0, 2], ["swap", 0, 1]], "iter", [ok, ok, c(0), c(1), c(1)]),
        S("qubit", 2, [["flip", 1, 1], ["cx", 1, 1]], "none", [ok, p]),
        S("qubit", 2, [["get", 0, 0], ["flip", 2, 2]], "none", [["get", [1]], p]),
    ]
    observed, rejected = run_scripts(genuine)
    if rejected or mismatches(genuine, observed):
        raise lib.Machinery(f"selftest: hand-computed scripts disagree with the code: {rejected} "
                            f"{[(ca.show(genuine[i]), observed[i]) for i in mismatches(genuine, observed)]}")
    # the same expectations must come out of the TLA+ specification
    generated = gen_scripts(ctx, "Arrays_GenA.cfg")
    spec = {json.dumps([s["kind"], s["n"], s["ops"], s["term"]]): s["expect"] for s in generated}
    for s in genuine:
        k = json.dumps([s["kind"], s["n"], s["ops"], s["term"]])
        if spec.get(k) != s["expect"]:
            raise lib.Machinery(f"selftest: Arrays.tla expects {spec.get(k)} for {ca.show(s)}, hand computation {s['expect']}")
    # 1. corrupted expectations are flagged
    corrupt = json.loads(json.dumps(genuine))
    corrupt[0]["expect"][3] = ["rest", [11]]           # write did not land
    corrupt[1]["expect"][1] = ["get", [12]]            # negative index wraps instead of panicking
    corrupt[2]["expect"][1] = ["ys", [11, 10]]         # copy in reverse order
    corrupt[3]["expect"] = corrupt[3]["expect"][:-1]   # one element missing from the iteration
    corrupt[4]["expect"][1] = ok                       # double lend tolerated
    corrupt[5]["expect"][1] = ok                       # out-of-range lend tolerated
    if mismatches(corrupt, observed) != list(range(len(corrupt))):
        raise lib.Machinery("selftest: a corrupted expectation was not flagged")
    # 2. a program that wraps negative indices (Python list semantics) is flagged exactly on negative indices
    scripts = [s for s in generated if s["kind"] == "int" and s["n"] == 3 and len(s["ops"]) == 1]
    observed, rejected = run_scripts(scripts, driver=wrapping_driver)
    bad = set(mismatches(scripts, observed))
    want = {i for i, s in enumerate(scripts) if s["ops"][0][0] != "swap" and -3 <= s["ops"][0][1] < 0
            or s["ops"][0][0] == "swap" and s["ops"][0][1] < 0 and 0 <= s["ops"][0][2] < 3}
    if rejected or not want or bad != want:
        raise lib.Machinery(f"selftest: wrapping driver: flagged {sorted(bad)} expected {sorted(want)} {rejected}")
    ctx.log(f"selftest: 6 corrupted expectations flagged; wrapping subscripts flagged on {len(want)} of {len(scripts)} scripts")


if __name__ == "__main__":
    lib.main("C19", run, replay, selftest)
