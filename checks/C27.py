"""C27 Stack and PriorityQueue follow their reference models.

Decided by: spec/CollectionsAbs.tla (reference models: stack = sequence, queue = bag with
"any entry of minimal priority"), spec/Collections.tla (array/heap implementation model with
one action per sift-loop iteration; TLC checks shape + heap invariants and that it refines
the reference model) and spec/Collections_Trace.tla (trace validation).

Binding: TLC enumerates / simulates behaviours of Collections.tla and prints the operation
scripts (push/pop/peek/len, incl. over-capacity push and pop/peek on empty).  Each script is
run on a driver program over `Stack[int, N]` / `PriorityQueue[int, N]` compiled from /repo
(this executes the std-library Guppy source under test) on the reference interpreter; the
observed event stream is validated by Collections_Trace against the reference model.
"""
import json
import os
import random

import lib
import coll_prog as cp

CHUNK = 250          # scripts per interpreter job (one compilation each)
TRACES_PER_TLC = 60000


def gen_scripts(ctx, cfg, simulate=None, seed=None):
    kw = {}
    if simulate is not None:
        # single worker: the set of simulated behaviours is then a function of the seed
        kw = dict(simulate=f"num={simulate}", depth=400, seed=seed, workers=1)
    r = ctx.tlc("Collections", cfg, timeout=3000, **kw)
    if r.error:
        raise lib.Machinery(f"script generation {cfg} failed:\n{r.error}")
    seen, out = set(), []
    for p in r.printed:
        if isinstance(p, dict) and "ops" in p:
            key = json.dumps(p, sort_keys=True)
            if key not in seen:
                seen.add(key)
                out.append({"kind": p["kind"], "cap": p["cap"], "ops": p["ops"]})
    if not out:
        raise lib.Machinery(f"script generation {cfg} printed no scripts:\n{r.out[-1500:]}")
    out.sort(key=lambda s: json.dumps(s, sort_keys=True))
    return out


def run_scripts(ctx, scripts, repo_note=""):
    """Run every script on its driver; returns list of traces (script + projected events)."""
    import pool
    import runner

    groups = {}
    for idx, s in enumerate(scripts):
        length = next((n for n in (5, 8, 24) if len(s["ops"]) <= n), len(s["ops"]))
        groups.setdefault((s["kind"], s["cap"], length), []).append(idx)
    jobs = []
    for (kind, cap, length), idxs in sorted(groups.items()):
        src = cp.driver_src(kind, cap, length)
        for c in range(0, len(idxs), CHUNK):
            part = idxs[c:c + CHUNK]
            jobs.append({"id": part, "src": src, "entry": "main", "validate": c == 0, "budget": 400_000,
                         "args": [cp.encode(scripts[i]["ops"], length) for i in part],
                         "group": [kind, cap, length]})
    results = pool.map_jobs(runner.run_job, jobs, chunksize=1)
    traces = [None] * len(scripts)
    rejected = {}
    for job, res in zip(jobs, results):
        if res["status"] in ("rejected", "invalid", "crash"):
            rejected.setdefault(tuple(job["group"][:2]), res)
            continue
        if res["status"] != "ok":
            raise lib.Machinery(f"driver {job['group']}: {res['status']} {res.get('error')}")
        for i, run in zip(job["id"], res["runs"]):
            if run["end"] in ("unsupported", "interp_error"):
                raise lib.Machinery(f"interpreter: {run['end']} {run.get('msg')} on {scripts[i]}")
            ev = cp.project(run.get("events", []))
            if run["end"] == "budget":
                ev.append(["step budget exhausted (no termination)", 0])
            traces[i] = dict(scripts[i], ev=ev)
    return traces, rejected


def validate(ctx, traces):
    """-> (bad records by trace index, number accepted)"""
    bad, acc = {}, 0
    for c in range(0, len(traces), TRACES_PER_TLC):
        part = traces[c:c + TRACES_PER_TLC]
        path = os.path.join(ctx.workdir, f"coll_traces_{c}.json")
        with open(path, "w") as f:
            json.dump(part, f)
        r = ctx.tlc("Collections_Trace", env={"VERIF_TRACE": path}, timeout=3000)
        if r.error:
            raise lib.Machinery(f"Collections_Trace failed:\n{r.error}")
        a = {p["accepted"] for p in r.printed if isinstance(p, dict) and "accepted" in p}
        b = {p["bad"]: p for p in r.printed if isinstance(p, dict) and "bad" in p}
        if a & set(b) or len(a) + len(b) != len(part):
            raise lib.Machinery(f"trace spec verdict not total: {len(a)} accepted + {len(b)} rejected "
                                f"of {len(part)} traces\n{r.out[-1500:]}")
        acc += len(a)
        for i, p in b.items():
            bad[c + i] = p
        os.remove(path)
    return bad, acc


MC_ACTIONS = ["PQPushStart", "SiftUpSwap", "SiftUpDone", "PQPopStart", "SiftDownLeft", "SiftDownRight",
              "SiftDownDone", "PQPeek", "Length", "StPush", "StPop", "StPeek"]


def design_check(ctx):
    r = ctx.tlc("Collections", coverage=True, timeout=3000)
    if not r.ok:
        raise lib.Machinery("Collections.tla: heap model violates its invariants / refinement "
                            "(specification error):\n" + r.error)
    dead = [a for a in MC_ACTIONS if r.coverage.get(a, (0, 0))[0] == 0]
    if dead:
        raise lib.Machinery(f"Collections.tla: vacuous run, actions never taken: {dead}")
    ctx.coverage["design_actions_distinct_states"] = {a: r.coverage[a][0] for a in MC_ACTIONS}


def run(ctx):
    ctx.level = "model_checking"
    design_check(ctx)
    scripts = gen_scripts(ctx, ctx.pick("Collections_GenA.cfg", "Collections_GenB.cfg"))
    n_exh = len(scripts)
    sim, deep = ctx.pick((1500, 1500), (20000, 8000))
    scripts += gen_scripts(ctx, "Collections_GenS.cfg", simulate=sim, seed=ctx.seed + 1)
    scripts += gen_scripts(ctx, "Collections_GenL.cfg", simulate=deep, seed=ctx.seed + 2)
    ctx.log(f"{len(scripts)} scripts ({n_exh} exhaustive)")
    traces, rejected = run_scripts(ctx, scripts)
    for (kind, cap), res in sorted(rejected.items()):
        ctx.violation(f"driver-not-compilable:{kind}",
                      f"driver program over {kind} of capacity {cap} (public API only) is {res['status']}: "
                      f"{json.dumps(res.get('error'))[:400]}", {"kind": kind, "cap": cap, "ops": []})
    done = [t for t in traces if t is not None]
    ctx.log(f"{len(done)} traces recorded")
    bad, acc = validate(ctx, done)
    report(ctx, done, bad)
    panics = sum(1 for t in done if t["ev"] and t["ev"][-1][0] == "panic")
    ties = sum(1 for t in done if t["kind"] == "pq" and len({o[1] for o in t["ops"] if o[0] == "push"})
               < sum(1 for o in t["ops"] if o[0] == "push"))
    nontriv = {json.dumps(t["ops"]) + t["kind"] + str(t["cap"]) for t in done if cp.nontrivial(t["ops"])}
    rnd = random.Random(ctx.seed)
    ctx.coverage.update({
        "traces_validated_against_impl": len(done),
        "evaluations": sum(len(t["ev"]) for t in done),
        "distinct_nontrivial": len(nontriv),
        "rule": "distinct (kind, capacity, script) whose event stream from the compiled std library was "
                "validated; non-trivial = a pop/peek executes while >= 2 entries are stored",
        "samples": [dict(t, ops=cp.show(t["ops"])) for t in rnd.sample(done, min(4, len(done)))],
        "exhaustive": True,
        "exhaustive_scope": f"all scripts of the spec for {ctx.pick('capacities 1..3, <= 4 ops', 'capacities 1..4, <= 6 ops')}, "
                            f"priorities 0..2 ({n_exh} scripts); plus {sim} + {deep} simulated scripts "
                            "(capacity 4 / <= 8 ops with repeated values; capacity 7 and 10 / 24 push-pop ops, 6 priorities)",
        "accepted": acc, "rejected": len(bad), "scripts_ending_in_panic": panics,
        "pq_scripts_with_equal_priorities": ties,
        "by_kind_cap": {f"{k}[{c}]": sum(1 for t in done if t["kind"] == k and t["cap"] == c)
                        for k, c in sorted({(t["kind"], t["cap"]) for t in done})},
    })
    ctx.assumptions += ["TLC", "reference HUGR interpreter (harness/hugr_interp)", "compat shim",
                        "driver program (control loop over runtime op codes) compiled by the same compiler"]


def report(ctx, traces, bad, limit=6):
    """One violation per failing (kind, capacity-independent) shortest scripts."""
    per_kind = {}
    for i, p in bad.items():
        per_kind.setdefault(traces[i]["kind"], []).append((len(traces[i]["ops"]), cp.show(traces[i]["ops"]), i, p))
    for kind, lst in per_kind.items():
        lst.sort()
        for _, shown, i, p in lst[:limit]:
            t = traces[i]
            ctx.violation(f"{kind}[{t['cap']}]: {shown}",
                          f"{kind} of capacity {t['cap']}, script `{shown}`: {p['what']} at event {p['at']} "
                          f"(operation {p['op']}): reference model allows {json.dumps(p['allowed'])}, "
                          f"observed {json.dumps(p['got'])}; events {json.dumps(t['ev'])} "
                          f"[{len(lst)} failing {kind} scripts in this run]",
                          {"kind": kind, "cap": t["cap"], "ops": t["ops"]})


def replay(ctx, data):
    d = data["replay"]
    if not d.get("ops"):
        print("driver program:", cp.driver_src(d["kind"], d["cap"], 8))
    traces, rejected = run_scripts(ctx, [d])
    print("rejected:", rejected)
    if traces[0]:
        print("script:", cp.show(d["ops"]))
        print("code  :", traces[0]["ev"])
        bad, acc = validate(ctx, [traces[0]])
        print("spec  :", "accepted" if acc else bad[0])


def selftest(ctx):
    scripts = [
        {"kind": "pq", "cap": 4, "ops": [["push", 2, 10], ["push", 1, 11], ["push", 1, 12], ["push", 0, 13],
                                         ["len", 0, 0], ["pop", 0, 0], ["peek", 0, 0], ["pop", 0, 0]]},
        {"kind": "pq", "cap": 2, "ops": [["push", 1, 1], ["push", 0, 2], ["push", 0, 3]]},
        {"kind": "pq", "cap": 2, "ops": [["push", 1, 1], ["pop", 0, 0], ["peek", 0, 0]]},
        {"kind": "stack", "cap": 3, "ops": [["push", 0, 5], ["push", 0, 6], ["peek", 0, 0], ["pop", 0, 0],
                                            ["len", 0, 0], ["push", 0, 7]]},
        {"kind": "stack", "cap": 1, "ops": [["pop", 0, 0]]},
    ]
    traces, rejected = run_scripts(ctx, scripts)
    if rejected or any(t is None for t in traces):
        raise lib.Machinery(f"selftest: drivers rejected {rejected}")
    bad, acc = validate(ctx, traces)
    if bad:
        raise lib.Machinery(f"selftest: genuine traces rejected: {bad}")

    def mut(i, f):
        t = json.loads(json.dumps(traces[i]))
        f(t["ev"])
        return t

    def setv(j, v):
        def g(ev):
            ev[j][1] = v
        return g

    def find(ev, tag, nth=0):
        return [j for j, e in enumerate(ev) if e[0] == tag][nth]

    e0 = traces[0]["ev"]
    # trace 0: pushes (2,10) (1,11) (1,12) (0,13); len; pop -> (0,13); peek -> prio 1; pop -> prio 1; drain
    corrupted = [
        ("pq pop returns a non-minimal entry", mut(0, lambda ev: (setv(find(ev, "prio", 0), 2)(ev), setv(find(ev, "val", 0), 10)(ev)))),
        ("pq pop returns an entry that was never pushed", mut(0, setv(find(e0, "val", 0), 99))),
        ("pq priority/value pairing broken", mut(0, setv(find(e0, "prio", 0), 1))),
        ("pq len wrong", mut(0, setv(find(e0, "len"), 3))),
        ("pq event dropped", mut(0, lambda ev: ev.pop(find(ev, "val", 1)))),
        ("pq entry lost (drain one short)", mut(0, lambda ev: [ev.pop(len(ev) - 2) for _ in range(3)])),
        ("pq entry duplicated (same entry popped twice)", mut(0, lambda ev: ev[find(ev, "val", 3)].__setitem__(1, ev[find(ev, "val", 2)][1]))),
        ("pq over-capacity push does not panic", mut(1, lambda ev: (ev.pop(), ev.extend([["pushed", 0], ["end", 3]])))),
        ("pq peek on empty does not panic", mut(2, lambda ev: (ev.pop(), ev.extend([["prio", 0], ["val", 0], ["end", 0], ["drained", 0]])))),
        ("pq panic although within capacity", mut(0, lambda ev: ev.__setitem__(slice(3, None), [["panic", 0]]))),
        ("stack pop is FIFO", mut(3, setv(find(traces[3]["ev"], "val", 1), 5))),
        ("stack peek wrong", mut(3, setv(find(traces[3]["ev"], "val", 0), 5))),
        ("stack pop on empty does not panic", mut(4, lambda ev: (ev.pop(), ev.extend([["val", 0], ["end", 0], ["drained", 0]])))),
        ("events after panic", mut(4, lambda ev: ev.append(["end", 0]))),
    ]
    # a different choice among EQUAL priorities must be accepted (no false alarm on ties):
    # trace 0 pops (1,11)/(1,12) in the implementation's order; swap which one is taken first
    def swap_ties(ev):
        js = [j for j, e in enumerate(ev) if e[0] == "val" and e[1] in (11, 12)]
        # occurrences: peek, pop, (drain) pop  -> make peek+pop take the other entry, drain the first
        a = ev[js[0]][1]
        b = 23 - a
        ev[js[0]][1], ev[js[1]][1], ev[js[2]][1] = b, b, a
    tie = mut(0, swap_ties)
    batch = [c[1] for c in corrupted] + [tie] + traces
    bad, acc = validate(ctx, batch)
    for j, (name, _) in enumerate(corrupted):
        if j not in bad:
            raise lib.Machinery(f"selftest: corrupted trace accepted: {name}")
    if len(corrupted) in bad:
        raise lib.Machinery(f"selftest: legal tie-break variant rejected: {bad[len(corrupted)]}")
    if any(j in bad for j in range(len(corrupted) + 1, len(batch))):
        raise lib.Machinery("selftest: genuine trace rejected in mixed batch")
    ctx.log(f"selftest: {len(corrupted)} corrupted traces rejected, tie variant + {len(traces)} genuine accepted")


if __name__ == "__main__":
    lib.main("C27", run, replay, selftest)
