"""C01 Accepted programs lower to valid HUGR.

Decided by: spec/Lifecycle01.tla - the lifecycle automaton Raw -> Checked -> Compiled ->
Validated (or Raw -> Rejected); it has no transition for an exception after the checker
accepted, nor for a validation error.  Bound to the code by trace validation (code -> spec):
for every program the harness records  [check, compile, validate]  outcomes from /repo
(GuppyDefinition.check(), compile_function(), Package.to_bytes() -> hugr-core validator) and
TLC must accept the trace; the first event without a transition is a violation keyed by
event, exception / diagnostic class and raising location (resp. validator message class).

Programs (all seeded):
  A. guided-random programs of the linear fragment in RICH rendering: qubits, tuples, structs,
     nested aggregates, a struct with a classical field, qubit arrays; owned/borrowed parameters;
     if / while / for with break / continue / return; values live on only some branch successors;
     struct places crossing loop headers; classical decoration that needs drops (int arrays,
     options, tuples), short-circuit conditions, generic callees (gid/gb), a nested function,
     comptime arguments; helper functions either declared or defined.
  B. plain guided-random programs + near-miss mutants (the C06 campaign's shape).
  C. EVERY program of the three small struct grammars (s local / owned / borrowed) up to
     3 (quick) / 4 (thorough) statement nodes.
  E. generic-instantiation family (harness/inst_gen.py): 15 generic callee shapes (identity, declared identity,
     duplication, projections, tuple/option/array/struct wrappers, function-typed parameters, explicit type
     application) x 15 value types (scalars, None, (), nested tuples with None, affine array, structs incl. an
     empty one, option, function value, qubit) x 5 use contexts (straight, branch merge, loop, nested call, discarded).
  D. optional corpus /verif/work/corpus/*.json of {"src","entry","experimental"} records
     deposited by other checks.
Rejected programs are not C01's subject (their traces end in `Rejected`).
"""
import collections
import glob
import hashlib
import json
import os
import random

import lib
import lin_ast as A
import lin_gen as G
import lin_life as L
import lin_run as R

CORPUS = os.path.join(lib.VERIF, "work", "corpus")


def build(ctx, n_rich, n_plain, maxsize):
    rng = random.Random(ctx.seed * 104729 + 1)
    progs, seen = [], set()

    def add(p, origin):
        src = A.render(p)[0]
        hsh = hashlib.sha1(src.encode()).digest()
        if hsh in seen:
            return
        seen.add(hsh)
        p["id"] = len(progs)
        p["origin"] = origin
        progs.append(p)

    for fam in ("s-local", "s-owned", "s-borrowed"):
        for p in G.enumerate_small(maxsize, fam):
            add(A.number(p), "enum")
    n0 = len(progs)
    while len(progs) < n0 + n_rich:
        kw = rng.choice([{}, {}, {"size": (5, 10)}, {"maxdepth": 2, "size": (4, 8)}])
        add(G.gen_program(rng, 0, rich=True, noise=0.0, nofix=0.0, **kw), "rich")
    n0 = len(progs)
    while len(progs) < n0 + n_plain:
        p = G.gen_program(rng, 0, noise=rng.choice([0.0, 0.03]), nofix=rng.choice([0.0, 0.05]))
        add(p, "plain")
        if rng.random() < 0.3:
            add(G.mutate(p, rng, 0, 1), "mutant")
    return progs


def load_corpus(directory=CORPUS):
    jobs = []
    for f in sorted(glob.glob(os.path.join(directory, "*.json"))):
        try:
            d = json.load(open(f))
        except Exception as e:  # noqa: BLE001
            raise lib.Machinery(f"unreadable corpus file {f}: {e}")
        for n, rec in enumerate(d if isinstance(d, list) else [d]):
            if isinstance(rec, dict) and "src" in rec and "entry" in rec:
                jobs.append({"id": f"corpus:{os.path.basename(f)}:{n}", "src": rec["src"], "entry": rec["entry"],
                             "experimental": bool(rec.get("experimental")), "prelude": rec.get("prelude")})
    return jobs


def lin_jobs(progs):
    return [{"id": p["id"], "src": A.render(p)[0], "entry": "main"} for p in progs]


def record(jobs):
    import pool
    res = pool.map_jobs(L.life_job, jobs, chunksize=8, procs=1 if len(jobs) < 48 else None)
    for r in res:
        if r.get("machinery"):
            raise lib.Machinery(f"harness failure on program {r['id']}: {r['machinery']}")
    return res


def validate(ctx, results, tag="life"):
    """TLC (Lifecycle01) over the recorded traces -> {id: stuck record}"""
    traces = [{"id": str(r["id"]), "ev": [{"ev": e["ev"], "out": e["out"]} for e in r["ev"]]} for r in results]
    path = os.path.join(ctx.workdir, f"{tag}.json")
    json.dump(traces, open(path, "w"))
    r = ctx.tlc("Lifecycle01", env={"VERIF_TRACE": path}, coverage=(tag == "life"), timeout=1500)
    if not r.ok:
        raise lib.Machinery(f"Lifecycle01.tla failed:\n{r.error or r.out[-2000:]}")
    acc = {p["id"]: p["accepted"] for p in r.printed if "accepted" in p}
    stuck = {p["id"]: p for p in r.printed if "stuck" in p}
    lost = [t["id"] for t in traces if t["id"] not in acc and t["id"] not in stuck]
    if lost:
        raise lib.Machinery(f"Lifecycle01: traces neither accepted nor rejected: {lost[:10]}")
    return acc, stuck, r


def same_key(key):
    def test(ctx, progs):
        return [L.key_of(r) == key for r in record(lin_jobs(progs))]
    return test


def run(ctx):
    ctx.level = "model_checking"
    scale = float(os.environ.get("VERIF_SCALE", "1"))  # development aid only
    progs = build(ctx, int(ctx.pick(1000, 20000) * scale), int(ctx.pick(250, 4000) * scale),
                  (ctx.pick(3, 4) if scale >= 1 else 2))
    import inst_gen
    inst = inst_gen.programs(ctx.quick)
    jobs = lin_jobs(progs) + inst + load_corpus()
    ctx.log(f"{len(jobs)} programs ({len(inst)} of the generic-instantiation family, {len(jobs) - len(progs) - len(inst)} from the corpus)")
    results = record(jobs)
    acc, stuck, r = validate(ctx, results)
    idle = [a for a in ("Check", "Compile", "Validate") if r.coverage.get(a, (0, 0))[1] == 0]
    if idle:
        raise lib.Machinery(f"vacuous: lifecycle actions never taken: {idle}")
    byid = {str(x["id"]): x for x in results}
    pbyid = {str(p["id"]): p for p in progs}
    groups = collections.defaultdict(list)
    for tid in stuck:
        res = byid[tid]
        key = L.key_of(res)
        if key is None:
            raise lib.Machinery(f"Lifecycle01 rejects trace {tid} without a failing event: {res}")
        if tid.startswith("inst:"):
            key = inst_gen.key_of(tid, next(e for e in res["ev"] if e["out"] in ("exc", "err")))
        groups[key].append(res)
    for key, cases in sorted(groups.items()):
        lin = [c for c in cases if str(c["id"]) in pbyid]
        ev = next(e for e in cases[0]["ev"] if e["out"] in ("exc", "err"))
        if lin:
            p = min((pbyid[str(c["id"])] for c in lin), key=lambda q: q["nstmts"])
            ctx.log(f"lifecycle failure {key}: {len(cases)} programs; shrinking one")
            small = R.shrink(ctx, p, same_key(key)) if len(groups) <= 6 else p
            src = A.render(small)[0]
            rep = {"prog": small, "src": src, "entry": "main", "event": ev}
            shown = src.split("@guppy\n")[-1]
        else:
            j = next(x for x in jobs if str(x["id"]) == str(cases[0]["id"]))
            rep = {"src": j["src"], "entry": j["entry"], "experimental": j.get("experimental", False), "event": ev,
                   "prelude": j.get("prelude")}
            shown = j["src"][-1500:]
        ctx.violation(key, f"checker accepted, then {ev['ev']} -> {ev['out']} {ev.get('cls')} at {ev.get('where')}: "
                           f"{ev.get('msg', '')[:200]} ({len(cases)} programs of this run)\n{shown}", rep)
    cnt = collections.Counter(acc.values())
    origin = collections.Counter()
    valid_by_origin = collections.Counter()
    for p in progs:
        origin[p["origin"]] += 1
        if acc.get(str(p["id"])) == "Validated":
            valid_by_origin[p["origin"]] += 1
    rejected_cls = collections.Counter(x["ev"][0].get("cls") for x in results if x["ev"] and x["ev"][0]["out"] == "rejected")
    if origin["rich"] and valid_by_origin["rich"] + sum(1 for t in stuck if pbyid.get(t, {}).get("origin") == "rich") < 0.6 * origin["rich"]:
        raise lib.Machinery(f"vacuous: only {valid_by_origin['rich']} of {origin['rich']} rich programs pass the checker "
                            f"(rejections: {dict(rejected_cls)})")
    feats = collections.Counter()
    for p in progs:
        if acc.get(str(p["id"])) != "Validated":
            continue
        src = A.render(p)[0].split("def main")[-1].replace("    def nf(x: qubit @owned) -> qubit:\n        h(x)\n        return x\n", "")
        for f, pat in (("loop", "while "), ("for", "for k"), ("branch", "if "), ("break/continue", "break"), ("generic", "gid("),
                       ("generic-borrow", "gb("), ("nested-fn", "nf("), ("comptime-arg", "ct("), ("qubit-array", "array("),
                       ("int-array(drop)", "xs ="), ("option", "o = "), ("short-circuit", " and "), ("struct-field-assign", ".a ="),
                       ("early-return", "    return")):
            if pat in src:
                feats[f] += 1
    vids = [p for p in progs if acc.get(str(p["id"])) == "Validated"]
    ctx.coverage.update({
        "traces_validated_against_impl": len(results),
        "evaluations": len(results),
        "distinct_nontrivial": sum(1 for p in vids if p["nstmts"] >= 5 and ("if" in json.dumps(p["body"]) or "while" in json.dumps(p["body"]))),
        "rule": "lifecycle traces of distinct programs; non-trivial = accepted by the checker, >= 5 statements and a branch or loop",
        "exhaustive": False,
        "exhaustive_part": f"all programs of the 3 struct grammars with <= {ctx.pick(3, 4)} statement nodes ({origin['enum']})",
        "phases": dict(cnt),
        "stuck": len(stuck),
        "by_origin": dict(origin),
        "validated_by_origin": dict(valid_by_origin),
        "rejected_by_checker_classes": dict(rejected_cls),
        "features_in_validated_programs": dict(feats),
        "corpus_programs": len(jobs) - len(progs) - len(inst),
        "generic_instantiation_family": {"programs": len(inst),
                                         "validated": sum(1 for j in inst if acc.get(j["id"]) == "Validated"),
                                         "rejected_by_checker": sum(1 for j in inst if acc.get(j["id"]) == "Rejected"),
                                         "shapes": list(inst_gen.SHAPES), "values": list(inst_gen.VALUES)},
        "lifecycle_action_coverage": {a: r.coverage[a][1] for a in ("Check", "Compile", "Validate")},
        "samples": [A.render(p)[0].split("@guppy\n")[-1] for p in [q for q in vids if q["origin"] == "rich"][-2:]],
    })
    ctx.assumptions += ["TLC", "hugr-core validator (hugr.cli.validate) with the package's own extension definitions",
                        "compat shim (dependency API only)", "rendering of the generator's AST as Guppy source"]


def replay(ctx, data):
    d = data["replay"]
    job = {"id": 0, "src": d["src"], "entry": d["entry"], "experimental": d.get("experimental", False), "prelude": d.get("prelude")}
    print(d["src"].split("@guppy\n")[-1])
    res = L.life_job(job)
    print("recorded trace:", json.dumps(res["ev"], indent=1))
    acc, stuck, _ = validate(ctx, [res], tag="replay")
    print("Lifecycle01:", "accepted in phase " + acc["0"] if "0" in acc else f"REJECTED: {stuck['0']}")


def selftest(ctx):
    rng = random.Random(1)
    progs = [G.gen_program(rng, i, rich=True, noise=0.0, nofix=0.0) for i in range(12)]
    results = record(lin_jobs(progs))
    acc, stuck, _ = validate(ctx, results, tag="st0")
    good = [r for r in results if acc.get(str(r["id"])) == "Validated"]
    if len(good) < 6:
        raise lib.Machinery(f"selftest: only {len(good)} of 12 generated programs validate: {stuck}")
    # corrupt recorded traces: each must be rejected by the automaton with the right stuck event
    bad = []
    a = json.loads(json.dumps(good[0])); a["id"] = "drop-compile"; del a["ev"][1]; bad.append((a, 2))
    b = json.loads(json.dumps(good[1])); b["id"] = "validate-err"; b["ev"][2]["out"] = "err"; bad.append((b, 3))
    c = json.loads(json.dumps(good[2])); c["id"] = "compile-exc"; c["ev"] = c["ev"][:1] + [{"ev": "compile", "out": "exc"}]; bad.append((c, 2))
    d = json.loads(json.dumps(good[3])); d["id"] = "truncated"; d["ev"] = d["ev"][:2]; bad.append((d, 3))
    e = json.loads(json.dumps(good[4])); e["id"] = "check-crash"; e["ev"] = [{"ev": "check", "out": "exc"}]; bad.append((e, 1))
    f = json.loads(json.dumps(good[5])); f["id"] = "reordered"; f["ev"] = [f["ev"][1], f["ev"][0], f["ev"][2]]; bad.append((f, 1))
    acc2, stuck2, _ = validate(ctx, [x for x, _ in bad] + good, tag="st1")
    for x, at in bad:
        if x["id"] in acc2 or stuck2.get(x["id"], {}).get("stuck") != at:
            raise lib.Machinery(f"selftest: corrupted trace {x['id']} not rejected at event {at}: {stuck2.get(x['id'])} / {acc2.get(x['id'])}")
    for g in good:
        if acc2.get(str(g["id"])) != "Validated":
            raise lib.Machinery("selftest: good trace not accepted")
    # corpus ingestion: records deposited by other checks are picked up and pass through the same monitor
    cdir = os.path.join(ctx.workdir, "corpus")
    os.makedirs(cdir)
    json.dump([{"src": "@guppy\ndef f(x: int) -> int:\n    return x + 1\n", "entry": "f"},
               {"src": "@guppy\ndef g(q: qubit @owned) -> None:\n    pass\n", "entry": "g", "experimental": False}],
              open(os.path.join(cdir, "x.json"), "w"))
    cres = record(load_corpus(cdir))
    cacc, cstuck, _ = validate(ctx, cres, tag="st2")
    if sorted(cacc.values()) != ["Rejected", "Validated"] or cstuck:
        raise lib.Machinery(f"selftest: corpus ingestion gives {cacc} {cstuck}")
    # the validator oracle really rejects a broken package (one node removed from a compiled HUGR)
    import gp
    import runner
    mod, pkg = runner.compile_src(A.render(progs[0])[0] if False else "@guppy\ndef main(q: qubit @owned) -> qubit:\n    h(q)\n    return q\n", "main")
    hg = pkg.modules[0]
    import hugr.ops as ops
    victim = next(n for n in hg.descendants(hg.module_root) if isinstance(hg[n].op, ops.ExtOp) or "H" in str(hg[n].op))
    hg.delete_node(victim)
    try:
        gp.validate(pkg)
    except Exception:
        pass
    else:
        raise lib.Machinery("selftest: validator accepted a package with a cut qubit wire")


if __name__ == "__main__":
    lib.main("C01", run, replay, selftest)
