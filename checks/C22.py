"""C22 Comptime tracing enforces ownership.

Decided by: spec/ComptimeOwn.tla - a state machine with the tracer's own state (object table with
`_used` flags, frozen containers, the unused-undroppable registry) and one action per statement of a
comptime body.  TLC (a) checks that this mechanism enforces the property as stated on ghost variables
(LinearOnce, NoOwnedMutation, RegistryExact, Rejected) and (b) enumerates every body up to a bound over
{qubit, int, affine single objects (opaque type, Option[array[int, 2]]), arrays, tuples, structs, nested} x
{owned, borrowed, local} and prints it with the verdict (ok / error + reason + statement that raises).
Binding (spec -> code): every printed body is rendered as a @guppy.comptime function, compiled with
/repo's guppylang and validated; required: GuppyError/GuppyComptimeError <=> verdict error, successes
validate, nothing crashes.
"""
import json
import os
import random
import re

import lib

ACTIONS = ("Use", "Borrow", "UseTup", "Mut", "SetAttr", "Finish")
MUTATORS = ["append", "extend", "insert", "pop", "popuse", "remove", "clear", "sort", "reverse", "setitem",
            "setalias", "delitem", "iadd", "imul1", "imul2", "reinit"]


def emit_cases(ctx, cfg, simulate=0, depth=None):
    kw = dict(timeout=2400)
    if simulate:
        kw.update(simulate=f"num={simulate}", depth=depth, seed=ctx.seed or 1, allow_error=True)
    else:
        kw.update(coverage=True)
    r = ctx.tlc("ComptimeOwn", cfg, **kw)
    if not r.ok and not simulate:
        raise lib.Machinery(f"{cfg}: the ownership mechanism of the model violates the property:\n" + r.error)
    if simulate and ("Invariant" in r.error or "rror:" in r.error):
        raise lib.Machinery(f"{cfg} (simulation) failed:\n" + r.error)
    if not simulate:
        acts = {k: v for k, v in r.coverage.items() if k in ACTIONS}
        dead = [k for k in ACTIONS if acts.get(k, (0, 0))[1] == 0]
        if dead:
            raise lib.Machinery(f"ComptimeOwn.tla: actions never taken (vacuous model): {dead}")
        ctx.coverage.setdefault("tlc_action_coverage", {})[cfg] = acts
    if simulate:
        m = re.search(r"The number of states generated: (\d+)", r.out)
        if m:  # simulation mode does not print the model-checking summary lib.tlc parses
            ctx.states += int(m.group(1))
            ctx.transitions += int(m.group(1))
            ctx.coverage["tlc_runs"][-1]["generated"] = int(m.group(1))
    cases = [p for p in r.printed if isinstance(p, dict) and "verdict" in p]
    if not cases:
        raise lib.Machinery(f"{cfg}: no cases emitted\n" + r.out[-1500:])
    return cases


def case_id(c):
    return json.dumps([c["ty"], c["origin"], c["prog"], c["ret"]], sort_keys=True)


def dedupe(cases):
    seen, out = set(), []
    for c in cases:
        k = case_id(c)
        if k not in seen:
            seen.add(k)
            out.append(c)
    return out


LEAF_TYPES = ("Q", "I", "F", "O")       # subjects that stay ONE traced object
AFFINE_SINGLE = ("F", "O")             # ... non-copyable but droppable


def compile_order(cases, seed):
    """Priority order for a time budget: first every body over a single-object subject (few, and the only ones
    that can use an affine object twice), then round-robin over strata (type, origin, set of statement kinds)
    with a seeded shuffle inside each stratum, so whatever prefix gets compiled exercises every mutator on
    every origin and type."""
    rnd = random.Random(seed)
    first = [i for i, c in enumerate(cases) if c["ty"] in LEAF_TYPES]
    rnd.shuffle(first)
    strata = {}
    for i, c in enumerate(cases):
        if c["ty"] not in LEAF_TYPES:
            strata.setdefault((c["ty"], c["origin"], tuple(sorted({st["op"] for st in c["prog"]}))), []).append(i)
    groups = [strata[k] for k in sorted(strata)]
    for g in groups:
        rnd.shuffle(g)
    rnd.shuffle(groups)
    rest = [g[k] for k in range(max(map(len, groups), default=0)) for g in groups if k < len(g)]
    return first + rest, len(first)


def compile_all(ctx, cases, budget_s):
    """Compile cases with /repo on the worker pool, in compile_order, batch after batch until everything is done
    or budget_s is used up (then the remainder is left out - reported in coverage)."""
    import time

    import own_lib
    import pool

    def go(idx):
        n = max(1, min(len(idx), 16 * 4))
        chunks = [idx[k::n] for k in range(n)]
        res = pool.map_jobs(own_lib.run_chunk, [[cases[i] for i in ch] for ch in chunks], chunksize=1)
        for ch, rs in zip(chunks, res):
            for i, r in zip(ch, rs):
                out[i] = r

    out = [None] * len(cases)
    order, nfirst = compile_order(cases, ctx.seed)
    t0 = time.time()
    pos, batch = 0, max(300, nfirst)
    while pos < len(order):
        tb = time.time()
        nxt = order[pos:pos + batch]
        go(nxt)
        pos += len(nxt)
        rate = len(nxt) / max(time.time() - tb, 1e-3)
        remaining = budget_s - (time.time() - t0)
        if pos < len(order) and remaining <= 0:
            ctx.log(f"compile budget of {budget_s}s used up after {pos} of {len(order)} bodies ({rate:.0f}/s)")
            break
        batch = max(100, min(2 * len(nxt), int(rate * remaining)))
    done = [i for i in order[:pos]]
    return [cases[i] for i in done], [out[i] for i in done]


def vacuity_guard(cases):
    """The compiled set must contain what the affine single-object class is about."""
    need = {f"{t}: second use of the object (spec: reuse error)":
            any(c["ty"] == t and c["reason"] == "reuse" for c in cases) for t in AFFINE_SINGLE}
    need.update({f"{t}: dropped unused and accepted":
                 any(c["ty"] == t and c["origin"] != "borrowed" and not c["prog"] and c["ret"] == [0] and c["verdict"] == "ok"
                     for c in cases) for t in AFFINE_SINGLE})
    need["Q: dropped unused is a leak"] = any(c["ty"] == "Q" and not c["prog"] and c["reason"] == "leak" for c in cases)
    need["return x, x"] = any(c["ret"] == [9] for c in cases)
    need["moved into a tuple then used"] = any(
        [s["op"] for s in c["prog"]][:2] == ["usewith", "use"] and c["ty"] in AFFINE_SINGLE for c in cases)
    missing = [k for k, v in need.items() if not v]
    if missing:
        raise lib.Machinery(f"vacuous: no compiled body for {missing}")
    return sorted(need)


def op_at(c, k):
    return c["prog"][k - 1]["op"] if 0 < k <= len(c["prog"]) else "finish"


def judge(c, r):
    """-> None or (key, what).  Keys name the mechanism, not the body:
    unenforced:<reason>:<statement kind>:<origin>  the specification's error is not raised (or only later)
    spurious:<reason>:<statement kind>:<origin>    /repo raises an ownership error the specification does not
                                                   have (or raises it earlier)
    crash:<exception class>:... / invalid:...      neither a Guppy error nor a valid HUGR"""
    spec, st = c["verdict"], r["status"]
    where = f"{c['ty']}/{c['origin']}"
    say = lambda k: f"raised by statement {k} of the body ({op_at(c, k)})" if k else "reported when the function returns"
    if st in ("crash", "machinery", "syntax"):
        cls = r.get("error", {}).get("class", "?")
        return (f"crash:{cls}:{op_at(c, r.get('impl_at') or 0)}:{c['origin']}",
                f"body for {where} does not end in a Guppy error or a HUGR but in {cls}: "
                f"{r.get('error', {}).get('msg', '')[:200]} (specification: {spec}/{c['reason']})")
    if st == "invalid":
        return (f"invalid:{c['reason']}:{op_at(c, c['at'])}:{c['origin']}",
                f"body for {where} compiles to an INVALID HUGR: {r.get('error', {}).get('msg', '')[:300]} "
                f"(specification: {spec}/{c['reason']})")
    if spec == "error" and st == "ok":
        return (f"unenforced:{c['reason']}:{op_at(c, c['at'])}:{c['origin']}",
                f"ownership violation accepted: specification says {c['reason']} error {say(c['at'])} for {where}; "
                f"/repo compiled the body to a HUGR")
    if spec == "error" and st == "rejected" and c["at"] != r.get("impl_at"):
        ia = r.get("impl_at") or 0
        later = c["at"] > 0 and (ia == 0 or ia > c["at"])
        if later:
            return (f"unenforced:{c['reason']}:{op_at(c, c['at'])}:{c['origin']}",
                    f"ownership error for {where} not raised where the specification says: specification: "
                    f"{c['reason']} error {say(c['at'])}; /repo lets that statement pass and has a "
                    f"{r.get('impl_reason')} error {say(ia)} ({r.get('error', {}).get('class')})")
        return (f"spurious:{r.get('impl_reason')}:{op_at(c, ia)}:{c['origin']}",
                f"ownership error for {where} raised too early: /repo: {r.get('impl_reason')} error {say(ia)} "
                f"({r.get('error', {}).get('class')}); specification: {c['reason']} error {say(c['at'])}")
    if spec == "ok" and st == "rejected":
        ia = r.get("impl_at") or 0
        return (f"spurious:{r.get('impl_reason')}:{op_at(c, ia)}:{c['origin']}",
                f"body without ownership violation rejected for {where}: {r.get('error', {}).get('class')} {say(ia)}: "
                f"{(r.get('error', {}).get('msg') or r.get('error', {}).get('title') or '')[:200]}")
    return None


def evaluate(ctx, cases, results):
    viol = {}
    agree_reason = 0
    nerr = 0
    reason_diff = {}
    for c, r in zip(cases, results):
        v = judge(c, r)
        if v:
            viol.setdefault(v[0], []).append({"case": c, "result": {k: r.get(k) for k in ("status", "error", "src", "impl_reason")},
                                              "what": v[1]})
        elif c["verdict"] == "error":
            nerr += 1
            if r.get("impl_reason") == c["reason"]:
                agree_reason += 1
            else:
                reason_diff.setdefault(f"{c['reason']}->{r.get('impl_reason')}", []).append(r["src"])
    return viol, {"error_cases_agreeing": nerr, "error_reason_agrees": agree_reason,
                  "error_reason_differs": {k: len(v) for k, v in reason_diff.items()},
                  "error_reason_differs_sample": {k: v[0] for k, v in reason_diff.items()}}


def report(ctx, viol):
    for key, cs in sorted(viol.items()):
        first = min(cs, key=lambda x: (x["result"]["status"] != "ok", len(x["case"]["prog"]), len(x["result"]["src"])))
        ctx.violation(key, f"{key}: {len(cs)} bodies; {first['what']}; smallest:\n{first['result']['src']}",
                      {"case": first["case"], "src": first["result"]["src"], "count": len(cs)})


def nontrivial(c):
    return len(c["prog"]) >= 2 or (len(c["prog"]) == 1 and c["ret"] != [0])


def run(ctx):
    ctx.level = "model_checking"
    cases = emit_cases(ctx, os.environ.get("VERIF_C22_CFG") or ctx.pick("ComptimeOwn_Q.cfg", "ComptimeOwn_T.cfg"))
    n_exh = len(cases)
    n_sim = 0
    if not ctx.quick and not os.environ.get("VERIF_C22_CFG"):
        sim = emit_cases(ctx, "ComptimeOwn_Sim.cfg", simulate=1500, depth=8)  # num is per worker
        n_sim = len(sim)
        cases = cases + sim
    cases = dedupe(cases)
    n_emitted = len(cases)
    ctx.log(f"{n_emitted} distinct bodies ({n_exh} exhaustive, {n_sim} simulated)")
    cases, results = compile_all(ctx, cases, int(os.environ.get("VERIF_C22_BUDGET") or ctx.pick(150, 1200)))
    ctx.log(f"compiled {len(cases)}")
    guards = [] if os.environ.get("VERIF_C22_CFG") else vacuity_guard(cases)
    viol, stats = evaluate(ctx, cases, results)
    report(ctx, viol)
    rnd = random.Random(ctx.seed)
    by_verdict = {}
    for c in cases:
        k = c["verdict"] if c["verdict"] == "ok" else "error:" + c["reason"]
        by_verdict[k] = by_verdict.get(k, 0) + 1
    muts = {m: sum(1 for c in cases if any(s["op"] == m for s in c["prog"])) for m in MUTATORS + ["setattr_same", "setattr_fresh", "setattr_alias"]}
    if min(muts.values()) == 0 and not os.environ.get("VERIF_C22_CFG"):
        raise lib.Machinery(f"some mutator never occurs in an emitted body: {muts}")
    ctx.coverage.update({
        "traces_validated_against_impl": len(cases),
        "evaluations": len(cases),
        "distinct_nontrivial": sum(1 for c in cases if nontrivial(c)),
        "rule": "body = <= N statements (use / pass borrowed / every mutating list method / struct attribute "
                "assignment, on the subject or a component) + return of subject, first component or nothing, over "
                "10 subject types x {owned, borrowed, local}; non-trivial = >= 2 statements, or 1 statement and a return",
        "samples": [own_render(c) for c in rnd.sample(cases, min(4, len(cases)))],
        "exhaustive": len(cases) == n_emitted,
        "bodies_emitted_by_tlc": n_emitted,
        "exhaustive_bodies": n_exh, "simulated_bodies": n_sim,
        "spec_verdicts": by_verdict,
        "bodies_per_mutator": muts,
        "vacuity_guards_met": guards,
        "bodies_over_affine_single_object": sum(1 for c in cases if c["ty"] in AFFINE_SINGLE),
        "affine_single_object_reuse_bodies": sum(1 for c in cases if c["ty"] in AFFINE_SINGLE and c["reason"] == "reuse"),
        "impl_status": {s: sum(1 for r in results if r["status"] == s) for s in {r["status"] for r in results}},
        **stats,
        "violation_keys": {k: len(v) for k, v in viol.items()},
    })
    ctx.assumptions += [
        "TLC", "hugr-core validator (gp.validate) for accepted bodies",
        "rendering of a spec case as Python source (harness/own_lib.py); helper functions are @guppy.declare "
        "stubs with @owned / borrowed parameters, generic in the array length",
        "error reasons are compared for information only (coverage.error_reason_*); the verdict binds",
    ]


def own_render(c):
    import own_lib

    return {"src": own_lib.render(c), "verdict": c["verdict"], "reason": c["reason"]}


def replay(ctx, data):
    import own_lib

    c = data["replay"]["case"]
    r = own_lib.run_case(c)
    print(r["src"])
    print("spec:", c["verdict"], c["reason"])
    print("code:", r["status"], r.get("error"), r.get("impl_reason"))
    v = judge(c, r)
    if v:
        ctx.violation(v[0], v[1], {"case": c, "src": r["src"], "count": 1})


def selftest(ctx):
    cases = dedupe(emit_cases(ctx, "ComptimeOwn_Q.cfg"))
    rnd = random.Random(11)
    # keep it small: a stratified sample over verdict classes
    groups = {}
    for c in cases:
        groups.setdefault((c["verdict"], c["reason"]), []).append(c)
    sample = []
    for g in groups.values():
        sample += rnd.sample(g, min(40, len(g)))
    sample, results = compile_all(ctx, sample, 3600)
    base, _ = evaluate(ctx, sample, results)
    base_ids = {case_id(x["case"]) for v in base.values() for x in v}
    # 1. flip the expected verdict of cases the check currently accepts -> must be flagged
    flipped = 0
    for (verdict, reason), g in groups.items():
        c = next((c for c in sample if c["verdict"] == verdict and c["reason"] == reason and case_id(c) not in base_ids), None)
        if c is None:
            continue
        i = sample.index(c)
        c2 = dict(c)
        if verdict == "ok":
            c2.update(verdict="error", reason="leak")
        else:
            c2.update(verdict="ok", reason="-")
            # ... and move the place where the error is expected
            c3 = dict(c, at=0 if c["at"] else 1)
            if judge(c3, results[i]) is None:
                raise lib.Machinery(f"selftest: moved error position of a {reason} case was accepted:\n{results[i]['src']}")
        if judge(c2, results[i]) is None:
            raise lib.Machinery(f"selftest: flipped verdict of a {verdict}/{reason} case was accepted:\n{results[i]['src']}")
        flipped += 1
    if flipped < 4:
        raise lib.Machinery(f"selftest: only {flipped} verdict classes could be flipped")
    # 2. corrupt the observation: pretend an accepted body was rejected / crashed / invalid
    ok_i = next(i for i, c in enumerate(sample) if c["verdict"] == "ok" and results[i]["status"] == "ok")
    for st in ("rejected", "crash", "invalid"):
        r2 = dict(results[ok_i], status=st, error={"class": "X", "msg": "x"})
        if judge(sample[ok_i], r2) is None:
            raise lib.Machinery(f"selftest: observation corrupted to {st} was accepted")
    # 3. replay a body with one statement dropped against the original verdict: a dropped consuming `use` of a
    #    leak-free body must be flagged, the unmodified body must not
    import own_lib

    c = next((c for c in cases if c["verdict"] == "ok" and c["origin"] == "owned" and c["ty"] == "Q"
              and [s["op"] for s in c["prog"]] == ["use"] and c["ret"] == [0]), None)
    if c is None:
        raise lib.Machinery("selftest: no suitable case for the dropped-statement test")
    if judge(c, own_lib.run_case(c)) is not None:
        raise lib.Machinery("selftest: the reference body for the dropped-statement test is itself flagged")
    if judge(c, own_lib.run_case(dict(c, prog=[]))) is None:
        raise lib.Machinery("selftest: a body with its consuming statement dropped still matched verdict ok")
    # 4. the affine single-object class: a second use of an Option / opaque affine object is expected to be an
    #    error at the second use; pretending the spec allowed it (what a droppability-keyed check would do) is flagged
    for t in AFFINE_SINGLE:
        for ops, ret in ((["use", "use"], [0]), (["usepair"], [0]), ([], [9]), (["usewith", "use"], [0])):
            c = next((c for c in cases if c["ty"] == t and c["origin"] == "local"
                      and [s["op"] for s in c["prog"]] == ops and c["ret"] == ret), None)
            if c is None or c["reason"] != "reuse":
                raise lib.Machinery(f"selftest: spec has no reuse error for {t} {ops} ret={ret}: {c}")
            r = own_lib.run_case(c)
            if judge(c, r) is not None:
                raise lib.Machinery(f"selftest: reference body {t} {ops} is itself flagged: {judge(c, r)}")
            if judge(dict(c, verdict="ok", reason="-", at=0), r) is None:
                raise lib.Machinery(f"selftest: allowing the second use of {t} {ops} was accepted")
            if judge(c, dict(r, status="ok")) is None:
                raise lib.Machinery(f"selftest: a compiled HUGR for the second use of {t} {ops} was accepted")


if __name__ == "__main__":
    lib.main("C22", run, replay, selftest)
