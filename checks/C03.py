"""C03 Classical control and data flow behave as in Python.

Oracle: spec/GuppySem.tla (CEK machine for the Python fragment Guppy accepts).  Seeded
well-typed programs over the fragment are (1) run under CPython -> event stream, validated
against the machine (guard: spec = Python), (2) compiled from /repo, executed by the
reference interpreter under three node schedules (creation order, reverse, random), and each
event stream is validated by TLC (GuppySem_Trace) event by event, with termination kind and
return value.  Every accepted program's HUGR is also validated (feeds C01).
"""
import collections
import json

import lib
import sem
import sem_gen

FIXED = {
    "swap_across_blocks": """
@guppy
def main(a: int, b: int, p: bool) -> int:
    x = a
    y = b
    if p:
        x, y = y, x
    k = 0
    while k < 3:
        k += 1
        x, y = y, x + 1
        if x > 4:
            break
    result("x", x)
    result("y", y)
    return x - y
""",
    "nested_break_continue": """
@guppy
def main(a: int, b: int, p: bool) -> int:
    s = 0
    for i in range(4):
        for j in range(3):
            if j == i:
                continue
            if i + j > 4:
                break
            s += i * 3 + j
        result("s", s)
    return s
""",
    "early_return_in_loop": """
@guppy
def f(n: int) -> int:
    i = 0
    while True:
        if i * i >= n:
            return i
        i += 1

@guppy
def main(a: int, b: int, p: bool) -> int:
    result("f", f(a + 7))
    return f(b + 20)
""",
    "unreachable_code": """
@guppy
def main(a: int, b: int, p: bool) -> int:
    x = a
    if p:
        return x + 1
        x = 100
        result("never", x)
    while False:
        x = 200
    result("x", x)
    return x
""",
    "array_loop": """
@guppy
def main(a: int, b: int, p: bool) -> int:
    xs = array(a, b, 3, 4)
    t = 0
    for v in xs.copy():
        t += v
    i = 0
    while i < 4:
        xs[i] = xs[i] * 2 + i
        i += 1
    result("xs", xs)
    result("t", t)
    return t
""",
    "struct_methods_in_loop": """
@guppy.struct
class Acc:
    tot: int
    cnt: int

    @guppy
    def add(self: "Acc", d: int) -> "Acc":
        return Acc(self.tot + d, self.cnt + 1)

    @guppy
    def mean(self: "Acc") -> int:
        if self.cnt == 0:
            return 0
        return self.tot // self.cnt

    @guppy
    def __add__(self: "Acc", other: "Acc") -> "Acc":
        return Acc(self.tot + other.tot, self.cnt + other.cnt)

@guppy
def main(a: int, b: int, p: bool) -> int:
    acc = Acc(0, 0)
    k = 0
    while k < 4:
        if p and k == 2:
            acc = acc + Acc(b, 2)
        else:
            acc = acc.add(a + k)
        k += 1
    result("tot", acc.tot)
    result("cnt", acc.cnt)
    return acc.mean()
""",
    "rotation_and_comprehension": """
@guppy
def sq(v: int) -> int:
    return v * v

@guppy
def main(a: int, b: int, p: bool) -> int:
    u, v, w = a, b, 7
    for i in range(3):
        u, v, w = v, w, u
        if p:
            u, v = v, u
    xs = array(sq(i) + u for i in range(4))
    ys = array(xs[3 - i] - v for i in range(4))
    result("xs", xs)
    result("ys", ys)
    tot = 0
    for e in ys:
        tot += e
    return tot + w
""",
    "struct_array_field_updates": """
@guppy.struct
class Box:
    cells: array[int, 3]
    tag: int

@guppy
def poke(bx: Box, i: int, d: int) -> None:
    bx.cells[i] += d

@guppy
def main(a: int, b: int, p: bool) -> int:
    bx = Box(array(a, b, 1), 5)
    k = 0
    while k < 5:
        poke(bx, k % 3, k)
        if p and k == 3:
            break
        k += 1
    result("cells", bx.cells)
    return bx.tag + k
""",
}


def run(ctx):
    n = ctx.pick(150, 3000)
    nargs = ctx.pick(3, 6)
    cases = sem_gen.programs(ctx.seed, n, nargs=nargs, effects=0.0)
    for k, src in FIXED.items():
        cases.append({"id": k, "src": src, "entry": "main", "args": sem_gen.ARGS[:nargs]})
    res = sem.evaluate(ctx, cases, "C03")
    cnt = collections.Counter()
    validated = 0
    samples = []
    for c, r in zip(cases, res):
        kind, d = sem.classify(r)
        cnt[kind] += 1
        if kind == "ok":
            validated += sum(len(v["impl"]) for v in r["verdicts"])
            if len(samples) < 2:
                samples.append({"src": c["src"][c["src"].index("def main"):], "args": c["args"][0],
                                "events": r["py"]["runs"][0].get("trace")})
        elif kind == "mismatch":
            ctx.violation(f"program:{lib.sha(c['src'])}", f"compiled program's event stream differs from Python/GuppySem: {json.dumps(d)[:500]}\n{c['src'][-900:]}",
                          {"case": c, "detail": d})
        elif kind in ("spec-vs-python",):
            raise lib.Machinery(f"GuppySem disagrees with CPython on {c['id']}: {json.dumps(d)[:600]}\n{c['src']}")
        elif kind in ("unmodelled", "interp"):
            raise lib.Machinery(f"{kind} on {c['id']}: {json.dumps(d)[:600]}\n{c['src']}")
        elif kind in ("crash", "invalid"):
            ctx.violation(f"{kind}:{(d or {}).get('class')}:{lib.sha(c['src'])}", f"accepted classical program {kind}: {json.dumps(d)[:600]}\n{c['src'][-900:]}",
                          {"case": c, "detail": d})
        elif kind == "rejected":
            # the generator produces well-typed programs; a rejection is looked at by hand once: report as machinery
            raise lib.Machinery(f"generator produced a program /repo rejects ({c['id']}): {json.dumps(d)[:400]}\n{c['src']}")
    nontrivial = sum(1 for c, r in zip(cases, res) if sem.classify(r)[0] == "ok" and
                     any(w in c["src"] for w in ("while", "for ")) and "if " in c["src"])
    ctx.coverage.update({
        "programs": len(cases), "traces_validated_against_impl": validated,
        "evaluations": len(cases) * nargs, "distinct_nontrivial": nontrivial,
        "rule": "seeded well-typed programs over the C03 fragment (sem_gen) x argument tuples x 3 node schedules; "
                "non-trivial = accepted, contains a loop and a branch",
        "samples": samples, "outcomes": dict(cnt), "exhaustive": False,
    })
    ctx.assumptions += ["reference HUGR interpreter", "TLC", "py2json projection of the source", "values kept below 2^30; floats multiples of 0.25"]


def replay(ctx, data):
    c = data["replay"]["case"]
    r = sem.evaluate(ctx, [c], "replay")[0]
    print(sem.classify(r))
    print(json.dumps(r["verdicts"], indent=1)[:3000])


def selftest(ctx):
    c = {"id": "self", "src": FIXED["swap_across_blocks"], "entry": "main", "args": sem_gen.ARGS[:2]}
    # corrupt the compiled side by compiling a *different* text (x+1 -> x+2): must be flagged
    bad = dict(c, id="bad", impl_src=c["src"].replace("x + 1", "x + 2"))
    drop = dict(c, id="drop", impl_src=c["src"].replace('    result("y", y)\n', ""))
    rs = sem.evaluate(ctx, [c, bad, drop], "self")
    k = [sem.classify(r)[0] for r in rs]
    if k != ["ok", "mismatch", "mismatch"]:
        raise lib.Machinery(f"selftest expected ok/mismatch/mismatch, got {k}")


if __name__ == "__main__":
    lib.main("C03", run, replay, selftest)
