"""C05 Side effects happen once each, in Python's evaluation order.

Oracle: spec/GuppySem.tla - the machine evaluates operands left to right, arguments before
the call, short-circuits `and`/`or`/conditional expressions/chained comparisons (middle
operands evaluated once: frame "cmp2" reuses the VALUE), and stops at a panic
(action property NothingAfterPanic).  Every user function reports its argument with
result(), so each evaluation is an observable event; the event stream of the compiled
program (reference interpreter, several node schedules so that missing order edges show)
must be accepted by TLC against the machine, event for event.

Expression shapes are enumerated systematically (all shapes to depth 1, then depth 2, with an
effectful call in every operand position), embedded in statement contexts
(result argument, assignment, if/while condition, call argument, return).
"""
import collections
import itertools
import json
import random

import lib
import sem

HEADER = """
@guppy.struct
class Cn:
    c: int

    @guppy
    def __neg__(self: "Cn") -> "Cn":
        result("neg", self.c)
        return Cn(0 - self.c - 1)

    @guppy
    def __add__(self: "Cn", other: int) -> "Cn":
        result("add", other)
        return Cn(self.c + other * 2)

    @guppy
    def bump(self: "Cn", d: int) -> int:
        result("bump", d)
        return self.c + d

@guppy
def h0(v: int) -> int:
    result("h0", v)
    return v * 2 + 1

@guppy
def h1(v: int, q: bool) -> int:
    result("h1", v)
    if q:
        return v - 3
    return 0 - v

@guppy
def hb(v: int) -> bool:
    result("hb", v)
    return v % 2 == 0

@guppy
def pn(v: int) -> int:
    result("pn", v)
    if v > -100:
        panic("boom")
    return v

@guppy
def pb(v: int) -> bool:
    result("pb", v)
    if v > -100:
        panic("boom")
    return True
"""

# templates: {I} int operand slot, {B} bool operand slot
INT_FORMS = ["({I} + {I})", "({I} // 3 + {I})", "({I} - {I} * {I})", "({I} if {B} else {I})", "h1({I}, {B})", "array({I}, {I})[{I} % 2]",
             "((w := {I}) + {I} + w)", "(-{I})", "h0({I})", "h1({I} + {I}, {B} and {B})",
             # a variable read before a later `:=` rebinds it in the same expression (defect repaired in b0ab4a7)
             "((w := {I}) + w + (w := {I}) + w)",
             # two operands that are built early, the first with a call outside its hoisted part (seeded C05_m_n)
             "(((w := {I}) + h0(70)) * ((h0(80) if {B} else 9) + {I}))",
             # user-defined operators and methods: receiver, then arguments, then the call (once)
             "(Cn({I}) + {I}).c", "Cn({I}).bump({I})", "(-Cn({I})).c", "(Cn(h0(60)) + ({I} if {B} else 2)).bump({I})"]
BOOL_FORMS = ["{I} < {I}", "{I} < {I} < {I}", "{I} <= {I} < {I} <= {I}", "({B} and {B})", "({B} or {B})",
              "({B} and {B} or {B})", "(not {B})", "({B} if {B} else {B})", "hb({I})", "{I} == {I}",
              "({B} and {I} < {I} < {I})"]
INT_ATOMS = ["h0({k})", "a", "{k}", "xs[a]"]     # xs[a] panics (index out of bounds) for some inputs
BOOL_ATOMS = ["hb({k})", "p", "hb({k} + 1)"]


def expand(kind, depth, rng, limit):
    """All expressions of `kind` ('I'|'B') of nesting depth <= depth (as templates with {k} counters);
    beyond `limit` alternatives per slot combination, sample."""
    if depth == 0:
        return list(INT_ATOMS if kind == "I" else BOOL_ATOMS)
    out = list(expand(kind, 0, rng, limit))
    forms = INT_FORMS if kind == "I" else BOOL_FORMS
    subs = {"I": expand("I", depth - 1, rng, limit), "B": expand("B", depth - 1, rng, limit)}
    for f in forms:
        slots = [s for s in _slots(f)]
        choices = [subs[s] for s in slots]
        total = 1
        for c in choices:
            total *= len(c)
        if total <= limit:
            combos = itertools.product(*choices)
        else:
            combos = (tuple(rng.choice(c) for c in choices) for _ in range(limit))
        for combo in combos:
            out.append(_fill(f, combo))
    return out


def _slots(f):
    i = 0
    while i < len(f):
        if f.startswith("{I}", i) or f.startswith("{B}", i):
            yield f[i + 1]
            i += 3
        else:
            i += 1


def _fill(f, combo):
    out, i, j = "", 0, 0
    while i < len(f):
        if f.startswith("{I}", i) or f.startswith("{B}", i):
            out += combo[j]
            j += 1
            i += 3
        else:
            out += f[i]
            i += 1
    return out


def number(t):
    """Give every {k} a distinct small constant so each call is identifiable."""
    out, n = "", 0
    i = 0
    while i < len(t):
        if t.startswith("{k}", i):
            n += 1
            out += str(n)
            i += 3
        else:
            out += t[i]
            i += 1
    return out, n


CONTEXTS_I = ["result(\"r\", {E})", "x = {E}\n    result(\"x\", x)", "x = h1({E}, p)\n    result(\"x\", x)",
              "if {E} > 2:\n        result(\"t\", 1)\n    else:\n        result(\"f\", 0)", "return {E}"]
CONTEXTS_B = ["if {E}:\n        result(\"t\", 1)\n    else:\n        result(\"f\", 0)",
              "q = {E}\n    result(\"q\", q)",
              "k = 0\n    while k < 2 and {E}:\n        k += 1\n    result(\"k\", k)",
              "result(\"r\", h1(7, {E}))"]

SCHEDS = ["min", "max", "rand:1", "rand:2"]
ARGS = [[["int", 0], ["int", 1], ["bool", 1]], [["int", 3], ["int", -2], ["bool", 0]], [["int", -4], ["int", 5], ["bool", 1]]]


def make_case(idx, kind, templ, ctxi, panic_at=None):
    e, n = number(templ)
    if panic_at is not None:
        # replace the panic_at-th effectful call by its panicking twin
        calls = [i for i in range(len(e)) if e.startswith("h0(", i) or e.startswith("hb(", i)]
        if not calls:
            return None
        i = calls[panic_at % len(calls)]
        e = e[:i] + ("pn(" if e.startswith("h0(", i) else "pb(") + e[i + 3:]
    ctxs = CONTEXTS_I if kind == "I" else CONTEXTS_B
    ctx = ctxs[ctxi % len(ctxs)]
    body = ctx.replace("{E}", e)
    src = HEADER + f"\n@guppy\ndef main(a: int, b: int, p: bool) -> int:\n    xs = array(10, 20, 30)\n    {body}\n    return 0\n"
    return {"id": f"{kind}{idx}", "src": src, "entry": "main", "args": ARGS, "shape": templ, "expr": e,
            "scheds": SCHEDS}


def _fallible_operand_before_built_early(expr: str) -> bool:
    """Call-site class of a recorded finding: a call-free operand that can panic (`xs[a]`) is an operand of a
    call / arithmetic / tuple node (not of a comparison chain) and a LATER operand of the same node contains a
    conditional, short-circuit, chained-comparison or walrus expression, which the CFG builder evaluates first."""
    import ast as _ast

    def built_early(n):
        return any(isinstance(x, (_ast.IfExp, _ast.BoolOp, _ast.NamedExpr)) or
                   (isinstance(x, _ast.Compare) and len(x.comparators) > 1) for x in _ast.walk(n))

    def fallible_no_call(n):
        return any(isinstance(x, _ast.Subscript) for x in _ast.walk(n)) and not any(isinstance(x, _ast.Call) for x in _ast.walk(n))

    tree = _ast.parse(expr, mode="eval")
    for node in _ast.walk(tree):
        if isinstance(node, _ast.Compare) and len(node.comparators) > 1:
            continue   # chains are rewritten by BranchBuilder.visit_Compare, which binds the leftmost operand
        ops = [c for c in _ast.iter_child_nodes(node) if isinstance(c, _ast.expr)]
        for i, o in enumerate(ops):
            if fallible_no_call(o) and any(built_early(l) for l in ops[i + 1:]):
                return True
    return False


def build_cases(ctx):
    rng = random.Random(ctx.seed)
    cases = []
    d1 = {"I": expand("I", 1, rng, 10**9), "B": expand("B", 1, rng, 10**9)}
    d2 = {"I": expand("I", 2, rng, ctx.pick(6, 60)), "B": expand("B", 2, rng, ctx.pick(6, 60))}
    idx = 0
    for kind in ("I", "B"):
        shapes = list(dict.fromkeys(d1[kind]))
        extra = [s for s in dict.fromkeys(d2[kind]) if s not in set(shapes)]
        rng.shuffle(extra)
        extra = extra[: ctx.pick(60, 6000)]
        nctx = len(CONTEXTS_I if kind == "I" else CONTEXTS_B)
        for si, t in enumerate(shapes):
            for ci in (range(nctx) if not ctx.quick else [si % nctx]):
                cases.append(make_case(idx, kind, t, ci))
                idx += 1
            for pa in range(ctx.pick(1, 2)):
                c = make_case(idx, kind, t, rng.randint(0, 5), panic_at=pa)
                idx += 1
                if c:
                    cases.append(c)
        for t in extra:
            cases.append(make_case(idx, kind, t, rng.randint(0, 5)))
            idx += 1
            if rng.random() < 0.5:
                c = make_case(idx, kind, t, rng.randint(0, 5), panic_at=rng.randint(0, 5))
                idx += 1
                if c:
                    cases.append(c)
    return [c for c in cases if c]


def run(ctx):
    global SCHEDS
    if ctx.quick:
        SCHEDS = ["min", "max", "rand:1"]
    cases = build_cases(ctx)
    res = sem.evaluate(ctx, cases, "C05")
    cnt = collections.Counter()
    validated = 0
    nontriv = set()
    samples = []
    for c, r in zip(cases, res):
        kind, d = sem.classify(r)
        cnt[kind] += 1
        if kind == "ok":
            validated += sum(len(v["impl"]) for v in r["verdicts"])
            if c["expr"].count("h0(") + c["expr"].count("hb(") + c["expr"].count("pn(") + c["expr"].count("pb(") + c["expr"].count("h1(") >= 2:
                nontriv.add(c["shape"])
            if len(samples) < 3 and len(c["expr"]) > 25:
                samples.append({"expr": c["expr"], "args": c["args"][0], "events": r["py"]["runs"][0].get("trace")})
        elif kind == "mismatch":
            # call-site class of the finding: subscripting a value that is not a place (`array(..)[i]`)
            # compiles the index before the subscripted value (visit_SubscriptAccessAndDrop)
            if ")[" in c["expr"]:
                key = "site:subscript-of-rvalue:index-before-value"
            elif _fallible_operand_before_built_early(c["expr"]) and d.get("got", [None])[0] == "panic":
                key = "site:fallible-subscript-operand-before-built-early-operand"
            else:
                key = f"shape:{c['shape']}"
            ctx.violation(key, f"evaluation order/count differs from Python for `{c['expr']}`: {json.dumps(d)[:500]}",
                          {"case": c, "detail": d})
        elif kind == "spec-vs-python":
            raise lib.Machinery(f"GuppySem disagrees with CPython on `{c['expr']}`: {json.dumps(d)[:600]}")
        elif kind in ("unmodelled", "interp"):
            raise lib.Machinery(f"{kind} on `{c['expr']}`: {json.dumps(d)[:600]}")
        elif kind in ("crash", "invalid"):
            ctx.violation(f"{kind}:{c['shape']}", f"`{c['expr']}` {kind}: {json.dumps(d)[:600]}", {"case": c, "detail": d})
        elif kind == "rejected":
            # e.g. walrus/array forms Guppy does not type: not a C05 matter; count, but too many means the generator is off
            pass
    if cnt["rejected"] > len(cases) // 5:
        rej = next((c, r) for c, r in zip(cases, res) if sem.classify(r)[0] == "rejected")
        raise lib.Machinery(f"{cnt['rejected']} of {len(cases)} shapes rejected by /repo, e.g. `{rej[0]['expr']}`: {rej[1]['impl'].get('error')}")
    ctx.coverage.update({
        "programs": len(cases), "traces_validated_against_impl": validated,
        "evaluations": len(cases) * len(ARGS) * len(SCHEDS), "distinct_nontrivial": len(nontriv),
        "rule": "expression shapes: every form x every atom per slot to depth 1 in every statement context, sampled depth 2, "
                "plus a panicking call in sampled positions; x 3 argument tuples x 4 node schedules; "
                "non-trivial = accepted shape with >= 2 effectful calls (distinct shapes counted)",
        "samples": samples, "outcomes": dict(cnt), "exhaustive": False,
    })
    ctx.assumptions += ["reference HUGR interpreter (node schedules: min/max/2 random)", "TLC", "py2json projection"]


def replay(ctx, data):
    c = data["replay"]["case"]
    r = sem.evaluate(ctx, [c], "replay")[0]
    print(c["expr"])
    print(sem.classify(r))
    print(json.dumps(r["verdicts"], indent=1)[:3000])


def selftest(ctx):
    good = make_case(0, "B", "h0({k}) < h0({k}) < h0({k})", 0)
    # compiled text evaluates the middle operand twice / swaps operand order: must be flagged
    twice = dict(good, id="twice", impl_src=good["src"].replace("h0(1) < h0(2) < h0(3)", "h0(1) < h0(2) and h0(2) < h0(3)"))
    swap = dict(make_case(1, "I", "(h0({k}) + h0({k}))", 0), id="swap")
    swap["impl_src"] = swap["src"].replace("(h0(1) + h0(2))", "(h0(2) + h0(1))")
    rs = sem.evaluate(ctx, [good, twice, swap], "self")
    k = [sem.classify(r)[0] for r in rs]
    if k != ["ok", "mismatch", "mismatch"]:
        raise lib.Machinery(f"selftest expected ok/mismatch/mismatch, got {k}")


if __name__ == "__main__":
    lib.main("C05", run, replay, selftest)
