"""C15 Overloaded calls pick the first applicable variant.

Decided by spec/Overload.tla: TLC walks the variant list of every case as
OverloadedFunctionDef.check_call/synthesize_call does (arity, arguments left to right with the
widening coercions nat < int < float and literal typing, result type / annotated target) and
prints the expected variant index (0 = reject); invariant FirstMatch ties the walk to the
declarative "least accepting index".  Bound to the code by replay: the case is rendered as a
module with `@guppy.overload(v1..vn)`; required: same verdict, the call is linked to the
expected variant and the interpreter's event stream equals that of a direct call of it.
"""
import json
import os
import random

import lib
import ovl_gen as G
import ovl_replay as R
import pool


ACTIONS = ("ArityOk", "ArityFail", "ArgBindsT", "ArgOk", "ArgFail", "ResultOk", "ResultFail", "OuterOk", "OuterFail")


def spec_verdicts(ctx, cases, coverage=False):
    pin = os.path.join(ctx.workdir, "overload_in.json")
    fn = lambda v: {"k": "fn", "ps": v["ps"], "ret": v["ret"]}
    json.dump([{"id": c["id"], "vs": [{"k": "set", "vs": [fn(w) for w in v["vs"]]} if v["k"] == "set" else fn(v) for v in c["vs"]],
                "args": c["args"], "mode": c["mode"], "os": [{"p": o["p"], "ret": o["ret"]} for o in c.get("os", [])],
                "omode": c.get("omode", "synth")} for c in cases], open(pin, "w"))
    r = ctx.tlc("Overload", env={"VERIF_IN": pin}, timeout=3000, coverage=coverage)
    if coverage:  # vacuity guard: every step of the resolution algorithm is exercised
        never = [a for a in ACTIONS if r.coverage.get(a, (0, 0))[1] == 0]
        if never:
            raise lib.Machinery(f"Overload: actions never taken: {never}")
        ctx.coverage["action_coverage"] = {a: r.coverage[a][1] for a in ACTIONS}
    if not r.ok:
        raise lib.Machinery("Overload: TLC reported an error (FirstMatch / Deterministic violated or evaluation error):\n" + r.error)
    out = {}
    for p in r.printed:
        if "pick" in p:
            if p["id"] in out and out[p["id"]] != p:
                raise lib.Machinery(f"Overload: two different outcomes for case {p['id']}")
            out[p["id"]] = p
    missing = [c["id"] for c in cases if c["id"] not in out]
    if missing:
        raise lib.Machinery(f"Overload: no outcome for {len(missing)} cases, e.g. {missing[0]}")
    return out


def build_cases(ctx):
    rng = random.Random(ctx.seed * 104729 + 15)
    cases = G.small_exhaustive()
    n_ex = len(cases)
    cases += G.fallthrough_family(rng, ctx.pick(1200, 3000))
    n_ft = len(cases) - n_ex
    cases += G.nested_family(rng, ctx.pick(500, None))  # a variant that is itself an overloaded function
    cases += G.outer_family(rng, ctx.pick(600, 4000))   # the overloaded call is the argument of another overloaded call
    for _ in range(ctx.pick(1000, 6000)):
        cases.append(G.random_case(rng))
    seen, out = set(), []
    for c in cases:
        k = json.dumps(c, sort_keys=True)
        if k in seen:
            continue
        seen.add(k)
        c = dict(c, id=len(out))
        c["src"] = G.render(c)
        out.append(c)
    return out, n_ex, n_ft


def replay_cases(cases, verdicts):
    jobs = []
    for c in cases:
        v = verdicts[c["id"]]
        runnable = {n: not w["decl"] for n, w in G.leaves(c)}
        runnable.update({f"w{k}": not o["decl"] for k, o in enumerate(c.get("os", []), 1)})
        jobs.append({"id": c["id"], "src": c["src"], "leaves": [n for n, _ in G.leaves(c)], "pick": pick_name(v),
                     "runnable": runnable, "args": G.MAIN_ARGS, "outer": bool(c.get("os")),
                     "compose": [[k, leaf_name(e["leaf"])] for k, e in enumerate(v.get("ocomp") or [], 1) if e["leaf"][0]]})
    pool._init()
    return pool.map_jobs(R.replay_job, jobs, chunksize=16)


def leaf_name(pair):
    return f"v{pair[0]}" + (f"_{pair[1]}" if pair[1] else "")


def pick_name(v):
    """Name of the function the spec resolves the call to (None = reject); for a nested call h(f(..)):
    "<outer variant>_<inner function>"."""
    if not v["pick"]:
        return None
    leaf = leaf_name([v["pick"], v["ipick"]])
    return f"{v['opick']}_{leaf}" if v.get("opick") else leaf


def expected_callees(v):
    leaf = leaf_name([v["pick"], v["ipick"]])
    return sorted([leaf, f"w{v['opick']}"]) if v.get("opick") else [leaf]


def judge(case, v, res):
    """Returns (list of (class, text)) disagreements between spec verdict v and observation res.
    Raises Machinery when the harness or the spec's model of a *direct* call is off."""
    if "machinery" in res:
        raise lib.Machinery(f"replay worker failed on case {case['id']}: {res['machinery']}")
    out = []
    # 0. the spec's notion of "variant k accepts this call" against a direct call of v_k
    flat_acc = [a for accs in v["acc"] for a in accs]
    names = [n for n, _ in G.leaves(case)]
    if len(flat_acc) != len(names):
        raise lib.Machinery(f"spec printed {len(flat_acc)} acceptance flags for {len(names)} functions (case {case['id']})")
    for name, acc in zip(names, flat_acc):
        d = res["d"][name]
        if d["status"] == "crash":
            out.append(("crash-direct", f"direct call of {name} crashed the checker: {d}"))
        elif (d["status"] == "ok") != acc:
            raise lib.Machinery(
                f"spec model of a direct call disagrees with /repo (coercion rules, C16 territory): case {case['id']} "
                f"function {name} spec accepts={acc}, code {d}\n{case['src']}")
    # 0b. nested call: the composition w<k>(<inner function the spec resolves to under w<k>'s parameter>(args))
    for k, e in enumerate(v.get("ocomp") or [], 1):
        if e["leaf"][0]:
            d = res["c"][f"{k}_{leaf_name(e['leaf'])}"]
            if d["status"] == "crash":
                out.append(("crash-direct", f"direct composition w{k}({leaf_name(e['leaf'])}(...)) crashed the checker: {d}"))
            elif (d["status"] == "ok") != e["acc"]:
                raise lib.Machinery(f"spec model of the direct composition w{k}({leaf_name(e['leaf'])}(...)) disagrees with /repo: "
                                    f"case {case['id']} spec accepts={e['acc']}, code {d}\n{case['src']}")
    o = res["o"]
    pick = pick_name(v)
    trail = "+".join(f"{t['at']}{'~co' if t['co'] else ''}" for t in v["trail"]) or "none"
    # an int literal that an abandoned variant has already looked at (it got past that argument)
    # (a nested set that matched nothing synthesises the types of all arguments for its error message)
    relit = any(t["at"] in ("arg", "result", "set") and any(a == "lpos" for a in case["args"][:t["pos"] - 1]) for t in v["trail"])
    ctxs = "int-literal-already-checked-by-abandoned-variant" if relit else f"prior={trail}"
    if case.get("os"):  # h(f(args)): was the inner call checked (and did it fail as a whole) for an earlier outer variant?
        if any(t["at"] == "oresult" for t in v["trail"]) and "lpos" in case["args"]:
            # the inner call (with an int literal) had resolved successfully for an outer variant that was then abandoned
            ctxs = "nested-call-int-literal-resolved-for-abandoned-outer-variant"
        elif any(t["at"] == "oinner" for t in v["trail"]):
            ctxs = "nested-call-after-failed-inner-call"
        else:
            ctxs = "nested-call"
    if o["status"] == "crash":
        out.append((f"crash|{ctxs}", f"checking the overloaded call crashed: {o}"))
        return out
    if pick is None:
        if o["status"] == "ok":
            got = res.get("o_run", {}).get("callees")
            out.append((f"accepts-without-match|{ctxs}", f"no variant accepts, but the call is accepted (linked to {got})"))
        elif o["diag"] != "OverloadNoMatchError":
            out.append((f"wrong-error:{o['diag']}|{ctxs}", f"no variant accepts; expected OverloadNoMatchError, got {o}"))
        return out
    if o["status"] != "ok":
        out.append((f"rejects-despite-match|{ctxs}", f"{pick} accepts (the direct call {pick}(...) is accepted) but the "
                    f"overloaded call is rejected: {o['diag']}"))
        return out
    orun = res["o_run"]
    if orun["status"] != "ok":
        out.append((f"{orun['status']}|{ctxs}", f"accepted overloaded call does not compile/validate: {orun.get('error')}"))
        return out
    exp_callees = expected_callees(v)
    if orun["callees"] != exp_callees:
        out.append((f"wrong-variant|{ctxs}", f"expected {exp_callees}, call linked to {orun['callees']}"))
    drun = res["d_run"].get(pick)
    if drun is None or drun["status"] != "ok":
        out.append((f"direct-call-broken|{ctxs}", f"direct call of {pick}: {drun}"))
        return out
    for side, rr in (("overloaded", orun), ("direct", drun)):
        if rr.get("end") in ("unsupported", "interp_error", "budget"):
            raise lib.Machinery(f"interpreter: {rr.get('end')} {rr.get('msg')} on case {case['id']} ({side})")
    if "events" in drun and orun["callees"] == exp_callees:
        if orun.get("events") != drun["events"] or orun.get("end") != drun.get("end"):
            out.append((f"behaviour-differs|{ctxs}", f"events of overloaded call {orun.get('events')} != direct call of {pick} {drun['events']}"))
    return out


def run(ctx):
    ctx.level = "model_checking"
    cases, n_ex, n_ft = build_cases(ctx)
    ctx.log(f"{len(cases)} cases ({n_ex} exhaustive small, {n_ft} forced fall-through)")
    verdicts = spec_verdicts(ctx, cases, coverage=True)
    ctx.log("spec done")
    results = replay_cases(cases, verdicts)
    ctx.log("replay done")
    groups, tally = {}, {"pick": 0, "reject": 0, "late_fail": 0, "late_fail_after_coercion": 0, "events_compared": 0,
                         "declared_pick": 0, "pick_not_first": 0, "with_nested_set": 0, "pick_inside_nested_set": 0, "nested_call": 0,
                         "nested_call_outer_fails_on_inner_then_later_outer_picks": 0, "nested_call_inner_pick_differs_per_outer": 0,
                         "nested_set_exhausted_then_pick": 0}
    for c, res in zip(cases, results):
        v = verdicts[c["id"]]
        tally["pick" if v["pick"] else "reject"] += 1
        late = [t for t in v["trail"] if t["at"] in ("arg", "result")]
        tally["late_fail"] += bool(late)
        tally["late_fail_after_coercion"] += any(t["co"] for t in v["trail"])
        tally["pick_not_first"] += v["pick"] > 1
        pn = pick_name(v)
        tally["with_nested_set"] += any(x["k"] == "set" for x in c["vs"])
        tally["pick_inside_nested_set"] += bool(v["ipick"])
        tally["nested_set_exhausted_then_pick"] += bool(pn) and any(t["at"] == "set" for t in v["trail"])
        tally["nested_call"] += bool(c.get("os"))
        tally["nested_call_outer_fails_on_inner_then_later_outer_picks"] += bool(pn) and any(t["at"] == "oinner" for t in v["trail"])
        tally["nested_call_inner_pick_differs_per_outer"] += len({tuple(e["leaf"]) for e in v.get("ocomp") or [] if e["leaf"][0]}) > 1
        if pn and dict(G.leaves(c))[pn.split("_", 1)[1] if c.get("os") else pn]["decl"]:
            tally["declared_pick"] += 1
        if pn and "events" in res.get("d_run", {}).get(pn, {}):
            tally["events_compared"] += 1
        for cls, text in judge(c, v, res):
            groups.setdefault(cls, []).append((len(c["src"]), c, v, res, text))
    for cls, items in sorted(groups.items()):
        items.sort(key=lambda t: (t[0], t[1]["src"]))
        _, c, v, res, text = items[0]
        sig = lambda x: ("overload(" + ", ".join(sig(w) for w in x["vs"]) + ")") if x["k"] == "set" else "(" + ", ".join(x["ps"]) + ") -> " + x["ret"]
        ctx.violation(cls, f"{len(items)} cases; smallest: overload({', '.join(sig(x) for x in c['vs'])}) "
                      f"called with ({', '.join(G.ARG_SRC[a] for a in c['args'])}), mode {c['mode']}"
                      + (f", as argument of overload({', '.join('(' + o['p'] + ') -> ' + o['ret'] for o in c['os'])}), outer mode {c['omode']}" if c.get("os") else "")
                      + f": {text}",
                      {"cases": [{"case": {k: t[1][k] for k in ("vs", "args", "mode", "os", "omode") if k in t[1]}, "spec": t[2], "code": t[3]} for t in items[:8]]})
    if not ctx.violations and (tally["late_fail_after_coercion"] == 0 or tally["pick_not_first"] == 0 or tally["reject"] == 0
                               or tally["pick_inside_nested_set"] == 0
                               or tally["nested_call_outer_fails_on_inner_then_later_outer_picks"] == 0):
        raise lib.Machinery(f"vacuous campaign: {tally}")
    nontrivial = sum(1 for c in cases if verdicts[c["id"]]["trail"])
    ctx.coverage.update({
        "traces_validated_against_impl": len(cases),
        "evaluations": len(cases),
        "distinct_nontrivial": nontrivial,
        "rule": "distinct (overload set, argument list, mode) cases; non-trivial = at least one variant is abandoned before the outcome",
        "exhaustive": False,
        "exhaustive_part": f"{n_ex} cases: all 2-variant sets of arity <= 1 x all argument lists of arity <= 1 x modes synth/int/float",
        "forced_fallthrough_cases": n_ft,
        "nested_call_family": "h(f(args)): outer set over parameter types float/bool/int/nat/T applied to an inner overloaded call with "
                              "literal / variable arguments (quick 600, thorough 4000 of 56 000)",
        "nested_overload_family": "outer sets [A, overload(w1, w2), B] in varying order, arity 1-2 (quick 500, thorough all 1056)",
        "tally": tally,
        "samples": [{"vs": c["vs"], "args": c["args"], "mode": c["mode"], "spec_pick": pick_name(verdicts[c["id"]])}
                    for c in (cases[n_ex // 2], cases[n_ex + 1], cases[-1])],
        "not_covered": "more than one generic parameter per variant, non-numeric coercion-free types beyond bool, "
                       "overloaded functions nested more than one level deep",
    })
    ctx.assumptions += ["TLC", "reference HUGR interpreter (event stream)", "hugr-core validator",
                        "renderer ovl_gen.render; callee names read from Call ops of the compiled entry point"]


def replay(ctx, data):
    for item in data["replay"]["cases"]:
        c = dict(item["case"], id=0)
        c["src"] = G.render(c)
        v = spec_verdicts(ctx, [c])[0]
        res = replay_cases([c], {0: v})[0]
        print(c["src"])
        print("spec:", v)
        print("code:", json.dumps(res)[:2000])
        try:
            print("judgement:", judge(c, v, res))
        except lib.Machinery as e:
            print("machinery:", e)


def selftest(ctx):
    rng = random.Random(3)
    cases = []
    for c in G.small_exhaustive()[::7] + G.fallthrough_family(rng, 60) + G.nested_family(rng, 40) + G.outer_family(rng, 60):
        c = dict(c, id=len(cases))
        c["src"] = G.render(c)
        cases.append(c)
    verdicts = spec_verdicts(ctx, cases)
    results = replay_cases(cases, verdicts)
    flagged = {"flip-to-reject": 0, "flip-to-pick": 0, "other-variant": 0, "event-dropped": 0}
    for c, res in zip(cases, results):
        v = verdicts[c["id"]]
        try:
            if judge(c, v, res):
                continue  # genuine disagreement (reported by run); not used for the self-test
        except lib.Machinery:
            raise
        if v["pick"]:
            if judge(c, dict(v, pick=0, ipick=0, opick=0), res):
                flagged["flip-to-reject"] += 1
            other = 1 if v["pick"] != 1 else 2
            v2 = dict(v, pick=other, ipick=1 if c["vs"][other - 1]["k"] == "set" else 0,
                      acc=[[True] * len(a) if k + 1 == other else a for k, a in enumerate(v["acc"])])
            try:
                if judge(c, v2, res):
                    flagged["other-variant"] += 1
            except lib.Machinery:
                flagged["other-variant"] += 1
            ev = res.get("o_run", {}).get("events")
            if ev and "events" in res["d_run"].get(pick_name(v), {}):
                r2 = json.loads(json.dumps(res))
                r2["o_run"]["events"] = ev[1:]
                if judge(c, v, r2):
                    flagged["event-dropped"] += 1
        else:
            forged = dict(v, pick=1, ipick=1 if c["vs"][0]["k"] == "set" else 0)
            if judge(c, forged, res):
                flagged["flip-to-pick"] += 1
    if min(flagged.values()) == 0:
        raise lib.Machinery(f"selftest: a corruption class was never flagged: {flagged}")
    ctx.log(f"selftest corruptions flagged: {flagged}")


if __name__ == "__main__":
    lib.main("C15", run, replay, selftest)
