"""C16 Implicit numeric coercions only widen.

Decided by: spec/Coerce.tla - the two steps of check_type_against / try_coerce_to
(checker/expr_checker.py) over the lattice nat < int < float (bool incomparable), with the
property `OnlyWidens` (accepted iff act <= exp, conversion only upwards) and lattice laws
model-checked by TLC over every coercion site (position x actual x expected type).
Binding, spec -> code: TLC prints the verdict of every site; one program per site is compiled
with /repo's compiler and the accept/reject outcome compared.
Binding, code -> spec: accepted sites are compiled once and run on anchor and seeded random
values; every call is an event validated by spec/NumOps_Trace.tla (ops co_int / co_float:
the converted value equals the original when representable - a nat >= 2^63 used as int is
outside the statement - and is the nearest-even double for float targets; method and `+=`
sites are validated as the binary operation at the receiver's type).
"""
import json

import lib
import num_forms as nf
import num_trace as nt
import num_values as nv

ZERO = {"nat": "nat(0)", "int": "0", "float": "0.0", "bool": "False"}
METH = {"add": "+", "sub": "-", "mul": "*", "truediv": "/", "floordiv": "//", "mod": "%", "pow": "**", "lt": "<", "eq": "==", "ge": ">="}
LITS = {"lit_int": 1, "lit_negint": -1, "lit_float": 1.0, "lit_bool": True}
LIT_SRC = {"lit_int": "1", "lit_negint": "-1", "lit_float": "1.0", "lit_bool": "True"}


def site_form(s: dict, idx: int) -> dict:
    pos, A, E = s["pos"], s["act"], s["exp"]
    f = {"idx": idx, "blit": 0, "lneg": 0, "lit": None, "sel": None, "stmts": None, "pre": None, "style": "site",
         "params": [("a", A)], "rets": [E], "ta": A, "tb": "none", "op": "bool" if E == "bool" else "co_" + E, "site": s}
    if pos == "assign":
        f.update(stmts=[f"x: {E} = a"], expr="x")
    elif pos == "ret":
        f.update(expr="a")
    elif pos == "arg":
        f.update(pre=f"@guppy\ndef g(x: {E}) -> {E}:\n    return x\n", expr="g(a)")
    elif pos == "tuple":
        f.update(stmts=[f"t: tuple[{E}, bool] = (a, True)"], expr="t[0]")
    elif pos == "array":
        f.update(stmts=[f"xs = array({ZERO[E]}, a)"], expr="xs[1]")
    elif pos == "array_ann":
        f.update(stmts=[f"xs: array[{E}, 1] = array(a)"], expr="xs[0]")
    elif pos == "reassign":
        f.update(stmts=[f"x = {ZERO[E]}", "x = a"], expr="x")
    elif pos == "aug":
        f.update(params=[("a", E), ("b", A)], stmts=[f"x: {E} = a", "x += b"], expr="x", op="+", ta=E, tb=A)
    elif pos.startswith("meth_"):
        m = pos[5:]
        ret = "bool" if m in ("lt", "eq", "ge") else "float" if m == "truediv" else E
        f.update(params=[("a", E), ("b", A)], expr=f"a.__{m}__(b)", op=METH[m], ta=E, tb=A, rets=[ret])
    elif pos in LITS:
        f.update(params=[], stmts=[f"x: {E} = {LIT_SRC[pos]}"], expr="x", lit=LITS[pos])
    else:
        raise lib.Machinery(f"unknown position {pos}")
    f["key"] = f"{pos}:{A}->{E}"
    return f


def site_operands(f: dict, tier: str, seed: int):
    import random
    rng = random.Random(f"{seed}:C16:{f['key']}")
    quick = tier == "quick"
    if not f["params"]:
        return [(f["lit"], None)]
    if len(f["params"]) == 1:
        ty = f["params"][0][1]
        vs = list(nv.anchors(ty)) + ([] if ty in ("bool",) else [nv.rand_value(ty, rng) for _ in range(6 if quick else 150)])
        return [(v, None) for v in vs]
    (_, ta), (_, tb) = f["params"]
    A = nf.operand_values(ta, "a", f["op"], tier, rng)
    B = nf.operand_values(tb, "b", f["op"], tier, rng)
    if quick:
        A, B = A[:6], B[:6]
    pairs = [(a, b) for a in A for b in B]
    pairs += [(nv.rand_value(ta, rng), nv.rand_value(tb, rng) if f["op"] != "**" else (float(rng.randrange(6)) if tb == "float" else rng.randrange(40)))
              for _ in range(4 if quick else 80)]
    return pairs


def spec_sites(ctx):
    r = ctx.tlc("Coerce", coverage=True)
    if not r.ok:
        raise lib.Machinery("Coerce.tla: property of the coercion model violated:\n" + r.error)
    sites = [p for p in r.printed if isinstance(p, dict) and "pos" in p]
    sites.sort(key=lambda s: (s["pos"], s["act"], s["exp"]))
    if len({(s["pos"], s["act"], s["exp"]) for s in sites}) != len(sites) or not sites:
        raise lib.Machinery("Coerce.tla printed duplicate / no sites")
    for a in ("Unify", "TryCoerce"):
        if a in r.coverage and r.coverage[a][0] == 0:
            raise lib.Machinery(f"Coerce.tla: action {a} never taken (vacuous)")
    return sites, r


def run(ctx):
    ctx.level = "model_checking"
    sites, r = spec_sites(ctx)
    forms = [site_form(s, i) for i, s in enumerate(sites)]
    results = nt.execute(forms, ctx.tier, ctx.seed, validate=True, operand_fn=site_operands)
    nacc = 0
    for f, res in zip(forms, results):
        s = f["site"]
        src = nf.form_source(f, f["rets"][0])
        if res["status"] == "crash":
            ctx.violation(f"crash:{f['key']}", f"compiler crashed on coercion site {f['key']}: {res['error']}", {"src": src})
            continue
        got = res["status"] == "ok"
        nacc += got
        if got != s["accept"]:
            kind = "narrowing accepted" if got else "widening rejected"
            ctx.violation(f"verdict:{f['key']}", f"{kind}: expression of type {s['act']} at a position expecting {s['exp']} "
                          f"({s['pos']}): spec {'accept' if s['accept'] else 'reject'}, compiler {res['status']} {res.get('error', '')}",
                          {"src": src, "site": s})
        elif got and res.get("valid") is not True:
            ctx.violation(f"invalid-hugr:{f['key']}", f"coercion site {f['key']} compiles to invalid HUGR: {str(res['valid'])[:300]}", {"src": src})
    # values of the accepted sites
    # (the integer semantics of // and % is C04's subject - a divergence there says nothing about the
    #  coercion; their sites are checked for the verdict only)
    both = [res for f, res in zip(forms, results) if res["status"] == "ok" and f["site"]["accept"]
            and f["site"]["pos"] not in ("meth_floordiv", "meth_mod")]
    trace, meta, problems = nt.build_trace(forms, both)
    if problems:
        raise lib.Machinery(f"{len(problems)} events could not be produced/evaluated, e.g. {problems[:3]}")
    bad, orc, nok, nskip = nt.validate(ctx, trace)
    if orc:
        i, exp = orc[0]
        raise lib.Machinery(f"spec and CPython disagree on {len(orc)} events, e.g. {forms[meta[i]['form']]['key']} "
                            f"a={meta[i]['a']!r}: spec {nt.show_exp(exp)} vs CPython {meta[i]['py']}")
    groups = {}
    for i, exp in bad:
        m = meta[i]
        f = forms[m["form"]]
        got = "panic: " + str(m["msg"]) if m["end"] == "panic" else f"{m['rty']}:{m['r']!r}"
        groups.setdefault(f["key"], []).append({"site": f["key"], "src": nf.form_source(f, f["rets"][0]), "a": repr(m["a"]),
                                                "b": repr(m["b"]), "guppy": got, "spec": nt.show_exp(exp)})
    for k, cases in sorted(groups.items()):
        ctx.violation(f"value:{k}", f"coercion site {k}: {len(cases)} values are not preserved, e.g. {json.dumps(cases[0])}",
                      {"cases": cases[:20], "count": len(cases)})
    ctx.coverage.update({
        "traces_validated_against_impl": len(sites) + len(meta),
        "evaluations": len(sites) + len(meta),
        "distinct_nontrivial": sum(1 for s in sites if s["act"] != s["exp"]) + len({(m["form"], repr(m["a"]), repr(m["b"])) for m in meta if m["py"][0]}),
        "rule": "sites: every (position, actual, expected) triple printed by TLC, non-trivial = actual != expected; "
                "values: one event per call of an accepted site, non-trivial = result required (representable)",
        "sites": len(sites), "sites_accept_spec": sum(1 for s in sites if s["accept"]), "sites_accept_code": nacc,
        "value_events": len(meta), "required_events": nok, "not_required_events": nskip, "mismatches": len(bad),
        "positions": sorted({s["pos"] for s in sites}),
        "samples": [forms[i]["key"] for i in range(0, len(forms), max(1, len(forms) // 5))][:5],
        "exhaustive": True,
        "exhaustive_note": "all sites of the listed positions over {nat,int,float,bool}^2 (verdicts); values sampled",
    })
    ctx.assumptions += ["TLC", "reference HUGR interpreter", "CPython as cross-check of the value spec"]


def replay(ctx, data):
    import gp
    from guppylang_internals.error import GuppyError
    rp = data["replay"]
    if "cases" in rp:
        for c in rp["cases"]:
            a, b = eval(c["a"]), eval(c["b"])
            print(c["site"], "a =", a, "b =", b, "| code:", nt.replay_case(c["src"], a, b), "| spec:", c["spec"])
        return
    mod = gp.load(rp["src"])
    try:
        try:
            mod.f.compile_function()
            print(rp["src"], "-> code: accepted; spec:", rp.get("site"))
        except GuppyError as e:
            print(rp["src"], "-> code: rejected", type(e.error).__name__, "; spec:", rp.get("site"))
    finally:
        gp.unload(mod)


def selftest(ctx):
    sites, _ = spec_sites(ctx)
    sub = [s for s in sites if s["pos"] in ("assign", "ret")]
    forms = [site_form(s, i) for i, s in enumerate(sub)]
    results = nt.execute(forms, "quick", ctx.seed, validate=False, operand_fn=site_operands)
    # 1. a flipped expected verdict must be noticed by the comparison
    flipped = 0
    for f, res in zip(forms, results):
        if (res["status"] == "ok") == (not f["site"]["accept"]):
            flipped += 1
    if flipped:
        raise lib.Machinery("selftest baseline: verdict disagreements on assign/ret sites")
    wrong = [dict(s, accept=not s["accept"]) for s in sub]
    if sum(1 for s, res in zip(wrong, results) if (res["status"] == "ok") != s["accept"]) != len(sub):
        raise lib.Machinery("selftest: flipped verdicts not all detected")
    # 2. a corrupted converted value must be rejected by the trace spec
    both = [res for f, res in zip(forms, results) if res["status"] == "ok"]
    trace, meta, problems = nt.build_trace(forms, both)
    i = next(j for j, m in enumerate(meta) if m["py"][0] and forms[m["form"]]["key"] == "assign:int->float" and m["r"] != 0)
    trace["events"][i]["r"][0] ^= 1
    j = next(j for j, m in enumerate(meta) if m["py"][0] and forms[m["form"]]["key"] == "ret:nat->int")
    trace["events"][j]["r"][3] ^= 0x8000
    bad, orc, _, _ = nt.validate(ctx, trace, "self1.json")
    if {b for b, _ in bad} != {i, j} or orc:
        raise lib.Machinery(f"selftest: corrupted coerced values not (exactly) flagged: {[b for b, _ in bad]} vs {[i, j]}")


if __name__ == "__main__":
    lib.main("C16", run, replay, selftest)
