"""C16 Implicit numeric coercions only widen.

Decided by: spec/Coerce.tla - the two steps of check_type_against / try_coerce_to
(checker/expr_checker.py) over the lattice nat < int < float (bool incomparable), with the
property `OnlyWidens` (accepted iff act <= exp, conversion only upwards) and lattice laws
model-checked by TLC over every coercion site (position x actual x expected type).
Binding, spec -> code: TLC prints the verdict of every site; one program per site is compiled
with /repo's compiler and the accept/reject outcome compared.
Binding, code -> spec: accepted sites are compiled once and run on anchor and seeded random
values; every call is an event validated by spec/NumOps_Trace.tla (ops co_int / co_float:
the converted value equals the original when representable - a nat >= 2^63 used as int is
outside the statement - and is the nearest-even double for float targets, compared exactly;
method and `+=` sites are validated as the binary operation at the receiver's type).
nat/int -> float sites additionally get the rounding-boundary family of spec/RoundFamily.tla
(2^e + k*ulp + d around every binade from 2^52 up: exact values, exact ties, one off a tie; generated
and classified on limbs by TLC); the check refuses to pass if no tie / near-tie value was converted.
"""
import json

import lib
import num_forms as nf
import num_trace as nt
import num_values as nv

ZERO = {"nat": "nat(0)", "int": "0", "float": "0.0", "bool": "False"}
METH = {"add": "+", "sub": "-", "mul": "*", "truediv": "/", "floordiv": "//", "mod": "%", "pow": "**", "lt": "<", "eq": "==", "ge": ">="}
LITS = {"lit_int": 1, "lit_negint": -1, "lit_float": 1.0, "lit_bool": True}
LIT_SRC = {"lit_int": "1", "lit_negint": "-1", "lit_float": "1.0", "lit_bool": "True"}


def site_form(s: dict, idx: int) -> dict:
    pos, A, E = s["pos"], s["act"], s["exp"]
    f = {"idx": idx, "blit": 0, "lneg": 0, "lit": None, "sel": None, "stmts": None, "pre": None, "style": "site",
         "params": [("a", A)], "rets": [E], "ta": A, "tb": "none", "op": "bool" if E == "bool" else "co_" + E, "site": s}
    if pos == "assign":
        f.update(stmts=[f"x: {E} = a"], expr="x")
    elif pos == "ret":
        f.update(expr="a")
    elif pos == "arg":
        f.update(pre=f"@guppy\ndef g(x: {E}) -> {E}:\n    return x\n", expr="g(a)")
    elif pos == "tuple":
        f.update(stmts=[f"t: tuple[{E}, bool] = (a, True)"], expr="t[0]")
    elif pos == "array":
        f.update(stmts=[f"xs = array({ZERO[E]}, a)"], expr="xs[1]")
    elif pos == "array_ann":
        f.update(stmts=[f"xs: array[{E}, 1] = array(a)"], expr="xs[0]")
    elif pos == "reassign":
        f.update(stmts=[f"x = {ZERO[E]}", "x = a"], expr="x")
    elif pos == "aug":
        f.update(params=[("a", E), ("b", A)], stmts=[f"x: {E} = a", "x += b"], expr="x", op="+", ta=E, tb=A)
    elif pos.startswith("meth_"):
        m = pos[5:]
        ret = "bool" if m in ("lt", "eq", "ge") else "float" if m == "truediv" else E
        f.update(params=[("a", E), ("b", A)], expr=f"a.__{m}__(b)", op=METH[m], ta=E, tb=A, rets=[ret])
    elif pos in LITS:
        f.update(params=[], stmts=[f"x: {E} = {LIT_SRC[pos]}"], expr="x", lit=LITS[pos])
    else:
        raise lib.Machinery(f"unknown position {pos}")
    f["key"] = f"{pos}:{A}->{E}"
    return f


# rounding-boundary family for nat/int -> float, filled from spec/RoundFamily.tla by round_family()
FAMILY = {"nat": [], "int": []}
FAMILY_CLASS = {}          # (ty, value) -> "exact" | "tie" | "neartie" | "other"
FULL_FAMILY_POS = ("assign", "ret")    # quick: every member here, every 4th (rotating) at the other positions
EXTRA = {"nat": [nv.MAXU, nv.MAXI, (1 << 63) + 1025, (1 << 54) + 3, (1 << 60) + 129],
         "int": [nv.MAXI, nv.MINI, nv.MINI + 1, -(1 << 54) - 3, (1 << 60) + 129]}


def round_family(ctx):
    """values around the rounding boundaries, generated on limbs and classified by the spec"""
    r = ctx.tlc("RoundFamily", env={"JAVA_TOOL_OPTIONS": "-Xmx8g -XX:+UseParallelGC -Xss64m"})
    if not r.ok:
        raise lib.Machinery("RoundFamily.tla: " + r.error[:1500])
    fam = {"nat": set(), "int": set()}
    FAMILY_CLASS.clear()
    for p in r.printed:
        if isinstance(p, dict) and "cls" in p:
            v = nv.unlimbs(p["mag"]) * (-1 if p["neg"] else 1)
            fam[p["ty"]].add(v)
            FAMILY_CLASS[(p["ty"], v)] = p["cls"]
    for ty in fam:
        FAMILY[ty] = sorted(fam[ty] | set(EXTRA[ty]))
    classes = {ty: {c: sum(1 for (t, _), k in FAMILY_CLASS.items() if t == ty and k == c) for c in ("exact", "tie", "neartie", "other")}
               for ty in fam}
    for ty in fam:
        if not (classes[ty]["tie"] and classes[ty]["neartie"] and classes[ty]["exact"]):
            raise lib.Machinery(f"rounding family for {ty} is vacuous: {classes[ty]}")
    return classes


def family_for(f: dict, ty: str, quick: bool) -> list:
    fam = FAMILY[ty]
    if not quick or f["site"]["pos"] in FULL_FAMILY_POS:
        return list(fam)
    off = sum(map(ord, f["key"])) % 4
    return sorted(set(fam[off::4]) | set(EXTRA[ty]))


def site_operands(f: dict, tier: str, seed: int):
    import random
    rng = random.Random(f"{seed}:C16:{f['key']}")
    quick = tier == "quick"
    s = f["site"]
    to_float = s["exp"] == "float" and s["act"] in ("nat", "int")
    if not f["params"]:
        return [(f["lit"], None)]
    if len(f["params"]) == 1:
        ty = f["params"][0][1]
        vs = list(nv.anchors(ty)) + ([] if ty in ("bool",) else [nv.rand_value(ty, rng) for _ in range(6 if quick else 150)])
        if to_float:
            vs += family_for(f, ty, quick)
        return [(v, None) for v in vs]
    (_, ta), (_, tb) = f["params"]
    if to_float and (s["pos"] == "aug" or s["pos"] in ("meth_add", "meth_sub", "meth_eq")):
        # receiver 0.0: the result shows the coerced operand itself (0.0 + n, 0.0 - n, 0.0 == n)
        extra = [(0.0, v) for v in family_for(f, tb, quick)]
    else:
        extra = []
    A = nf.operand_values(ta, "a", f["op"], tier, rng)
    B = nf.operand_values(tb, "b", f["op"], tier, rng)
    if quick:
        A, B = A[:6], B[:6]
    pairs = [(a, b) for a in A for b in B]
    pairs += [(nv.rand_value(ta, rng), nv.rand_value(tb, rng) if f["op"] != "**" else (float(rng.randrange(6)) if tb == "float" else rng.randrange(40)))
              for _ in range(4 if quick else 80)]
    return pairs + extra


def spec_sites(ctx):
    r = ctx.tlc("Coerce", coverage=True)
    if not r.ok:
        raise lib.Machinery("Coerce.tla: property of the coercion model violated:\n" + r.error)
    sites = [p for p in r.printed if isinstance(p, dict) and "pos" in p]
    sites.sort(key=lambda s: (s["pos"], s["act"], s["exp"]))
    if len({(s["pos"], s["act"], s["exp"]) for s in sites}) != len(sites) or not sites:
        raise lib.Machinery("Coerce.tla printed duplicate / no sites")
    for a in ("Unify", "TryCoerce"):
        if a in r.coverage and r.coverage[a][0] == 0:
            raise lib.Machinery(f"Coerce.tla: action {a} never taken (vacuous)")
    return sites, r


def run(ctx):
    ctx.level = "model_checking"
    sites, r = spec_sites(ctx)
    fam_classes = round_family(ctx)
    forms = [site_form(s, i) for i, s in enumerate(sites)]
    results = nt.execute(forms, ctx.tier, ctx.seed, validate=True, operand_fn=site_operands)
    nacc = 0
    for f, res in zip(forms, results):
        s = f["site"]
        src = nf.form_source(f, f["rets"][0])
        if res["status"] == "crash":
            ctx.violation(f"crash:{f['key']}", f"compiler crashed on coercion site {f['key']}: {res['error']}", {"src": src})
            continue
        got = res["status"] == "ok"
        nacc += got
        if got != s["accept"]:
            kind = "narrowing accepted" if got else "widening rejected"
            ctx.violation(f"verdict:{f['key']}", f"{kind}: expression of type {s['act']} at a position expecting {s['exp']} "
                          f"({s['pos']}): spec {'accept' if s['accept'] else 'reject'}, compiler {res['status']} {res.get('error', '')}",
                          {"src": src, "site": s})
        elif got and res.get("valid") is not True:
            ctx.violation(f"invalid-hugr:{f['key']}", f"coercion site {f['key']} compiles to invalid HUGR: {str(res['valid'])[:300]}", {"src": src})
    # values of the accepted sites
    # (the integer semantics of // and % is C04's subject - a divergence there says nothing about the
    #  coercion; their sites are checked for the verdict only)
    both = [res for f, res in zip(forms, results) if res["status"] == "ok" and f["site"]["accept"]
            and f["site"]["pos"] not in ("meth_floordiv", "meth_mod")]
    trace, meta, problems = nt.build_trace(forms, both)
    if problems:
        raise lib.Machinery(f"{len(problems)} events could not be produced/evaluated, e.g. {problems[:3]}")
    bad, orc, nok, nskip = nt.validate(ctx, trace)
    if orc:
        i, exp = orc[0]
        raise lib.Machinery(f"spec and CPython disagree on {len(orc)} events, e.g. {forms[meta[i]['form']]['key']} "
                            f"a={meta[i]['a']!r}: spec {nt.show_exp(exp)} vs CPython {meta[i]['py']}")
    # vacuity guard: exact ties and values one off a tie were really converted and required
    hit = {}
    for m in meta:
        st = forms[m["form"]]["site"]
        if st["exp"] == "float" and st["act"] in ("nat", "int") and m["py"][0]:
            v = m["a"] if m["b"] is None else m["b"]
            c = FAMILY_CLASS.get((st["act"], v))
            if c:
                hit[(st["act"], c)] = hit.get((st["act"], c), 0) + 1
    for ty in ("nat", "int"):
        for c in ("tie", "neartie"):
            if not hit.get((ty, c)):
                raise lib.Machinery(f"no required {ty}->float event on a {c} value: rounding family not exercised")
    groups = {}
    for i, exp in bad:
        m = meta[i]
        f = forms[m["form"]]
        got = "panic: " + str(m["msg"]) if m["end"] == "panic" else f"{m['rty']}:{m['r']!r}"
        groups.setdefault(f["key"], []).append({"site": f["key"], "src": nf.form_source(f, f["rets"][0]), "a": repr(m["a"]),
                                                "b": repr(m["b"]), "guppy": got, "spec": nt.show_exp(exp)})
    for k, cases in sorted(groups.items()):
        ctx.violation(f"value:{k}", f"coercion site {k}: {len(cases)} values are not preserved, e.g. {json.dumps(cases[0])}",
                      {"cases": cases[:20], "count": len(cases)})
    ctx.coverage.update({
        "traces_validated_against_impl": len(sites) + len(meta),
        "evaluations": len(sites) + len(meta),
        "distinct_nontrivial": sum(1 for s in sites if s["act"] != s["exp"]) + len({(m["form"], repr(m["a"]), repr(m["b"])) for m in meta if m["py"][0]}),
        "rule": "sites: every (position, actual, expected) triple printed by TLC, non-trivial = actual != expected; "
                "values: one event per call of an accepted site, non-trivial = result required (representable)",
        "sites": len(sites), "sites_accept_spec": sum(1 for s in sites if s["accept"]), "sites_accept_code": nacc,
        "value_events": len(meta), "required_events": nok, "not_required_events": nskip, "mismatches": len(bad),
        "positions": sorted({s["pos"] for s in sites}),
        "rounding_family": {"members": {ty: len(FAMILY[ty]) for ty in FAMILY}, "classes_by_spec": fam_classes,
                            "required_float_events_by_class": {f"{t}:{c}": n for (t, c), n in sorted(hit.items())}},
        "samples": [forms[i]["key"] for i in range(0, len(forms), max(1, len(forms) // 5))][:5],
        "exhaustive": True,
        "exhaustive_note": "all sites of the listed positions over {nat,int,float,bool}^2 (verdicts); values sampled",
    })
    ctx.assumptions += ["TLC", "reference HUGR interpreter", "CPython as cross-check of the value spec"]


def replay(ctx, data):
    import gp
    from guppylang_internals.error import GuppyError
    rp = data["replay"]
    if "cases" in rp:
        for c in rp["cases"]:
            a, b = eval(c["a"]), eval(c["b"])
            print(c["site"], "a =", a, "b =", b, "| code:", nt.replay_case(c["src"], a, b), "| spec:", c["spec"])
        return
    mod = gp.load(rp["src"])
    try:
        try:
            mod.f.compile_function()
            print(rp["src"], "-> code: accepted; spec:", rp.get("site"))
        except GuppyError as e:
            print(rp["src"], "-> code: rejected", type(e.error).__name__, "; spec:", rp.get("site"))
    finally:
        gp.unload(mod)


def selftest(ctx):
    sites, _ = spec_sites(ctx)
    round_family(ctx)
    sub = [s for s in sites if s["pos"] in ("assign", "ret")]
    forms = [site_form(s, i) for i, s in enumerate(sub)]
    results = nt.execute(forms, "quick", ctx.seed, validate=False, operand_fn=site_operands)
    # 1. a flipped expected verdict must be noticed by the comparison
    flipped = 0
    for f, res in zip(forms, results):
        if (res["status"] == "ok") == (not f["site"]["accept"]):
            flipped += 1
    if flipped:
        raise lib.Machinery("selftest baseline: verdict disagreements on assign/ret sites")
    wrong = [dict(s, accept=not s["accept"]) for s in sub]
    if sum(1 for s, res in zip(wrong, results) if (res["status"] == "ok") != s["accept"]) != len(sub):
        raise lib.Machinery("selftest: flipped verdicts not all detected")
    # 2. a corrupted converted value must be rejected by the trace spec
    both = [res for f, res in zip(forms, results) if res["status"] == "ok"]
    trace, meta, problems = nt.build_trace(forms, both)
    i = next(j for j, m in enumerate(meta) if m["py"][0] and forms[m["form"]]["key"] == "assign:int->float" and m["r"] != 0)
    trace["events"][i]["r"][0] ^= 1
    j = next(j for j, m in enumerate(meta) if m["py"][0] and forms[m["form"]]["key"] == "ret:nat->int")
    trace["events"][j]["r"][3] ^= 0x8000
    # 3. a tie rounded the wrong way (one ulp low: what double rounding produces) must be rejected
    import math
    t = next(j for j, m in enumerate(meta) if m["py"][0] and forms[m["form"]]["key"] == "assign:nat->float"
             and FAMILY_CLASS.get(("nat", m["a"])) in ("tie", "neartie") and float(m["a"]) > m["a"])
    low = math.nextafter(meta[t]["r"], 0.0)
    trace["events"][t]["r"] = nt.flat(nv.enc_float(low))
    bad, orc, _, _ = nt.validate(ctx, trace, "self1.json")
    if {b for b, _ in bad} != {i, j, t} or orc:
        raise lib.Machinery(f"selftest: corrupted coerced values not (exactly) flagged: {[b for b, _ in bad]} vs {[i, j, t]}")


if __name__ == "__main__":
    lib.main("C16", run, replay, selftest)
