"""C14 Copy/drop classification is structural and matches HUGR bounds.

Decided by spec/TypeAlg.tla (Copyable / Droppable / WellFormed / HugrRepCopyable /
DropLeaves) driven by spec/TypeAlg_Class.tla, which enumerates every type up to a nesting
depth (base types, the four type-variable bounds, array, frozenarray, Option, tuples,
non-generic and generic structs, Callable), model-checks the structural laws on all of
them and prints one record per type.
Binding (spec -> code): each type is written as a Guppy annotation (struct classes are
declared from the spec's field lists), parsed by /repo's type parser, and compared:
  * accepted  <=> WellFormed           (frozenarray / `T: Copy` struct parameter bounds)
  * .copyable, .droppable, .hugr_bound == spec
  * to_hugr(ctx).type_bound() == Copyable  <=>  spec Copyable      (the statement)
    and                                   <=>  HugrRepCopyable     (the lowering)
  * for affine types a function leaving such a value unused is compiled (unused owned
    argument; discarded call result): the Hugr validates and the tket.guppy.drop ops are
    exactly those of the spec's drop leaves.
"""
import json
import os
import random

import lib

CHUNK = 80


def enumerate_types(ctx, cfg):
    r = ctx.tlc("TypeAlg_Class", cfg, timeout=3000)
    if not r.ok:
        raise lib.Machinery(f"TypeAlg_Class/{cfg}: structural laws fail on the model:\n{r.error[:2000]}")
    recs = sorted(r.printed, key=lambda p: json.dumps(p["t"]))
    if not recs:
        raise lib.Machinery("TypeAlg_Class printed no types")
    return recs


def observe(recs):
    import pool
    import talg_class as tc

    chunks = [recs[i:i + CHUNK] for i in range(0, len(recs), CHUNK)]
    obs = pool.map_jobs(tc.probe_chunk, [{"terms": [r["t"] for r in ch]} for ch in chunks], chunksize=1)
    return [o for ch in obs for o in ch]


def head(t):
    """constructor path used in violation keys: outermost two constructors"""
    def h(x):
        return x[0] + (":" + x[1] if x[0] == "st" else "")
    kids = []
    if t[0] in ("arr", "farr", "opt"):
        kids = [t[1]]
    elif t[0] == "either":
        kids = [t[1], t[2]]
    elif t[0] == "tup":
        kids = t[2]
    elif t[0] == "rec":
        kids = t[1]
    elif t[0] == "st":
        kids = [a[1] for a in t[2] if a[0] == "T"]
    elif t[0] == "fn":
        kids = list(t[1]) + [t[2]]
    return h(t) + "(" + ",".join(sorted({h(k) for k in kids})) + ")"


def judge_class(rec, o):
    """list of (key, detail) deviations of one observed type from the spec record"""
    out = []
    if o["accepted"] != rec["wf"]:
        out.append((f"well-formedness:{'accepted-ill-formed' if o['accepted'] else 'rejected-well-formed'}:{head(rec['t'])}",
                    {"error": o.get("error"), "title": o.get("title")}))
        return out
    if not rec["wf"]:
        if o.get("error", "").startswith("CRASH"):
            out.append((f"well-formedness:crash:{head(rec['t'])}", {"error": o["error"], "title": o.get("title")}))
        return out
    if "crash" in o:
        out.append((f"classification-crash:{head(rec['t'])}", {"crash": o["crash"]}))
        return out
    if not o["same"]:
        raise lib.Machinery(f"the parsed type is not the enumerated one: {rec['t']} vs {o.get('proj')} ({o['text']})")
    for f, want in (("copyable", rec["cop"]), ("droppable", rec["drop"]), ("hugr_bound", rec["hugrcop"])):
        if o[f] != want:
            out.append((f"{f}:{head(rec['t'])}", {"observed": o[f], "spec": want}))
    if o["type_bound"] != rec["repcop"]:
        out.append((f"to_hugr-bound-vs-lowering:{head(rec['t'])}", {"observed_copyable": o["type_bound"], "spec": rec["repcop"]}))
    elif o["type_bound"] != rec["hugrcop"]:
        # the statement's "exactly when" fails although the lowering is as specified:
        # only possible through a phantom type argument of a generic struct
        for g in sorted(rec["phantoms"]) or ["?"]:
            out.append(("hugr-type-copyable-but-guppy-type-not:phantom-arg-of:" + g,
                        {"observed_copyable": o["type_bound"], "guppy_copyable": rec["cop"]}))
    return out


def drop_jobs(recs, idxs):
    jobs = []
    for i in idxs:
        r = recs[i]
        jobs.append({"id": [i, "arg"], "term": r["t"], "ctx": "arg", "paths": r["leaves"]})
        if '"bv"' not in json.dumps(r["t"]):
            jobs.append({"id": [i, "discard"], "term": r["t"], "ctx": "discard", "paths": r["whole"]})
    return jobs


def judge_drop(rec, job, res):
    if res["status"] == "machinery":
        raise lib.Machinery(f"drop job failed: {res.get('error')}")
    ctxname = job["ctx"]
    if res["status"] != "ok":
        return f"drop:{ctxname}:{res['status']}:{head(rec['t'])}", {"error": res.get("error"), "src": res.get("src")}
    if not res.get("valid"):
        return f"drop:{ctxname}:invalid-hugr:{head(rec['t'])}", {"error": res.get("error"), "drops": res["drops"],
                                                               "expected": res["expected"], "src": res.get("src")}
    if res["drops"] != res["expected"]:
        kind = "missing" if len(res["drops"]) < len(res["expected"]) else "different"
        return f"drop:{ctxname}:{kind}-drop:{head(rec['t'])}", {"drops": res["drops"], "expected": res["expected"],
                                                              "src": res.get("src")}
    return None


def run(ctx):
    import pool
    import talg_class as tc

    ctx.level = "model_checking"
    tiny = bool(os.environ.get("TALG_TINY"))
    rng = random.Random(ctx.seed)
    cfg = "TypeAlg_Class_tiny.cfg" if tiny else ctx.pick("TypeAlg_Class.cfg", "TypeAlg_Class_thorough.cfg")
    recs = enumerate_types(ctx, cfg)
    ctx.log(f"{len(recs)} types enumerated")
    obs = observe(recs)
    groups = {}
    counts = {"ill_formed": 0, "affine": 0, "linear": 0, "copyable": 0, "copy_not_drop": 0}
    for rec, o in zip(recs, obs):
        if not rec["wf"]:
            counts["ill_formed"] += 1
        elif rec["cop"] and rec["drop"]:
            counts["copyable"] += 1
        elif rec["cop"]:
            counts["copy_not_drop"] += 1
        elif rec["drop"]:
            counts["affine"] += 1
        else:
            counts["linear"] += 1
        for key, detail in judge_class(rec, o):
            groups.setdefault(key, []).append({"t": rec["t"], "text": o.get("text"), "detail": detail})
    # drops
    affine = [i for i, r in enumerate(recs) if r["wf"] and r["drop"] and not r["cop"]]
    n = len(affine) if tiny else ctx.pick(110, 2500)
    rng.shuffle(affine)
    # sums whose droppable-but-not-copyable part sits in the first variant (and nested sums) are
    # always part of the sample: quick 40 of them, thorough all
    sums = [i for i in affine if recs[i]["sumfirst"]]
    chosen = sorted(set(affine[:n]) | set(sums[: (len(sums) if tiny else ctx.pick(40, len(sums)))]))
    jobs = drop_jobs(recs, chosen)
    res = pool.map_jobs(tc.drop_job, jobs)
    ndrops = nsumfirst = 0
    for j, r in zip(jobs, res):
        rec = recs[j["id"][0]]
        ndrops += len(r.get("drops", []))
        nsumfirst += bool(rec["sumfirst"] and r.get("drops"))
        v = judge_drop(rec, j, r)
        if v is not None:
            groups.setdefault(v[0], []).append({"t": rec["t"], "ctx": j["ctx"], "detail": v[1]})
    for key, cases in sorted(groups.items()):
        ctx.violation(key, f"{len(cases)} type(s), e.g. {cases[0].get('text') or json.dumps(cases[0]['t'])}: "
                           f"{json.dumps(cases[0]['detail'])[:500]}",
                      {"cases": cases[:10]})
    if counts["affine"] == 0 or counts["linear"] == 0 or counts["ill_formed"] == 0 or ndrops == 0 or nsumfirst == 0:
        raise lib.Machinery(f"vacuous enumeration: {counts}, drops seen {ndrops}, on first-variant sums {nsumfirst}")
    nontrivial = sum(1 for r in recs if r["t"][0] in ("tup", "rec", "st", "arr", "farr", "opt", "fn"))
    ctx.coverage.update({
        "traces_validated_against_impl": len(recs) + len(jobs),
        "evaluations": len(recs) + len(jobs),
        "distinct_nontrivial": nontrivial,
        "rule": "types with at least one type constructor (classification must be derived from components); "
                "plus compiled programs with an unused affine value",
        "samples": [{"t": recs[i]["t"], "cop": recs[i]["cop"], "drop": recs[i]["drop"], "leaves": recs[i]["leaves"]}
                    for i in chosen[:3]],
        "exhaustive": True,
        "types": len(recs), "classes": counts, "drop_programs": len(jobs), "drop_ops_seen": ndrops,
        "drop_programs_sum_with_affine_first_variant": nsumfirst,
        "either_types": sum(1 for r in recs if '"either"' in json.dumps(r["t"])),
    })
    ctx.assumptions += ["TLC", "hugr-core validator", "term -> annotation text renderer and Type -> term projection "
                        "(harness/talg_terms.py); the projection of every parsed type is compared with the "
                        "enumerated term"]


def replay(ctx, data):
    import talg_class as tc

    for c in data["replay"]["cases"]:
        o = tc.probe_chunk({"terms": [c["t"]]})[0]
        print(json.dumps(c["t"]), "->", json.dumps(o))
        print("  recorded:", json.dumps(c["detail"])[:600])
        if "ctx" in c:
            print("  ", json.dumps(tc.drop_job({"id": 0, "term": c["t"], "ctx": c["ctx"], "paths": []}))[:1200])


def selftest(ctx):
    import copy

    import talg_class as tc

    recs = enumerate_types(ctx, "TypeAlg_Class_tiny.cfg")
    obs = observe(recs)
    pairs = list(zip(recs, obs))
    base = [k for r, o in pairs for k, _ in judge_class(r, o) if not k.startswith("hugr-type-copyable-but")]
    if base:
        raise lib.Machinery(f"selftest: unchanged tree deviates: {base[:3]}")
    # flip each expected verdict of one well-formed constructed type
    r, o = next((r, o) for r, o in pairs if r["wf"] and r["t"][0] == "arr")
    for f in ("cop", "drop", "hugrcop", "repcop"):
        r2 = dict(r)
        r2[f] = not r2[f]
        if not judge_class(r2, o):
            raise lib.Machinery(f"selftest: flipped expected {f} accepted")
    r, o = next((r, o) for r, o in pairs if not r["wf"])
    if not judge_class(dict(r, wf=True), dict(o)):
        raise lib.Machinery("selftest: flipped well-formedness accepted")
    # corrupt an observation
    r, o = next((r, o) for r, o in pairs if r["wf"] and r["t"][0] == "tup" and r["t"][2])
    if not judge_class(r, dict(o, droppable=not o["droppable"])):
        raise lib.Machinery("selftest: corrupted observed droppable accepted")
    # drops: drop one expected leaf / add one
    i = next(i for i, r in enumerate(recs) if r["wf"] and r["drop"] and not r["cop"] and r["leaves"])
    job = drop_jobs(recs, [i])[0]
    res = tc.drop_job(job)
    if judge_drop(recs[i], job, res) is not None:
        raise lib.Machinery(f"selftest: unchanged drop program judged bad: {judge_drop(recs[i], job, res)}")
    res2 = copy.deepcopy(res)
    res2["drops"] = res2["drops"][1:]
    if judge_drop(recs[i], job, res2) is None:
        raise lib.Machinery("selftest: a missing drop was accepted")
    res3 = copy.deepcopy(res)
    res3["valid"] = False
    if judge_drop(recs[i], job, res3) is None:
        raise lib.Machinery("selftest: invalid Hugr was accepted")
    job4 = dict(job, paths=job["paths"] + [[]]) if job["paths"] != [[]] else dict(job, paths=[])
    if judge_drop(recs[i], job4, tc.drop_job(job4)) is None:
        raise lib.Machinery("selftest: wrong expected drop leaves were accepted")


if __name__ == "__main__":
    lib.main("C14", run, replay, selftest)
