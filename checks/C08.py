"""C08 Use-before-definition and path-dependent types are rejected exactly.

Decided by spec/Scoping.tla: TLC executes every program of a batch along all control-flow
paths (condition values ignored) and prints, for every read of a variable, the status the
variable has on that path; spec/ScopingVerdict.tla classifies the union of statuses per read
(never / maybe defined, different types after a join, unbound local of a nested function).
Bound to the code by replay: each program is rendered to Guppy source and check()ed with
/repo's compiler; verdict, diagnostic class, variable and line must agree with a witness.
"""
import json
import os
import random

import lib
import pool
import scope_gen as G
import scope_replay as R

CHUNK = 20000


# ---------------------------------------------------------------------------------------
# spec side
# ---------------------------------------------------------------------------------------
ACTIONS = ("Assign", "Copy", "Use", "Comp", "IfThen", "IfElse", "LoopStart", "LoopEnter", "LoopExit", "Break", "Continue",
           "Return", "DeadEdge", "EndSeq", "DefFun", "EndFun")


def action_coverage(ctx, progs):
    """Vacuity guard: every action of Scoping.tla is taken on a sub-batch (TLC -coverage)."""
    pin = os.path.join(ctx.workdir, "scoping_cov.json")
    json.dump([{"id": p["id"], "lists": G.flatten(p["body"])} for p in progs], open(pin, "w"))
    r = ctx.tlc("Scoping", env={"VERIF_IN": pin}, coverage=True, timeout=1500)
    never = [a for a in ACTIONS if r.coverage.get(a, (0, 0))[1] == 0]
    if never:
        raise lib.Machinery(f"Scoping: actions never taken on {len(progs)} programs: {never} (coverage {r.coverage})")
    return {a: r.coverage[a][1] for a in ACTIONS}


def spec_witnesses(ctx, progs):
    """progs: list of {"id", "body"} (with line numbers). Returns {id: set((kind, var, line))}, the subset
    of witnesses the code is required to act on, and measured numbers.
    Two TLC runs per chunk: paths -> facts, facts -> kinds.
    Required = witnesses at live reads, and never/maybe witnesses at reads in dead code of main (the
    analyses follow never-taken edges). Optional (the code may report them or not): type joins / unbound
    locals in dead code (cfg_checker only type-checks dead blocks hanging off the entry block) and
    everything in dead code of a nested function (not seen by the outer liveness pass)."""
    wit = {p["id"]: set() for p in progs}
    req = {p["id"]: set() for p in progs}
    bodies = {p["id"]: p["body"] for p in progs}
    stats = {"facts": 0, "reads": 0, "witness_reads": 0}
    for c0 in range(0, len(progs), CHUNK):
        chunk = progs[c0:c0 + CHUNK]
        pin = os.path.join(ctx.workdir, f"scoping_in_{c0}.json")
        json.dump([{"id": p["id"], "lists": G.flatten(p["body"])} for p in chunk], open(pin, "w"))
        r = ctx.tlc("Scoping", env={"VERIF_IN": pin}, timeout=3000)
        if not r.ok:
            raise lib.Machinery("Scoping: TLC reported an error (model invariant violated or evaluation error):\n" + r.error)
        done = {p["done"] for p in r.printed if "done" in p}
        missing = [p["id"] for p in chunk if p["id"] not in done]
        if missing:
            raise lib.Machinery(f"Scoping: {len(missing)} programs have no terminating path, e.g. id {missing[0]}")
        sts, dd, by_prog = {}, {}, {}
        for f in r.printed:
            if "st" in f:
                sts.setdefault((f["id"], f["v"], f["l"]), set()).add(f["st"])
                dd.setdefault((f["id"], f["v"], f["l"]), set()).add(f["d"])
                by_prog.setdefault(f["id"], set()).add((f["id"], f["v"], f["l"]))
                stats["facts"] += 1
        # vacuity guard for comprehension scoping: a comprehension variable shadows a local that is defined there
        # (per the spec) and is read, still defined and not reassigned, in a later block
        for f in r.printed:
            if "shadow" in f and f["sh"] in ("int", "bool") and f["d"] == "live":
                reads = {l for (i, v, l) in by_prog.get(f["id"], ()) if v == f["shadow"] and sts[(i, v, l)] & {"int", "bool"}
                         and dd[(i, v, l)] == {"live"}}
                if G.shadow_live_across(bodies[f["id"]], f["shadow"], f["l"], reads):
                    stats.setdefault("shadow_live_ids", set()).add(f["id"])
        mixed = [k for k, v in dd.items() if len(v) > 1]
        if mixed:
            raise lib.Machinery(f"Scoping: read {mixed[0]} is reached both live and dead: {dd[mixed[0]]}")
        stats["reads"] += len(sts)
        stats["dead_reads"] = stats.get("dead_reads", 0) + sum(1 for v in dd.values() if v != {"live"})
        facts = [{"id": i, "v": v, "l": l, "d": min(dd[(i, v, l)]), "sts": sorted(s)} for (i, v, l), s in sorted(sts.items())]
        if not facts:
            continue
        pf = os.path.join(ctx.workdir, f"scoping_facts_{c0}.json")
        json.dump(facts, open(pf, "w"))
        r2 = ctx.tlc("ScopingVerdict", env={"VERIF_FACTS": pf}, timeout=3000)
        if not r2.ok:
            raise lib.Machinery("ScopingVerdict: TLC error:\n" + r2.error)
        acc = {p["accepted"]: p["upto"] for p in r2.printed if "accepted" in p}
        if len(acc) != 16 or max(acc.values()) != len(facts):
            raise lib.Machinery(f"ScopingVerdict consumed {len(acc)} of 16 chunks (upto {max(acc.values(), default=0)} of {len(facts)})")
        for w in r2.printed:
            if "kinds" in w:
                stats["witness_reads"] += 1
                for k in w["kinds"]:
                    wit[w["id"]].add((k, w["v"], w["l"]))
                    if w["d"] == "live" or (w["d"] == "dead" and k in ("never", "maybe")):
                        req[w["id"]].add((k, w["v"], w["l"]))
        os.remove(pin)
        os.remove(pf)
    stats["shadow_live_ids"] = stats.get("shadow_live_ids", set())
    return wit, req, stats


# ---------------------------------------------------------------------------------------
# comparison
# ---------------------------------------------------------------------------------------
OURS = set(R.KIND_OF_DIAG)
# IllegalAssignError ("assigned although captured from an outer scope") is Guppy's other scoping
# verdict: legitimate only for a nested function that reads its own local before assigning it
SCOPING = OURS | {"IllegalAssignError"}


def judge(wit: set, res: dict, req: set | None = None):
    """None if the code's outcome is allowed by the spec's witnesses, else (class, text).
    `req` = the witnesses that oblige the code to reject (default: all of them).
    Raises Machinery for outcomes that are neither (generator outside the fragment)."""
    req = wit if req is None else req
    st = res["status"]
    if st == "crash":
        return ("crash", f"check() raised {res['error']['class']}: {res['error']['msg']}")
    if not wit:
        if st == "ok":
            return None
        if res["diag"] in SCOPING:
            return (f"false-reject:{res['diag']}",
                    f"no path reaches a read of an unassigned variable and no read sees two types, but check() "
                    f"rejects with {res['diag']}({res['var']}) at line {res['line']}")
        raise lib.Machinery(f"program rejected for a reason outside the property ({res['diag']}: {res.get('title')}); "
                            f"generator left the fragment: id {res['id']}")
    kinds = sorted({k for k, _, _ in wit})
    if st == "ok":
        if not req:
            return None  # only optional witnesses (dead code the checker does not visit)
        return (f"missed:{'+'.join(sorted({k for k, _, _ in req}))}", f"spec witnesses {sorted(req)} but check() accepts")
    d = res["diag"]
    if d in OURS and (R.KIND_OF_DIAG[d], res["var"], res["line"]) in wit:
        return None
    # a nested function reading its own local before assigning it: Guppy reports the read at the
    # definition site (not defined / maybe) or the later assignment as illegal (captured variable)
    unb = {(v, l) for k, v, l in wit if k == "unbound"}
    if unb:
        if d == "IllegalAssignError" and res["var"] in {v for v, _ in unb}:
            return None
        if d in ("VarNotDefinedError", "VarMaybeNotDefinedError") and (res["var"], res["line"]) in unb:
            return None
    if d in SCOPING:
        same_title = [w for w in wit if w[1] == res["var"] and w[2] == res["line"]]
        cls = "wrong-subkind" if same_title and {R.KIND_OF_DIAG.get(d), same_title[0][0]} <= {"never", "maybe"} else "wrong-diag"
        return (f"{cls}:{'+'.join(kinds)}->{d}",
                f"check() reports {d}({res['var']}) at line {res['line']}, which is not among the spec's witnesses {sorted(wit)}")
    raise lib.Machinery(f"program rejected for a reason outside the property ({d}: {res.get('title')}); id {res['id']}")


def kinds_of(body):
    out = set()
    for s in body:
        out.add(s["k"] if s["k"] != "if" or s["c"] == "c" else "if-var")
        if s["k"] == "while" and s["c"] != "c":
            out.add("while-var")
        for f in ("a", "b"):
            if f in s:
                out |= kinds_of(s[f])
    return out


# ---------------------------------------------------------------------------------------
def build_programs(ctx):
    rng = random.Random(ctx.seed * 7919 + 8)
    progs = list(G.enumerate_programs(2))
    layer3 = [p for p in G.enumerate_programs(3) if G.size(p) == 3]
    if ctx.quick:  # seeded third of the 3-statement layer; thorough takes all of it
        rng.shuffle(layer3)
        layer3 = layer3[:4000]
    progs += layer3
    n_ex = len(progs)
    seen = {G.key(p) for p in progs}
    # joins of >= 3 edges at loop heads / tails; code after return/break/continue behind a block boundary
    comp = G.comp_family()  # comprehension variables that may shadow a local (quick: a seeded 450 of the 1200)
    if ctx.quick:
        random.Random(ctx.seed + 77).shuffle(comp)
        comp = comp[:450]
    for p in G.jump_family() + G.dead_family() + comp:
        if G.key(p) not in seen:
            seen.add(G.key(p))
            progs.append(p)
    n_ex2 = len(progs)
    n_rand = ctx.pick(3000, 30000)
    tries = 0
    while len(progs) < n_ex2 + n_rand and tries < 20 * n_rand:
        tries += 1
        p = G.random_program(rng, 7, 3)
        k = G.key(p)
        if k in seen:
            continue
        seen.add(k)
        progs.append(p)
    if not ctx.quick:
        # seeded sample of the size-4 layer (593 693 canonical programs; too many to replay all)
        layer = [p for p in G.enumerate_programs(4) if G.size(p) == 4]
        rng.shuffle(layer)
        for p in layer[:15000]:
            k = G.key(p)
            if k not in seen:
                seen.add(k)
                progs.append(p)
    out = []
    rr = random.Random(ctx.seed + 1)
    for i, p in enumerate(progs):
        bad = G.wellformed(p)
        if bad:
            raise lib.Machinery(f"generator produced a malformed program ({bad}): {G.key(p)}")
        src, body = G.render(p, rr)
        out.append({"id": i, "body": body, "src": src, "exp": G.has_def(p)})
    return out, n_ex


def replay_programs(progs):
    jobs = [{"id": p["id"], "src": p["src"], "experimental": p["exp"]} for p in progs]
    pool._init()  # import /repo's guppylang once, before the workers fork
    return pool.map_jobs(R.check_job, jobs, chunksize=64)


def run(ctx):
    ctx.level = "model_checking"
    progs, n_ex = build_programs(ctx)
    ctx.log(f"{len(progs)} programs ({n_ex} from the enumeration of <= 3 statements)")
    wit, req, stats = spec_witnesses(ctx, [{"id": p["id"], "body": p["body"]} for p in progs])
    ctx.log(f"spec done: { {k: v for k, v in stats.items() if k != 'shadow_live_ids'} } shadow_live={len(stats['shadow_live_ids'])}")
    # vacuity guard (extra TLC run with -coverage): thorough tier and selftest only
    cov = None if ctx.quick else action_coverage(ctx, progs[::max(1, len(progs) // 1200)])
    results = replay_programs(progs)
    ctx.log("replay done")
    groups = {}
    tally = {}
    for p, res in zip(progs, results):
        assert p["id"] == res["id"]
        v = judge(wit[p["id"]], res, req[p["id"]])
        cls = "agree:" + ("accept" if res["status"] == "ok" else res.get("diag", "?"))
        tally[cls] = tally.get(cls, 0) + 1
        if v:
            groups.setdefault(v[0], []).append((G.size(p["body"]), p, res, v[1]))
    for cls, cases in sorted(groups.items()):
        cases.sort(key=lambda c: (c[0], c[1]["src"]))
        _, p, res, text = cases[0]
        key = f"{cls}|{'+'.join(sorted(kinds_of(p['body'])))}"
        if cls.split(":")[0] in ("false-reject", "wrong-diag", "wrong-subkind") and all(
                c[2].get("line") in G.inner_dead_lines(c[1]["body"]) for c in cases):
            # the reported read sits in dead code of a nested function (bb.py computes the captured variables
            # of a nested function without following never-taken edges, cfg_checker checks it with them)
            key = f"{cls.split(':')[0]}|read-in-dead-code-of-nested-function"
        ctx.violation(key, f"{len(cases)} programs; smallest:\n{p['src']}{text}",
                      {"cases": [{"src": c[1]["src"], "body": c[1]["body"], "exp": c[1]["exp"], "code": c[2],
                                  "witnesses": sorted(wit[c[1]["id"]])} for c in cases[:10]]})
    nontrivial = sum(1 for p in progs if wit[p["id"]] or G.depth(p["body"]) >= 1)
    with_w = sum(1 for p in progs if wit[p["id"]])
    kinds = {}
    for p in progs:
        for k in {k for k, _, _ in wit[p["id"]]}:
            kinds[k] = kinds.get(k, 0) + 1
    if not ctx.violations and (min(kinds.get(k, 0) for k in ("never", "maybe", "types", "unbound")) == 0 or with_w == len(progs)):
        raise lib.Machinery(f"vacuous campaign: witness kinds {kinds}, accepted {len(progs) - with_w}")
    shadow_live = stats.get("shadow_live_ids", set())
    shadow_live_clean = [i for i in shadow_live if not wit[i]]
    if not shadow_live_clean:
        raise lib.Machinery("vacuous campaign: no witness-free program in which a comprehension variable shadows a local "
                            "that is live across the comprehension's (non-entry) block")
    sample = [progs[i] for i in (n_ex // 2, n_ex + 7, len(progs) - 1)]
    ctx.coverage.update({
        "traces_validated_against_impl": len(progs),
        "evaluations": len(progs),
        "distinct_nontrivial": nontrivial,
        "rule": "distinct programs (canonical JSON, up to va<->vb renaming in the exhaustive part); non-trivial = has a "
                "branch/loop/nested function or a spec witness",
        "exhaustive": False,
        "exhaustive_part": (f"{n_ex} programs: all with <= 2 statements and " + ("a seeded sample of 4000 of the 13 506" if ctx.quick else "all 13 506")
                            + " with 3 statements (modulo va<->vb)"),
        "loop_jump_family": "648 systematic loop programs with break/continue (joins of >= 3 edges)",
        "comprehension_family": "systematic programs with `array(e for v in range(3))` whose variable may shadow a local "
                                "(quick 450 of 1200, thorough all), plus comprehensions in the random programs",
        "programs_with_comprehension": sum(1 for p in progs if G.has_comp(p["body"])),
        "comprehension_shadows_live_local": len(shadow_live),
        "comprehension_shadows_live_local_and_spec_accepts": len(shadow_live_clean),
        "dead_code_family": "1146 systematic programs with statements after return/break/continue",
        "programs_with_dead_code": sum(1 for p in progs if G.has_dead(p["body"])),
        "dead_code_programs_accepted": sum(1 for p, r in zip(progs, results) if r["status"] == "ok" and G.has_dead(p["body"])),
        "programs_with_only_optional_witnesses": sum(1 for p in progs if wit[p["id"]] and not req[p["id"]]),
        "reads_in_dead_code": stats.get("dead_reads", 0),
        "programs_with_witness": with_w,
        "programs_accepted_by_spec": len(progs) - with_w,
        "programs_by_witness_kind": kinds,
        "outcome_tally": tally,
        "action_coverage_on_every_kth_program": cov,
        "path_facts": stats["facts"],
        "reads_classified": stats["reads"],
        "reads_with_witness": stats["witness_reads"],
        "samples": [{"src": p["src"], "witnesses": sorted(wit[p["id"]])} for p in sample],
        "not_covered": "literal True/False conditions, `while True`; nested functions only one level deep and without "
                       "parameters; type joins / unbound locals inside dead code and everything in dead code of nested "
                       "functions are optional witnesses (the checker does not visit those blocks)",
    })
    ctx.assumptions += ["TLC", "renderer scope_gen.render (JSON AST -> source text, line numbers)",
                        "union of per-path facts per read is formed in Python (set union only)"]


def replay(ctx, data):
    for c in data["replay"]["cases"]:
        body = c["body"]
        wit, req, _ = spec_witnesses(ctx, [{"id": 0, "body": body}])
        res = R.check_job({"id": 0, "src": c["src"], "experimental": c["exp"]})
        print(c["src"])
        print("spec witnesses:", sorted(wit[0]))
        print("code:", {k: v for k, v in res.items() if k != "id"})
        try:
            print("required:", sorted(req[0]))
            print("judgement:", judge(wit[0], res, req[0]))
        except lib.Machinery as e:
            print("judgement: machinery:", e)


def selftest(ctx):
    rng = random.Random(5)
    bodies = list(G.enumerate_programs(2))
    progs = []
    for i, p in enumerate(bodies):
        src, body = G.render(p, rng)
        progs.append({"id": i, "body": body, "src": src, "exp": G.has_def(p)})
    wit, req, _ = spec_witnesses(ctx, [{"id": p["id"], "body": p["body"]} for p in progs])
    results = replay_programs(progs)
    base = [judge(wit[p["id"]], r, req[p["id"]]) for p, r in zip(progs, results)]
    if any(base):
        ctx.log(f"selftest: {sum(1 for b in base if b)} baseline disagreements (reported by the run, ignored here)")
    flagged = {"flip-accept": 0, "flip-reject": 0, "wrong-var": 0, "wrong-line": 0, "subkind": 0}
    for p, r, b in zip(progs, results, base):
        if b:
            continue
        w = wit[p["id"]]
        if r["status"] == "ok":
            # the code's acceptance against a forged witness, and a forged rejection against no witness
            if judge({("maybe", "va", 3)}, r):
                flagged["flip-accept"] += 1
            forged = dict(r, status="rejected", diag="VarNotDefinedError", var="va", line=3)
            if judge(w, forged):
                flagged["flip-reject"] += 1
        elif r["diag"] in OURS:
            other = "vb" if r["var"] == "va" else "va"
            if not any(x[1] == other for x in w) and judge(w, dict(r, var=other)):
                flagged["wrong-var"] += 1
            if judge(w, dict(r, line=r["line"] + 40)):
                flagged["wrong-line"] += 1
            if r["diag"] != "BranchTypeError":
                sw = "VarMaybeNotDefinedError" if r["diag"] == "VarNotDefinedError" else "VarNotDefinedError"
                if not any(x[0] == R.KIND_OF_DIAG[sw] for x in w) and judge(w, dict(r, diag=sw)):
                    flagged["subkind"] += 1
            if judge(set(), dict(r)) is None:
                raise lib.Machinery("selftest: a rejection was allowed against an empty witness set")
    if min(flagged.values()) == 0:
        raise lib.Machinery(f"selftest: some corruption class was never flagged: {flagged}")
    action_coverage(ctx, [{"id": p["id"], "body": p["body"]} for p in progs] +
                    [{"id": 10_000 + i, "body": G.render(q)[1]} for i, q in enumerate(G.jump_family()[::9] + G.dead_family()[::20] + G.comp_family()[::40])])
    # corrupt the spec input: remove the assignment that makes a program fine -> witnesses must appear
    ok_prog = next(p for p in progs if not wit[p["id"]] and any(s["k"] == "use" for s in p["body"]))
    mutated = [s for s in ok_prog["body"] if s["k"] not in ("asg", "cpy", "for")]
    w2, _, _ = spec_witnesses(ctx, [{"id": 0, "body": mutated}])
    if not w2[0]:
        raise lib.Machinery("selftest: spec found no witness after deleting all assignments")
    ctx.log(f"selftest corruptions flagged: {flagged}")


if __name__ == "__main__":
    lib.main("C08", run, replay, selftest)
