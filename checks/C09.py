"""C09 Dataflow analyses equal the path-based solution in any visit order.

spec/Dataflow.tla models ForwardAnalysis.run / BackwardAnalysis.run (one action per worklist
iteration, pop order nondeterministic) and the declarative path solutions.
 1. design: TLC explores EVERY worklist order on (a) the exhaustive family of tiny graphs,
    (b) seeded random graphs, (c) the graphs the real CFGBuilder produced for a program corpus;
    invariant: final values = path solution; action property: variant decreases (termination);
    liveness property <>Done on the tiny family.
 2. binding, code -> spec: the real analyses run (i) on the same abstract graphs built as real
    BB objects, (ii) in situ inside check() on the corpus, under scheduler policies
    native/min/max/fifo/lifo/random and DFS-enumerated schedules; every iteration is logged by the
    guarded hook and spec/Dataflow_Trace.tla validates each run step by step and its result.
"""
import itertools
import json
import os
import random

import lib


def canon(g):
    return json.dumps(g, sort_keys=True)


def tiny_family(maxn=2, nvars=1):
    """All graphs with <= maxn blocks, out-degree <= 2, optional dummy edge, entry without preds."""
    out = []
    for n in range(1, maxn + 1):
        blocks = list(range(1, n + 1))
        succ_opts = [[]] + [[s] for s in blocks] + [[s, t] for s in blocks for t in blocks if s != t]
        dsucc_opts = [[]] + [[s] for s in blocks]
        va = [[]] + [[v] for v in range(1, nvars + 1)]
        per_block = [(s, d, u, a) for s in succ_opts for d in dsucc_opts for u in va for a in va]
        for combo in itertools.product(per_block, repeat=n):
            if any(1 in c[0] or 1 in c[1] for c in combo):
                continue  # entry has no predecessors (CfgBuild invariant)
            for inout in ([], [1]):
                out.append({"n": n, "succ": [c[0] for c in combo], "dsucc": [c[1] for c in combo],
                            "used": [c[2] for c in combo], "assigned": [c[3] for c in combo],
                            "nvars": nvars, "predef": [], "premaybe": [], "inout": inout, "iu": True, "iev": 0})
    return out


def random_graph(rng, n, nvars):
    blocks = list(range(1, n + 1))
    succ, dsucc = [], []
    for b in blocks:
        k = rng.choice([0, 1, 1, 2, 2])
        cand = [x for x in blocks if x != 1]
        s = rng.sample(cand, min(k, len(cand))) if cand else []
        succ.append(s)
        dsucc.append([rng.choice(cand)] if cand and rng.random() < 0.25 else [])
    vs = list(range(1, nvars + 1))
    sub = lambda p: [v for v in vs if rng.random() < p]
    predef = sub(0.2)
    premaybe = sorted(set(predef) | set(sub(0.15)))
    return {"n": n, "succ": succ, "dsucc": dsucc, "used": [sub(0.3) for _ in blocks],
            "assigned": [sub(0.3) for _ in blocks], "nvars": nvars, "predef": predef,
            "premaybe": premaybe, "inout": sub(0.2), "iu": True, "iev": 0}


def real_runs_abstract(graphs, seed, per_graph):
    """Run the real analyses on abstract graphs under several schedules."""
    import df_real

    runs = []
    for gi, g in enumerate(graphs):
        pols = ["native", "min", "max", "fifo", "lifo"] + [("rand", k) for k in range(per_graph)]
        for mode in ("live", "assign"):
            seen = set()
            for p in pols:
                s = df_real.Sched(p, seed) if isinstance(p, str) else df_real.Sched("rand", seed * 7919 + gi * 31 + p[1])
                r = df_real.run(g, mode, s)
                key = json.dumps(r["steps"])
                if key in seen:
                    continue
                seen.add(key)
                r["graph"] = gi + 1
                runs.append(r)
    return runs


def dfs_schedules(g, mode, limit):
    """Enumerate distinct schedules of the real code by prefix-forcing (DFS), up to `limit` runs."""
    import df_real

    runs, stack, seen = [], [[]], set()
    while stack and len(runs) < limit:
        prefix = stack.pop()
        s = df_real.Sched("min", 0, script=list(prefix))
        try:
            r = df_real.run(g, mode, s)
        except RuntimeError:
            continue
        key = tuple(st["b"] for st in r["steps"])
        if key in seen:
            continue
        seen.add(key)
        runs.append(r)
        # branch on alternatives after the forced prefix
        q = set(range(1, g["n"] + 1))
        for i, st in enumerate(r["steps"]):
            if i >= len(prefix):
                for alt in sorted(q - {st["b"]}):
                    stack.append(list(key[:i]) + [alt])
            q = set(st["queue"])
    return runs


def insitu_job(job):
    import df_insitu

    name, src, pol, seed = job
    outcome, runs, _ = df_insitu.record_check(src, "f", pol, seed)
    return {"name": name, "src": src, "policy": pol, "outcome": outcome, "runs": runs}


def validate_traces(ctx, graphs, runs, tag):
    """TLC trace validation; returns list of bad records (dict) and number accepted."""
    if not runs:
        return [], 0
    bad, acc = [], set()
    CH = 600
    for start in range(0, len(runs), CH):
        part = runs[start:start + CH]
        used = sorted({r_["graph"] for r_ in part})
        remap = {g: i + 1 for i, g in enumerate(used)}
        path = os.path.join(ctx.workdir, f"trace_{tag}_{start}.json")
        json.dump({"graphs": [graphs[g - 1] for g in used], "runs": [dict(r_, graph=remap[r_["graph"]]) for r_ in part]},
                  open(path, "w"))
        r = ctx.tlc("Dataflow_Trace", env={"VERIF_IN": path}, timeout=3000)
        os.remove(path)
        if not r.ok:
            raise lib.Machinery(f"Dataflow_Trace failed ({tag}):\n{r.error}")
        for p in r.printed:
            if "run" in p:
                p["run"] += start
            if "graph" in p and "wrong" in p:
                p["graph"] = used[p["graph"] - 1]
            if "bad" in p or "wrong" in p:
                bad.append(p)
            elif "accepted" in p:
                acc.add(p["run"])
    stuck = [i + 1 for i in range(len(runs)) if (i + 1) not in acc and not any(b.get("run") == i + 1 for b in bad)]
    for i in stuck:
        bad.append({"run": i, "bad": "trace not consumed to its end"})
    return bad, len(acc)


def run(ctx):
    rng = random.Random(ctx.seed)
    # ---- 1. design level: every schedule ---------------------------------------------------
    fam = tiny_family(2, 1)
    nrand = ctx.pick(300, 6000)
    rgraphs = [random_graph(rng, rng.randint(3, ctx.pick(5, 6)), rng.randint(1, 2)) for _ in range(nrand)]
    # in-situ corpus (also gives real CFGs)
    import df_corpus, pool

    progs = df_corpus.programs(ctx.seed, ctx.pick(24, 1500))
    pols = ctx.pick(["native", "min", "lifo", "rand"], ["native", "min", "max", "fifo", "lifo", "rand"])
    jobs = [(n, s, p, ctx.seed + i) for i, (n, s) in enumerate(progs) for p in pols]
    ctx.log(f"in-situ: {len(progs)} programs x {len(pols)} policies")
    res = pool.map_jobs(insitu_job, jobs, chunksize=8)
    real_graphs, real_runs = [], []
    gidx = {}
    skipped_partial = 0
    crashes = []
    for r in res:
        if r["outcome"]["status"] == "crash":
            crashes.append(r)
        for run_ in r["runs"]:
            g = run_["graph"]
            if g.get("partial") or not run_["closed"] or g["n"] > ctx.pick(24, 60):
                skipped_partial += 1
                continue
            if run_["mode"] == "assign" and not g["iu"]:
                raise lib.Machinery("AssignmentAnalysis with include_unreachable=False: not modelled")
            k = canon(g)
            if k not in gidx:
                real_graphs.append(g)
                gidx[k] = len(real_graphs)
            real_runs.append({"graph": gidx[k], "mode": run_["mode"], "steps": run_["steps"],
                              "final": run_["final"], "prog": r["name"], "policy": r["policy"]})
    ctx.log(f"real CFG graphs: {len(real_graphs)}, real in-situ runs: {len(real_runs)}")

    wrong = {}

    def explore(graphs, tag, cfg="Dataflow.cfg"):
        if not graphs:
            return
        path = os.path.join(ctx.workdir, f"graphs_{tag}.json")
        json.dump({"graphs": graphs, "runs": []}, open(path, "w"))
        r = ctx.tlc("Dataflow", cfg, env={"VERIF_IN": path}, timeout=3000)
        if not r.ok:
            if "Variant" in r.error or "Terminates" in r.error or "Temporal" in r.error:
                ctx.violation(f"termination:{tag}", f"termination variant violated on {tag} graphs:\n{r.error[:1500]}",
                              {"tag": tag})
            else:
                raise lib.Machinery(f"Dataflow TLC run failed ({tag}):\n{r.error}")
        for p in r.printed:
            if "wrong" in p:
                g = graphs[p["graph"] - 1]
                wrong.setdefault((tag, p["wrong"], canon(g)), p)

    big = [g for g in real_graphs if g["n"] <= ctx.pick(8, 10)]
    explore(fam, "tiny", "Dataflow_term.cfg")
    explore(rgraphs, "random")
    explore(big, "realcfg")
    ctx.log(f"model exploration done: {len(wrong)} (graph, analysis) pairs where some schedule misses the path solution")

    # ---- 2. binding ---------------------------------------------------------------------------
    sample = fam[:: max(1, len(fam) // ctx.pick(60, 1500))] + rgraphs[: ctx.pick(80, 2500)]
    runs_a = real_runs_abstract(sample, ctx.seed, ctx.pick(2, 8))
    small = [g for g in sample if g["n"] <= 3][: ctx.pick(15, 400)]
    base = len(sample)
    for i, g in enumerate(small):
        for mode in ("live", "assign"):
            for r in dfs_schedules(g, mode, ctx.pick(30, 200)):
                r["graph"] = sample.index(g) + 1
                runs_a.append(r)
    ctx.log(f"abstract-graph real runs: {len(runs_a)}")
    bad_a, acc_a = validate_traces(ctx, sample, runs_a, "abstract")
    bad_r, acc_r = validate_traces(ctx, real_graphs, real_runs, "insitu")

    # ---- verdicts ---------------------------------------------------------------------------
    # (a) model: some schedule does not reach the path solution -> classify by mechanism
    for (tag, kind, cg), p in sorted(wrong.items()):
        g = json.loads(cg)
        has_dummy = any(g["dsucc"])
        key = f"schedule-dependent:{kind}:{'dummy-edges' if has_dummy else 'plain'}"
        ctx.violation(key, f"{kind} analysis: a worklist order ends away from the path solution "
                      f"(source {tag}) graph={cg} got={json.dumps(p['got'])} want={json.dumps(p['want'])}",
                      {"graph": g, "mode": kind, "report": p})
    # (b) the real code's runs
    for tag, bad, runs in (("abstract", bad_a, runs_a), ("insitu", bad_r, real_runs)):
        for b in bad:
            ri = b.get("run")
            run_ = runs[ri - 1] if ri else None
            if "wrong" in b:
                continue  # ReportWrong during trace validation is reported through (a)/(c)
            ctx.violation(f"trace-mismatch:{b.get('bad')}", f"real run ({tag}) is not a behaviour of Dataflow: {json.dumps(b)[:600]}",
                          {"run": run_, "bad": b, "source": tag})
    # (c) real finals vs declarative solution (ReportWrong inside the trace spec)
    for tag, bad, runs, graphs in (("abstract", bad_a, runs_a, sample), ("insitu", bad_r, real_runs, real_graphs)):
        for b in bad:
            if "wrong" in b:
                g = graphs[b["graph"] - 1]
                has_dummy = any(g["dsucc"])
                ctx.violation(f"schedule-dependent:{b['wrong']}:{'dummy-edges' if has_dummy else 'plain'}",
                              f"real code ({tag}) returned a result that differs from the path solution: graph={canon(g)} {json.dumps(b)[:500]}",
                              {"graph": g, "report": b})
    for c in crashes[:5]:
        ctx.log("note: check() crashed on corpus program (reported by C02, not C09):", c["name"], c["outcome"]["error"].get("class"))

    # ---- 3. the real CFG builder against spec/CfgBuild.tla ----------------------------------------
    cb = cfgbuild_part(ctx, progs)

    nontriv = sum(1 for g in fam + rgraphs + real_graphs if any(len(s) > 1 for s in g["succ"]) or
                  any(b + 1 in s for b, s in enumerate(g["succ"])) or any(g["dsucc"]))
    ctx.coverage.update({
        "graphs_all_schedules": len(fam) + len(rgraphs) + len(big),
        "graphs_from_real_cfg_builder": len(real_graphs),
        "traces_validated_against_impl": acc_a + acc_r,
        "real_runs_recorded": len(runs_a) + len(real_runs),
        "evaluations": len(fam) + len(rgraphs) + len(big) + len(runs_a) + len(real_runs),
        "distinct_nontrivial": nontriv,
        "rule": "graphs: exhaustive family (<=2 blocks, 1 var, dummy edges, inout) + seeded random (3-6 blocks, <=2 vars, "
                "dummy edges, predef/premaybe/inout) + CFGs captured from the real builder; each explored under every "
                "worklist order by TLC. non-trivial = has a join, a cycle or a dummy edge. Real runs: schedules "
                "native/min/max/fifo/lifo/random + DFS-enumerated, validated step by step.",
        "samples": [rgraphs[0], real_graphs[0] if real_graphs else None, runs_a[0]],
        "exhaustive": False,
        "model_schedule_dependent_pairs": len(wrong),
        "skipped_partial_runs": skipped_partial,
        "cfg_builder": cb,
    })
    ctx.assumptions += ["TLC", "hooks in guppylang_internals/_verif.py report the analysis state faithfully",
                        "graphs whose entry has predecessors are outside the quantifier (CFG builder never produces them)"]


def cfgbuild_part(ctx, progs):
    """Every function of the corpus is built by the real CFGBuilder and by the model (spec/CfgBuild.tla, TLC);
    TLC checks the structural invariants (the scope of C09's quantifier: entry without predecessors, every
    block reachable from a predecessor-less block, dummy edges only into dead code ...) on BOTH graphs.
    A real graph violating an invariant is reported; a mere shape difference model/real is counted in evidence
    (it means the builder model is out of date, not that the property fails)."""
    import ast

    import cfg2model
    import sem_gen

    items = []
    srcs = [(n, s) for n, s in progs] + [(c["id"], c["src"]) for c in sem_gen.programs(ctx.seed, ctx.pick(25, 600), effects=0.3)]
    skipped = 0
    for name, src in srcs:
        try:
            tree = ast.parse(src)
        except SyntaxError:
            continue
        for fdef in [n for n in tree.body if isinstance(n, ast.FunctionDef)]:
            try:
                m = cfg2model.model_program(fdef)
                rn = fdef.returns is None or (isinstance(fdef.returns, ast.Constant) and fdef.returns.value is None)
                real = cfg2model.real_cfg(fdef, rn)
            except cfg2model.Unsupported:
                skipped += 1
                continue
            except Exception:  # nested defs need Globals, rejected programs raise GuppyError: not this part's subject
                skipped += 1
                continue
            m["real"] = real
            items.append((f"{name}:{fdef.name}", m, ast.unparse(fdef)))
    if not items:
        raise lib.Machinery("CfgBuild: no function of the corpus could be built")
    path = os.path.join(ctx.workdir, "cfgbuild.json")
    json.dump({"progs": [m for _, m, _ in items]}, open(path, "w"))
    r = ctx.tlc("CfgBuild", env={"VERIF_IN": path}, timeout=3000)
    if not r.ok:
        raise lib.Machinery("CfgBuild: the model violates its own structural invariants or TLC failed:\n" + r.error)
    model = {p["prog"]: p for p in r.printed if "prog" in p}
    realv = {p["real"]: p["holds"] for p in r.printed if "real" in p}
    same = diff = 0
    examples = []
    for i, (name, m, src) in enumerate(items):
        g, real = model.get(i + 1), m["real"]
        if g is None or (i + 1) not in realv:
            raise lib.Machinery(f"CfgBuild: no verdict for {name}")
        if (g["n"] == real["n"] and [list(x) for x in g["succ"]] == real["succ"]
                and [list(x) for x in g["dsucc"]] == real["dsucc"] and list(g["reach"]) == real["reach"]):
            same += 1
        else:
            diff += 1
            if len(examples) < 2:
                examples.append({"function": name, "model": g, "real": real})
        for inv, ok in realv[i + 1].items():
            if not ok:
                ctx.violation(f"cfg-shape:{inv}", f"the CFG the real builder produced for `{name}` violates {inv}: the dataflow analyses' "
                              f"path semantics (and the scope of this check) assume it. graph={json.dumps(real)}\n{src}",
                              {"graph": real, "src": src})
    if diff:
        ctx.log(f"note: {diff} of {len(items)} real CFGs differ in shape from the CfgBuild model (model out of date?)")
    return {"functions_built": len(items), "shape_equal_to_model": same, "shape_differs": diff,
            "difference_examples": examples, "skipped": skipped}


def replay(ctx, data):
    import df_real

    d = data["replay"]
    g = d["graph"]
    for pol in ["min", "max", "fifo", "lifo"]:
        for mode in ("live", "assign"):
            print(pol, mode, json.dumps(df_real.run(g, mode, df_real.Sched(pol, 0))["final"]))


def selftest(ctx):
    import df_real

    g = {"n": 4, "succ": [[2, 3], [4], [4], []], "dsucc": [[], [], [], []], "used": [[], [1], [1], []],
         "assigned": [[], [2], [2], []], "nvars": 2, "predef": [1], "premaybe": [1], "inout": [], "iu": True, "iev": 0}
    runs = []
    for mode in ("live", "assign"):
        r = df_real.run(g, mode, df_real.Sched("min", 0))
        r["graph"] = 1
        runs.append(r)
    bad, acc = validate_traces(ctx, [g], runs, "self0")
    if bad or acc != 2:
        raise lib.Machinery(f"selftest: pristine traces rejected: {bad}")
    # corrupt: (1) a logged value, (2) drop an event, (3) a worklist, (4) the returned result
    muts = []
    r1 = json.loads(json.dumps(runs[0])); r1["steps"][1]["before"] = [[2, 1]]; muts.append(r1)
    r2 = json.loads(json.dumps(runs[0])); del r2["steps"][1]; muts.append(r2)
    r3 = json.loads(json.dumps(runs[1])); r3["steps"][0]["queue"] = r3["steps"][0]["queue"][:-1]; muts.append(r3)
    r4 = json.loads(json.dumps(runs[1])); r4["final"][3] = [[1], [1, 2]]; muts.append(r4)
    for i, m in enumerate(muts):
        bad, acc = validate_traces(ctx, [g], [m], f"self{i + 1}")
        if not bad:
            raise lib.Machinery(f"selftest: corrupted trace {i} accepted")


if __name__ == "__main__":
    lib.main("C09", run, replay, selftest)
