"""C25 Modifier blocks lower to the matching modifier operations.

Decided by: spec/Modifiers.tla.  TLC enumerates every stack of with-items (with
repetition, single and nested blocks, several bodies), runs the algorithm-shaped model of
ModifiedBlock.push_modifier + compile_modified_block on it, checks the model's own laws
(op counts, arities, hand-over order, normal form, exact classification of the stack shapes
on which the model cannot equal the property's lowering) and prints for every case the
property's chain (`expected`), the model's chain (`lowered`), the deviation classes, the
expected route of every qubit through the call(s) and the expected contents of the wrapped
functions.  Binding (spec -> code): each case is rendered to Guppy source, compiled by /repo's
guppylang, validated (hugr-core) and projected (harness/uni_hugr.py: walk from the CallIndirect
back through the tket.modifier.* ops to the LoadFunc, trace every qubit wire from the function
Input through the call slots to the Output); the projection must equal what TLC printed.

A case whose compiled chain differs from `expected` violates the property.  If it equals the
model's chain the violation is reported under the model's class name(s) (a stable key per
stack-shape class); otherwise under a key naming the exact stack.
"""
import collections
import json
import random

import lib
import uni_par
import uni_mod as um

BATCH = 12
ACTIONS = ("ChooseOuter", "ChooseInnerBody", "Push", "EmitDagger", "EmitPower", "EmitControl", "PrepareArgs", "Call")


def spec_cases(ctx, cfg, coverage=False):
    r = ctx.tlc("Modifiers", cfg, coverage=coverage, timeout=1700)
    if not r.ok:
        raise lib.Machinery("Modifiers.tla: a law of the lowering model fails (specification error):\n" + r.error)
    for a in ACTIONS if coverage else ():
        if sum(r.coverage.get(a, (0, 0))) == 0:
            raise lib.Machinery(f"Modifiers.tla: action {a} never taken (vacuous run); coverage={r.coverage}")
    cases = [p for p in r.printed if "case" in p]
    if not cases:
        raise lib.Machinery("Modifiers.tla printed no case:\n" + r.out[-1500:])
    # the model has two variants of the control emission (ctlfix); everything except the
    # lowered chain / its classes / well-typedness is independent of the variant
    merged = collections.OrderedDict()
    for p in sorted(cases, key=lambda p: (um.case_key(p["case"]), p["ctlfix"])):
        k = um.case_key(p["case"])
        var = {"ctlfix": p["ctlfix"], "lowered": p["lowered"], "classes": p["classes"], "welltyped": p["welltyped"]}
        if k not in merged:
            p["key"] = k
            p["variants"] = []
            if isinstance(p["routes"], list):  # empty function prints as []
                p["routes"] = {}
            merged[k] = p
        q = merged[k]
        if any(v["ctlfix"] == p["ctlfix"] for v in q["variants"]):
            raise lib.Machinery(f"case printed twice (model not deterministic): {k}")
        for f in ("expected", "unitary", "captured", "bodyops", "body", "linearok", "mayreject"):
            if q[f] != p[f]:
                raise lib.Machinery(f"{k}: field {f} depends on the model variant")
        q["variants"].append(var)
    cases = list(merged.values())
    for p in cases:
        if [v["ctlfix"] for v in p["variants"]] != [False, True]:
            raise lib.Machinery(f"{p['key']}: variants {p['variants']}")
        # the repaired variant (the tree since 2399a57) is the reference for reporting
        p["lowered"], p["classes"], p["welltyped"] = (p["variants"][-1][f] for f in ("lowered", "classes", "welltyped"))
    return cases, r


def observe(cases, seed):
    order = list(range(len(cases)))
    random.Random(seed).shuffle(order)
    slim = lambda p: {"expected": p["expected"], "body": p["body"]}  # noqa: E731
    jobs = [{"cases": [slim(cases[i]) for i in order[j:j + BATCH]], "seed": seed} for j in range(0, len(order), BATCH)]
    out = uni_par.run(um.observe_batch, jobs, est_seconds_per_job=0.3)
    flat = [r for b in out for r in b]
    obs = [None] * len(cases)
    for i, r in zip(order, flat):
        obs[i] = r
    return obs


def norm_chain(chain):
    """Observed chain -> the record shape of the spec."""
    out = []
    for m in chain:
        if m["op"] == "Dagger":
            out.append({"op": "Dagger", "arity": 0, "src": [], "isarr": False, "opnd": "-"})
        elif m["op"] == "Control":
            out.append({"op": "Control", "arity": m["arity"], "src": m["src"], "isarr": m["isarr"], "opnd": "-"})
        elif m["op"] == "Power":
            o = m["opnd"]
            out.append({"op": "Power", "arity": 0, "src": [], "isarr": False,
                        "opnd": f"#{o[1]}" if isinstance(o, list) and o[0] == "const" else o if isinstance(o, str) else json.dumps(o)})
        else:
            out.append(m)
    return out


def norm_events(evs):
    out = []
    for e in evs:
        if e[0] == "ctrl":
            out.append({"t": "ctrl", "d": e[1], "slot": e[2], "elem": 99 if e[3] is None else e[3], "g": "-", "pos": 0})
        elif e[0] == "cap":
            out.append({"t": "cap", "d": e[1], "slot": 0, "elem": 0, "g": "-", "pos": 0})
        else:
            out.append({"t": "gate", "d": 0, "slot": 0, "elem": 0, "g": e[1], "pos": e[2]})
    return out


def fmt_chain(c):
    def one(m):
        if m["op"] == "Control":
            return f"Control<{m['arity']}>({','.join(m['src'])})"
        if m["op"] == "Power":
            return f"Power({m['opnd']})"
        return m["op"]
    return "[" + ", ".join(one(m) for m in c) + "]"


def compare_case(p, o):
    """-> list of (key, text) for one case."""
    key = p["key"]
    out = []
    if o["status"] in ("machinery",):
        raise lib.Machinery(f"case {key} could not be observed: {o.get('error')}\n{o.get('tb', '')}")
    if o["status"] == "rejected" and p["mayreject"]:
        return []  # control(array[i]) may be refused with a located error
    if o["status"] == "crash" and p["mayreject"]:
        return [("subscripted-control-crash", f"{key}: control(array[0]) neither lowered nor rejected with a located "
                                              f"error: {o.get('error')} {o.get('tb', '')[-300:]}")]
    if o["status"] != "ok":
        return [(f"not-compiled:{key}", f"spec-valid modifier program is {o['status']}: {o.get('error')}")]
    if not all(p["linearok"]) and ("shape_error" in o or not o["valid"]):
        # predicted by the model: captured wires are read before the power operands are compiled
        return [("power-operand-borrows-captured-qubit",
                 f"{key}: the exponent g(q) borrows q, which the block also captures; the call consumes a stale wire of q: "
                 f"{o.get('shape_error') or o.get('invalid_msg', '')[:200]}")]
    if "shape_error" in o:
        return [(f"unexpected-hugr-shape:{key}", o["shape_error"])]
    nlev = len(p["expected"])
    f = o["proj"]["tree"]
    # which model variant does the compiled code follow (decided on the chains of all blocks)
    chains, g = [], f
    while g["sites"]:
        chains.append(norm_chain(g["sites"][0]["chain"]))
        g = g["wrapped"][0] if g["wrapped"] else {"sites": []}
    var = next((v for v in reversed(p["variants"]) if v["lowered"] == chains), None)
    matched = var is not None
    if var is None:
        var = next((v for v in reversed(p["variants"])
                    if all(c == l or c == e for c, l, e in zip(chains, v["lowered"], p["expected"])) and len(chains) == nlev),
                   p["variants"][-1])
    illtyped_predicted = matched and not all(var["welltyped"])
    for lvl in range(nlev):
        where = f"{key} block {lvl + 1}"
        if len(f["sites"]) != 1:
            out.append((f"unexplained-lowering:{where}", f"{len(f['sites'])} modifier call sites in {f['name']}, expected 1"))
            return out
        outside = ["call:g"] * sum(1 for m in p["expected"][lvl] if m["op"] == "Power" and m["opnd"] == "g(q)")
        if f["ops"] != outside:
            out.append((f"body-ops-misplaced:{where}", f"enclosing function {f['name']} contains ops {f['ops']}, "
                                                       f"expected {outside}"))
        site, w = f["sites"][0], f["wrapped"][0]
        got = norm_chain(site["chain"])
        exp, low, classes = p["expected"][lvl], var["lowered"][lvl], var["classes"][lvl]
        if got != exp:
            if got == low and classes:
                for c in classes:
                    out.append((c, f"{where}: property lowers to {fmt_chain(exp)} but the compiled chain (outermost first) "
                                   f"is {fmt_chain(got)}"))
            else:
                out.append((f"unexplained-lowering:{where}", f"expected {fmt_chain(exp)}, model {fmt_chain(low)}, "
                                                              f"compiled {fmt_chain(got)}"))
        if set(map(json.dumps, site["captured"])) != set(map(json.dumps, p["captured"][lvl])) or \
                len(site["captured"]) != len(p["captured"][lvl]):
            out.append((f"plumbing:{where}", f"captured inputs {site['captured']} != {sorted(p['captured'][lvl])}"))
        if w["unitary"] != p["unitary"][lvl]:
            out.append((f"metadata:{where}", f"wrapped function records unitary={w['unitary']}, expected {p['unitary'][lvl]}"))
        f = w
    if f["sites"]:
        out.append((f"unexplained-lowering:{key}", "innermost wrapped function contains a further modifier call"))
    if f["ops"] != sorted(p["bodyops"]):
        out.append((f"body-ops:{key}", f"wrapped function contains {f['ops']}, body is {sorted(p['bodyops'])}"))
    for v, path in o["proj"]["paths"].items():
        exp = p["routes"].get(v, [])
        got = norm_events(path["events"])
        if got != exp or path["out"] != path["want_out"]:
            out.append((f"plumbing:{key}", f"qubit {v}: route {got} -> output {path['out']}, expected {exp} -> output {path['want_out']}"))
    if not o["valid"]:
        if illtyped_predicted:
            if "control-arities-crossed" not in {k for k, _ in out}:
                out.append(("control-arities-crossed", f"{key}: HUGR does not validate: {o.get('invalid_msg', '')[:200]}"))
        else:
            out.append((f"invalid-hugr:{key}", o.get("invalid_msg", "")[:300]))
    elif illtyped_predicted and "shape_error" not in o:
        raise lib.Machinery(f"{key}: model predicts an ill-typed call but the validator accepts the HUGR")
    return out


def compare(cases, obs):
    findings = []
    for p, o in zip(cases, obs):
        for k, t in compare_case(p, o):
            findings.append((k, p, o, t))
    return findings


def report(ctx, findings, seed):
    groups = collections.OrderedDict()
    for key, p, o, text in findings:
        groups.setdefault(key, []).append((p, o, text))
    for key, items in groups.items():
        p, o, text = items[0]
        ctx.violation(key, f"{len(items)} case(s), e.g. {text}\n{um.render(p, 'test', seed)}",
                      {"seed": seed, "cases": [{"record": {k: x[0][k] for k in ("case", "expected", "lowered", "classes", "welltyped", "linearok",
                                                                                "mayreject", "unitary", "routes", "captured", "bodyops",
                                                                                "body")},
                                                "variants": x[0]["variants"], "text": x[2]} for x in items[:8]]})


def run(ctx):
    ctx.level = "model_checking"
    cfg = ctx.pick("Modifiers.cfg", "Modifiers_thorough.cfg")
    cases, r = spec_cases(ctx, cfg, coverage=not ctx.quick)
    ctx.log(f"TLC: {len(cases)} cases, {r.distinct} states, {r.wall:.1f}s")
    obs = observe(cases, ctx.seed)
    findings = compare(cases, obs)
    report(ctx, findings, ctx.seed)
    cls = collections.Counter(c for p in cases for lv in p["classes"] for c in lv)
    ok = sum(1 for o in obs if o["status"] == "ok")
    bad_cases = {p["key"] for _, p, _, _ in findings}
    ctx.coverage.update({
        "traces_validated_against_impl": len(cases),
        "evaluations": len(cases),
        "distinct_nontrivial": sum(1 for p in cases if len(p["expected"][0]) + (len(p["expected"][1]) if len(p["expected"]) > 1 else 0) >= 2),
        "rule": "a case is one compiled function: with-item stack(s) x body; non-trivial = at least two modifier items",
        "samples": [cases[i]["key"] for i in range(0, len(cases), max(1, len(cases) // 6))][:6],
        "exhaustive": True,
        "table": cfg,
        "compiled": ok,
        "valid_hugr": sum(1 for o in obs if o.get("valid")),
        "cases_conforming_to_property": len(cases) - len(bad_cases),
        "cases_deviating": len(bad_cases),
        "model_classes": dict(cls),
        "qubit_routes_checked": sum(len(o["proj"]["paths"]) for o in obs if "proj" in o),
        "tlc_action_coverage": {a: list(r.coverage.get(a, ())) for a in ACTIONS},
    })
    ctx.assumptions += ["TLC", "renderer harness/uni_mod.py", "HUGR projection harness/uni_hugr.py", "compat shim",
                        "hugr-core validator"]


def replay(ctx, data):
    rp = data["replay"]
    for c in rp["cases"]:
        p = c["record"]
        p["key"] = um.case_key(p["case"])
        p["variants"] = c["variants"]
        print("case:", p["key"])
        print(um.render(p, "t0", rp["seed"]))
        o = um.observe_batch({"cases": [p], "seed": rp["seed"]})[0]
        print("spec expected :", [fmt_chain(x) for x in p["expected"]])
        print("spec model    :", [fmt_chain(x) for x in p["lowered"]], "classes", p["classes"])
        if "proj" in o:
            f, chains = o["proj"]["tree"], []
            while f["sites"]:
                chains.append(fmt_chain(norm_chain(f["sites"][0]["chain"])))
                f = f["wrapped"][0]
            print("compiled      :", chains, "valid:", o.get("valid"), o.get("invalid_msg", "")[:200])
        else:
            print("code:", o)
        print("findings now  :", compare_case(p, o))


def selftest(ctx):
    cases, _ = spec_cases(ctx, "Modifiers.cfg")
    rnd = random.Random(ctx.seed)
    sample = rnd.sample(cases, 160)
    obs = observe(sample, ctx.seed)
    clean = [i for i, (p, o) in enumerate(zip(sample, obs)) if not compare_case(p, o) and len(p["expected"][0]) >= 2
             and p["routes"]]
    if not clean:
        raise lib.Machinery("selftest: no conforming multi-item case in the sample")
    i = clean[0]
    p, o = sample[i], obs[i]

    def must_flag(p2, o2, what):
        if not compare_case(p2, o2):
            raise lib.Machinery(f"selftest: {what} not flagged for {p['key']}")

    cp = lambda x: json.loads(json.dumps(x))  # noqa: E731
    # 1. corrupt the spec's expectation: swap two items of the expected chain
    p2 = cp(p)
    p2["expected"][0][0], p2["expected"][0][1] = p2["expected"][0][1], p2["expected"][0][0]
    must_flag(p2, o, "swapped expected chain")
    # 2. corrupt the observation: drop a modifier op / change an arity / reroute a qubit / drop a body op
    o2 = cp(o)
    o2["proj"]["tree"]["sites"][0]["chain"].pop()
    must_flag(p, o2, "dropped modifier op")
    o2 = cp(o)
    v = next(iter(p["routes"]))
    o2["proj"]["paths"][v]["events"] = []
    must_flag(p, o2, "qubit bypassing the call")
    o2 = cp(o)
    o2["proj"]["paths"][v]["out"] += 1
    must_flag(p, o2, "qubit handed back at the wrong output")
    o2 = cp(o)
    o2["valid"] = False
    must_flag(p, o2, "invalid HUGR")
    j = next((k for k in clean if sample[k]["bodyops"]), None)
    if j is not None:
        o2 = cp(obs[j])
        f = o2["proj"]["tree"]
        while f["wrapped"]:
            f = f["wrapped"][0]
        f["ops"].pop()
        if not compare_case(sample[j], o2):
            raise lib.Machinery("selftest: missing body op not flagged")
    # 3. a deviating case must be reported under the model's class, and as unexplained when the model is wrong too
    k = next((k for k, (pp, oo) in enumerate(zip(sample, obs))
              if oo["status"] == "ok" and all(pp["linearok"]) and all(v["classes"][0] and all(v["welltyped"]) for v in pp["variants"])),
             None)
    if k is not None:
        keys = {x for x, _ in compare_case(sample[k], obs[k])}
        if not keys >= set(sample[k]["variants"][-1]["classes"][0]):
            raise lib.Machinery(f"selftest: deviation classes {sample[k]['variants'][-1]['classes'][0]} not reported, got {keys}")
        p2 = cp(sample[k])
        for v in p2["variants"]:
            v["lowered"][0] = list(reversed(v["lowered"][0])) + v["lowered"][0]
        keys = {x for x, _ in compare_case(p2, obs[k])}
        if not any(x.startswith("unexplained-lowering") for x in keys):
            raise lib.Machinery("selftest: chain matching neither property nor model not reported as unexplained")


if __name__ == "__main__":
    lib.main("C25", run, replay, selftest)
