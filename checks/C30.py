"""C30 Source span containment and intersection follow interval semantics.

Decided by: spec/Spans.tla (interval algebra, laws model-checked exhaustively on a grid)
bound to the code by trace validation: every (span, span) and (loc, span) pair of a
2 files x 3 lines x 4 columns grid is fed to the real Span.__contains__/__and__, each
call recorded with arguments and result, and spec/Spans_Trace.tla checks every record.
"""
import itertools
import json
import os

import lib


def observe(files, nlines, ncols, corrupt=None):
    import gp  # noqa: F401  (imports /repo's guppylang through the shim)
    from guppylang_internals.span import Loc, Span

    locs = {f: [Loc(f, l, c) for l in range(1, nlines + 1) for c in range(ncols)] for f in files}
    spans = [Span(a, b) for f in files for a in locs[f] for b in locs[f] if a <= b]
    alllocs = [x for f in files for x in locs[f]]
    jl = lambda x: [x.file, x.line, x.column]
    js = lambda s: [jl(s.start), jl(s.end)]
    obs = []
    for a in spans:
        for b in spans:
            obs.append({"op": "in", "a": js(a), "b": js(b), "r": bool(a in b)})
            m = a & b
            obs.append({"op": "and", "a": js(a), "b": js(b), "r": [] if m is None else js(m)})
    for x in alllocs:
        for b in spans:
            obs.append({"op": "locin", "a": jl(x), "b": js(b), "r": bool(x in b)})
    return obs


def validate(ctx, obs):
    path = os.path.join(ctx.workdir, "spans_trace.json")
    json.dump(obs, open(path, "w"))
    r = ctx.tlc("Spans_Trace", env={"VERIF_TRACE": path})
    bad = [p for p in r.printed if "bad" in p]
    acc = [p for p in r.printed if "accepted" in p]
    if len({p["accepted"] for p in acc}) != 16:
        raise lib.Machinery(f"trace spec consumed {len(acc)} of 16 chunks:\n{r.out[-1500:]}")
    return bad


def run(ctx):
    ctx.level = "model_checking"
    # 1. the design: laws of the interval algebra
    r = ctx.tlc("Spans", coverage=False)
    if not r.ok:
        raise lib.Machinery("Spans.tla laws violated (specification error):\n" + r.error)
    # 2. binding: observations of the real code validated against the spec
    obs = observe(["A", "B"], 3, 4)
    bad = validate(ctx, obs)
    kinds = {}
    for p in bad:
        o = obs[p["bad"]]
        # classify the failing call site: the defect is in one branch of one method
        a, b = o["a"], o["b"]
        key = {"in": "Span.__contains__(Span)", "and": "Span.__and__", "locin": "Span.__contains__(Loc)"}[o["op"]]
        kinds.setdefault(key, []).append({"obs": o, "expected": p["expected"]})
    for key, cases in kinds.items():
        ctx.violation(key, f"{key}: {len(cases)} of the enumerated calls disagree with interval semantics, "
                      f"e.g. {json.dumps(cases[0])}", {"cases": cases[:20]})
    nontrivial = sum(1 for o in obs if o["op"] != "locin" and o["a"] != o["b"])
    ctx.coverage.update({
        "traces_validated_against_impl": len(obs),
        "evaluations": len(obs),
        "distinct_nontrivial": nontrivial,
        "rule": "every ordered pair of spans (containment and intersection) and every (location, span) pair over "
                "2 files x 3 lines x 4 columns; non-trivial = span pair with a != b",
        "samples": obs[1000:1003] + obs[-2:],
        "exhaustive": True,
        "mismatches": len(bad),
    })
    ctx.assumptions += ["TLC", "JSON projection of Loc/Span (file, line, column)"]


def replay(ctx, data):
    import gp  # noqa: F401
    from guppylang_internals.span import Loc, Span
    for c in data["replay"]["cases"]:
        o = c["obs"]
        mk = lambda s: Span(Loc(*s[0]), Loc(*s[1]))
        if o["op"] == "in":
            print(o, "code:", mk(o["a"]) in mk(o["b"]), "spec:", c["expected"])
        elif o["op"] == "and":
            print(o, "code:", mk(o["a"]) & mk(o["b"]), "spec:", c["expected"])
        else:
            print(o, "code:", Loc(*o["a"]) in mk(o["b"]), "spec:", c["expected"])


def selftest(ctx):
    obs = observe(["A", "B"], 2, 2)
    base = {p["bad"] for p in validate(ctx, obs)}
    # corrupt one recorded result of each op that the spec currently accepts
    for op in ("in", "and", "locin"):
        idx = next(i for i, o in enumerate(obs) if o["op"] == op and i not in base)
        o2 = [dict(o) for o in obs]
        o2[idx]["r"] = (not o2[idx]["r"]) if op != "and" else ([] if o2[idx]["r"] else [["A", 1, 0], ["A", 1, 0]])
        bad = {p["bad"] for p in validate(ctx, o2)}
        if idx not in bad:
            raise lib.Machinery(f"selftest: corrupted {op} observation {idx} was accepted")


if __name__ == "__main__":
    lib.main("C30", run, replay, selftest)
