"""C21 Comptime functions agree with regular Guppy functions.

Every shape (operator x operand position x type combination, builtins, containers, calls) is
rendered twice with the same body: as a `@guppy` function and as a `@guppy.comptime` function.
Both are compiled from /repo and executed by the reference interpreter on the same inputs; both
event streams must be accepted by TLC against the SAME GuppySem machine run (spec/GuppySem.tla,
itself guarded against CPython) - so "same as each other" and "same as Python" are decided together.
"""
import collections
import itertools
import json
import random

import lib
import sem

HEADER = """
@guppy.struct
class P:
    u: int
    v: int

@guppy
def h0(v: int) -> int:
    result("h0", v)
    return v * 2 + 1
"""

INT_BIN = ["+", "-", "*", "//", "%", "&", "|", "^", "<<", ">>", "**"]
CMP = ["<", "<=", ">", ">=", "==", "!="]


def shapes(ctx):
    out = []
    # int operators: traced op traced, traced op const, const op traced (reflected path)
    for op in INT_BIN:
        rc = {"//": [2, 3, 5], "%": [2, 3, 5], "<<": [0, 1, 3], ">>": [0, 1, 2], "**": [0, 2, 3]}.get(op, [2, 5, 0])
        lc = {"<<": [1, 3], ">>": [64, 9], "**": [2, 3], "//": [17, 7], "%": [17, 7]}.get(op, [2, 7])
        out.append((f"int:{op}:tt", f"result(\"r\", x {op} w)"))
        for c in rc:
            out.append((f"int:{op}:tc", f"result(\"r\", x {op} {c})"))
        for c in lc:
            out.append((f"int:{op}:ct", f"result(\"r\", {c} {op} w)"))
    for op in CMP:
        out.append((f"cmp:{op}:tt", f"result(\"r\", x {op} y)"))
        out.append((f"cmp:{op}:tc", f"result(\"r\", x {op} 3)"))
        out.append((f"cmp:{op}:ct", f"result(\"r\", 3 {op} y)"))
        out.append((f"fcmp:{op}:tt", f"result(\"r\", f {op} 1.5)"))
    for op in ["+", "-", "*"]:
        out.append((f"float:{op}:tt", f"result(\"r\", f {op} f)"))
        out.append((f"float:{op}:tc", f"result(\"r\", f {op} 2.0)"))
        out.append((f"float:{op}:ct", f"result(\"r\", 0.5 {op} f)"))
        out.append((f"mixed:{op}:if", f"result(\"r\", x {op} f)"))
        out.append((f"mixed:{op}:fi", f"result(\"r\", f {op} x)"))
        out.append((f"mixed:{op}:cf", f"result(\"r\", 2 {op} f)"))
        out.append((f"mixed:{op}:fc_i", f"result(\"r\", 2.5 {op} x)"))      # float constant, traced int
        out.append((f"mixed:{op}:i_fc", f"result(\"r\", x {op} 2.5)"))
        out.append((f"mixed:{op}:fc_w", f"result(\"r\", 0.5 {op} w)"))
    out += [
        ("unary:-", "result(\"r\", -x)"), ("unary:+", "result(\"r\", +x)"), ("unary:~", "result(\"r\", ~x)"),
        ("unary:-f", "result(\"r\", -f)"), ("unary:not", "result(\"r\", not b)"),
        ("builtin:int", "result(\"r\", int(f) + x)"), ("builtin:float", "result(\"r\", float(x) + f)"),
        ("builtin:abs", "result(\"r\", abs(x - 9))"), ("builtin:absf", "result(\"r\", abs(f - 9.0))"),
        ("builtin:bool", "result(\"r\", bool(x))"), ("builtin:int_bool", "result(\"r\", int(b) + 1)"),
        ("builtin:divmod", "q, r = divmod(x + 7, 3)\n    result(\"q\", q)\n    result(\"r\", r)"),
        ("builtin:pow", "result(\"r\", pow(w, 2))"),
        ("truediv:tt", "result(\"r\", (x * 4) / 2)"), ("truediv:ct", "result(\"r\", 8 / w)"),
        ("truediv:fc_i", "result(\"r\", 7.5 / w)"), ("truediv:i_fc", "result(\"r\", x / 0.5)"),
        ("truediv:f_i", "result(\"r\", f / w)"), ("truediv:i_f", "result(\"r\", y / (f + 1.5))"),
        ("floordiv:ct", "result(\"r\", 17 // w)"), ("mod:ct", "result(\"r\", 17 % w)"), ("pow:ct", "result(\"r\", 2 ** w)"),
        ("sub:ct_y", "result(\"r\", 10 - y)"), ("cmp:fc_i", "result(\"r\", 2.5 < x)"), ("cmp:i_fc", "result(\"r\", x < 2.5)"),
        ("tuple:pack_unpack", "t = (x, y + 1)\n    a1, b1 = t\n    result(\"a\", a1)\n    result(\"b\", b1)"),
        ("tuple:swap", "a1, b1 = y, x\n    result(\"a\", a1 - b1)"),
        ("tuple:nested", "(a1, b1), c1 = (x, 2), y\n    result(\"r\", a1 * b1 + c1)"),
        ("array:build_index", "xs = array(x, y, 3)\n    result(\"r\", xs[0] + xs[2] * 2)"),
        ("array:len", "xs = array(x, y, 3)\n    result(\"r\", len(xs) + x)"),
        ("array:setitem", "xs = array(x, y, 3)\n    xs[1] = x + 10\n    result(\"xs\", xs)"),
        ("array:result", "xs = array(x + 1, y * 2)\n    result(\"xs\", xs)"),
        ("array:loop", "xs = array(x, y, 3)\n    acc = 0\n    for i in range(3):\n        acc += xs[i] * (i + 1)\n    result(\"r\", acc)"),
        ("struct:build_fields", "s = P(x, y + 2)\n    result(\"r\", s.u * 10 + s.v)"),
        ("struct:pass", "s = P(x, 5)\n    t = P(s.v, s.u)\n    result(\"r\", t.u - t.v)"),
        ("call:guppy_fn", "result(\"r\", h0(x) + h0(y + 1))"),
        ("call:nested", "result(\"r\", h0(h0(x)))"),
        ("call:in_loop", "acc = 0\n    for i in range(3):\n        acc += h0(x + i)\n    result(\"r\", acc)"),
        ("pyconst:loop", "acc = x\n    for i in range(4):\n        acc = acc * 2 + i\n    result(\"r\", acc)"),
        # Python constants of different types with equal values in one body (True/1, False/0, 1/1.0, 2/2.0)
        ("pyconst:int_then_bool", "result(\"n\", x + 1)\n    result(\"t\", True)\n    result(\"m\", x * 0)\n    result(\"f\", False)"),
        ("pyconst:bool_then_int", "result(\"t\", True)\n    result(\"f\", False)\n    result(\"n\", x + 1)\n    result(\"m\", x - 0)"),
        ("pyconst:bool_ops", "c = b & True\n    result(\"c\", c)\n    d = b | False\n    result(\"d\", d)\n    result(\"r\", x + 1 - 0)"),
        ("pyconst:int_ops_then_bool", "z = x + 1\n    z = z * 1 + 0\n    c = b | False\n    result(\"c\", c)\n    e = b & True\n    result(\"e\", e)\n    result(\"z\", z)"),
        ("pyconst:int_float_same", "result(\"a\", x + 1)\n    result(\"c\", f + 1.0)\n    result(\"d\", x * 2)\n    result(\"e\", f * 2.0)"),
        ("pyconst:float_int_same", "result(\"c\", f + 2.0)\n    result(\"a\", x + 2)\n    result(\"e\", f * 1.0)\n    result(\"d\", x * 1)"),
        ("pyconst:repeat_same", "result(\"a\", x + 1)\n    result(\"b\", y + 1)\n    result(\"c\", w * 1)\n    result(\"d\", 1 + x)"),
        ("pyconst:returned_bool_int", "t = (True, 1, False, 0)\n    a1, b1, c1, d1 = t\n    result(\"a\", a1)\n    result(\"b\", b1 + x)\n    result(\"c\", c1)\n    result(\"d\", d1 + x)"),
        ("aug:ops", "z = x\n    z += 3\n    z *= 2\n    z -= y\n    z //= 2\n    result(\"r\", z)"),
        ("return:expr", "return x * 3 - y"),
        ("bitmix", "result(\"r\", (x & 6) | (w << 2) ^ 5)"),
        ("chain_arith", "result(\"r\", (x + 2) * (w - 1) - (x // 2) % 3)"),
    ]
    return out


ARGS = [
    [["int", 5], ["int", 2], ["int", 3], ["float", 6], ["bool", 1]],     # x, y, w, f=1.5, b
    [["int", 0], ["int", 7], ["int", 1], ["float", 10], ["bool", 0]],
    [["int", 12], ["int", 12], ["int", 2], ["float", -2], ["bool", 1]],
]


ARGS_MORE = [
    [["int", 9], ["int", 4], ["int", 3], ["float", 9], ["bool", 0]],
    [["int", 100], ["int", 1], ["int", 1], ["float", 2], ["bool", 1]],
    [["int", 2], ["int", 2], ["int", 2], ["float", 16], ["bool", 0]],
    [["int", 31], ["int", 30], ["int", 4], ["float", 1], ["bool", 1]],
]


def build_cases(ctx):
    cases = []
    args = ARGS if ctx.quick else ARGS + ARGS_MORE
    scheds = ["min", "max"] if ctx.quick else ["min", "max", "rand:1", "rand:2"]
    for name, body in shapes(ctx):
        if "return" not in body:
            body = body + "\n    return 0"
        sig = "def main(x: int, y: int, w: int, f: float, b: bool) -> int:\n    "
        reg = HEADER + "\n@guppy\n" + sig + body + "\n"
        comp = HEADER + "\n@guppy.comptime\n" + sig + body + "\n"
        cases.append({"id": name + "|guppy", "shape": name, "mode": "guppy", "src": reg, "entry": "main", "args": args, "scheds": scheds})
        cases.append({"id": name + "|comptime", "shape": name, "mode": "comptime", "src": reg, "impl_src": comp, "entry": "main",
                      "args": args, "scheds": scheds})
    return cases


def run(ctx):
    cases = build_cases(ctx)
    res = sem.evaluate(ctx, cases, "C21")
    by_shape = collections.defaultdict(dict)
    for c, r in zip(cases, res):
        by_shape[c["shape"]][c["mode"]] = (c, r, sem.classify(r))
    cnt = collections.Counter()
    validated = 0
    compared = 0
    for shape, d in by_shape.items():
        (cg, rg, (kg, dg)), (cc, rc, (kc, dc)) = d["guppy"], d["comptime"]
        cnt[f"guppy:{kg}"] += 1
        cnt[f"comptime:{kc}"] += 1
        for k, dd, c in ((kg, dg, cg), (kc, dc, cc)):
            if k == "spec-vs-python":
                raise lib.Machinery(f"GuppySem disagrees with CPython on {c['id']}: {json.dumps(dd)[:500]}")
            if k in ("unmodelled", "interp"):
                raise lib.Machinery(f"{k} on {c['id']}: {json.dumps(dd)[:500]}")
        if kg == "skip" or kc == "skip":
            continue  # no oracle (value outside the representable domain for these inputs)
        if kg == "ok" and kc == "ok":
            validated += sum(len(v["impl"]) for v in rg["verdicts"]) + sum(len(v["impl"]) for v in rc["verdicts"])
            compared += 1
        elif kg == "ok" and kc in ("mismatch", "crash", "invalid"):
            ctx.violation(f"shape:{shape}", f"comptime function differs from the regular one / Python for `{shape}` ({kc}): {json.dumps(dc)[:500]}",
                          {"case": cc, "detail": dc})
        elif kg in ("mismatch", "crash", "invalid"):
            # the regular function itself is off: belongs to C03/C04; still a disagreement between modes if comptime is ok
            ctx.violation(f"shape:{shape}:regular", f"regular @guppy function differs from Python for `{shape}` ({kg}): {json.dumps(dg)[:500]}",
                          {"case": cg, "detail": dg})
        elif kg == "ok" and kc == "rejected":
            # operation available in regular mode but rejected when traced: the statement restricts to operations
            # available in both modes, so this is not a violation; counted
            cnt["comptime-only-rejected"] += 1
        elif kg == "rejected" and kc == "ok":
            cnt["guppy-only-rejected"] += 1
    if compared < len(by_shape) // 2:
        raise lib.Machinery(f"only {compared} of {len(by_shape)} shapes could be compared: {dict(cnt)}")
    ctx.coverage.update({
        "programs": len(cases), "shapes_compared": compared, "traces_validated_against_impl": validated,
        "evaluations": len(cases) * len(ARGS) * 2, "distinct_nontrivial": compared,
        "rule": "shape = operator x operand position (traced/traced, traced/constant, constant/traced -> reflected) x type, "
                "builtins, tuple/array/struct handling, calls; each as @guppy and @guppy.comptime; non-trivial = both modes "
                "accepted and both streams validated",
        "samples": [{"shape": s, "body": b} for s, b in shapes(ctx)[:3]], "outcomes": dict(cnt), "exhaustive": True,
    })
    ctx.assumptions += ["reference HUGR interpreter", "TLC", "values below 2^30, floats multiples of 0.25"]


def replay(ctx, data):
    c = data["replay"]["case"]
    r = sem.evaluate(ctx, [c], "replay")[0]
    print(c.get("impl_src", c["src"]))
    print(sem.classify(r))
    print(json.dumps(r["verdicts"], indent=1)[:2500])


def selftest(ctx):
    cs = [c for c in build_cases(ctx) if c["shape"] == "int:>>:ct"]
    bad = dict(cs[1], id="bad", impl_src=cs[1]["impl_src"].replace("64 >> w", "w >> 64"))
    rs = sem.evaluate(ctx, cs[:2] + [bad], "self")
    k = [sem.classify(r)[0] for r in rs]
    if k[0] != "ok" or k[1] != "ok" or k[2] != "mismatch":
        raise lib.Machinery(f"selftest expected ok/ok/mismatch, got {k} {[sem.classify(r)[1] for r in rs]}")


if __name__ == "__main__":
    lib.main("C21", run, replay, selftest)
