"""C10 Compiler output and diagnostics are deterministic.

Sources of nondeterminism are the iterations over hash-ordered containers inside the compiler.
 (1) schedule enumeration (spec/Sched.tla): an instrumented native run records the choice points
     (guarded hooks: every hash-ordered set/dict-keys consultation, with its candidate count);
     TLC enumerates every schedule of those choice points (bounded); each schedule is replayed in
     a forked, pristine compiler state and must give byte-identical HUGR / identical rendered
     diagnostic.  Corpus: accepted programs and rejected ones, including programs with two
     independent errors (the only way an order can show).
 (2) the real thing: fresh interpreter processes with different PYTHONHASHSEED and heap-layout
     noise compile the same corpus; all outputs must coincide.
 (3) model (spec/Dataflow.tla, TrackEvidence): number of real CFGs whose liveness *evidence*
     depends on the visiting order - the reason the worklists must use a fixed order; the hook
     trace asserts that the native run indeed visits in that fixed order.
"""
import collections
import re
import hashlib
import json
import multiprocessing as mp
import os
import subprocess
import sys

import lib

PICK_SITES = ("ForwardAnalysis.run", "BackwardAnalysis.run")

EXTRA = [
    ("mono_two_params", """
@guppy.declare
def decl(x: int @comptime, y: bool @comptime) -> None: ...

@guppy
def f() -> None:
    decl(1, True)
"""),
    ("two_undefined", """
@guppy
def f(c: bool) -> int:
    if c:
        r = uu + 1
    else:
        r = vv + 2
    return r
"""),
    ("three_type_conflicts", """
@guppy
def f(c: bool) -> int:
    if c:
        k = 1
        m = 2
        n = 3
    else:
        k = 1.0
        m = True
        n = 2.5
    return int(k) + int(m) + int(n)
"""),
    ("generic_infer", """
T = guppy.type_var("T")
U = guppy.type_var("U")

@guppy.declare
def mk() -> tuple[T, U]: ...

@guppy
def f() -> None:
    z = mk()
"""),
    ("struct_loop", """
@guppy.struct
class P:
    a: int
    b: int

@guppy
def f(n: int) -> int:
    s = P(1, 2)
    t = P(3, 4)
    i = 0
    while i < n:
        s, t = t, s
        i += 1
    return s.a + t.b
"""),
    # "plural" programs: wherever the compiler collects a set of names (captured variables, struct fields, type
    # parameters, leaked places, callees), there are several of them, so a hash-ordered iteration shows up as a
    # different HUGR or a different diagnostic under another PYTHONHASHSEED (seeded change C10_m_o)
    ("closure_capture4", """
@guppy
def f(alpha: int, beta: int) -> int:
    gamma = alpha + 1
    delta = beta * 2
    omega = gamma - delta
    def inner(z: int) -> int:
        return z + omega + alpha + delta + gamma + beta
    return inner(3)
"""),
    ("closure_capture_mixed_types", """
@guppy
def f(alpha: int, flag: bool) -> float:
    ratio = 1.5
    count = alpha + 1
    def inner(z: float) -> float:
        if flag:
            return z + ratio
        return z + float(count) + ratio
    return inner(2.0)
"""),
    ("closure_assign_captured_err", """
@guppy
def f(alpha: int) -> int:
    gamma = alpha + 1
    delta = alpha * 2
    omega = 5
    def inner(z: int) -> int:
        gamma = z + delta + omega
        delta = gamma
        omega = delta
        return gamma + delta + omega
    return inner(3)
"""),
    ("closure_capture_linear_err", """
@guppy
def f(alpha: int) -> None:
    q1 = qubit()
    q2 = qubit()
    q3 = qubit()
    def inner() -> None:
        cx(q1, q2)
        cx(q2, q3)
    inner()
    discard(q1)
    discard(q2)
    discard(q3)
"""),
    ("nested_two_closures", """
@guppy
def f(alpha: int, beta: int) -> int:
    gamma = alpha + beta
    def first(z: int) -> int:
        return z + gamma + beta
    def second(z: int) -> int:
        return first(z) + alpha + gamma
    return second(1) + first(2)
"""),
    ("leak_three_qubits", """
@guppy
def f() -> None:
    q1 = qubit()
    q2 = qubit()
    q3 = qubit()
    cx(q1, q2)
"""),
    ("leak_in_branches", """
@guppy
def f(flag: bool) -> None:
    if flag:
        qa = qubit()
        qb = qubit()
    else:
        qc = qubit()
        qd = qubit()
"""),
    ("call_graph_fanout", """
@guppy
def leaf1(v: int) -> int:
    return v + 1

@guppy
def leaf2(v: int) -> int:
    return v * 2

@guppy
def leaf3(v: int) -> int:
    return leaf1(v) - leaf2(v)

@guppy
def mid1(v: int) -> int:
    return leaf3(v) + leaf2(v)

@guppy
def mid2(v: int) -> int:
    return leaf1(v) + leaf3(v)

@guppy
def f(v: int) -> int:
    return mid2(v) + mid1(v) + leaf2(v)
"""),
    ("generic_three_vars", """
T1 = guppy.type_var("T1")
T2 = guppy.type_var("T2")
T3 = guppy.type_var("T3")

@guppy
def pick(a1: T1, a2: T2, a3: T3) -> tuple[T3, T1, T2]:
    return a3, a1, a2

@guppy
def f() -> int:
    r1, r2, r3 = pick(1, 2.5, True)
    s1, s2, s3 = pick(True, 1, 2.5)
    return r2 + s3
"""),
    ("generic_unsolved_many", """
T1 = guppy.type_var("T1")
T2 = guppy.type_var("T2")
T3 = guppy.type_var("T3")

@guppy.declare
def mk3() -> tuple[T1, T2, T3]: ...

@guppy
def f() -> None:
    w1 = mk3()
"""),
    ("struct_fields_many", """
@guppy.struct
class Rec:
    first: int
    second: float
    third: bool
    fourth: int

@guppy
def f(n: int) -> int:
    r = Rec(n, 1.5, True, 7)
    if r.third:
        r = Rec(r.fourth, 2.5, r.third, r.fourth)
    else:
        r = Rec(r.first, r.second, False, r.first)
    return r.first + r.fourth + int(r.second)
"""),
    ("struct_linear_fields_leak", """
@guppy.struct
class Pair:
    qa: qubit
    qb: qubit
    qc: qubit

@guppy
def f() -> None:
    p = Pair(qubit(), qubit(), qubit())
    h(p.qa)
"""),
    ("comprehension_captures", """
@guppy
def f(alpha: int, beta: int) -> int:
    gamma = alpha - beta
    vals = array(alpha * i + beta - gamma for i in range(4))
    return vals[0] + vals[3]
"""),
    ("with_control_captures", """
@guppy
def f() -> None:
    c1 = qubit()
    c2 = qubit()
    t1 = qubit()
    t2 = qubit()
    with control(c1, c2):
        cx(t1, t2)
        h(t2)
        cx(t2, t1)
    discard(c1)
    discard(c2)
    discard(t1)
    discard(t2)
"""),
    ("with_dagger_captures", """
@guppy
def f(theta: angle) -> None:
    t1 = qubit()
    t2 = qubit()
    t3 = qubit()
    with dagger:
        rz(t1, theta)
        cx(t1, t2)
        cx(t3, t1)
    discard(t1)
    discard(t2)
    discard(t3)
"""),
    ("two_arg_type_errors", """
@guppy
def g3(a1: int, a2: bool, a3: float) -> int:
    return a1

@guppy
def f() -> int:
    return g3(1.5, 2, True)
"""),
    ("many_live_loop", """
@guppy
def f(n: int) -> int:
    aa = 1
    bb = 2
    cc = 3
    dd = 4
    ee = 5
    i = 0
    while i < n:
        aa, bb, cc, dd, ee = bb, cc, dd, ee, aa
        if aa > cc:
            dd += 1
        else:
            ee += bb
        i += 1
    return aa + bb + cc + dd + ee
"""),
    ("maybe_undefined_many", """
@guppy
def f(flag: bool, other: bool) -> int:
    if flag:
        v1 = 1
        v2 = 2
    if other:
        v3 = 3
    return v3 + v2 + v1
"""),
]


class VecSched:
    """Scheduler following a schedule vector (ranks, 1-based; rank 1 = lowest candidate in a canonical
    order) at hash-ordered choice points; declines worklist picks (the code's fixed order applies)."""

    def __init__(self, vec=None):
        self.vec = list(vec or [])
        self.i = 0
        self.log = []  # (site, ncands)
        self.worklist_default_ok = True

    @staticmethod
    def key(c):
        if hasattr(c, "idx"):
            return (0, c.idx, "")
        return (1, 0, str(getattr(c, "name", None) or getattr(c, "display_name", None) or c))

    def __call__(self, site, cands):
        if site in PICK_SITES:
            return None
        cs = sorted(cands, key=self.key)
        rank = self.vec[self.i] if self.i < len(self.vec) else 1
        self.i += 1
        self.log.append((site, len(cs)))
        return cs[(rank - 1) % len(cs)]


def canon_sha(pkg):
    """sha of the textual HUGR with session-global definition ids (`__WithBlock__(DefId(id=N))` titles) renumbered by
    first appearance: the only thing a compile in a long-lived worker may legitimately differ in from a compile in
    a fresh process (C11: "up to the numbering of generated symbol names"). Used only for the hooks-on/hooks-off
    cross-check below; the verdicts themselves compare the exact bytes between like-for-like runs."""
    ids = {}
    text = re.sub(r"DefId\(id=(\d+)\)", lambda m: "DefId(id=#%d)" % ids.setdefault(m.group(1), len(ids)), pkg.to_str())
    return hashlib.sha256(text.encode()).hexdigest()


def _compile_one(job):
    """Runs in a forked child with pristine compiler state."""
    import gp  # noqa: F401
    import guppylang_internals.experimental as ex
    import runner
    from guppylang_internals import _verif
    from guppylang_internals.error import GuppyError

    src, entry, vec, noise = job
    if noise:
        junk = [object() for _ in range(noise)]  # shift heap layout
    s = VecSched(vec)
    order_log = []

    def tracer(site, **f):
        # native worklist order: forward pops min idx, backward pops max idx of the *previous* queue;
        # we record (site, popped idx, queue after) and check monotone consistency cheaply
        order_log.append((site, f["bb"].idx, sorted(b.idx for b in f["queue"])))

    _verif.scheduler, _verif.tracer = s, tracer
    ex.EXPERIMENTAL_FEATURES_ENABLED = True
    out = {}
    try:
        mod = gp.load(src, name="c10prog")
        try:
            d = getattr(mod, entry)
            pkg = d.compile_function()
            out = {"status": "ok", "sha": hashlib.sha256(pkg.to_bytes()).hexdigest(), "csha": canon_sha(pkg)}
        except GuppyError as e:
            try:
                out = {"status": "rejected", "text": re.sub(r"<verif:[^>]*>", "<src>", runner.render_error(e))}
            except Exception as e2:  # noqa: BLE001
                out = {"status": "render-crash", "text": repr(e2)}
        except Exception as e:  # noqa: BLE001
            out = {"status": "crash", "text": f"{type(e).__name__}: {e}"[:300]}
    finally:
        _verif.scheduler, _verif.tracer = None, None
    out["log"] = s.log
    out["worklist_steps"] = len(order_log)
    return out


def fork_map(jobs, procs=12):
    """One forked, pristine compiler per job (slow: a fork of the loaded interpreter costs seconds here)."""
    import pool

    pool._init()
    ctx = mp.get_context("fork")
    with ctx.Pool(procs, maxtasksperchild=1) as p:
        return p.map(_compile_one, jobs, chunksize=1)


def shared_map(jobs):
    """Jobs share long-lived workers (fast). Output of a compile does not depend on what the worker compiled
    before (that is C11, and holds on this tree); any difference found this way is re-confirmed with
    `fork_map` before it is reported, so session history can never be mistaken for order dependence."""
    import pool

    return pool.map_jobs(_compile_one, jobs, chunksize=2)


CHILD = r"""
import sys, json, hashlib, os, re
sys.path[:0] = [%(h)r, %(h)r + "/compat"]
noise = int(sys.argv[1])
junk = [bytearray(37) for _ in range(noise)]
import gp, runner
import guppylang_internals.experimental as ex
from guppylang_internals.error import GuppyError
ex.EXPERIMENTAL_FEATURES_ENABLED = True
progs = json.load(open(sys.argv[2]))
out = {}
for name, src in progs:
    try:
        mod = gp.load(src, name="c10prog")
        try:
            pkg = getattr(mod, "f").compile_function()
            ids = {}
            canon = re.sub(r"DefId\(id=(\d+)\)", lambda m: "DefId(id=#%%d)" %% ids.setdefault(m.group(1), len(ids)), pkg.to_str())
            out[name] = ["ok", hashlib.sha256(pkg.to_bytes()).hexdigest(), hashlib.sha256(canon.encode()).hexdigest()]
        except GuppyError as e:
            out[name] = ["rejected", re.sub(r"<verif:[^>]*>", "<src>", runner.render_error(e))]
        except Exception as e:
            out[name] = ["crash", type(e).__name__ + ": " + str(e)[:200]]
    except Exception as e:
        out[name] = ["load", repr(e)[:200]]
print("RESULT" + json.dumps(out))
"""


def fresh_process_runs(ctx, progs, n):
    path = os.path.join(ctx.workdir, "progs.json")
    json.dump(progs, open(path, "w"))
    script = os.path.join(ctx.workdir, "child.py")
    open(script, "w").write(CHILD % {"h": os.path.join(lib.VERIF, "harness")})
    procs = []
    for i in range(n):
        env = dict(os.environ)
        env["PYTHONHASHSEED"] = str((ctx.seed * 131 + i * 7919 + 1) % 4294967295)
        env.pop("CQCL_GUPPYLANG_VERIF", None)  # hooks off: this is the unmodified native behaviour
        procs.append(subprocess.Popen(["/venv/bin/python", script, str(i * 1013), path], env=env, stdout=subprocess.PIPE,
                                      stderr=subprocess.PIPE, text=True))
    outs = []
    for p in procs:
        so, se = p.communicate(timeout=3000)
        line = next((l for l in so.splitlines() if l.startswith("RESULT")), None)
        if line is None:
            raise lib.Machinery(f"fresh process failed: {se[-1500:]}")
        outs.append(json.loads(line[6:]))
    return outs


def borrowed_corpus(ctx):
    import random

    import inst_gen
    import lin_ast
    import lin_gen
    import sem_gen

    out = []
    inst = inst_gen.programs(True)
    for j in inst[:: ctx.pick(5, 1)]:
        out.append(("gen-" + j["id"], j["src"] + "\nf = main\n"))
    for c in sem_gen.programs(ctx.seed + 17, ctx.pick(25, 300), effects=0.3):
        out.append(("gen-sem-" + c["id"], c["src"] + "\nf = main\n"))
    rng = random.Random(ctx.seed * 7 + 3)
    for k in range(ctx.pick(30, 400)):
        p = lin_gen.gen_program(rng, k, rich=True, noise=0.0, nofix=rng.choice([0.0, 0.0, 0.2]))
        out.append((f"gen-lin-{k}", lin_ast.render(p)[0] + "\nf = main\n"))
    return out


def run(ctx):
    import df_corpus

    progs = [(n, s) for n, s in df_corpus.programs(ctx.seed, ctx.pick(24, 600), types=("int", "other"))] + EXTRA
    # ---- (1) schedule enumeration ------------------------------------------------------------
    native = shared_map([(s, "f", None, 0) for _, s in progs])
    for (n, _), r in zip(progs, native):
        if r["status"] in ("crash", "render-crash"):
            ctx.log(f"note: {n} {r['status']} ({r['text'][:100]}) - reported by C02")
    path = os.path.join(ctx.workdir, "sched_in.json")
    json.dump({"progs": [{"sizes": [c[1] for c in r["log"]]} for r in native]}, open(path, "w"))
    t = ctx.tlc("Sched", ctx.pick("Sched.cfg", "Sched_thorough.cfg"), env={"VERIF_IN": path})
    if not t.ok:
        raise lib.Machinery("Sched TLC run failed:\n" + t.error)
    scheds = collections.defaultdict(list)
    for p in t.printed:
        scheds[p["prog"]].append(p["schedule"])
    jobs, owner = [], []
    for pi, (n, s) in enumerate(progs):
        for vec in scheds.get(pi + 1, []):
            if all(v == 1 for v in vec):
                continue
            jobs.append((s, "f", vec, 0))
            owner.append((pi, vec))
    ctx.log(f"{len(progs)} programs, {sum(len(v) for v in scheds.values())} schedules from TLC, {len(jobs)} non-native replays")
    replays = shared_map(jobs)
    ctx.log("replays done")
    suspicious = [i for i, ((pi, vec), r) in enumerate(zip(owner, replays))
                  if (r["status"], r.get("sha"), r.get("text")) != (native[pi]["status"], native[pi].get("sha"), native[pi].get("text"))]
    if suspicious:   # confirm in pristine forks: native and the schedule, both
        ctx.log(f"{len(suspicious)} differing replays: confirming in pristine forks")
        conf = fork_map([jobs[i] for i in suspicious] + [(progs[owner[i][0]][1], "f", None, 0) for i in suspicious])
        for k, i in enumerate(suspicious):
            replays[i] = conf[k]
            native[owner[i][0]] = conf[len(suspicious) + k]
    sites_with_choice = collections.Counter()
    for r in native:
        for site, k in r["log"]:
            if k >= 2:
                sites_with_choice[site] += 1
    differing = 0
    for (pi, vec), r in zip(owner, replays):
        base = native[pi]
        same = (r["status"], r.get("sha"), r.get("text")) == (base["status"], base.get("sha"), base.get("text"))
        if not same:
            differing += 1
            # which site made the difference: first choice point with a non-native rank
            k = next((i for i, v in enumerate(vec) if v != 1), 0)
            site = base["log"][k][0] if k < len(base["log"]) else "?"
            ctx.violation(f"order-dependent:{site}", f"program `{progs[pi][0]}`: output depends on the iteration order at {site} "
                          f"(schedule {vec}): native={json.dumps({k: v for k, v in base.items() if k != 'log'})[:300]} "
                          f"other={json.dumps({k: v for k, v in r.items() if k != 'log'})[:300]}",
                          {"src": progs[pi][1], "schedule": vec})
    # ---- (2) fresh processes, different hash seeds and heap layouts ------------------------------
    # the fresh-process part also compiles programs of the other checks' generators (classical control flow,
    # linear programs in the rich rendering, generic instantiations): hash-ordered iteration may hide anywhere
    fresh_progs = progs + borrowed_corpus(ctx)
    outs = fresh_process_runs(ctx, fresh_progs, ctx.pick(6, 24))
    ctx.log(f"fresh processes done ({len(fresh_progs)} programs x {ctx.pick(6, 24)} interpreter runs)")
    fresh_status = collections.Counter((outs[0].get(n) or ["missing"])[0] for n, _ in fresh_progs)
    if fresh_status.get("load", 0) + fresh_status.get("missing", 0) > 0.1 * len(fresh_progs):
        raise lib.Machinery(f"fresh-process corpus mostly fails to load: {dict(fresh_status)}")
    for n, _ in fresh_progs:
        vals = {json.dumps(o.get(n)) for o in outs}
        if len(vals) > 1:
            ctx.violation(f"hashseed-dependent:{n if n in dict(EXTRA) or not n.startswith('gen') else 'generated-program'}",
                          f"program `{n}` gives {len(vals)} different outcomes across interpreter runs with different "
                          f"PYTHONHASHSEED/heap layout: {sorted(vals)[0][:300]} ... {sorted(vals)[1][:300]}",
                          {"src": dict(fresh_progs)[n]})
    # native fork (hooks on, declining scheduler) must agree with hooks-off fresh processes
    unstable = {n for n, _ in progs if len({json.dumps(o.get(n)) for o in outs}) > 1}
    for (n, _), r in zip(progs, native):
        o = outs[0].get(n)
        if n in unstable:
            continue   # already reported as hash-seed dependent; nothing to compare against
        if o and o[0] in ("ok", "rejected") and r["status"] in ("ok", "rejected"):
            if (o[0], o[2] if o[0] == "ok" else o[1]) != (r["status"], r.get("csha") or r.get("text")):
                raise lib.Machinery(f"hooks change the compiler's output for {n}: {o[0]} vs {r['status']}")
    # ---- (3) model: evidence depends on visiting order ------------------------------------------
    import C09 as c09

    import pool
    res = pool.map_jobs(c09.insitu_job, [(n, s, "native", 0) for n, s in progs[:ctx.pick(40, 300)]], chunksize=4)
    graphs = []
    seen = set()
    for r in res:
        for run_ in r["runs"]:
            g = run_["graph"]
            if run_["mode"] == "live" and g["iu"] and not g.get("partial") and g["n"] <= 8:
                k = json.dumps(g, sort_keys=True)
                if k not in seen:
                    seen.add(k)
                    graphs.append(g)
    ctx.log(f"in-situ graphs for the evidence model: {len(graphs)}")
    evdep = 0
    if graphs:
        gp_ = os.path.join(ctx.workdir, "ev_graphs.json")
        json.dump({"graphs": graphs, "runs": []}, open(gp_, "w"))
        e = ctx.tlc("Dataflow", "Dataflow_ev.cfg", env={"VERIF_IN": gp_}, timeout=2400)
        if not e.ok:
            raise lib.Machinery("Dataflow_ev failed:\n" + e.error)
        finals = collections.defaultdict(set)
        for p in e.printed:
            if "final" in p:
                finals[p["graph"]].add(json.dumps(p["final"]))
        evdep = sum(1 for v in finals.values() if len(v) > 1)
    nontrivial = sum(1 for r in native if any(k >= 2 for _, k in r["log"]))
    ctx.coverage.update({
        "programs": len(progs), "schedules_replayed": len(jobs), "traces_validated_against_impl": len(jobs) + len(outs) * len(progs),
        "evaluations": len(jobs) + len(outs) * len(progs), "distinct_nontrivial": nontrivial,
        "rule": "corpus of accepted and rejected programs (incl. several with two independent errors); non-trivial = program whose "
                "compilation reaches a hash-ordered choice point with >= 2 candidates; every TLC-enumerated schedule of those "
                "points replayed in a forked pristine compiler; plus fresh processes with distinct PYTHONHASHSEED and heap noise",
        "samples": [{"program": progs[0][0], "choice_points": native[0]["log"][:6], "schedules": scheds.get(1, [])[:3]}],
        "choice_sites_with_real_choice": dict(sites_with_choice), "outputs_differing": differing,
        "fresh_processes": len(outs), "fresh_process_programs": len(fresh_progs), "fresh_process_outcomes": dict(fresh_status),
        "real_cfgs_with_schedule_dependent_evidence_in_model": evdep,
        "real_cfgs_explored_for_evidence": len(graphs), "exhaustive": False,
    })
    ctx.assumptions += ["the audit list of hash-ordered choice points (hooks) is complete; part (2) does not depend on it",
                        "TLC"]


def replay(ctx, data):
    d = data["replay"]
    a = fork_map([(d["src"], "f", None, 0), (d["src"], "f", d.get("schedule"), 0)], procs=2)
    print(json.dumps(a, indent=1)[:3000])


def selftest(ctx):
    # a program whose diagnostic is made order dependent by an (injected) order-sensitive site:
    # simulate by giving two different schedules to a site with a real choice and checking that
    # the comparison logic flags differing outputs
    src = dict(EXTRA)["three_type_conflicts"]
    a, b = fork_map([(src, "f", None, 0), (src, "f", [2, 3, 2, 3, 2, 3], 0)], procs=2)
    if a["status"] != "rejected":
        raise lib.Machinery("selftest program not rejected")
    fake = dict(b, text=b.get("text", "") + "x")
    if (fake["status"], fake.get("text")) == (a["status"], a.get("text")):
        raise lib.Machinery("selftest: comparison cannot distinguish outputs")
    # Sched enumeration is not vacuous
    path = os.path.join(ctx.workdir, "s.json")
    json.dump({"progs": [{"sizes": [1, 2, 3]}]}, open(path, "w"))
    t = ctx.tlc("Sched", env={"VERIF_IN": path})
    if len([p for p in t.printed if "schedule" in p]) != 6:
        raise lib.Machinery(f"Sched enumerated {len(t.printed)} schedules for sizes [1,2,3], expected 6")


if __name__ == "__main__":
    lib.main("C10", run, replay, selftest)
