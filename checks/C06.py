"""C06 Linearity: qubits are used exactly once on every path.

Decided by: spec/Linearity.tla - declarative path semantics of ownership (per leaf place
Undef/Owned/Moved, borrowed parameters, all control-flow paths explored by TLC).  For every
program of a batch TLC prints the violation witnesses (kind, place, statement); a program is
accepted by the specification iff there is none.

Bound to the code by replay (spec -> code), both directions of the property:
  * every program is rendered as Guppy source and compiled from /repo; required
      /repo accepts  =>  no witness          (soundness)
      no witness     =>  /repo accepts        (completeness on the core fragment)
    and on rejection the diagnostic class must be one that some witness explains.
  * programs: (a) EVERY program of six small grammars (qubit variable local / owned /
    borrowed, struct variable local / owned / borrowed; 6 atomic statements, if/else, while,
    break/continue/return) up to 3 (quick) / 4 (thorough) statement nodes, (b) seeded guided-random
    programs over qubits, tuples, structs, nested aggregates, owned/borrowed parameters with
    nesting <= 3, (c) near-miss mutants of (b).
Accepted programs whose lowering fails (invalid HUGR / compiler crash) are C01's findings and
only counted here.
"""
import collections
import hashlib
import json
import os
import random

import lib
import lin_ast as A
import lin_gen as G
import lin_run as R


def build_programs(ctx, n_random, maxsize, families=G.FAMILIES):
    rng = random.Random(ctx.seed * 7919 + 6)
    progs, seen = [], set()

    def add(p, origin):
        src = A.render(p)[0]
        hsh = hashlib.sha1(src.encode()).digest()
        if hsh in seen:
            return
        seen.add(hsh)
        p["id"] = len(progs)
        p["origin"] = origin
        progs.append(p)

    for fam in families:
        for p in G.enumerate_small(maxsize, fam):
            add(A.number(p), "enum:" + fam)
    n_enum = len(progs)
    while len(progs) < n_enum + n_random:
        kw = rng.choice([{}, {"aggs": False}, {"noise": 0.0, "nofix": 0.0}, {"noise": 0.0, "nofix": 0.0, "aggs": False},
                         {"noise": 0.0, "nofix": 0.0, "size": (5, 10)}])
        p = G.gen_program(rng, 0, **kw)
        add(p, "random")
        # near-miss mutants: one flaw in an (almost always) valid program
        for _ in range(rng.choice([0, 1, 2, 3])):
            add(G.mutate(p, rng, 0, rng.choice([1, 1, 1, 2])), "mutant")
    return progs


def nontrivial(p, wits):
    """has a branch or loop, and an aggregate place or a parameter"""
    txt = json.dumps(p["body"])
    return ('"if"' in txt or '"while"' in txt) and (bool(p["params"]) or any(v["ty"]["k"] != "qubit" for v in p["vars"].values()))


def run(ctx):
    ctx.level = "model_checking"
    scale = float(os.environ.get("VERIF_SCALE", "1"))  # development aid only
    progs = build_programs(ctx, int(ctx.pick(1000, 16000) * scale), ctx.pick(3, 4))
    ctx.log(f"{len(progs)} programs")
    # vacuity guard: every action of the specification is exercised by a sample of the batch
    sample = [p for p in progs if not p["origin"].startswith("enum")][:150] + progs[:150]
    sample += [dict(p, id=len(progs) + i) for i, p in enumerate(corpus())]
    path = os.path.join(ctx.workdir, "cov.json")
    json.dump(A.batch(sample), open(path, "w"))
    rc = ctx.tlc("Linearity", env={"VERIF_IN": path}, coverage=True, workers=4)
    actions = ["Assign", "ExprStmt", "Pass", "If", "While", "LoopHead", "Break", "Continue", "EndSeq", "Return", "FallOff"]
    idle = [a for a in actions if rc.coverage.get(a, (0, 0))[1] == 0]
    if idle:
        raise lib.Machinery(f"vacuous: actions never taken on the sample: {idle}")

    ev = R.evaluate(ctx, progs)
    cnt = collections.Counter()
    kinds = collections.Counter()
    by_origin = collections.Counter()
    bad = collections.defaultdict(list)
    lowering = []
    for p, w, r, j in ev:
        cnt[f"{'spec-accept' if not w else 'spec-reject'}/{r['status']}"] += 1
        by_origin[p["origin"].split(":")[0]] += 1
        for k in {x[0] for x in w}:
            kinds[k] += 1
        if j is None:
            continue
        if j[0].startswith("lowering:"):
            lowering.append(p["id"])
            continue
        bad[j[0]].append((p, w, r, j))
    for cat, cases in sorted(bad.items()):
        p, w, r, j = min(cases, key=lambda c: c[0]["nstmts"])
        ctx.log(f"disagreement {cat}: {len(cases)} programs; shrinking one")
        small = R.shrink(ctx, p, R.same_category(cat)) if len(bad) <= 6 else p
        (sp, sw, sr, sj), = R.evaluate(ctx, [dict(small, id=0)], tag="final")
        key = cat + ("[" + ",".join(sorted({x[0] for x in sw})) + "]" if cat == "unsound" else "")
        ctx.violation(key, f"{cat}: {sj[1] if sj else j[1]} ({len(cases)} programs of this run)\n" + A.render(sp)[0].split("@guppy\n")[-1],
                      {"prog": small, "witnesses": sw, "repo": {k: sr.get(k) for k in ("status", "error")},
                       "others": [A.render(c[0])[0].split("@guppy\n")[-1] for c in cases[1:4]]})
    acc = [p for p, w, r, j in ev if not w and r["status"] == "ok"]
    rej = [(p, w) for p, w, r, j in ev if w and r["status"] == "rejected"]
    ctx.coverage.update({
        "traces_validated_against_impl": len(ev),
        "evaluations": len(ev),
        "distinct_nontrivial": sum(1 for p, w, r, j in ev if nontrivial(p, w)),
        "rule": "distinct rendered programs; non-trivial = contains a branch or loop and has a parameter or an "
                "aggregate (tuple/struct) variable",
        "exhaustive": False,
        "exhaustive_part": f"all programs of the 6 small grammars with <= {ctx.pick(3, 4)} statement nodes "
                           f"({by_origin['enum']} programs)",
        "by_origin": dict(by_origin),
        "verdict_vs_repo": dict(cnt),
        "witness_kinds": dict(kinds),
        "spec_action_coverage_sample": {a: rc.coverage[a][1] for a in actions},
        "accepted_but_lowering_failed(C01)": len(lowering),
        "samples": [A.render(p)[0].split("@guppy\n")[-1] for p in acc[-2:]]
                   + [{"src": A.render(p)[0].split("@guppy\n")[-1], "witnesses": w[:3]} for p, w in rej[-2:]],
    })
    for k in ("use_moved", "leak", "overwrite", "borrowed_moved", "borrowed_unrestored", "borrow_shadowed"):
        if not kinds[k]:
            raise lib.Machinery(f"vacuous: no program with witness kind {k}")
    if len(acc) < len(ev) // 20 and not ctx.violations:
        raise lib.Machinery(f"vacuous: only {len(acc)} of {len(ev)} programs accepted")
    ctx.assumptions += [
        "TLC", "rendering of the JSON AST as Guppy source (lin_ast.render) and its projection for the spec (spec_view)",
        "conditions are opaque: every syntactic path is feasible", "hugr validator (only counted here)",
    ]


def replay(ctx, data):
    d = data["replay"]
    p = dict(d["prog"], id=0)
    A.number(p)
    print(A.render(p)[0].split("@guppy\n")[-1])
    path = os.path.join(ctx.workdir, "one.json")
    json.dump(A.batch([p]), open(path, "w"))
    r = ctx.tlc("Linearity", "Linearity_One.cfg", env={"VERIF_IN": path}, allow_error=True, workers=1)
    if r.ok:
        print("spec: ACCEPT (no witness on any path)")
    else:
        print("spec: REJECT - witness path:")
        print("\n".join(l for l in r.out.splitlines() if l.startswith(("State ", "/\\ w", "/\\ st", "Error:"))))
    import lin_life
    import runner
    print("repo:", json.dumps(R.outcome(lin_life.life_job(R.job(p)))))
    print(runner.run_job(dict(R.job(p), args=[])).get("rendered", ""))


# fixed corpus with the expected witness kinds (checks the spec against the documented rules)
def corpus():
    P, C, NEW = G.P, G.C, G.NEW
    loc = lambda t: {"ty": t, "kind": "local"}
    asg = lambda t, v: {"k": "assign", "tgts": [t], "val": v}
    ex = lambda v: {"k": "expr", "val": v}
    opq = {"e": "opaque", "v": ""}
    out = []

    def prog(vars_, body, expect, params=(), rty=None):
        p = {"id": len(out), "vars": vars_, "params": list(params), "bparams": [], "ret": "lin" if rty else "none",
             "rty": rty, "body": body, "expect": set(expect)}
        out.append(A.number(p))

    q = loc(A.Q)
    prog({"q": q}, [asg(["q"], NEW), ex(C("h", P(["q"]))), {"k": "pass"}, ex(C("discard", P(["q"])))], [])
    prog({"q": q}, [asg(["q"], NEW), {"k": "if", "c": opq, "then": [ex(C("discard", P(["q"])))], "else": []}], ["leak"])
    prog({"q": q}, [asg(["q"], NEW), {"k": "while", "c": opq, "body": [ex(C("discard", P(["q"])))]},
                    ex(C("discard", P(["q"])))], ["use_moved"])
    prog({"q": q}, [asg(["q"], NEW), asg(["q"], NEW), ex(C("discard", P(["q"])))], ["overwrite"])
    prog({"q": {"ty": A.Q, "kind": "borrowed"}}, [ex(C("measure", P(["q"])))], ["borrowed_moved"], ["q"])
    prog({"q": {"ty": A.Q, "kind": "borrowed"}}, [asg(["q"], NEW)], ["borrow_shadowed", "overwrite"], ["q"])
    prog({"sv": {"ty": A.S, "kind": "borrowed"}}, [ex(C("discard", P(["sv", "a"])))], ["borrowed_unrestored"], ["sv"])
    prog({"sv": {"ty": A.S, "kind": "borrowed"}}, [ex(C("discard", P(["sv", "a"]))), asg(["sv", "a"], NEW)], [], ["sv"])
    prog({"q": q}, [asg(["q"], NEW), ex(C("cx", P(["q"]), P(["q"]))), ex(C("discard", P(["q"])))], ["use_moved"])
    prog({"q": q}, [asg(["q"], NEW), asg(["q"], C("fm", P(["q"]), NEW)), ex(C("discard", P(["q"])))], ["overwrite"])
    prog({"q": q}, [ex(C("h", NEW))], ["temp_borrow"])
    prog({"q": q}, [ex(C("fo", NEW))], ["temp_expr"])
    prog({"q": q}, [asg(["q"], {"e": "proj", "of": C("m_S"), "c": "a"}), ex(C("discard", P(["q"])))], ["temp_proj"])
    prog({"q": q}, [asg(["q"], {"e": "proj", "of": G.ctor(A.T2, [NEW, NEW]), "c": "1"}), ex(C("discard", P(["q"])))], ["temp_proj"])
    prog({"q": q}, [{"k": "if", "c": opq, "then": [asg(["q"], NEW)], "else": []}, ex(C("discard", P(["q"])))], ["use_undef"])
    prog({"q": {"ty": A.Q, "kind": "owned"}},
         [{"k": "if", "c": opq, "then": [{"k": "return", "val": P(["q"])}], "else": []}, ex(C("discard", P(["q"])))],
         ["missing_return"], ["q"], A.Q)
    return out


def selftest(ctx):
    # 0. generated variable names must not resolve to globals of the prelude (e.g. the gates `s`, `t`)
    import gp
    ns = set(gp.load("").__dict__)
    mine = set(G.QVARS) | {n for n, _ in G.AGGVARS} | {"m", "a", "i", "j", "f", "g", "xs", "o", "pr", "k0", "k1", "k2", "b"}
    if mine & ns:
        raise lib.Machinery(f"generator variable names collide with the prelude: {sorted(mine & ns)}")
    # 1. the specification classifies the fixed corpus as documented, and /repo agrees with it
    cs = corpus()
    ev = R.evaluate(ctx, cs, tag="corpus")
    for p, w, r, j in ev:
        got = {x[0] for x in w}
        if got != p["expect"]:
            raise lib.Machinery(f"selftest: corpus program {p['id']} expected witnesses {p['expect']}, spec gives {got}")
    # 2. corrupted expected verdict: the spec judges a different program than /repo compiles
    #    (its last consuming statement removed) -> witnesses, while /repo still accepts
    cut = {}
    for p, w, r, j in ev:
        if j is None and not w and p["body"][-1]["k"] == "expr":
            q = A.clone(p)
            q["body"] = q["body"][:-1]
            cut[p["id"]] = A.number(q)
    cutw = R.spec_verdicts(ctx, list(cut.values()), tag="st") if cut else {}
    flagged = 0
    for p, w, r, j in ev:
        if j is not None:
            continue
        if p["id"] in cut:
            if R.judge(p, cutw[p["id"]], r) is None:
                raise lib.Machinery(f"selftest: corrupted verdict for corpus program {p['id']} not flagged")
            flagged += 1
        # 3. corrupted recorded outcome of /repo
        if r["status"] == "ok":
            r2 = {"status": "rejected", "error": {"class": "GuppyError", "diag": "PlaceNotUsedError", "title": "Drop violation"}}
        else:
            r2 = {"status": "ok"}
        if R.judge(p, w, r2) is None:
            raise lib.Machinery(f"selftest: flipped /repo outcome for corpus program {p['id']} not flagged")
        flagged += 1
        if r["status"] == "rejected" and not ({x[0] for x in w} & R.LOOSE):
            r3 = {"status": "rejected", "error": {"class": "GuppyError", "diag": "TypeMismatchError", "title": "x"}}
            if R.judge(p, w, r3) is None:
                raise lib.Machinery(f"selftest: wrong diagnostic class for corpus program {p['id']} not flagged")
            flagged += 1
    if flagged < 10:
        raise lib.Machinery("selftest: too few corruptions exercised")


if __name__ == "__main__":
    lib.main("C06", run, replay, selftest)
