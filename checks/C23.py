"""C23 Comptime tracing leaves the user's module untouched.

Decided by: spec/ComptimeGlobals.tla - state machine of mock_builtins' save/patch/restore of
f.__globals__ (tracing/builtins_mock.py) driven by the compile worklist (compiler/core.py) and by
nested compile() calls made from traced bodies; invariants Restored / StepsRestored /
MockedInside / Untouched / OldIsInitOrMock are model-checked by TLC over all sessions.
Binding (spec -> code): every complete session printed by TLC (placement of <= 3 comptime
functions in one or two modules, user bindings of int/float/len, one body script per function
with a fault (Python exception, Guppy error, KeyboardInterrupt) before/after its call or a wrong return value, <= 3 top-level compile() calls) is
generated as real modules and executed; after every top-level compile() the module __dict__
snapshots (names, object identities, order; plus the builtins module) are compared with the
initial ones as the spec demands, the outcome class with the spec's, and the classification of
int/float/len recorded by rec() inside the traced bodies with the spec's in-trace state.
"""
import json
import random

import lib

CHUNK = 100


def sessions_from(ctx, cfg, **kw):
    kw.setdefault("workers", 4)
    r = ctx.tlc("ComptimeGlobals", cfg, **kw)
    if not r.ok:
        raise lib.Machinery(f"ComptimeGlobals.tla ({cfg}): TLC reports an error (specification problem):\n{r.error}")
    return r, [p for p in r.printed if isinstance(p, dict) and "steps" in p]


def replay_all(sessions, procs):
    import eng_ct
    import guppylang.std.builtins  # noqa: F401  (import once before the pool forks)
    import pool

    jobs = [{"sessions": sessions[i:i + CHUNK]} for i in range(0, len(sessions), CHUNK)]
    res = pool.map_jobs(eng_ct.replay_job, jobs, procs=procs, chunksize=1)
    bad, leaks, failed = [], 0, 0
    for j, out in enumerate(res):
        leaks += out["leaks"]
        failed += out["failed_steps"]
        for k, b in out["bad"]:
            bad.append((sessions[j * CHUNK + k], b))
    return bad, leaks, failed


def key_of(sess, m):
    """Stable, specific key of one mismatch: what differs and how (binding classes spec->code), not where."""
    what = m["what"]
    if m["step"] < 0:
        return f"{what}: {str(m['code'])[:120]}"
    ctxt = f"after a compile() that ended '{sess['steps'][m['step']]['outcome']}'"
    if what == "namespaces after compile()":
        d = sorted({f"{m['spec'][mod][n]}->{m['code'][mod][n]}" for mod in m["spec"] for n in m["spec"][mod]
                    if m["spec"][mod][n] != m["code"][mod][n]})
        return f"{what} {ctxt}: {', '.join(d)}"
    if what == "module __dict__ after compile()":
        d = sorted({x.split(": ", 1)[-1] for x in m["code"]})
        return f"{what} {ctxt}: {', '.join(d)[:200]}"
    if what == "outcome":
        return f"outcome: spec {m['spec']} code {str(m['code'])[:100]}"
    if what == "in-body observation":
        s, c = m["spec"], m["code"]
        if s and c and s["tag"] == c["tag"]:
            d = sorted({f"{s['g'][mod][n]}->{c['g'][mod][n]}" for mod in s["g"] for n in s["g"][mod]
                        if s["g"][mod][n] != c["g"][mod][n]})
            return f"{what} at rec(f,{s['tag'][1]}) in compile #{m['step'] + 1}: {', '.join(d)}"
        return f"{what}: order of traces differs (spec {s and s['tag']} code {c and c['tag']})"
    return what


def stats(sessions, acc):
    for s in sessions:
        acc["sessions"] += 1
        acc["steps"] += len(s["steps"])
        nest = any(sc["call"][0] in ("nest", "nestcatch") for sc in s["script"])
        acc["with_nested_compile"] += nest
        acc["two_modules_used"] += len(set(s["place"])) > 1
        acc["user_bound"] += any(s["bind"][m] for m in s["bind"])
        acc["bound_to_none_or_zero"] += any(b.endswith(("=none", "=zero")) for m in s["bind"] for b in s["bind"][m])
        for st in s["steps"]:
            acc["outcomes"][st["outcome"]] = acc["outcomes"].get(st["outcome"], 0) + 1
            acc["obs"] += len(st["obs"])
            acc["steps_with_two_modules_mocked"] += any(
                all(any(v == "mock" for v in o["g"][m].values()) for m in o["g"]) and len(o["g"]) > 1 for o in st["obs"])
            acc["max_traces_in_step"] = max(acc["max_traces_in_step"], len({tuple(o["tag"])[0] for o in st["obs"]}))
    return acc


def run(ctx):
    ctx.level = "model_checking"
    acc = {"sessions": 0, "steps": 0, "obs": 0, "with_nested_compile": 0, "two_modules_used": 0, "user_bound": 0, "bound_to_none_or_zero": 0,
           "outcomes": {}, "steps_with_two_modules_mocked": 0, "max_traces_in_step": 0}
    allbad, leaks, failed = [], 0, 0
    samples = []
    procs = ctx.pick(6, 14)
    import eng_tree

    eng_tree.freeze_tree(ctx)

    def consume(sessions):
        nonlocal leaks, failed
        stats(sessions, acc)
        if sessions and len(samples) < 3:
            s = sessions[len(sessions) // 3]
            samples.append({k: s[k] for k in ("place", "bind", "script")} |
                           {"steps": [[st["entry"], st["outcome"], len(st["obs"])] for st in s["steps"]]})
        b, l, f = replay_all(sessions, procs)
        allbad.extend(b)
        leaks += l
        failed += f

    # 1. exhaustive sessions (small scope) + model invariants
    cfg = ctx.pick("ComptimeGlobals.cfg", "ComptimeGlobals_thorough.cfg")
    r, sessions = sessions_from(ctx, cfg, coverage=ctx.quick, timeout=ctx.pick(900, 3000))
    if ctx.quick:
        for act in ("BeginTrace", "ObsStep", "FaultStep", "CallStep", "ExitNormal", "ExitRaise", "EndCompile", "AbortCompile"):
            if r.coverage.get(act, (0, 0))[1] == 0:
                raise lib.Machinery(f"vacuous model run: action {act} never taken ({r.coverage})")
        ctx.coverage["tlc_action_coverage"] = {k: list(v) for k, v in r.coverage.items()}
    consume(sessions)
    nexh = len(sessions)
    ctx.log(f"exhaustive ({cfg}): {nexh} sessions replayed, mismatching so far {len(allbad)}")
    # 2. random sessions from the full space (3 functions, all bindings, 3 compiles)
    nsim = ctx.pick(400, 20000)
    r, sessions = sessions_from(ctx, "ComptimeGlobals_sim.cfg", simulate=f"num={nsim // 4 + 1}", depth=300,
                                seed=ctx.seed + 1, timeout=ctx.pick(900, 3000))
    eng_tree.count_sim_states(ctx, r)
    uniq = sorted({json.dumps(s, sort_keys=True) for s in sessions})
    random.Random(ctx.seed).shuffle(uniq)
    sim = [json.loads(s) for s in uniq[:nsim]]
    consume(sim)
    ctx.log(f"simulation: {len(sessions)} emitted, {len(uniq)} distinct, {len(sim)} replayed")

    need = ("ok", "py", "guppy", "intr", "bad_return")
    if any(acc["outcomes"].get(k, 0) == 0 for k in need) or not (acc["with_nested_compile"] and acc["user_bound"] and acc["bound_to_none_or_zero"]
                                                                  and acc["steps_with_two_modules_mocked"]):
        raise lib.Machinery(f"vacuous enumeration: {acc}")

    groups = {}
    for sess, ms in allbad:
        m = min(ms, key=lambda x: x["step"])  # earliest mismatch of the session
        groups.setdefault(key_of(sess, m), []).append((sess, m))
    for key, cases in sorted(groups.items()):
        sess, m = min(cases, key=lambda c: len(json.dumps(c[0])))
        small = {k: sess[k] for k in ("place", "bind", "script")} | {"entries": [st["entry"] for st in sess["steps"]]}
        ctx.violation(key, f"{len(cases)} sessions disagree with ComptimeGlobals.tla: {key}; smallest: {json.dumps(small)} "
                      f"step {m['step']}: spec {json.dumps(m['spec'])[:300]} code {json.dumps(m['code'])[:300]}",
                      {"session": sess, "mismatch": m})
    ctx.coverage.update({
        "traces_validated_against_impl": acc["sessions"],
        "evaluations": acc["steps"] + acc["obs"],
        "distinct_nontrivial": acc["with_nested_compile"],
        "rule": "complete sessions emitted by TLC from ComptimeGlobals.tla, each run on freshly generated real modules; "
                "evaluations = top-level compile() snapshots + in-body observations compared; non-trivial = session "
                "whose bodies run a nested compile() (traces nest)",
        "samples": samples,
        "exhaustive": True,
        "bounds": (f"exhaustive: {nexh} sessions of {cfg} (2 functions, 2 modules, "
                   + ("3 binding sets/module (values: own object, None, 0), 5 fault kinds incl. KeyboardInterrupt, 1 compile" if ctx.quick else
                      "4 binding sets/module (values: own object, None, 0), 8 fault kinds incl. KeyboardInterrupt, 2 compiles")
                   + f"); plus {len(sim)} random sessions with 3 functions, all 4^3 bindings per module (absent / own object / None / 0), 3 compiles (seed {ctx.seed + 1})"),
        "session_stats": acc,
        "mismatching_sessions": len(allbad),
        "side_observation_tracing_state": {
            "failed_compiles": failed, "tracing_active_still_true_afterwards": leaks,
            "note": "tracing_active() after a failed top-level compile (tracing/state.py set_tracing_state); not part of "
                    "the module namespace, hence recorded only (its effect on later outcomes is checked by C11)"},
    })
    ctx.assumptions += ["TLC", "generated module text (eng_ct.py) realises the session chosen by the spec",
                        "classification of a binding by object identity (user object / mock object / absent)"]


def replay(ctx, data):
    import eng_tree

    eng_tree.freeze_tree(ctx)
    import eng_ct

    sess = data["replay"]["session"]
    print(json.dumps({k: sess[k] for k in ("place", "bind", "script")}))
    for m in sorted(sess["bind"]):
        print(f"--- module {m}\n{eng_ct.module_src(m, sess)}")
    got = eng_ct.run_session(sess)
    bad = eng_ct.compare(sess, got)
    for e, o in zip(sess["steps"], got["steps"]):
        print("compile f%d: spec outcome=%s after=%s | code outcome=%s after=%s dict_diff=%s" % (
            e["entry"], e["outcome"], json.dumps(e["after"]), o["outcome"], json.dumps(o["after"]), o["dict_diff"]))
    print("mismatches:", json.dumps(bad, indent=1))
    if bad:
        ctx.violation(data.get("key", "replay"), "session still disagrees", data["replay"])


def selftest(ctx):
    import copy

    import eng_tree

    eng_tree.freeze_tree(ctx)
    import eng_ct
    import guppylang_internals.tracing.function as tf
    from contextlib import contextmanager

    r, sessions = sessions_from(ctx, "ComptimeGlobals.cfg")
    random.Random(ctx.seed).shuffle(sessions)
    sessions = sessions[:250]
    base = eng_ct.replay_job({"sessions": sessions})
    if base["bad"]:
        raise lib.Machinery(f"selftest: baseline sessions already disagree: {base['bad'][:2]}")
    # (a) corrupted expectations must be rejected
    n = 0
    for s in sessions[:80]:
        st = s["steps"][0]
        muts = []
        c = copy.deepcopy(s)
        c["steps"][0]["outcome"] = "ok" if st["outcome"] != "ok" else "py"
        muts.append(c)
        c = copy.deepcopy(s)
        c["steps"][0]["after"]["A"]["len"] = "mock"
        muts.append(c)
        if st["obs"]:
            c = copy.deepcopy(s)
            c["steps"][0]["obs"][-1]["g"][s["place"][st["obs"][-1]["tag"][0] - 1]]["int"] = "absent"
            muts.append(c)
            c = copy.deepcopy(s)
            del c["steps"][0]["obs"][0]
            muts.append(c)
        for c in muts:
            n += 1
            if not eng_ct.replay_job({"sessions": [c]})["bad"]:
                raise lib.Machinery(f"selftest: corrupted expectation accepted: {json.dumps(c)[:400]}")
    # (b) in-process mutated mock_builtins must be detected
    from guppylang_internals.tracing import builtins_mock as bm

    @contextmanager
    def no_finally(f):
        mock = {"float": bm.float, "int": bm.int, "len": bm.len}
        old = {x: f.__globals__[x] for x in mock if x in f.__globals__}
        f.__globals__.update(mock)
        yield
        for x in mock:
            if x not in old:
                del f.__globals__[x]
        f.__globals__.update(old)

    @contextmanager
    def no_delete(f):
        mock = {"float": bm.float, "int": bm.int, "len": bm.len}
        old = {x: f.__globals__[x] for x in mock if x in f.__globals__}
        f.__globals__.update(mock)
        try:
            yield
        finally:
            f.__globals__.update(old)

    @contextmanager
    def reorder(f):
        mock = {"float": bm.float, "int": bm.int, "len": bm.len}
        old = {x: f.__globals__.pop(x) for x in mock if x in f.__globals__}
        f.__globals__.update(mock)
        try:
            yield
        finally:
            for x in mock:
                del f.__globals__[x]
            f.__globals__.update(old)

    orig = tf.mock_builtins
    for name, fn in (("no try/finally", no_finally), ("absent names not deleted", no_delete),
                     ("user bindings re-inserted at the end (order changes)", reorder)):
        tf.mock_builtins = fn
        try:
            out = eng_ct.replay_job({"sessions": sessions})
        finally:
            tf.mock_builtins = orig
        if not out["bad"]:
            raise lib.Machinery(f"selftest: in-process mutation '{name}' not detected")
    ctx.log(f"selftest: {n} corrupted expectations rejected, 3 in-process mock_builtins mutations detected")


if __name__ == "__main__":
    lib.main("C23", run, replay, selftest)
