"""C24 Unitary contexts reject non-unitary quantum operations.

Decided by: spec/Unitary.tla.  TLC enumerates the whole table context x callee flags x
argument mix x call position x construct, checks the laws of the verdict rule
(monotone in callee flags, antitone in context flags, classical/exempt calls, position
independence, ...) and prints, for every case, every terminal state of the checker walk
(accept, or one rejection per violated site) plus the `unitary` metadata the compiled
functions must carry.  Binding (spec -> code): each printed case is rendered to Guppy source
(harness/uni_cases.py), checked and - when accepted - compiled by /repo's guppylang; the
verdict and the FuncDefn metadata are compared with what TLC printed.
"""
import collections
import itertools
import json
import random

import lib
import uni_par
import uni_cases as uc

BATCH = 32
UNITARY_REASONS = {"Call", "Loop", "Assignment", "Subscript"}
ACTIONS = ("ChooseContext", "ChooseSites", "CheckSite", "Accept")


def spec_table(ctx, cfg, coverage=False):
    r = ctx.tlc("Unitary", cfg, coverage=coverage, timeout=1500)
    if not r.ok:
        raise lib.Machinery("Unitary.tla: a law of the verdict rule fails on the table (specification error):\n" + r.error)
    for a in ACTIONS if coverage else ():
        if sum(r.coverage.get(a, (0, 0))) == 0:
            raise lib.Machinery(f"Unitary.tla: action {a} never taken (vacuous run); coverage={r.coverage}")
    table = collections.OrderedDict()
    for p in r.printed:
        if "case" not in p:
            continue
        k = uc.case_key(p["case"])
        e = table.setdefault(k, {"key": k, "case": p["case"], "verdicts": set(), "missing": sorted(p["missing"]),
                                 "scope": p["scope"], "meta": p["meta"], "calleemeta": p["calleemeta"],
                                 "flags": sorted(p["flags"])})
        e["verdicts"].add(p["verdict"])
    if not table:
        raise lib.Machinery("Unitary.tla printed no case:\n" + r.out[-1500:])
    for e in table.values():
        if "accept" in e["verdicts"] and len(e["verdicts"]) > 1:
            raise lib.Machinery(f"spec is not verdict-deterministic for {e['key']}: {e['verdicts']}")
        e["verdicts"] = sorted(e["verdicts"])
        e["expect"] = "accept" if e["verdicts"] == ["accept"] else "reject"
    return list(table.values()), r


def quick_sample(entries, seed, per_stratum=2, frac=10):
    """Quick tier: all construct cases, and of the call-only cases a seeded 1/frac sample that still
    hits every stratum (context kind, callee kind, argument mix, position, spec verdict, own/outer scope
    of the violated requirement, dagger in context)."""
    rnd = random.Random(seed)
    strata = collections.OrderedDict()
    keep = []
    for i, e in enumerate(entries):
        c = e["case"]
        if c["con"] != "none":
            keep.append(i)
            continue
        k = (c["ctx"]["kind"], c["call"]["kind"], c["call"]["args"], c["call"]["pos"], e["expect"],
             e["scope"] if e["expect"] == "reject" else "", "D" in e["flags"])
        strata.setdefault(k, []).append(i)
    for k, idx in strata.items():
        rnd.shuffle(idx)
        keep += idx[:max(per_stratum, len(idx) // frac)]
    return [entries[i] for i in sorted(keep)]


def observe(entries, seed, validate=False):
    order = list(range(len(entries)))
    random.Random(seed).shuffle(order)  # batch composition (which cases share a module) follows the seed
    jobs = [{"cases": [entries[i]["case"] for i in order[j:j + BATCH]], "seed": seed, "compile": True,
             "validate": validate} for j in range(0, len(order), BATCH)]
    out = uni_par.run(uc.observe_batch, jobs, est_seconds_per_job=0.25)
    flat = [r for b in out for r in b]
    obs = [None] * len(entries)
    for i, r in zip(order, flat):
        obs[i] = r
    return obs


def subset_bits(a, b):
    return a & b == a


def check_meta(e, o):
    """Compare FuncDefn `unitary` metadata of an accepted, compiled case with the spec."""
    bad = []
    meta = o.get("meta")
    if meta is None:
        return [f"accepted but not compiled: {o.get('compile_error')}"]
    tests = [m for n, m in meta if n.startswith("t") and n[1:].isdigit()]
    if tests != [e["meta"]["test"]]:
        bad.append(f"function metadata {tests} != [{e['meta']['test']}]")
    blocks = [m for n, m in meta if n.startswith("__WithBlock__")]
    want = e["meta"]["blocks"]
    fits = lambda m, w: isinstance(m, int) and subset_bits(w[0], m) and subset_bits(m, w[1])  # noqa: E731
    ok = len(blocks) == len(want) and any(all(fits(m, w) for m, w in zip(perm, want))
                                          for perm in itertools.permutations(blocks))
    if not ok:
        bad.append(f"with-block metadata {blocks} not within {want}")
    call = e["case"]["call"]
    if call["kind"] == "defn":
        name = f"f_{uc.fid(call['flags'])}_{call['args']}"
        got = [m for n, m in meta if n == name]
        if got != [e["calleemeta"]]:
            bad.append(f"callee {name} metadata {got} != [{e['calleemeta']}]")
    if o.get("valid") is False:
        bad.append("compiled HUGR does not validate: " + o.get("invalid_msg", ""))
    return bad


def compare(entries, obs):
    """-> (findings, stats); a finding = (key, entry, observation, text)."""
    findings = []
    st = collections.Counter()
    for e, o in zip(entries, obs):
        v = o["verdict"]
        pos = e["case"]["call"]["pos"] if e["case"]["call"]["kind"] != "none" else "-"
        if v in ("machinery", "crash"):
            raise lib.Machinery(f"case {e['key']} could not be observed: {o.get('error')}\n{o.get('tb', '')}")
        if v == "reject" and o["reason"] not in UNITARY_REASONS:
            raise lib.Machinery(f"generated program for {e['key']} rejected for an unrelated reason "
                                f"({o.get('diag')}: {o.get('title')}) - generator error")
        st[(e["expect"], v)] += 1
        if e["expect"] == "reject" and v == "accept":
            why = "+".join(e["verdicts"])
            if e["verdicts"] == ["Call"]:
                cond = pos in ("if_cond", "while_cond", "ifexp_cond", "boolop_cond")
                if pos in ("arg_after_qubit", "arg_before_qubit"):
                    key = f"call-nested-in-argument-unchecked@{pos}"
                elif e["scope"] == "outer":
                    key = f"nested-with-outer-flags-unchecked@{pos}"
                elif cond:
                    key = f"branch-condition-unchecked@{pos}"
                else:
                    key = f"accepted-nonunitary-call:{e['key']}"
            else:
                key = f"accepted-under-dagger[{why}]:{e['key']}"
            findings.append((key, e, o, f"spec rejects ({why}; context flags {e['flags']}, missing {e['missing']}) "
                                         f"but check() accepts"))
        elif e["expect"] == "accept" and v == "reject":
            if o["reason"] == "Assignment" and pos in ("ifexp_cond", "ifexp_arm") and e["case"]["con"] == "none":
                key = f"dagger-rejects-conditional-expression@{pos}"
            else:
                key = f"rejected[{o['reason']}]:{e['key']}"
            findings.append((key, e, o, f"spec accepts (context flags {e['flags']}) but check() rejects with "
                                        f"{o['reason']} {o.get('missing', '')}"))
        elif v == "reject":
            if o["reason"] not in e["verdicts"]:
                st["reject_reason_not_in_spec"] += 1
            elif o["reason"] == "Call" and sorted(o["missing"]) != e["missing"]:
                st["missing_flags_differ"] += 1
        else:
            st["metadata_checked"] += 1
            for b in check_meta(e, o):
                findings.append((f"metadata:{e['key']}", e, o, b))
    return findings, st


def report(ctx, findings, seed):
    groups = collections.OrderedDict()
    for key, e, o, text in findings:
        groups.setdefault(key, []).append((e, o, text))
    for key, items in groups.items():
        e, o, text = items[0]
        src = uc.render_test(e["case"], "test", seed)
        ctx.violation(key, f"{len(items)} case(s), e.g. {e['key']}: {text}\n{src}",
                      {"seed": seed, "cases": [{"case": x[0]["case"], "expected": x[0]["verdicts"], "observed": x[1],
                                                "text": x[2]} for x in items[:10]]})


def run(ctx):
    ctx.level = "model_checking"
    cfg = ctx.pick("Unitary.cfg", "Unitary_thorough.cfg")
    entries, r = spec_table(ctx, cfg, coverage=not ctx.quick)
    ctx.log(f"TLC: {len(entries)} cases, {r.distinct} states, {r.wall:.1f}s")
    ntable = len(entries)
    if ctx.quick:
        entries = quick_sample(entries, ctx.seed)
    ctx.log(f"replaying {len(entries)} of {ntable} cases")
    obs = observe(entries, ctx.seed, validate=not ctx.quick)
    findings, st = compare(entries, obs)
    report(ctx, findings, ctx.seed)
    byverdict = collections.Counter(v for e in entries for v in e["verdicts"])
    for need in ("accept", "Call", "Loop", "Assignment", "Subscript"):
        if byverdict[need] == 0:
            raise lib.Machinery(f"vacuous table: no case with spec verdict {need}")
    nontrivial = sum(1 for e in entries if e["flags"] and (e["case"]["call"]["kind"] != "none" or e["case"]["con"] != "none"))
    ctx.coverage.update({
        "traces_validated_against_impl": len(entries),
        "evaluations": len(entries),
        "distinct_nontrivial": nontrivial,
        "rule": "a case is one rendered function: context (decorator flags | with stack | nested with) x call site "
                "(callee kind, callee flags, argument mix, position) x construct; non-trivial = non-empty context "
                "flags and at least one call or construct",
        "samples": [entries[i]["key"] + " -> " + "/".join(entries[i]["verdicts"])
                    for i in range(0, len(entries), max(1, len(entries) // 6))][:6],
        "exhaustive": not ctx.quick,
        "table": cfg,
        "table_cases": ntable,
        "spec_verdicts": dict(byverdict),
        "expected_vs_observed": {f"{a}->{b}": n for (a, b), n in ((k, v) for k, v in st.items() if isinstance(k, tuple))},
        "metadata_checked": st["metadata_checked"],
        "reject_reason_not_in_spec": st["reject_reason_not_in_spec"],
        "missing_flags_differ": st["missing_flags_differ"],
        "tlc_action_coverage": {a: list(r.coverage.get(a, ())) for a in ACTIONS},
        "violating_cases": len(findings),
    })
    ctx.assumptions += ["TLC", "renderer harness/uni_cases.py (case -> Guppy source)",
                        "compat shim", "hugr-core validator (thorough tier)"]


def replay(ctx, data):
    rp = data["replay"]
    for c in rp["cases"]:
        print("case:", uc.case_key(c["case"]))
        print(uc.render_test(c["case"], "test", rp["seed"]))
        o = uc.observe_batch({"cases": [c["case"]], "seed": rp["seed"], "compile": True, "validate": True})[0]
        print("spec verdict(s):", c["expected"], "| code now:", json.dumps(o), "| recorded:", c["text"])


def selftest(ctx):
    entries, _ = spec_table(ctx, "Unitary.cfg")
    rnd = random.Random(ctx.seed)
    sample = rnd.sample(entries, 600)
    obs = observe(sample, ctx.seed)
    base, _ = compare(sample, obs)
    basekeys = {(k, e["key"]) for k, e, _, _ in base}
    agree_acc = next(i for i, (e, o) in enumerate(zip(sample, obs)) if e["expect"] == "accept" and o["verdict"] == "accept"
                     and e["flags"] and e["case"]["ctx"]["kind"] == "deco")
    agree_rej = next(i for i, (e, o) in enumerate(zip(sample, obs)) if e["expect"] == "reject" and o["verdict"] == "reject")

    def flagged(ents, ob, i):
        f, _ = compare(ents, ob)
        return any(e["key"] == ents[i]["key"] and (k, e["key"]) not in basekeys for k, e, _, _ in f)

    # 1. flip the spec's expected verdict of one agreeing case each way
    for i, new in ((agree_acc, ("reject", ["Call"])), (agree_rej, ("accept", ["accept"]))):
        ents = [dict(e) for e in sample]
        ents[i]["expect"], ents[i]["verdicts"] = new
        if not flagged(ents, obs, i):
            raise lib.Machinery(f"selftest: flipped expected verdict of {sample[i]['key']} not flagged")
    # 2. corrupt the recorded metadata of one accepted case
    ob = [dict(o) for o in obs]
    ob[agree_acc]["meta"] = [[n, (m or 0) ^ 2] for n, m in ob[agree_acc]["meta"]]
    if not flagged(sample, ob, agree_acc):
        raise lib.Machinery("selftest: corrupted unitary metadata not flagged")
    # 3. corrupt the observed verdict
    ob = [dict(o) for o in obs]
    ob[agree_rej] = {"verdict": "accept", "meta": []}
    if not flagged(sample, ob, agree_rej):
        raise lib.Machinery("selftest: corrupted observed verdict not flagged")


if __name__ == "__main__":
    lib.main("C24", run, replay, selftest)
