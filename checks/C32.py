"""C32 Accepted syntax is never silently ignored.

Table-driven: spec/GuppySem.tla (with harness/py2json.py) declares for every Python statement
/ expression node kind and optional clause either a semantics or MustReject.  Every construct
is planted in four contexts (function body, loop body, branch, nested function) of an
otherwise valid template in which it has an observable effect under Python.
Verdict per plant:  /repo rejects it (any Guppy error)                      -> fine
                    /repo accepts it and the spec models it                 -> the compiled program's event
                                                                             stream must be accepted by TLC (GuppySem_Trace)
                    /repo accepts it although the spec says MustReject      -> VIOLATION (accepted without a
                                                                             semantics: dropped or divergent)
The semantics of every modelled construct is first confirmed against CPython (guard).
"""
import collections
import json

import lib
import sem

PRE = """
class CM:
    def __enter__(self):
        return 1
    def __exit__(self, *a):
        return False

def twice(f):
    def w(*a):
        return f(*a) * 2
    return w

G = 5

@guppy.struct
class Cn:
    c: int

    @guppy
    def __pos__(self: "Cn") -> "Cn":
        result("pos", self.c)
        return Cn(self.c + 100)

    @guppy
    def __neg__(self: "Cn") -> "Cn":
        result("neg", self.c)
        return Cn(0 - self.c - 1)

    @guppy
    def __invert__(self: "Cn") -> "Cn":
        result("inv", self.c)
        return Cn(self.c * 2)

    @guppy
    def __add__(self: "Cn", other: int) -> "Cn":
        result("add", self.c + other)
        return Cn(self.c + other * 2)

    @guppy
    def __sub__(self: "Cn", other: "Cn") -> int:
        result("sub", other.c)
        return self.c - other.c + 1

    @guppy
    def bump(self: "Cn", d: int) -> int:
        result("bump", d)
        return self.c + d

@guppy
def h1(v: int, q: bool) -> int:
    result("h1", v)
    if q:
        return v - 3
    return 0 - v
"""

# name -> lines (use x:int already bound, a,b:int, p:bool). Lines are indented by the context.
PLANTS = {
    # --- optional clauses / statement kinds -------------------------------------------------
    "while_else": ["k = 0", "while k < 2:", "    k += 1", "else:", "    x = x + 10"],
    "for_else": ["for k in range(2):", "    x += k", "else:", "    x = x + 10"],
    "while_else_break": ["k = 0", "while k < 2:", "    k += 1", "    if p:", "        break", "else:", "    x = x + 10"],
    "chained_assign": ["x = y = a + 5", "result(\"y\", y)"],
    "keyword_args": ["x = h1(v=x, q=p)"],
    "keyword_args_mixed": ["x = h1(x, q=p)"],
    "keyword_args_swapped": ["x = h1(q=p, v=x)"],
    "starred_args": ["t = (x, p)", "x = h1(*t)"],
    # keyword arguments on every kind of callee (each has its own call checker)
    "kw_panic": ["if x > 100:", "    panic(\"boom\", signal=42)"],
    "kw_panic_extra": ["if x > 100:", "    panic(\"boom\", x, signal=42)"],
    "kw_exit": ["if x > 100:", "    exit(\"bye\", 3, signal=42)"],
    "kw_array": ["xs = array(1, 2, x, extra=5)", "x = xs[2] + 1"],
    "kw_result": ["result(\"t\", value=x)"],
    "kw_result_tag": ["result(tag=\"t\", value=x)"],
    "kw_range": ["for i in range(stop=3):", "    x += i"],
    "kw_len": ["xs = array(1, 2, 3)", "x = x + len(obj=xs)"],
    "kw_int": ["x = x + int(x=2.5)"],
    "kw_abs": ["x = abs(x=x - 5)"],
    "kw_method": ["xs = array(1, 2, 3)", "ys = xs.copy(deep=True)", "x = x + ys[0]"],
    "kw_nested_def": ["def g(z: int) -> int:", "    return z + 1", "x = g(z=x)"],
    "kw_comptime": ["x = x + comptime(1 + 1, extra=3)"],
    "kw_qubit_ops": ["q = qubit()", "h(q=q)", "x = x + 1", "discard(q)"],
    "kw_measure": ["q = qubit()", "bb = measure(q=q)", "x = x + 1"],
    "kw_state_result": ["q = qubit()", "state_result(\"s\", q, extra=1)", "discard(q)", "x = x + 1"],
    "kw_barrier": ["q = qubit()", "barrier(q, extra=1)", "discard(q)", "x = x + 1"],
    "default_param": ["def g(z: int = 5) -> int:", "    return z + 1", "x = g()"],
    "default_param_given": ["def g(z: int, w: int = 5) -> int:", "    return z + w", "x = g(x)"],
    "decorator_nested": ["@twice", "def g(z: int) -> int:", "    return z + 1", "x = g(x)"],
    "varargs": ["def g(*zs: int) -> int:", "    return 7", "x = g(1, 2)"],
    "kwonly": ["def g(*, z: int) -> int:", "    return z + 1", "x = g(z=x)"],
    "del_stmt": ["y = 4", "del y", "y = x + 1", "x = y"],
    "assert_stmt": ["assert a > 100, \"boom\""],
    "assert_true": ["assert True"],
    "raise_stmt": ["if a > 100:", "    raise ValueError()"],
    "try_except": ["try:", "    x = x + 1", "except Exception:", "    x = 0"],
    "try_finally": ["try:", "    x = x + 1", "finally:", "    x = x * 2"],
    "with_cm": ["with CM():", "    x = x + 1"],
    "with_as": ["with CM() as c:", "    x = x + c"],
    "global_stmt": ["global G", "x = x + 1"],
    "nonlocal_stmt": ["def g() -> int:", "    nonlocal x", "    x = 3", "    return 1", "y = g()"],
    "import_stmt": ["import math", "x = x + 1"],
    "importfrom_stmt": ["from math import floor", "x = x + 1"],
    "classdef": ["class K:", "    v = 3", "x = x + 1"],
    "match_stmt": ["match x:", "    case 0:", "        x = 10", "    case _:", "        x = x + 20"],
    "async_def": ["async def g() -> int:", "    return 1", "x = x + 1"],
    "yield_stmt": ["yield x"],
    "lambda_expr": ["g = lambda z: z + 1", "x = g(x)"],
    "set_literal": ["s = {1, 2}", "x = x + 1"],
    "dict_literal": ["d = {1: x}", "x = d[1] + 1"],
    "list_literal": ["l = [x, 2]", "x = l[0] + l[1]"],
    "fstring": ["m = f\"{x}\"", "x = x + 1"],
    "slice_expr": ["xs = array(1, 2, 3)", "ys = xs[0:2]", "x = x + 1"],
    "list_comp": ["l = [i + x for i in range(3)]", "x = l[2]"],
    "set_comp": ["s = {i for i in range(3)}", "x = x + 1"],
    "dict_comp": ["d = {i: i for i in range(3)}", "x = d[2]"],
    "is_compare": ["if x is a:", "    x = x + 1"],
    "in_compare": ["if x in (0, 1, 4):", "    x = x + 1"],
    "not_in_compare": ["if x not in (0, 1, 4):", "    x = x + 1"],
    "matmul": ["x = x @ 2"],
    "star_unpack": ["t = (1, 2, x)", "f, *r = t", "x = f + x", "result(\"r\", r)"],
    "star_unpack_mid": ["t = (1, 2, x, 4)", "f, *r, l = t", "x = f + x + l + len(r)"],
    "string_concat": ["m = \"a\" + \"b\"", "x = x + 1"],
    "complex_const": ["z = 1j", "x = x + 1"],
    "ann_without_value": ["y: int", "y = x + 2", "x = y"],
    "multiple_targets_tuple": ["(x, y), z = (x + 1, 2), 3", "x = x + y + z"],
    "print_call": ["print(x)", "x = x + 1"],
    "attribute_on_int": ["x = x.real"],
    "subscript_tuple": ["t = (x + 1, 7)", "x = t[0] + t[1]"],
    "global_read": ["x = x + G"],
    "ellipsis_stmt": ["...", "x = x + 1"],
    "string_stmt": ["\"just a string\"", "x = x + 1"],
    "return_tuple_unpack_call": ["def g(z: int) -> tuple[int, int]:", "    return z, z + 1", "u, v = g(x)", "x = u * v"],
    # --- modelled constructs that must take effect exactly as in Python ---------------------
    "aug_add": ["x += 2"], "aug_sub": ["x -= 5"], "aug_mul": ["x *= 3"], "aug_floordiv": ["x //= 2"],
    "aug_mod": ["x %= 3"], "aug_pow": ["x **= 2"], "aug_lshift": ["x <<= 1"], "aug_rshift": ["x >>= 1"],
    "aug_and": ["x &= 6"], "aug_or": ["x |= 1"], "aug_xor": ["x ^= 5"],
    "int_truthiness": ["if x:", "    x = x + 100", "else:", "    x = 7"],
    "while_int_cond": ["k = 2", "while k:", "    k -= 1", "    x += 3"],
    "not_int": ["q = not x", "result(\"q\", q)"],
    "walrus_stmt": ["if (y := x + 1) > 2:", "    x = y * 2"],
    "ifexp": ["x = (x + 1) if p else (x - 1)"],
    "invert": ["x = ~x"],
    "true_division": ["f = x / 2", "result(\"f\", f)"],
    "bool_arith": ["x = x + True"],
    "bool_and_ints": ["x = x and 3"],
    "tuple_swap": ["y = 5", "x, y = y, x", "result(\"y\", y)"],
    "nested_unpack": ["(u, v), w = (x, 2), 3", "x = u + v + w"],
    "elif_chain": ["if x > 3:", "    x = 1", "elif x > 1:", "    x = 2", "elif p:", "    x = 3", "else:", "    x = 4"],
    "pass_stmt": ["pass", "x = x + 1"],
    "return_early": ["if x > 2:", "    return 42"],
    "nested_def_call": ["def g(z: int) -> int:", "    return z * 3", "x = g(x) + g(1)"],
    "abs_builtin": ["x = abs(x - 5)"], "int_of_float": ["x = int(2.5) + x"], "divmod_builtin": ["u, v = divmod(x, 3)", "x = u * 10 + v"],
    "pow_builtin": ["x = pow(x, 2)"], "min_max": ["x = min(x, 2) + max(x, 7)"], "len_array": ["xs = array(1, 2, 3)", "x = x + len(xs)"],
    "compare_chain": ["if 0 <= x < 3:", "    x = 50"],
    "unary_plus": ["x = +x"],
    "array_aug": ["xs = array(1, 2, 3)", "xs[1] += x", "result(\"xs\", xs)"],
    # --- unary operators on every operand type: either Python's value or a rejection, never the operand itself
    "unary_plus_bool": ["result(\"u\", +p)"], "unary_minus_bool": ["result(\"u\", -p)"], "invert_bool": ["result(\"u\", ~p)"],
    "unary_plus_float": ["f = +(x / 2)", "result(\"f\", f)"], "unary_minus_float": ["f = -(x / 2)", "result(\"f\", f)"],
    "unary_minus_int": ["x = -x"], "unary_minus_const_expr": ["x = -(2 + x)"], "unary_plus_cmp": ["result(\"u\", +(x > 1))"],
    "not_bool": ["q = not p", "result(\"q\", q)"],
    # user-defined operators and methods of a struct must be called (once, with Python's operand order)
    "dunder_pos": ["o = +Cn(x)", "x = o.c"], "dunder_neg": ["o = -Cn(x)", "x = o.c"], "dunder_invert": ["o = ~Cn(x)", "x = o.c"],
    "dunder_pos_twice": ["o = +(+Cn(x))", "x = o.c"], "dunder_add": ["o = Cn(x) + 3", "x = o.c"],
    "dunder_sub": ["x = Cn(x) - Cn(a + 1)"], "dunder_mixed": ["o = -(Cn(x) + 2)", "x = (+o).c"],
    "method_call": ["x = Cn(x).bump(4)"], "method_call_var": ["o = Cn(x)", "x = o.bump(o.c) + o.bump(1)"],
    # CPython raises TypeError on every input: there is no semantics a statically typed language could give them
    "unary_plus_tuple": ["t = (x, 1)", "u = +t", "x = u[0]"], "unary_minus_tuple": ["t = (x, 1)", "u = -t", "x = u[0]"],
    "invert_float": ["f = ~(x / 2)", "result(\"f\", f)"], "unary_plus_array": ["xs = array(1, 2)", "ys = +xs", "x = ys[0]"],
    "unary_plus_none": ["n = None", "m = +n", "x = x + 1"], "unary_plus_str": ["m = +\"a\"", "x = x + 1"],
    "unary_plus_fn": ["g = +h1", "x = g(x, p)"], "unary_minus_fn": ["g = -h1", "x = g(x, p)"],
    "unary_plus_range": ["for k in +range(2):", "    x += k"],
}
# plants on which CPython raises TypeError whatever the input (checked at run time): accepting one means that part
# of it was dropped or reinterpreted
TYPE_ERROR_PLANTS = {"unary_plus_tuple", "unary_minus_tuple", "invert_float", "unary_plus_array", "unary_plus_none",
                     "unary_plus_str", "unary_plus_fn", "unary_minus_fn", "unary_plus_range"}

CONTEXTS = {
    "body": "@guppy\ndef main(a: int, b: int, p: bool) -> int:\n    x = a\n{P4}\n    result(\"x\", x)\n    return x\n",
    "loop": "@guppy\ndef main(a: int, b: int, p: bool) -> int:\n    x = a\n    for it in range(2):\n{P8}\n        result(\"xi\", x)\n    result(\"x\", x)\n    return x\n",
    "branch": "@guppy\ndef main(a: int, b: int, p: bool) -> int:\n    x = a\n    if a > -100:\n{P8}\n        result(\"xb\", x)\n    else:\n        x = 0\n    result(\"x\", x)\n    return x\n",
    "nested": "@guppy\ndef main(a: int, b: int, p: bool) -> int:\n    def inner(x: int, a: int, p: bool) -> int:\n{P8}\n        result(\"xn\", x)\n        return x\n    x = inner(a, a, p)\n    result(\"x\", x)\n    return x\n",
}
ARGS = [[["int", 0], ["int", 1], ["bool", 1]], [["int", 3], ["int", -2], ["bool", 0]], [["int", 5], ["int", 5], ["bool", 1]]]


ARGS_MORE = [[["int", 2], ["int", 0], ["bool", 0]], [["int", 1], ["int", 9], ["bool", 1]], [["int", 101], ["int", 3], ["bool", 0]]]


def build_cases(thorough=False):
    cases = []
    args = ARGS + ARGS_MORE if thorough else ARGS
    scheds = ["min", "max", "rand:1", "rand:2"] if thorough else ["min", "max"]
    for name, lines in PLANTS.items():
        for cname, templ in CONTEXTS.items():
            if cname == "nested" and name in ("nonlocal_stmt",):
                continue
            src = PRE + "\n" + templ.replace("{P4}", "\n".join("    " + l for l in lines)).replace(
                "{P8}", "\n".join("        " + l for l in lines))
            cases.append({"id": f"{name}@{cname}", "plant": name, "context": cname, "src": src, "entry": "main",
                          "args": args, "scheds": scheds})
    return cases


def run(ctx):
    cases = build_cases(not ctx.quick)
    res = sem.evaluate(ctx, cases, "C32")
    cnt = collections.Counter()
    table = {}
    validated = 0
    for c, r in zip(cases, res):
        kind, d = sem.classify(r)
        cnt[kind] += 1
        table.setdefault(c["plant"], {})[c["context"]] = kind
        if kind == "ok":
            validated += sum(len(v["impl"]) for v in r["verdicts"])
        elif kind == "mismatch":
            ctx.violation(f"construct:{c['plant']}", f"`{c['plant']}` is accepted but does not take effect as in Python ({c['context']}): {json.dumps(d)[:400]}",
                          {"case": c, "detail": d})
        elif kind == "mustreject-accepted":
            ctx.violation(f"construct:{c['plant']}", f"`{c['plant']}` ({c['context']}) is accepted by Guppy but has no semantics in the specification "
                          f"(MustReject {d}): accepted syntax without defined effect", {"case": c, "detail": d})
        elif kind == "spec-vs-python":
            raise lib.Machinery(f"GuppySem disagrees with CPython on {c['id']}: {json.dumps(d)[:600]}")
        elif kind == "unmodelled":
            raise lib.Machinery(f"construct accepted by /repo but unmodelled in GuppySem ({c['id']}): {json.dumps(d)[:400]} - extend the spec")
        elif kind == "interp":
            raise lib.Machinery(f"interpreter problem on {c['id']}: {json.dumps(d)[:400]}")
        elif kind in ("crash", "invalid"):
            ctx.violation(f"{kind}:{c['plant']}", f"`{c['plant']}` ({c['context']}) {kind}: {json.dumps(d)[:500]}", {"case": c, "detail": d})
        elif kind == "skip":
            # python oracle unavailable (python itself raises / unrepresentable): fine iff /repo rejected
            if r["impl"]["status"] == "ok":
                if r["py"].get("mustreject"):
                    ctx.violation(f"construct:{c['plant']}", f"`{c['plant']}` ({c['context']}) accepted although MustReject {r['py']['mustreject']}",
                                  {"case": c})
                elif c["plant"] in TYPE_ERROR_PLANTS and all("TypeError" in (x.get("skip") or "") for x in r["py"].get("runs", [])):
                    ctx.violation(f"construct:{c['plant']}", f"`{c['plant']}` ({c['context']}) is accepted by Guppy although CPython raises TypeError "
                                  f"on every input ({r['py']['runs'][0]['skip']}): part of the construct was dropped or reinterpreted", {"case": c})
                else:
                    raise lib.Machinery(f"no oracle for accepted plant {c['id']}: {d}")
            elif r["impl"]["status"] in ("crash", "invalid"):
                ctx.violation(f"{r['impl']['status']}:{c['plant']}", f"`{c['plant']}` ({c['context']}): {json.dumps(r['impl'].get('error'))[:500]}", {"case": c})
    accepted = sorted(p for p, t in table.items() if any(v == "ok" for v in t.values()))
    rejected = sorted(p for p, t in table.items() if all(v in ("rejected", "skip") for v in t.values()))
    ctx.coverage.update({
        "programs": len(cases), "traces_validated_against_impl": validated,
        "evaluations": len(cases), "distinct_nontrivial": len(PLANTS),
        "rule": "one plant per Python statement/expression kind or optional clause (table PLANTS) x 4 contexts; every plant has "
                "an observable effect under Python; non-trivial = distinct construct",
        "samples": [{"plant": "while_else", "lines": PLANTS["while_else"]}, {"plant": "keyword_args", "lines": PLANTS["keyword_args"]}],
        "outcomes": dict(cnt), "constructs_accepted_and_validated": accepted, "constructs_rejected": rejected,
        "exhaustive": True,
    })
    ctx.assumptions += ["reference HUGR interpreter", "TLC", "py2json maps every ast node class without semantics to MustReject"]


def replay(ctx, data):
    c = data["replay"]["case"]
    r = sem.evaluate(ctx, [c], "replay")[0]
    print(c["src"])
    print(sem.classify(r), r["impl"].get("rendered"))
    print(json.dumps(r["verdicts"], indent=1)[:2000])


def selftest(ctx):
    cs = [c for c in build_cases() if c["id"] in ("aug_add@body", "elif_chain@loop")]
    # compiled text silently drops the planted statement: must be flagged
    bad = dict(cs[0], id="dropped", impl_src=cs[0]["src"].replace("    x += 2\n", ""))
    rs = sem.evaluate(ctx, cs + [bad], "self")
    k = [sem.classify(r)[0] for r in rs]
    if k != ["ok", "ok", "mismatch"]:
        raise lib.Machinery(f"selftest expected ok/ok/mismatch, got {k}")


if __name__ == "__main__":
    lib.main("C32", run, replay, selftest)
