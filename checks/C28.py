"""C28 Emulator configurations are immutable and reproducible.

Decided by: spec/Emulator.tla.  TLC (a) model-checks the design: a heap-shaped model of
`_Options` + shared simulator objects refines the immutable configuration values
(Immutable / Reproducible / FunctionOfValue), and refutes the same invariants for the model of
instance.py as written (Emulator_AsIs.cfg); (b) enumerates every history of derivations and runs up
to a bound (plus random deeper ones in the thorough tier) and prints each with the value the
specification assigns to EVERY config and the per-shot result labels of every run.
Binding (spec -> code): each history is replayed on real EmulatorInstance objects from /repo on real
selene; after every step the projection of every live config must equal the specification's value,
every run must have the specified number of shots, and all seeded shots that the specification
labels equal must have produced the same bits - across all steps, configs and histories.
"""
import json
import os
import random
import re

import lib

PROJ_FIELDS = ("kind", "seed", "simseed", "shots", "off", "inc")


# --------------------------------------------------------------------------------------------
ACTIONS = ("DoWithSeed", "DoWithShots", "DoWithOffset", "DoWithIncrement", "DoNewSim", "DoWithSimulator", "DoRun")


def model_check(ctx, deep):
    """Design level: the copy-on-seed model satisfies the invariants (depth 4 in the thorough tier; at depth 3
    the emitting run below checks the same invariants), the model of the code as written does not."""
    if deep:
        r = ctx.tlc("Emulator", "Emulator_MC4.cfg", timeout=1500)
        if not r.ok:
            raise lib.Machinery("Emulator.tla: the copy-on-seed design violates its own invariants:\n" + r.error)
    a = ctx.tlc("Emulator", "Emulator_AsIs.cfg", allow_error=True)
    refuted = (not a.ok) and "Invariant Immutable is violated" in a.out
    if not refuted:
        raise lib.Machinery("Emulator_AsIs.cfg: TLC did not refute Immutable for the aliasing model - the "
                            "invariant does not discriminate\n" + a.out[-1500:])
    ctx.coverage["model_of_code_as_written_refuted_by_tlc"] = True


def emit_histories(ctx, simulate=0):
    r = ctx.tlc("Emulator", "Emulator_Q.cfg", coverage=True, timeout=1500)
    if not r.ok:
        raise lib.Machinery("Emulator_Q.cfg: the copy-on-seed design violates its own invariants:\n" + r.error)
    acts = {k: v for k, v in r.coverage.items() if k in ACTIONS}
    dead = [k for k in ACTIONS if acts.get(k, (0, 0))[1] == 0]
    if dead:
        raise lib.Machinery(f"Emulator.tla: actions never taken (vacuous model): {dead}")
    ctx.coverage["tlc_action_coverage"] = acts
    hs = [p for p in r.printed if isinstance(p, dict) and "hist" in p]
    exhaustive_n = len(hs)
    if r.distinct == 0 or exhaustive_n == 0:
        raise lib.Machinery("no histories emitted")
    nsim = 0
    if simulate:
        # num is per worker; TLC evaluates Out on every generated successor, so each trace yields the final
        # step's siblings as well
        s = ctx.tlc("Emulator", "Emulator_Sim.cfg", simulate=f"num={simulate}", depth=8, seed=ctx.seed or 1,
                    timeout=1500, allow_error=True)
        sim = [p for p in s.printed if isinstance(p, dict) and "hist" in p]
        if not sim or "rror" in s.error:
            raise lib.Machinery("simulation failed:\n" + s.out[-1500:])
        nsim = len(sim)
        hs += sim
        m = re.search(r"The number of states generated: (\d+)", s.out)
        if m:  # simulation mode does not print the model-checking summary lib.tlc parses
            ctx.states += int(m.group(1))
            ctx.transitions += int(m.group(1))
            ctx.coverage["tlc_runs"][-1]["generated"] = int(m.group(1))
    seen, out = set(), []
    for h in hs:
        k = json.dumps(h["hist"], sort_keys=True)
        if k not in seen:
            seen.add(k)
            out.append(h)
    return out, exhaustive_n, nsim


def has_seeded(h):
    return any(c["seed"] != 0 for c in h["cfgs"])


def execution_order(hs, seed):
    """Histories that also start selene (run steps + audit of every seeded config), in a seeded random order.
    All projections are checked for every history; real runs cost a process each, so they get a time budget."""
    idx = [i for i, h in enumerate(hs) if has_seeded(h) or h["runs"]]
    random.Random(seed).shuffle(idx)
    return idx


def replay_budgeted(ctx, hs, first, cap, budget_s):
    import time

    order = execution_order(hs, ctx.seed)[:cap]
    flags = [False] * len(hs)
    for i in order[:first]:
        flags[i] = True
    t0 = time.time()
    obs = replay_all(ctx, hs, flags)
    done, batch = min(first, len(order)), first
    while done < len(order) and time.time() - t0 < budget_s:
        nxt = order[done:done + batch]
        sub = replay_all(ctx, [hs[i] for i in nxt], [True] * len(nxt))
        for i, o in zip(nxt, sub):
            obs[i] = o
            flags[i] = True
        done += len(nxt)
        batch *= 2
    return obs, flags


def replay_all(ctx, hs, execute):
    import emu_lib
    import pool

    pkg = os.path.join(ctx.workdir, "coin.hugr")
    if not os.path.exists(pkg):
        try:
            emu_lib.compile_package(pkg)
        except Exception as e:  # noqa: BLE001
            raise lib.Machinery(str(e)) from e
    builddir = os.path.join(ctx.workdir, "selene")
    try:
        emu_lib.prepare(pkg, builddir)
    except Exception as e:  # noqa: BLE001
        raise lib.Machinery(f"building the emulator instance failed: {type(e).__name__}: {e}") from e
    # interleave so that executed histories are spread evenly over the workers
    order = sorted(range(len(hs)), key=lambda i: (not execute[i], i))
    nchunks = max(1, min(len(hs), 64))
    chunks = [order[k::nchunks] for k in range(nchunks)]
    jobs = [{"pkg": pkg, "builddir": builddir, "hists": [hs[i] for i in ch], "execute": [execute[i] for i in ch]}
            for ch in chunks]
    res = pool.map_jobs(emu_lib.worker_chunk, jobs, chunksize=1, maxtasks=None)
    out = [None] * len(hs)
    for ch, chunk_obs in zip(chunks, res):
        for i, o in zip(ch, chunk_obs):
            out[i] = o
    return out


def resolve(hs, obs):
    """Compare every observation with the specification's expectation.
    -> (violations {key: [case]}, stats)"""
    import emu_lib

    viol: dict[str, list] = {}
    per_hist_bad = []
    claims: dict[str, dict[str, list[int]]] = {}
    nproj = nshots = 0
    for i, (h, o) in enumerate(zip(hs, obs)):
        if o["error"] and o.get("error_env"):
            raise lib.Machinery(f"replay failed twice with an environment error (not a verdict): {o['error'][:600]}")
        bad, cl = emu_lib.compare(h, o)
        for b in bad:
            if b["kind"] == "machinery":
                raise lib.Machinery(f"replay bookkeeping broken: {b}")
        per_hist_bad.append(bad)
        nproj += sum(len(p) for p in o["proj"])
        for lab, bits, clean in cl:
            claims.setdefault(lab, {}).setdefault(bits, []).append((i, clean))
            nshots += 1
        for b in bad:
            viol.setdefault(b["key"], []).append({"history": h, "mismatch": b, "observed": o})
    conflicts = []
    for lab, by_bits in claims.items():
        if len(by_bits) <= 1:
            continue
        # runs of configs whose projection agreed with the specification must agree with each other
        clean_bits = {b for b, cl in by_bits.items() if any(c for _i, c in cl)}
        if len(clean_bits) > 1:
            ex = []
            for b in sorted(clean_bits)[:2]:
                i = next(i for i, c in by_bits[b] if c)
                ex.append({"history": hs[i], "observed": obs[i], "bits": b})
                conflicts.append((lab, i))
            viol.setdefault(f"run:irreproducible:{lab.split(':')[0]}", []).append(
                {"label": lab, "examples": ex,
                 "mismatch": {"detail": f"seeded shot {lab} produced different bits {sorted(clean_bits)} in runs of "
                                        f"configurations whose options all matched the specification"}})
            continue
        ref = next(iter(clean_bits)) if clean_bits else max(by_bits, key=lambda b: len(by_bits[b]))
        # a deviating result of a config whose projection already deviates is evidence for that deviation
        for b, cl in by_bits.items():
            if b != ref:
                for i in sorted({i for i, _c in cl}):
                    conflicts.append((lab, i))
                    k = per_hist_bad[i][0]["key"] if per_hist_bad[i] else f"run:irreproducible:{lab.split(':')[0]}"
                    viol.setdefault(k, []).append(
                        {"history": hs[i], "observed": obs[i],
                         "mismatch": {"detail": f"and run() changed: seeded shot {lab} gave {b}, elsewhere {ref}",
                                      "run_changed": True}})
    stats = {"projections": nproj, "seeded_shots": nshots, "labels": len(claims), "run_conflicts": len(conflicts)}
    return viol, stats, conflicts


def report(ctx, viol):
    for key, cases in sorted(viol.items()):
        first = min(cases, key=lambda c: (c["mismatch"].get("step", 99), len(json.dumps(c["history"]["hist"])))) \
            if all("history" in c for c in cases) else cases[0]
        nrun = sum(1 for c in cases if c["mismatch"].get("run_changed"))
        what = (f"{key}: {len(cases)} deviations in replayed histories ({nrun} of them changed run() results of a "
                f"seeded configuration). First: {first['mismatch']['detail']}; history "
                f"{json.dumps(first.get('history', {}).get('hist', first.get('examples')))[:400]}")
        ctx.violation(key, what, {"case": first, "count": len(cases)})


def nontrivial(h):
    src = [s["c"] for s in h["hist"]]
    return any(src.count(c) >= 2 for c in set(src))


def run(ctx):
    ctx.level = "model_checking"
    model_check(ctx, deep=not ctx.quick)
    hs, n_exh, n_sim = emit_histories(ctx, simulate=0 if ctx.quick else 150)
    ctx.log(f"{len(hs)} distinct histories ({n_exh} exhaustive depth 3, {n_sim} simulated depth 6)")
    obs, execute = replay_budgeted(ctx, hs, first=ctx.pick(150, 1500), cap=ctx.pick(4000, 20000),
                                   budget_s=ctx.pick(45, 600))
    ctx.log(f"replayed; selene started for {sum(execute)} histories")
    viol, stats, _ = resolve(hs, obs)
    report(ctx, viol)
    rnd = random.Random(ctx.seed)
    ctx.coverage.update({
        "traces_validated_against_impl": len(hs),
        "evaluations": stats["projections"] + stats["seeded_shots"],
        "distinct_nontrivial": sum(1 for h in hs if nontrivial(h)),
        "rule": "history = sequence of with_seed/with_shots/with_shot_offset/with_shot_increment/*_sim/"
                "with_simulator/run calls each applied to ANY config derived so far (projection of every live config "
                "checked after every step; for a time-budgeted subset selene is started for each run step and for a final "
                "audit run of every seeded config); non-trivial = some config is the receiver of >= 2 steps (shared ancestor)",
        "samples": [h["hist"] for h in rnd.sample(hs, min(4, len(hs)))],
        "exhaustive": n_sim == 0,
        "exhaustive_histories_depth3": n_exh,
        "simulated_histories_depth6": n_sim,
        **stats,
        "histories_with_real_selene_runs": sum(execute),
        "selene_runs": sum(len(o["runs"]) + sum(1 for a in o["audit"] if a is not None) for o in obs),
        "violation_keys": {k: len(v) for k, v in viol.items()},
    })
    ctx.assumptions += [
        "TLC", "selene-sim (installed) as executor; its per-shot results are a function of (simulator kind, "
        "effective simulator seed, shot index) - measured, and what makes labels comparable across runs",
        "coin-flip package compiled by the site-packages guppylang (selene cannot load /repo-compiled HUGR); only "
        "guppylang.emulator comes from /repo",
        "base config per history is EmulatorInstance(_instance, _n_qubits) exactly as EmulatorBuilder.build makes it",
        "projection reads public properties plus simulator.random_seed (the attribute selene reads)",
    ]


def replay(ctx, data):
    import emu_lib

    case = data["replay"]["case"]
    hs = [case["history"]] if "history" in case else [e["history"] for e in case["examples"]]
    obs = replay_all(ctx, hs, [True] * len(hs))
    for h, o in zip(hs, obs):
        print("history:", json.dumps(h["hist"]))
        if o["error"]:
            print("  EXCEPTION", o["error"])
            continue
        for k, step in enumerate(h["hist"]):
            print(f"  after step {k + 1} {step}:")
            for i, got in enumerate(o["proj"][k]):
                exp = {f: h["cfgs"][i][f] for f in PROJ_FIELDS}
                print(f"    config {i + 1}: spec {exp}\n              code {got} {'' if all(got[f] == exp[f] for f in PROJ_FIELDS) else '<-- MISMATCH'}")
        for r, bits in zip(h["runs"], o["runs"]):
            print(f"  run step {r['step']} config {r['c']}: labels {[emu_lib.label_key(l) for l in r['shots']]} bits {bits}")
        for i, bits in enumerate(o["audit"]):
            if bits is not None:
                print(f"  audit config {i + 1}: labels {[emu_lib.label_key(l) for l in h['audit'][i]]} bits {bits}")
    viol, stats, _ = resolve(hs, obs)
    report(ctx, viol)


def selftest(ctx):
    import copy

    import emu_lib

    # 1. the model discriminates: as-is aliasing refuted (copy-on-seed accepted by the emitting run below)
    model_check(ctx, deep=False)
    # 2. the replay comparator rejects corrupted expectations / observations
    hs, _, _ = emit_histories(ctx)
    rnd = random.Random(7)
    hs = rnd.sample([h for h in hs if has_seeded(h)], 150) + rnd.sample([h for h in hs if not has_seeded(h)], 50)
    obs = replay_all(ctx, hs, [True] * len(hs))
    if any(o["error"] for o in obs):
        raise lib.Machinery("selftest: replay raised: " + next(o["error"] for o in obs if o["error"]))

    def deviations(h2, o2):
        """number of deviations attributed to each history"""
        n = [len(emu_lib.compare(h, o)[0]) for h, o in zip(h2, o2)]
        _, _, conf = resolve(h2, o2)
        for _lab, i in conf:
            n[i] += 1
        return n

    base = deviations(hs, obs)
    # 2a. change an expected field of the newest config (as if the spec said something else)
    for f, newv in (("shots", 7), ("seed", 9), ("kind", "Coinflip"), ("off", 5), ("inc", 9), ("simseed", 9)):
        i = 3
        h2 = copy.deepcopy(hs)
        j = len(h2[i]["cfgs"]) - 1
        h2[i]["cfgs"][j][f] = newv if h2[i]["cfgs"][j][f] != newv else "x"
        if deviations(h2, obs)[i] <= base[i]:
            raise lib.Machinery(f"selftest: corrupted expectation of field {f} was accepted")
    # 2b. drop a shot from an observed run / 2c. flip one bit of a seeded shot whose label occurs elsewhere
    cand = [(i, ci) for i in range(len(hs)) for ci, a in enumerate(obs[i]["audit"]) if a is not None]
    if not cand:
        raise lib.Machinery("selftest: no seeded audit run to corrupt")
    i, ci = cand[len(cand) // 2]
    o2 = copy.deepcopy(obs)
    o2[i]["audit"][ci] = o2[i]["audit"][ci][:-1]
    if deviations(hs, o2)[i] <= base[i]:
        raise lib.Machinery("selftest: a dropped shot was accepted")
    flipped = 0
    for i, ci in cand[:: max(1, len(cand) // 5)]:
        o2 = copy.deepcopy(obs)
        b = o2[i]["audit"][ci][0]
        o2[i]["audit"][ci][0] = ("1" if b[0] == "0" else "0") + b[1:]
        d = deviations(hs, o2)
        v, _, _ = resolve(hs, o2)
        if sum(d) <= sum(base) and not any(k.startswith("run:irreproducible") for k in v):
            raise lib.Machinery(f"selftest: a flipped result bit (history {i}, config {ci + 1}) was accepted")
        flipped += 1
    # 2d. a derivation replayed on the wrong receiver is noticed
    swapped = False
    for i, h in enumerate(hs):
        for k, st in enumerate(h["hist"]):
            if st["op"] in ("with_shots", "with_shot_offset", "with_shot_increment") and st["c"] > 1 \
                    and {f: h["cfgs"][st["c"] - 1][f] for f in ("kind", "shots", "off", "inc")} \
                    != {f: h["cfgs"][0][f] for f in ("kind", "shots", "off", "inc")}:
                h2 = copy.deepcopy(h)
                h2["hist"][k]["c"] = 1
                o2 = replay_all(ctx, [h2], [False])
                if len(emu_lib.compare(h2, o2[0])[0]) <= base[i]:
                    raise lib.Machinery("selftest: a step replayed on the wrong receiver was accepted")
                swapped = True
                break
        if swapped:
            break
    if not swapped:
        raise lib.Machinery("selftest: no history suitable for the receiver swap")


if __name__ == "__main__":
    lib.main("C28", run, replay, selftest)
