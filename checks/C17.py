"""C17 Integer literals are range-checked and preserved exactly.

Decided by: spec/Literals.tla - one action per step of the compiler's handling of an integer
constant (Fold, Check, Match, Lower; mirrors cfg/builder.py visit_UnaryOp,
expr_checker.python_value_to_guppy_type/_int_bounds_check, expr_compiler.python_value_to_hugr)
with the declarative range statement (NumOps!LitAccept on wide limb integers over BitVec64) as
invariant `Agreement`, checked by TLC on every case.
Binding (trace validation): for every (value, type, form) a tiny program is compiled from /repo
and, if accepted, run on the reference interpreter; the observed verdict, the returned word and
the value reported through result() are part of the case record and the spec's Observe action
reports each disagreement.  Forms: literal / negated literal in annotated assignment, return,
argument, unannotated assignment, `-(N)`; comptime variable, comptime expression, returned
comptime value; and as an element of a 3-element tuple, array(...), nested tuple, comptime tuple,
comptime list and comptime nested tuple constant - boundary values at EVERY element position
(first, middle, last; the spec checks every element, one Check step each), other values at a
rotating position; at int and nat.
The limb arithmetic itself is model-checked in C04 (spec/BitVecLaws.tla); the thorough tier
repeats that run here.
"""
import json
import os

import lib
import num_lits as nl
import num_values as nv
import pool

NCHUNKS = 16


def execute(cases):
    jobs = [{"cases": cases[i:i + 40]} for i in range(0, len(cases), 40)]
    out = []
    for r in pool.map_jobs(nl.run_lit_job, jobs, chunksize=1):
        out.extend(r)
    return out


def records(cases, obs):
    recs = []
    for c, o in zip(cases, obs):
        assert c["id"] == o["id"]
        els = []
        for e, minus in c["els"]:
            z = nv.enc_wide(e)
            els.append({"minus": minus, "neg": 1 if z["neg"] else 0, "mag": z["mag"]})
        recs.append({"ty": c["ty"], "els": els, "pos": c["pos"] + 1, "st": o["st"],
                     "ret": nv.limbs(o["ret"]), "rk": o["rk"], "rw": nv.limbs(o["rv"])})
    return recs


def validate(ctx, recs, name="lit_cases.json"):
    path = os.path.join(ctx.workdir, name)
    with open(path, "w") as fh:
        json.dump(recs, fh)
    r = ctx.tlc("Literals", env={"VERIF_CASES": path, "JAVA_TOOL_OPTIONS": "-Xmx8g -XX:+UseParallelGC -Xss64m"},
                timeout=3000)
    if not r.ok:
        raise lib.Machinery(f"Literals.tla: {r.error[:1500]}")
    acc = {p["accepted"]: p for p in r.printed if isinstance(p, dict) and "accepted" in p}
    if len(acc) != NCHUNKS or sum(p["acc"] + p["rej"] for p in acc.values()) != len(recs):
        raise lib.Machinery(f"Literals consumed {sum(p['acc'] + p['rej'] for p in acc.values())} of {len(recs)} cases")
    bad = [p for p in r.printed if isinstance(p, dict) and "bad" in p]
    return bad, sum(p["acc"] for p in acc.values()), sum(p["rej"] for p in acc.values())


def py_verdict(c):
    lo, hi = (nv.MINI, nv.MAXI) if c["ty"] == "int" else (0, nv.MAXU)
    return all(lo <= e <= hi for e, _ in c["els"])


def run(ctx):
    ctx.level = "model_checking"
    if not ctx.quick:
        r = ctx.tlc("BitVecLaws", "BitVecLawsQ.cfg", env={"JAVA_TOOL_OPTIONS": "-Xmx8g -XX:+UseParallelGC -Xss64m"}, timeout=3000)
        if not r.ok:
            raise lib.Machinery("BitVecLaws violated (specification error):\n" + r.error)
    cases = nl.cases(ctx.tier, ctx.seed)
    obs = execute(cases)
    mach = [(c, o) for c, o in zip(cases, obs) if o["st"] == "machinery"]
    if mach:
        raise lib.Machinery(f"interpreter could not run {len(mach)} literal programs, e.g. {mach[0][1]['err']}\n{mach[0][0]['src']}")
    recs = records(cases, obs)
    bad, nacc, nrej = validate(ctx, recs)
    # cross-check of the spec's verdicts against CPython's integer comparison
    pyacc = sum(1 for c in cases if py_verdict(c))
    if pyacc != nacc:
        raise lib.Machinery(f"spec accepts {nacc} cases, CPython range test {pyacc}")
    groups = {}
    for p in bad:
        c, o = cases[p["bad"]], obs[p["bad"]]
        if p["why"] == "verdict":
            if (p["verdict"] == "accept") != py_verdict(c):
                raise lib.Machinery(f"spec verdict {p['verdict']} for {c['v']} at {c['ty']} contradicts CPython")
            key = f"verdict:{c['ty']}:{c['form']}:{'in' if py_verdict(c) else 'out-of'}-range->{o['st']}"
        elif p["why"] == "value":
            key = f"value:{c['ty']}:{c['form']}"
        else:
            key = f"report:{c['ty']}:result()->result_{o['rk']}"
        groups.setdefault(key, []).append({"v": c["v"], "ty": c["ty"], "form": c["form"], "src": c["src"], "observed": o,
                                           "spec": {"verdict": p["verdict"], "word": nv.unlimbs(p["word"])}})
    for key, cs in sorted(groups.items()):
        e = cs[0]
        if key.startswith("report"):
            what = (f"{len(cs)} accepted {e['ty']} constants are reported by result() with a different value, e.g. {e['v']} "
                    f"is reported as result_{e['observed']['rk']} {nv.to_signed(e['observed']['rv']) if e['observed']['rk'] == 'int' else e['observed']['rv']}")
        elif key.startswith("value"):
            what = f"{len(cs)} constants evaluate to a different value, e.g. {e['v']} ({e['form']} at {e['ty']}) -> word {e['observed']['ret']}"
        else:
            what = f"{len(cs)} cases: {e['v']} at {e['ty']} ({e['form']}): spec {e['spec']['verdict']}, compiler {e['observed']['st']} {e['observed']['err']}"
        ctx.violation(key, what, {"cases": cs[:15], "count": len(cs)})
    ctx.coverage.update({
        "traces_validated_against_impl": len(cases),
        "evaluations": len(cases),
        "distinct_nontrivial": len({(c["v"], c["ty"], c["form"]) for c in cases if abs(c["v"]) >= (1 << 62)}),
        "rule": "one compiled program per (value, type, form); non-trivial = |value| >= 2^62 (within a factor 4 of a range bound, or beyond)",
        "values": len({c["v"] for c in cases}), "spec_accept": nacc, "spec_reject": nrej,
        "forms": sorted({c["form"] for c in cases}), "mismatches": len(bad),
        "out_of_range_at_later_element": sum(1 for c in cases if c["pos"] > 0 and not py_verdict(c)),
        "samples": [{"v": c["v"], "ty": c["ty"], "form": c["form"], "st": o["st"]} for c, o in list(zip(cases, obs))[:: max(1, len(cases) // 5)][:5]],
        "exhaustive": False,
    })
    ctx.assumptions += ["TLC", "reference HUGR interpreter (constants, result ops)", "CPython integer comparison as cross-check of the verdicts"]


def replay(ctx, data):
    for c in data["replay"]["cases"]:
        o = nl.run_lit_job({"cases": [{"id": 0, "src": c["src"]}]})[0]
        rep = None if o["rk"] == "none" else (nv.to_signed(o["rv"]) if o["rk"] == "int" else o["rv"])
        print(f"{c['v']} at {c['ty']} ({c['form']}): code -> {o['st']} {o['err']} returns {o['ret']}, result() reports "
              f"result_{o['rk']} {rep}; spec -> {c['spec']}")


def selftest(ctx):
    cases = [c for c in nl.cases("quick", ctx.seed) if c["form"] in ("assign", "ct_var", "ret", "ct_list@1", "tuple@2")]
    obs = execute(cases)
    recs = records(cases, obs)
    base, _, _ = validate(ctx, recs, "self0.json")
    basei = {p["bad"] for p in base}
    ok_acc = next(i for i, (c, o) in enumerate(zip(cases, obs)) if o["st"] == "ok" and i not in basei and c["form"] == "assign" and c["ty"] == "int")
    ok_rej = next(i for i, o in enumerate(obs) if o["st"] == "rejected" and i not in basei)
    import copy
    r2 = copy.deepcopy(recs)
    r2[ok_acc]["ret"][0] ^= 1          # returned value off by one bit
    r2[ok_rej]["st"] = "ok"            # an out-of-range literal reported as accepted
    ok_acc2 = next(i for i, (c, o) in enumerate(zip(cases, obs)) if o["st"] == "ok" and i not in basei and i != ok_acc)
    r2[ok_acc2]["st"] = "rejected"     # an in-range literal reported as rejected
    bad, _, _ = validate(ctx, r2, "self1.json")
    got = {p["bad"]: p["why"] for p in bad}
    if got.get(ok_acc) != "value" or got.get(ok_rej) != "verdict" or got.get(ok_acc2) != "verdict":
        raise lib.Machinery(f"selftest: corruptions not flagged: {got.get(ok_acc)}, {got.get(ok_rej)}, {got.get(ok_acc2)}")
    if set(got) - basei - {ok_acc, ok_rej, ok_acc2}:
        raise lib.Machinery("selftest: uncorrupted cases flagged")


if __name__ == "__main__":
    lib.main("C17", run, replay, selftest)
