"""C20 Quantum operations implement their documented gates.

Decided by: spec/QuantumDefs.tla (exact amplitudes in Z[e^{i pi/8}]/sqrt2^k; the matrices
documented in guppylang/std/quantum and std/qsystem; angles.py arithmetic), spec/Quantum.tla
(state machine gate / measure / reset with invariants), spec/QuantumLaws.tla (unitarity and
operator identities, exact).  Bound to the code in both directions:
  spec -> code  spec/Quantum_Gen.tla: TLC enumerates circuits (every gate x qubit assignment x
                angle value x angle expression x procedural/functional form, measurement-like
                operations with every possible outcome) with their exact final state; each is
                rendered as Guppy source, compiled with /repo, run on the reference interpreter
                with the outcomes forced, and state_result compared up to a global scalar.
  code -> spec  spec/Quantum_Trace.tla: longer circuits sampled (ctx.seed) over the operations
                TLC enumerated are compiled and run with free measurement outcomes; TLC must
                accept the recorded outcomes (non-zero probability; hidden reset outcomes
                branch) and its exact final state must be proportional to the recorded one.
"""
import json
import os
import random

import lib
import pool
import q_circ

BATCH = 12


# ---------------------------------------------------------------------------------------
def op_text(op) -> str:
    return "; ".join(q_circ.op_src(op, "m"))


def circ_text(ops) -> str:
    return " | ".join(op_text(o) for o in ops)


def angle_kinds(op) -> str:
    kinds = set()

    def walk(e):
        if isinstance(e, list) and e and isinstance(e[0], str):
            if e[0] not in ("lit",):
                kinds.add(e[0])
            for x in e[1:]:
                walk(x)

    for a in op.get("a", []):
        walk(a)
    kinds.discard("pi")
    return "+".join(sorted(kinds))


def op_key(op) -> str:
    k = f"{op['g']}/{op.get('f', 'p')}"
    ak = angle_kinds(op)
    return k + (f"/angle:{ak}" if ak else "")


def parse_gen(r):
    preps = None
    cases = []
    for p in r.printed:
        if "preps" in p:
            preps = p["preps"]
        elif "ops" in p and "st" in p:
            cases.append(p)
    if preps is None:
        raise lib.Machinery("Quantum_Gen did not print its preparation prefixes:\n" + r.out[-1500:])
    return preps, cases


def execute(ctx, circuits, force=True, validate_every=8):
    """circuits: list of op lists (prefix included).  Returns one record per circuit."""
    jobs = []
    for i in range(0, len(circuits), BATCH):
        chunk = circuits[i:i + BATCH]
        jobs.append({"cases": [[f"c{i + j}", ops] for j, ops in enumerate(chunk)], "force": force,
                     "seed": ctx.seed, "validate": (i // BATCH) % validate_every == 0 or not ctx.quick})
    res = pool.map_jobs(q_circ.run_batch, jobs, chunksize=1)
    out = [None] * len(circuits)
    for job, r in zip(jobs, res):
        if r["status"] == "machinery":
            raise lib.Machinery(f"harness failure while running a batch: {r['error']}")
        if r["status"] != "ok" and len(job["cases"]) > 1:
            # localise: re-run the circuits of a failing batch one by one
            for name, ops in job["cases"]:
                r1 = q_circ.run_batch({**job, "cases": [[name, ops]], "validate": True})
                if r1["status"] == "machinery":
                    raise lib.Machinery(f"harness failure: {r1['error']}")
                out[int(name[1:])] = {"status": r1["status"], "error": r1.get("error"),
                                      **(r1["per"].get(name, {}))}
            continue
        for name, ops in job["cases"]:
            out[int(name[1:])] = {"status": r["status"], "error": r.get("error"), **(r["per"].get(name, {}))}
    return out


def judge_forced(ops, nprefix, rec, st):
    """Compare one forced run with the spec's expected state.  -> None | reason"""
    if rec["status"] != "ok":
        return f"program {rec['status']}: {rec.get('error')}"
    if rec.get("end") in ("unsupported", "budget"):
        raise lib.Machinery(f"interpreter {rec['end']}: {rec.get('msg')} on {circ_text(ops)}")
    if rec.get("end") == "interp_error":
        if "impossible outcome" in (rec.get("msg") or ""):
            return f"the spec gives this measurement outcome non-zero probability, the executed program probability 0 ({rec['msg']})"
        raise lib.Machinery(f"interpreter error: {rec.get('msg')} on {circ_text(ops)}")
    if rec.get("end") != "return":
        return f"program ended with {rec.get('end')}"
    for i, op in enumerate(ops):
        if op["g"] in q_circ.RETURNS_BOOL:
            tag = next((t for t in rec["results"] if t.endswith(f".m{i}")), None)
            if tag is None:
                return f"no result reported for operation {i} ({op_text(op)})"
            if bool(rec["results"][tag]) != bool(op["b"]):
                return f"operation {i} ({op_text(op)}) measured {op['b']} but the program reported {rec['results'][tag]}"
    if rec.get("state") is None:
        return "state_result reported an entangled/absent state for the full register"
    ok, d = q_circ.proportional(q_circ.state_to_complex(st), [complex(*x) for x in rec["state"]])
    if not ok:
        return f"final state differs from the documented matrices (distance {d:.3g} after removing global phase)"
    return None


def nontrivial(st_before, st_after) -> bool:
    ok, _ = q_circ.proportional(q_circ.state_to_complex(st_before), q_circ.state_to_complex(st_after))
    return not ok


# ---------------------------------------------------------------------------------------
class Findings:
    """groups failing circuits by the operation at fault"""

    def __init__(self):
        self.by_key = {}
        self.single_keys = set()

    def add_single(self, op, what, replay):
        k = op_key(op)
        self.single_keys.add((op["g"], op.get("f", "p")))
        self.by_key.setdefault(k, []).append((what, replay))

    def add_prep(self, n, what, replay):
        self.by_key.setdefault(f"prep:{n}", []).append((what, replay))

    def add_multi(self, ops, what, replay):
        for op in ops:
            if (op["g"], op.get("f", "p")) in self.single_keys:
                self.by_key.setdefault(op_key(op), []).append((what, replay))
                return
        self.by_key.setdefault("circuit:" + circ_text(ops), []).append((what, replay))

    def report(self, ctx, limit=60):
        # angle-expression variants of an operation whose plain form already fails are the same finding
        merged = {}
        for k, lst in self.by_key.items():
            base = k.split("/angle:")[0]
            merged.setdefault(base if base in self.by_key else k, []).extend(lst)
        # one finding per operation first, so that no operation is hidden by the limit
        order = sorted(merged, key=lambda k: ("/angle:" in k, k))
        for k in order[:limit]:
            lst = merged[k]
            ctx.violation(k, f"{k}: {len(lst)} circuit(s) disagree with the documented gate semantics, e.g. {lst[0][0]}",
                          {"cases": [r for _, r in lst[:10]]})
        if len(order) > limit:
            ctx.log(f"{len(order) - limit} further finding keys not reported: {order[limit:limit + 20]}")


def gen_phase(ctx, cfg, find, stats, bad_preps):
    r = ctx.tlc("Quantum_Gen", cfg, timeout=ctx.pick(900, 3000))
    if not r.ok:
        raise lib.Machinery(f"Quantum_Gen/{cfg} failed:\n{r.error}")
    preps, cases = parse_gen(r)
    ctx.log(f"{cfg}: TLC enumerated {len(cases)} circuits")
    if not cases:
        raise lib.Machinery(f"Quantum_Gen/{cfg} enumerated nothing")
    circuits = [preps[c["prep"] - 1] + c["ops"] for c in cases]
    recs = execute(ctx, circuits)
    prep_state = {c["prep"]: c["st"] for c in cases if not c["ops"]}
    # preparation prefixes first: a broken prefix is one finding, not thousands
    for c, ops, rec in zip(cases, circuits, recs):
        if not c["ops"]:
            why = judge_forced(ops, len(ops), rec, c["st"])
            stats["evaluations"] += 1
            if why:
                bad_preps.add(c["prep"])
                find.add_prep(c["prep"], f"preparation `{circ_text(ops)}`: {why}",
                              {"prep": c["prep"], "ops": [], "prefix": ops, "st": c["st"], "why": why})
    multi = []
    for c, ops, rec in zip(cases, circuits, recs):
        if not c["ops"]:
            continue
        stats["evaluations"] += 1
        stats["ops_seen"].update(json.dumps({k: v for k, v in o.items() if k != "b"}, sort_keys=True) for o in c["ops"])
        if c["prep"] in prep_state and nontrivial(prep_state[c["prep"]], c["st"]):
            stats["nontrivial"].add(json.dumps([c["prep"], c["ops"]], sort_keys=True))
        if any(o["g"] in q_circ.MEAS for o in c["ops"]):
            stats["with_measurement"] += 1
        why = judge_forced(ops, len(ops) - len(c["ops"]), rec, c["st"])
        if why is None:
            continue
        rp = {"prep": c["prep"], "ops": c["ops"], "prefix": preps[c["prep"] - 1], "st": c["st"], "why": why}
        text = f"after preparation {c['prep']}: `{circ_text(c['ops'])}`: {why}"
        if c["prep"] in bad_preps:
            find.add_prep(c["prep"], text, rp)
        elif len(c["ops"]) == 1:
            find.add_single(c["ops"][0], text, rp)
        else:
            multi.append((c["ops"], text, rp))
    for ops, text, rp in multi:
        find.add_multi(ops, text, rp)
    if len(stats["samples"]) < 4:
        stats["samples"] += [{"prep": c["prep"], "circuit": circ_text(c["ops"]), "expected": c["st"]}
                             for c in cases[7:9] if c["ops"]]
    return preps, cases


def sample_circuits(rng, alphabet, n, maxlen, nprep):
    by_gate = {}
    for op in alphabet:
        by_gate.setdefault(op["g"], []).append(op)
    gates = sorted(g for g in by_gate if g not in q_circ.MEAS)
    meas = sorted(g for g in by_gate if g in q_circ.MEAS)
    out = []
    for _ in range(n):
        ln = rng.randint(2, maxlen)
        ops = []
        for _ in range(ln):
            g = rng.choice(meas) if (meas and rng.random() < 0.25) else rng.choice(gates)
            ops.append(dict(rng.choice(by_gate[g])))
        out.append({"prep": rng.randint(1, nprep), "ops": ops})
    return out


def record_traces(ctx, preps, circs):
    """run the circuits with free outcomes; fill in the outcomes the program reported"""
    circuits = [preps[c["prep"] - 1] + c["ops"] for c in circs]
    recs = execute(ctx, circuits, force=False)
    traces = []
    for c, full, rec in zip(circs, circuits, recs):
        npre = len(full) - len(c["ops"])
        t = {"prep": c["prep"], "ops": [], "rec": rec, "problem": None}
        if rec["status"] != "ok":
            t["problem"] = f"program {rec['status']}: {rec.get('error')}"
        elif rec.get("end") in ("unsupported", "budget", "interp_error"):
            raise lib.Machinery(f"interpreter {rec['end']}: {rec.get('msg')} on {circ_text(full)}")
        elif rec.get("end") != "return":
            t["problem"] = f"program ended with {rec.get('end')}"
        for i, op in enumerate(c["ops"]):
            o = dict(op)
            if op["g"] in q_circ.RETURNS_BOOL:
                tag = next((x for x in (rec.get("results") or {}) if x.endswith(f".m{npre + i}")), None)
                if tag is None:
                    t["problem"] = t["problem"] or f"no result reported for operation {i} ({op_text(op)})"
                    o["b"] = 0
                else:
                    o["b"] = 1 if rec["results"][tag] else 0
            else:
                o["b"] = -1
            t["ops"].append(o)
        traces.append(t)
    return traces


def validate_traces(ctx, traces):
    """TLC trace validation; -> per trace: None | reason"""
    path = os.path.join(ctx.workdir, f"qtrace_{len(os.listdir(ctx.workdir))}.json")
    json.dump([{"prep": t["prep"], "ops": t["ops"]} for t in traces], open(path, "w"))
    r = ctx.tlc("Quantum_Trace", env={"VERIF_TRACE": path}, timeout=ctx.pick(900, 3000))
    if not r.ok:
        raise lib.Machinery("Quantum_Trace failed:\n" + r.error)
    acc, bad = {}, {}
    for p in r.printed:
        if "accepted" in p:
            acc.setdefault(p["accepted"], []).append(p["st"])
        elif "bad" in p:
            bad[p["bad"]] = p
    verdicts = []
    for i, t in enumerate(traces, 1):
        if t["problem"]:
            verdicts.append(t["problem"])
        elif i in acc:
            if t["rec"].get("state") is None:
                verdicts.append("state_result reported no pure state for the full register")
                continue
            obs = [complex(*x) for x in t["rec"]["state"]]
            ds = [q_circ.proportional(q_circ.state_to_complex(s), obs) for s in acc[i]]
            verdicts.append(None if any(ok for ok, _ in ds) else
                            f"recorded final state is not proportional to any of the {len(ds)} spec outcomes "
                            f"(closest distance {min(d for _, d in ds):.3g})")
        elif i in bad:
            op = t["ops"][bad[i]["at"] - 1]
            verdicts.append(f"operation {bad[i]['at'] - 1} ({op_text(op)}) reported outcome {op['b']}, "
                            "which has probability 0 after the documented gates")
        else:
            raise lib.Machinery(f"Quantum_Trace neither accepted nor rejected trace {i}:\n{r.out[-1500:]}")
    return verdicts, acc


# ---------------------------------------------------------------------------------------
def run(ctx):
    ctx.level = "model_checking"
    # 1. the design: exact laws of the documented matrices, and the state machine's invariants
    laws = ctx.pick(["QuantumLawsQ.cfg"],
                    ["QuantumLaws3.cfg", "QuantumLaws_t.cfg", "QuantumLaws2.cfg"])
    for cfg in laws:
        r = ctx.tlc("QuantumLaws", cfg, timeout=ctx.pick(900, 3000))
        if not r.ok:
            raise lib.Machinery(f"QuantumLaws/{cfg}: a law of the gate semantics fails (specification error):\n{r.error}")
    ctx.log("laws checked")
    r = ctx.tlc("Quantum", ctx.pick("Quantum.cfg", "Quantum_t.cfg"), coverage=True, timeout=ctx.pick(900, 3000))
    if not r.ok:
        raise lib.Machinery("Quantum.tla invariant violated (specification error):\n" + r.error)
    for act in ("Gate", "Meas", "Reset"):
        if r.coverage.get(act, (0, 0))[1] == 0:
            raise lib.Machinery(f"Quantum.tla: action {act} never taken (vacuous model): {r.coverage}")
    ctx.coverage["model_actions"] = {k: v for k, v in r.coverage.items() if k in ("Gate", "Meas", "Reset")}

    ctx.log("model checked")
    find = Findings()
    stats = {"evaluations": 0, "ops_seen": set(), "nontrivial": set(), "with_measurement": 0, "samples": []}
    bad_preps = set()
    # 2. spec -> code
    preps, cases = gen_phase(ctx, ctx.pick("Quantum_Gen.cfg", "Quantum_Gen_full.cfg"), find, stats, bad_preps)
    ctx.log(f"depth-1 enumeration: {len(cases)} circuits, findings so far {len(find.by_key)}")
    alphabet = [json.loads(s) for s in sorted(stats["ops_seen"])]
    if not ctx.quick:
        gen_phase(ctx, "Quantum_Gen_d2.cfg", find, stats, bad_preps)
        ctx.log(f"depth-2 enumeration done, findings so far {len(find.by_key)}")
    # 3. code -> spec
    rng = random.Random(ctx.seed * 7919 + 20)
    circs = sample_circuits(rng, alphabet, ctx.pick(100, 4000), ctx.pick(4, 6), len(preps))
    traces = record_traces(ctx, preps, circs)
    ctx.log(f"{len(traces)} traces recorded")
    verdicts, acc = validate_traces(ctx, traces)
    ctx.log("traces validated")
    ntr_ok = 0
    for t, v in zip(traces, verdicts):
        stats["evaluations"] += 1
        stats["nontrivial"].add(json.dumps([t["prep"], t["ops"]], sort_keys=True))
        if v is None:
            ntr_ok += 1
            continue
        rp = {"prep": t["prep"], "ops": t["ops"], "prefix": preps[t["prep"] - 1], "why": v, "trace": True,
              "recorded_state": t["rec"].get("state")}
        text = f"after preparation {t['prep']}: `{circ_text(t['ops'])}`: {v}"
        if t["prep"] in bad_preps:
            find.add_prep(t["prep"], text, rp)
        else:
            find.add_multi(t["ops"], text, rp)
    find.report(ctx)
    gates = sorted({o["g"] for o in alphabet})
    ctx.coverage.update({
        "traces_validated_against_impl": len(traces),
        "traces_accepted": ntr_ok,
        "replayed_circuits": stats["evaluations"] - len(traces),
        "evaluations": stats["evaluations"],
        "distinct_nontrivial": len(stats["nontrivial"]),
        "rule": "one evaluation = one circuit compiled by /repo, executed, and its state_result compared with the "
                "exact TLC state; non-trivial = the circuit's expected final state is not proportional to the "
                "state after the preparation prefix (enumerated circuits) / sampled multi-operation circuit",
        "distinct_operations": len(alphabet),
        "operation_names": gates,
        "angle_expressions": len({json.dumps(o["a"]) for o in alphabet if o.get("a")}),
        "circuits_with_measurement": stats["with_measurement"],
        "samples": stats["samples"][:4] + [{"trace": circ_text(t["ops"]), "prep": t["prep"]} for t in traces[:2]],
        "exhaustive": False,
        "exhaustive_part": "every library gate x every qubit assignment x angle values (multiples of pi/4) x "
                           "procedural/functional form, and every measurement-like operation x outcome, "
                           "as one operation after the preparation prefixes",
        "mismatch_keys": len(find.by_key),
    })
    ctx.assumptions += [
        "TLC",
        "reference HUGR interpreter: meaning of tket.quantum.* / tket.qsystem.* ops (harness/hugr_interp/quantum.py, "
        "tket conventions; qsystem angles in radians) and its statevector simulation",
        "compat shim (dependency API only)",
        "angles restricted to multiples of pi/4 (exact ring); float comparison tolerance 1e-9 after removing the global phase",
        "CH is specified as the block matrix diag(1, H): its docstring matrix (1/sqrt2 in front of all entries) is not unitary",
    ]


def replay(ctx, data):
    for c in data["replay"]["cases"]:
        full = c["prefix"] + c["ops"]
        print("circuit:", circ_text(full))
        print("recorded verdict:", c["why"])
        if c.get("trace"):
            t = record_traces(ctx, [c["prefix"]], [{"prep": 1, "ops": c["ops"]}])
            print("program now reports:", t[0]["rec"].get("results"), t[0]["rec"].get("state"))
        else:
            rec = execute(ctx, [full])[0]
            print("spec state   :", [complex(round(x.real, 6), round(x.imag, 6)) for x in q_circ.state_to_complex(c["st"])])
            print("program state:", rec.get("state"), rec.get("results"), rec.get("end"), rec.get("msg"))
            print("verdict now  :", judge_forced(full, len(c["prefix"]), rec, c["st"]))


def selftest(ctx):
    import copy
    ctx.tier = "quick"
    r = ctx.tlc("Quantum_Gen", "Quantum_Gen_self.cfg")
    preps, cases = parse_gen(r)
    cx = {"g": "cx", "qs": [0, 1], "a": [], "f": "p", "b": -1}
    xc = {"g": "cx", "qs": [1, 0], "a": [], "f": "p", "b": -1}
    h0 = {"g": "h", "qs": [0], "a": [], "f": "p", "b": -1}
    rz = {"g": "rz", "qs": [1], "a": [["div", ["pi"], [2, 1]]], "f": "f", "b": -1}
    m0 = lambda b: {"g": "project_z", "qs": [0], "a": [], "f": "p", "b": b}
    r1 = {"g": "reset", "qs": [1], "a": [], "f": "p", "b": -1}
    # code -> spec: traces recorded from the real code are accepted as they are ...
    circs = [{"prep": 2, "ops": [h0, cx, rz, m0(0), r1]}, {"prep": 1, "ops": [h0, cx, m0(0)]},
             {"prep": 3, "ops": [rz, xc, m0(0)]}]
    traces = record_traces(ctx, preps, circs)
    v, acc = validate_traces(ctx, traces)
    if any(v):
        raise lib.Machinery(f"selftest: genuine traces rejected: {v}")
    if len(acc[1]) < 2:
        raise lib.Machinery("selftest: the hidden reset outcome did not branch")
    # ... and rejected when (a) the recorded state is corrupted, (b) a recorded outcome is made
    # impossible, (c) the execution belongs to a different program (control/target swapped)
    t2 = copy.deepcopy(traces)
    s = t2[0]["rec"]["state"]
    i = max(range(len(s)), key=lambda x: abs(complex(*s[x])))
    j = min(range(len(s)), key=lambda x: abs(complex(*s[x])))
    s[i], s[j] = s[j], s[i]
    t2[1]["ops"].append(m0(1 - t2[1]["ops"][2]["b"]))
    t2[2]["ops"][1] = copy.deepcopy(cx)
    v2, _ = validate_traces(ctx, t2)
    for i, what in enumerate(["corrupted recorded state", "second measurement contradicting the first",
                              "trace of cx(q1,q0) presented as cx(q0,q1)"]):
        if not v2[i]:
            raise lib.Machinery(f"selftest: {what} was accepted")
    # spec -> code: a TLC-enumerated expectation must reject a program that differs in one detail
    pick = {}
    for c in cases:
        if len(c["ops"]) == 1:
            pick.setdefault(c["ops"][0]["g"], c)
    if len(pick) < 25:
        raise lib.Machinery(f"selftest: enumeration covers only {sorted(pick)}")
    muts = []
    for g, c in sorted(pick.items()):
        op = copy.deepcopy(c["ops"][0])
        if g in ("cz", "zz_max", "zz_phase"):
            op["qs"] = [op["qs"][0], 3 - sum(op["qs"])]
        elif len(op["qs"]) >= 2:
            op["qs"] = op["qs"][1:] + op["qs"][:1]
        elif op["a"]:
            op["a"][0] = ["add", op["a"][0], ["lit", 32]]
        elif g in q_circ.MEAS:
            op["qs"] = [(op["qs"][0] + 1) % 3]
        else:
            op["g"] = {"h": "x", "x": "y", "y": "z", "z": "s", "s": "sdg", "sdg": "s", "t": "tdg", "tdg": "t",
                       "v": "vdg", "vdg": "v"}[g]
        muts.append((g, c, op))
    pre = preps[cases[0]["prep"] - 1]
    recs = execute(ctx, [pre + [op] for _, _, op in muts])
    good = execute(ctx, [pre + c["ops"] for _, c, _ in muts])
    for (g, c, op), rec, rg in zip(muts, recs, good):
        why = judge_forced(pre + c["ops"], len(pre), rg, c["st"])
        if why:
            raise lib.Machinery(f"selftest: genuine circuit for {g} flagged: {why}")
        if not judge_forced(pre + [op], len(pre), rec, c["st"]):
            raise lib.Machinery(f"selftest: program `{op_text(op)}` accepted against the expectation "
                                f"for `{op_text(c['ops'][0])}`")
    # a flipped reported measurement bit is noticed
    c = next(c for c in cases if len(c["ops"]) == 1 and c["ops"][0]["g"] == "project_z")
    rec = copy.deepcopy(execute(ctx, [pre + c["ops"]])[0])
    for t in rec["results"]:
        rec["results"][t] = not rec["results"][t]
    if not judge_forced(pre + c["ops"], len(pre), rec, c["st"]):
        raise lib.Machinery("selftest: flipped measurement result accepted")


def _dump(ctx, obj):
    p = os.path.join(ctx.workdir, f"q_{len(os.listdir(ctx.workdir))}.json")
    json.dump(obj, open(p, "w"))
    return p


if __name__ == "__main__":
    lib.main("C20", run, replay, selftest)
