"""C07 Borrowed arguments reflect the callee's in-place updates.

Oracle: spec/GuppySem.tla - arrays live in a store and are passed by reference, which is
Python's semantics for mutable objects (the statement's oracle).  Qubits are modelled
classically for this check: a qubit is a one-cell array, `x` flips it, `measure` reads it -
exact for circuits of X gates on computational-basis states, so the caller's measurement
outcomes are deterministic.  The same program text (minus the prelude that defines these
functions for Python) is compiled from /repo with the real quantum library, executed by
the reference interpreter, and its result stream is validated by TLC against the machine.

Program shapes: callees performing element assignment, gate application and nested
borrowing calls on arguments that are variables, struct fields, array elements; the
caller reports every leaf afterwards.
"""
import collections
import itertools
import json
import random

import lib
import sem

PY_PRELUDE = """
def qubit():
    return array(0)

def x(q):
    q[0] = 1 - q[0]

def measure(q):
    return q[0] == 1

def discard(q):
    pass
"""

TYPES = """
@guppy.struct
class S:
    xs: array[int, 3]
    q: qubit
    n: int

@guppy
def setel(ys: array[int, 3], i: int, v: int) -> None:
    ys[i] = v

@guppy
def addel(ys: array[int, 3], i: int, v: int) -> None:
    ys[i] += v

@guppy
def flip(q: qubit) -> None:
    x(q)

@guppy
def flip_if(q: qubit, c: bool) -> None:
    if c:
        x(q)

@guppy
def both(ys: array[int, 3], q: qubit, v: int) -> None:
    setel(ys, 0, v)
    flip(q)
    t = ys[0]
    addel(ys, 2, t)

@guppy
def loopset(ys: array[int, 3], n: int) -> int:
    i = 0
    while i < n:
        ys[i % 3] = ys[i % 3] * 2 + i
        i += 1
    return i

@guppy
def on_struct(s: S, v: int) -> None:
    s.xs[1] = v
    flip(s.q)
    setel(s.xs, 2, v + s.n)

@guppy
def swap2(ys: array[int, 3], zs: array[int, 3]) -> None:
    t = ys[0]
    ys[0] = zs[0]
    zs[0] = t

@guppy
def rows(m: array[array[int, 3], 2], r: int, v: int) -> None:
    setel(m[r], 1, v)
    m[1 - r][0] = v + 1

@guppy
def nxt(c: array[int, 1]) -> int:
    c[0] += 1
    result("nxt", c[0])
    return c[0] % 2

@guppy.struct
class Inner:
    log: array[int, 4]
    n: int

@guppy.struct
class Acc:
    inner: Inner
    total: int

@guppy
def push(acc: Acc, v: int) -> int:
    n = acc.inner.n
    log = acc.inner.log
    log[n % 4] = v
    acc.inner = Inner(log, n + 1)
    return n + 1

@guppy
def addret(ys: array[int, 3], i: int, v: int) -> int:
    ys[i] += v
    return ys[i]

@guppy
def qarr(qs: array[qubit, 3], i: int) -> None:
    flip(qs[i])
    x(qs[(i + 1) % 3])
"""

REPORT_S = """
    result("s.xs", s.xs)
    result("s.n", s.n)
"""

BODIES = {
    "var_array": """
    xs = array(a, b, 5)
    setel(xs, {i}, {v})
    addel(xs, {j}, a)
    r = loopset(xs, {n})
    result("r", r)
    result("xs", xs)
""",
    "var_qubit": """
    q = qubit()
    flip(q)
    flip_if(q, p)
    flip_if(q, not p)
    flip(q)
    result("m", measure(q))
""",
    "mixed": """
    xs = array(a, b, 5)
    q = qubit()
    both(xs, q, {v})
    if p:
        both(xs, q, b)
    result("xs", xs)
    result("m", measure(q))
""",
    "struct_fields": """
    s = S(array(a, 1, b), qubit(), {v})
    setel(s.xs, {i}, a + 1)
    flip(s.q)
    on_struct(s, {j})
    t2 = s.xs[2]
    addel(s.xs, 0, t2)
    result("s.xs", s.xs)
    result("s.n", s.n)
    sxs, sq, sn = s.xs, s.q, s.n
    result("m", measure(sq))
    result("sxs", sxs)
""",
    "two_borrows": """
    xs = array(a, 1, 2)
    zs = array(b, 3, 4)
    swap2(xs, zs)
    setel(zs, 1, xs[0])
    result("xs", xs)
    result("zs", zs)
""",
    "nested_arrays": """
    m = array(array(a, 1, 2), array(b, 3, 4))
    rows(m, {r}, {v})
    setel(m[{r}], 2, 9)
    result("m0", m[0])
    result("m1", m[1])
""",
    "qubit_array": """
    qs = array(qubit() for _ in range(3))
    qarr(qs, {i})
    flip(qs[{j}])
    if p:
        qarr(qs, {j})
    q0, q1, q2 = qs
    result("m0", measure(q0))
    result("m1", measure(q1))
    result("m2", measure(q2))
""",
    "effectful_index": """
    m = array(array(a, 1, 2), array(b, 3, 4))
    c = array({r})
    setel(m[nxt(c)], 1, {v})
    addel(m[nxt(c)], 2, 7)
    result("m0", m[0])
    result("m1", m[1])
""",
    "nested_effectful_index": """
    mm = array(array(array(a, 1, 2), array(b, 3, 4)), array(array(5, 6, 7), array(8, 9, a)))
    c = array({r})
    setel(mm[nxt(c)][{r}], 0, {v})
    addel(mm[nxt(c)][1 - {r}], {i}, 20)
    result("mm00", mm[0][0])
    result("mm01", mm[0][1])
    result("mm10", mm[1][0])
    result("mm11", mm[1][1])
""",
    "nested_two_effectful_indices": """
    mm = array(array(array(a, 1, 2), array(b, 3, 4)), array(array(5, 6, 7), array(8, 9, a)))
    c = array({r})
    setel(mm[nxt(c)][nxt(c)], 2, 30)
    result("mm00", mm[0][0])
    result("mm01", mm[0][1])
    result("mm10", mm[1][0])
    result("mm11", mm[1][1])
""",
    # a borrowed struct whose callee replaces a non-copyable sub-struct holding a copyable leaf
    "struct_replace_substruct": """
    acc = Acc(Inner(array(0, 0, 0, 0), {r}), a)
    k1 = push(acc, {v})
    k2 = push(acc, b)
    if p:
        k2 = push(acc, k1 + k2)
    result("k", k1 * 10 + k2)
    result("n", acc.inner.n)
    result("total", acc.total)
    result("log", acc.inner.log)
""",
    # borrowing calls inside an array comprehension: the borrowed places must carry the updates out of the loop
    "comprehension_borrow_array": """
    xs = array(a, b, 1)
    ks = array(addret(xs, i, {v} + i) for i in range(3))
    result("ks", ks)
    result("xs", xs)
    addel(xs, {i}, 5)
    result("xs2", xs)
""",
    "comprehension_borrow_struct": """
    acc = Acc(Inner(array(0, 0, 0, 0), {r}), a)
    ks = array(push(acc, {v} * (i + 1)) for i in range(3))
    result("ks", ks)
    result("n", acc.inner.n)
    result("log", acc.inner.log)
    k3 = push(acc, b)
    result("k3", k3)
    result("n2", acc.inner.n)
    result("log2", acc.inner.log)
    result("total", acc.total)
""",
    "comprehension_borrow_struct_field": """
    s = S(array(a, 1, b), qubit(), {v})
    ks = array(addret(s.xs, (i + {j}) % 3, s.n + i) for i in range(4))
    flip(s.q)
    result("ks", ks)
    result("s.xs", s.xs)
    result("s.n", s.n)
    sxs, sq, sn = s.xs, s.q, s.n
    result("m", measure(sq))
""",
    "loop_borrow": """
    xs = array(a, b, 1)
    k = 0
    while k < {n}:
        addel(xs, k % 3, k + 1)
        if k == 1 and p:
            setel(xs, 0, -1)
        k += 1
    result("xs", xs)
""",
}

ARGS = [[["int", 0], ["int", 1], ["bool", 1]], [["int", 3], ["int", -2], ["bool", 0]], [["int", -4], ["int", 5], ["bool", 1]]]


def build_cases(ctx):
    rng = random.Random(ctx.seed)
    cases = []
    per = ctx.pick(4, 60)
    for name, body in BODIES.items():
        seen = set()
        for _ in range(per * 3):
            b = body.format(i=rng.randint(0, 2), j=rng.randint(0, 2), v=rng.randint(-3, 9), n=rng.randint(0, 5), r=rng.randint(0, 1))
            if b in seen or len(seen) >= per:
                continue
            seen.add(b)
            body_py = b.replace("array(qubit() for _ in range(3))", "array(qubit(), qubit(), qubit())")
            main = "\n@guppy\ndef main(a: int, b: int, p: bool) -> int:" + "{B}" + "    return 0\n"
            cases.append({"id": f"{name}{len(seen)}", "shape": name,
                          "src": PY_PRELUDE + TYPES + main.replace("{B}", body_py),
                          "impl_src": TYPES + main.replace("{B}", b),
                          "entry": "main", "args": ARGS})
    return cases


def run(ctx):
    cases = build_cases(ctx)
    res = sem.evaluate(ctx, cases, "C07")
    cnt = collections.Counter()
    validated = 0
    samples = []
    for c, r in zip(cases, res):
        kind, d = sem.classify(r)
        cnt[kind] += 1
        if kind == "ok":
            validated += sum(len(v["impl"]) for v in r["verdicts"])
            if len(samples) < 2:
                samples.append({"shape": c["shape"], "main": c["impl_src"][c["impl_src"].index("def main"):],
                                "events": r["py"]["runs"][0].get("trace")})
        elif kind == "mismatch":
            ctx.violation(f"shape:{c['shape']}", f"caller does not observe the callee's in-place updates as Python does: {json.dumps(d)[:500]}\n"
                          + c["impl_src"][c["impl_src"].index("def main"):], {"case": c, "detail": d})
        elif kind == "spec-vs-python":
            raise lib.Machinery(f"GuppySem disagrees with CPython on {c['id']}: {json.dumps(d)[:600]}")
        elif kind in ("unmodelled", "interp", "skip"):
            raise lib.Machinery(f"{kind} on {c['id']}: {json.dumps(d)[:600]}\n" + c["impl_src"][c["impl_src"].index("def main"):])
        elif kind in ("crash", "invalid"):
            ctx.violation(f"{kind}:{c['shape']}", f"{c['id']} {kind}: {json.dumps(d)[:600]}", {"case": c, "detail": d})
        elif kind == "rejected":
            raise lib.Machinery(f"template {c['shape']} is rejected by /repo: {json.dumps(d)[:500]}\n{r['impl'].get('rendered', '')}")
    ctx.coverage.update({
        "programs": len(cases), "traces_validated_against_impl": validated,
        "evaluations": len(cases) * len(ARGS) * 3, "distinct_nontrivial": cnt["ok"],
        "rule": "15 program shapes (borrowed variable / struct field / array element / nested borrow / loops / qubit arrays / "
                "sub-struct replacement / borrowing calls inside array comprehensions) "
                "x seeded parameters x 3 argument tuples x 3 node schedules; non-trivial = accepted and executed "
                "(every shape mutates through at least one borrow)",
        "samples": samples, "outcomes": dict(cnt), "exhaustive": False,
    })
    ctx.assumptions += ["reference HUGR interpreter", "TLC", "classical model of X-only circuits for qubit leaves"]


def replay(ctx, data):
    c = data["replay"]["case"]
    r = sem.evaluate(ctx, [c], "replay")[0]
    print(sem.classify(r))
    print(json.dumps(r["verdicts"], indent=1)[:3000])


def selftest(ctx):
    cs = build_cases(ctx)
    good = next(c for c in cs if c["shape"] == "mixed")
    # the compiled side loses an update (callee works on a copy): must be flagged
    bad = dict(good, id="bad", impl_src=good["impl_src"].replace("    setel(ys, 0, v)\n    flip(q)", "    flip(q)"))
    rs = sem.evaluate(ctx, [good, bad], "self")
    k = [sem.classify(r)[0] for r in rs]
    if k != ["ok", "mismatch"]:
        raise lib.Machinery(f"selftest expected ok/mismatch, got {k}: {[sem.classify(r)[1] for r in rs]}")


if __name__ == "__main__":
    lib.main("C07", run, replay, selftest)
