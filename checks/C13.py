"""C13 Generic instantiation and monomorphization preserve meaning.

Decided by spec/TypeAlg.tla (type algebra), driven by two state machines:

(a) spec/TypeAlg_Inst.tla - FunctionType.instantiate_partial, one action per loop
    iteration of the code.  TLC checks on every signature/argument vector that de Bruijn
    instantiation equals textual substitution in the named calculus, the composition and
    identity laws and well-scopedness, and prints every case with the expected result.
    Binding (spec -> code): each case is replayed into the real
    FunctionType.instantiate_partial (one step, and two successive steps) and the
    resulting type compared structurally (parameter order, indices, names, bounds,
    const types, inputs, flags, output, comptime args).
(b) spec/TypeAlg_Mono.tla - a call chain main -> mid -> foo of generic functions with
    interleaved type / nat / comptime parameters and a generic struct.  The spec infers
    the instantiation of each call, decides which parameters the compiler specialises
    (partially_monomorphize_args) and states: the generic program, the copy with exactly
    those parameters substituted textually and the copy with all parameters substituted
    produce the same, spec-computed, results; each is valid Hugr; foo/mid keep exactly
    the predicted Hugr type parameters.  Binding: the three programs are rendered from the
    TLC record, compiled from /repo, validated, executed on the reference interpreter.
"""
import json
import os
import random

import lib


# =========================================================================================
# (a) instantiate_partial
# =========================================================================================
def parse_inst(printed):
    sigs, one, two = {}, {}, []
    for p in printed:
        k = json.dumps(p["id"])
        if p["kind"] == "sig":
            sigs[k] = p["sig"]
            one[(k, json.dumps(p["a"]))] = p["r"]
        elif p["kind"] == "one":
            one[(k, json.dumps(p["a"]))] = p["r"]
        else:
            two.append(p)
    return sigs, one, two


def diff_fields(code, spec):
    """Names of the signature fields that differ; `from_comptime_arg` of remaining const
    parameters is compared separately (see NOTE in run)."""
    out = []
    ct_only = False
    for f in ("params", "inputs", "output", "cargs"):
        if code[f] != spec[f]:
            if f == "params" and len(code[f]) == len(spec[f]) and all(
                    c == s or (c[0] == "cp" and s[0] == "cp" and c[:4] == s[:4] and s[4] and not c[4])
                    for c, s in zip(code[f], spec[f])):
                ct_only = True
                continue
            out.append(f)
    return out, ct_only


def replay_inst(sigs, one, two, stats):
    """Returns a list of (field-key, case) mismatches."""
    import talg_terms as tt

    bad = []
    notes = tt.Notes()
    built = {}

    def fn(k):
        if k not in built:
            f = tt.build_sig(sigs[k])
            if tt.proj_sig(f) != sigs[k]:
                raise lib.Machinery(f"projection of the built signature differs from the spec's:\n"
                                    f"{json.dumps(tt.proj_sig(f))}\n{json.dumps(sigs[k])}")
            built[k] = f
        return built[k]

    def args_of(a, f=None):
        return [tt.build_arg(x) for x in a]

    for (k, a), r in one.items():
        av = json.loads(a)
        try:
            g = fn(k).instantiate_partial(args_of(av))
            pg = tt.proj_sig(g, notes)
        except lib.Machinery:
            raise
        except Exception as e:  # noqa: BLE001
            bad.append(("exception:" + type(e).__name__, {"id": json.loads(k), "a": av, "error": str(e)[:300]}))
            continue
        stats["one"] += 1
        if any(x[0] == "T" and x[1][0] == "none" for x in av):
            stats["none_arg"] = stats.get("none_arg", 0) + 1  # preserve flag on a None type argument
        opened = [i for i, x in enumerate(av) if x == ["-"]]
        if opened and any(x != ["-"] for x in av[: opened[-1]]):
            stats["shifted"] += 1  # some kept parameter follows an instantiated one
        d, ct = diff_fields(pg, r)
        stats["ct_dropped"] += ct
        if d:
            bad.append(("one-step:" + d[0], {"id": json.loads(k), "sig": sigs[k], "a": av, "differ": d, "code": pg, "spec": r}))
    for p in two:
        k = json.dumps(p["id"])
        r = one.get((k, json.dumps(p["a12"])))
        if r is None:
            raise lib.Machinery(f"TypeAlg_Inst printed no one-step entry for the composed vector of {json.dumps(p)[:400]}")
        try:
            g = fn(k).instantiate_partial(args_of(p["a1"]))
            h = g.instantiate_partial(args_of(p["a2"]))
            ph = tt.proj_sig(h, notes)
        except Exception as e:  # noqa: BLE001
            bad.append(("exception:" + type(e).__name__, {"id": p["id"], "a1": p["a1"], "a2": p["a2"], "error": str(e)[:300]}))
            continue
        stats["two"] += 1
        d, ct = diff_fields(ph, r)
        if d:
            bad.append(("two-step:" + d[0], {"id": p["id"], "sig": sigs[k], "a1": p["a1"], "a2": p["a2"], "differ": d,
                                             "code": ph, "spec": r}))
    stats["stale_const_var_ty"] += notes.stale_const_var_ty
    return bad


def run_inst(ctx, cfgs):
    stats = {"one": 0, "two": 0, "shifted": 0, "ct_dropped": 0, "stale_const_var_ty": 0, "sigs": 0}
    allbad = []
    samples = []
    for cfg in cfgs:
        r = ctx.tlc("TypeAlg_Inst", cfg, timeout=3000)
        if not r.ok:
            raise lib.Machinery(f"TypeAlg_Inst/{cfg}: the specification's own laws fail:\n{r.error[:2000]}")
        sigs, one, two = parse_inst(r.printed)
        if not one:
            raise lib.Machinery(f"TypeAlg_Inst/{cfg} printed no cases")
        stats["sigs"] += len(sigs)
        ctx.log(f"{cfg}: {len(sigs)} signatures, {len(one)} one-step, {len(two)} two-step cases, "
                f"{r.distinct} states in {r.wall:.0f}s")
        allbad += replay_inst(sigs, one, two, stats)
        ks = sorted(one)[:: max(1, len(one) // 2)][:2]
        samples += [{"id": json.loads(k), "a": json.loads(a), "expected_params": one[(k, a)]["params"]} for k, a in ks]
    groups = {}
    for key, case in allbad:
        groups.setdefault(key, []).append(case)
    for key, cases in sorted(groups.items()):
        ctx.violation(f"instantiate_partial:{key}",
                      f"FunctionType.instantiate_partial differs from textual substitution in {len(cases)} "
                      f"cases ({key}); first: {json.dumps(cases[0])[:700]}",
                      {"part": "inst", "cases": cases[:10]})
    if stats["shifted"] == 0:
        raise lib.Machinery("vacuous: no case shifts a de Bruijn index")
    if stats.get("none_arg", 0) == 0:
        raise lib.Machinery("vacuous: no case instantiates a type parameter with None")
    return stats, samples


# =========================================================================================
# (b) generic vs hand-specialised programs
# =========================================================================================
def case_key(rec):
    i = rec["id"]
    return json.dumps([i["slots"], i["bound"], i["targ"], i["narg"], i.get("eq", False), i.get("zero", False)],
                      sort_keys=True)


def equal_mono_before_open(rec) -> bool:
    """foo or mid keeps a parameter generic after >= 2 monomorphised parameters that were
    given EQUAL arguments (parameters must be counted by position, not by value)."""
    for f, rd in ((f, rd) for f in ("foo", "mid") for rd in rec["rounds"]):
        mono = rd[f]["mono"]
        for i, a in enumerate(mono):
            if a == ["-"]:
                before = [json.dumps(x) for x in mono[:i] if x != ["-"]]
                if len(before) != len(set(before)):
                    return True
    return False


def forwards_two_constants(rec) -> bool:
    """mid is instantiated at two different monomorphised constant vectors in one compile and
    forwards them to foo (two instances of foo expected)."""
    a, b = rec["rounds"][0], rec["rounds"][1]
    return a["mid"]["mono"] != b["mid"]["mono"] and a["foo"]["mono"] != b["foo"]["mono"]


def partially_mono(rec) -> bool:
    m = rec["rounds"][0]["foo"]["mono"]
    return any(a != ["-"] for a in m) and any(a == ["-"] for a in m)


def variant_jobs(recs):
    import talg_prog as tp

    jobs = []
    for ci, rec in enumerate(recs):
        seen = {}
        for v in tp.VARIANTS:
            src = tp.render(rec, v)
            if src in seen:
                continue
            seen[src] = v
            jobs.append({"id": [ci, v], "src": src, "funcs": tp.func_names(rec, v)})
    return jobs


def judge_variant(rec, variant, res):
    """None if the variant behaves as the spec says, else (class, detail)."""
    import talg_prog as tp

    st = res.get("status")
    if st in ("machinery", "interp"):
        raise lib.Machinery(f"harness/interpreter failure on {case_key(rec)} {variant}: {res.get('error')}")
    if st != "ok":
        return st, res.get("error")
    exp = tp.expected_events(rec)
    if res.get("end") != "return" or res.get("other_events"):
        return "abnormal-end", {"end": res.get("end"), "other": res.get("other_events")}
    if tp.strict(res["events"]) != tp.strict(exp):
        return "results", {"observed": tp.strict(res["events"]), "expected": tp.strict(exp)}
    for f, want in tp.expected_defs(rec, variant).items():
        if sorted(res["defs"].get(f, [])) != want:
            return "hugr-params:" + f.split("_")[0], {"function": f, "observed": res["defs"].get(f), "expected": want}
    return None


def slot_sig(rec):
    return "".join(s[0] + (str(s[1]) if len(s) > 1 else "") for s in rec["id"]["slots"])


def run_mono(ctx, recs, stats):
    import pool
    import talg_prog as tp

    jobs = variant_jobs(recs)
    res = pool.map_jobs(tp.run_variant, jobs)
    groups = {}
    for j, r in zip(jobs, res):
        rec = recs[j["id"][0]]
        v = j["id"][1]
        stats["programs"] += 1
        verdict = judge_variant(rec, v, r)
        if verdict is not None:
            kinds = "".join(sorted({s[0] for s in rec["id"]["slots"]}))
            key = f"mono:{v}:{verdict[0]}:slots={kinds}"
            if rec["id"].get("zero") and v == "generic" and verdict[0].split(":")[0] in ("results", "hugr-params"):
                # +0.0 and -0.0 are different constants; one key for this family
                key = "mono:generic:float-comptime-plus-and-minus-zero-share-one-instance"
            groups.setdefault(key, []).append({"rec": rec, "variant": v, "detail": verdict[1], "src": j["src"]})
    for key, cases in sorted(groups.items()):
        c = cases[0]
        ctx.violation(key, f"{len(cases)} program(s): {c['variant']} variant of slots {slot_sig(c['rec'])} "
                           f"{json.dumps(c['rec']['id'])[:200]}: {json.dumps(c['detail'])[:500]}",
                      {"part": "mono", "cases": [{"rec": x["rec"], "variant": x["variant"], "detail": x["detail"]}
                                                 for x in cases[:5]]})
    return jobs


def mono_records(ctx, cfg, simulate=None, seed=None):
    kw = {}
    if simulate is not None:
        kw = dict(simulate=f"num={simulate}", depth=8, seed=seed, workers=4)
    r = ctx.tlc("TypeAlg_Mono", cfg, timeout=3000, **kw)
    if not r.ok:
        raise lib.Machinery(f"TypeAlg_Mono/{cfg}: the specification's own laws fail:\n{r.error[:2000]}")
    uniq = {}
    for p in r.printed:
        uniq[case_key(p)] = p
    if not uniq:
        raise lib.Machinery(f"TypeAlg_Mono/{cfg} printed no cases")
    return [uniq[k] for k in sorted(uniq)]


def run(ctx):
    ctx.level = "model_checking"
    tiny = bool(os.environ.get("TALG_TINY"))
    rng = random.Random(ctx.seed)
    # ---- (a)
    if tiny:
        cfgs = ["TypeAlg_Inst_tiny.cfg"]
    else:
        # quick: all two-step cases up to 2 parameters + all one-step cases with 3 parameters (nested shape)
        cfgs = ctx.pick(["TypeAlg_Inst_tiny.cfg", "TypeAlg_Inst.cfg"],
                        ["TypeAlg_Inst_thoroughA.cfg", "TypeAlg_Inst_thoroughB.cfg"])
    istats, isamples = run_inst(ctx, cfgs)
    # ---- (b)
    mstats = {"programs": 0, "cases": 0, "partial_cases": 0, "equal_args_cases": 0}
    recs = []
    if tiny:
        recs = mono_records(ctx, "TypeAlg_Mono_mc2.cfg")
        rng.shuffle(recs)
        recs = recs[:48]
    elif ctx.quick:
        # every case of <= 2 slots is model-checked; the runtime sample is drawn by TLC
        # (simulation, seeded) from the <= 3 slot family
        recs = mono_records(ctx, "TypeAlg_Mono.cfg", simulate=30, seed=ctx.seed)
        rng.shuffle(recs)
        recs = recs[:50]
        # plus equal-argument cases (exhaustively model-checked): distinct parameters, same value
        eqs = mono_records(ctx, "TypeAlg_Mono_eq.cfg")
        rng.shuffle(eqs)
        hit = [r for r in eqs if equal_mono_before_open(r)]
        recs += hit[:24] + [r for r in eqs if not equal_mono_before_open(r)][:8]
        # plus cases whose two rounds pass +0.0 and -0.0 for the same float @comptime parameter
        zeros = mono_records(ctx, "TypeAlg_Mono_zero.cfg")
        rng.shuffle(zeros)
        recs += zeros[:6]
    else:
        full = mono_records(ctx, "TypeAlg_Mono.cfg")  # exhaustive, <= 3 slots
        small = [r for r in full if len(r["id"]["slots"]) <= 2]
        big = [r for r in full if len(r["id"]["slots"]) > 2]
        rng.shuffle(big)
        hit = [r for r in big if equal_mono_before_open(r)]
        recs = small + hit + [r for r in big if not equal_mono_before_open(r)][:1100]
    mstats["cases"] = len(recs)
    mstats["partial_cases"] = sum(1 for r in recs if partially_mono(r))
    mstats["two_constant_vectors_forwarded"] = sum(1 for r in recs if forwards_two_constants(r))
    mstats["through_struct"] = sum(1 for r in recs if forwards_two_constants(r) and any(s[0] == "G" for s in r["id"]["slots"]))
    mstats["float_zero_sign_cases"] = sum(1 for r in recs if r["id"].get("zero"))
    mstats["equal_args_cases"] = sum(1 for r in recs if equal_mono_before_open(r))
    ctx.log(f"(b) {len(recs)} cases ({mstats['partial_cases']} partially monomorphised, "
            f"{mstats['equal_args_cases']} with equal monomorphised arguments before a generic parameter)")
    jobs = run_mono(ctx, recs, mstats)
    if not tiny and min(mstats["partial_cases"], mstats["equal_args_cases"], mstats["two_constant_vectors_forwarded"],
                        mstats["through_struct"], mstats["float_zero_sign_cases"]) == 0:
        raise lib.Machinery(f"vacuous sample: {mstats}")
    ctx.coverage.update({
        "traces_validated_against_impl": istats["one"] + istats["two"] + mstats["programs"],
        "evaluations": istats["one"] + istats["two"] + mstats["programs"],
        "distinct_nontrivial": istats["shifted"] + mstats["partial_cases"],
        "rule": "(a) instantiation cases where a kept parameter follows an instantiated one (its de Bruijn index "
                "must shift); (b) call chains in which foo is monomorphised in some parameters and stays generic "
                "in others",
        "samples": isamples[:3] + [{"slots": r["id"]["slots"], "foo_mono": [rd["foo"]["mono"] for rd in r["rounds"]],
                                    "hugr": r["rounds"][0]["foo"]["hugr"],
                                    "expected": [rd["expected"] for rd in r["rounds"]]} for r in recs[:2]],
        "exhaustive": not ctx.quick,
        "instantiate_partial": istats,
        "programs": mstats["programs"],
        "programs_detail": mstats,
        # NOTE recorded, not reported: ConstParam.with_idx() builds ConstParam(idx, name, ty) and so loses
        # from_comptime_arg on every kept @comptime parameter; and kept BoundConstVar occurrences keep the
        # *uninstantiated* type of their binder. Neither is observable through compilation (comptime_args are
        # passed explicitly, GenericParamValue re-instantiates the bounds), so they are not violations of C13.
        "latent_structural_deviations": {"from_comptime_arg_dropped_on_kept_param": istats["ct_dropped"],
                                         "bound_const_var_with_stale_type": istats["stale_const_var_ty"]},
    })
    ctx.assumptions += ["TLC", "reference HUGR interpreter", "hugr-core validator",
                        "term<->FunctionType projection (harness/talg_terms.py)",
                        "program renderer (harness/talg_prog.py): prints the spec's signatures, substitutions "
                        "and argument values as Guppy source"]


# =========================================================================================
def replay(ctx, data):
    import talg_prog as tp
    import talg_terms as tt

    rp = data["replay"]
    if rp["part"] == "inst":
        for c in rp["cases"]:
            f = tt.build_sig(c["sig"])
            print("signature:", f)
            if "a" in c:
                g = f.instantiate_partial([tt.build_arg(x) for x in c["a"]])
            else:
                g = f.instantiate_partial([tt.build_arg(x) for x in c["a1"]]).instantiate_partial(
                    [tt.build_arg(x) for x in c["a2"]])
            print(" args:", json.dumps(c.get("a", [c.get("a1"), c.get("a2")])))
            print(" code:", json.dumps(tt.proj_sig(g)))
            print(" spec:", json.dumps(c["spec"]))
    else:
        for c in rp["cases"]:
            src = tp.render(c["rec"], c["variant"])
            print(src)
            r = tp.run_variant({"id": 0, "src": src, "funcs": tp.func_names(c["rec"], c["variant"])})
            print("observed:", json.dumps(r)[:1500])
            print("expected events:", tp.expected_events(c["rec"]), "defs:", tp.expected_defs(c["rec"], c["variant"]))


def selftest(ctx):
    import copy

    import talg_prog as tp

    # 1. TLC rejects an instantiate_partial that does not shift indices
    r = ctx.tlc("TypeAlg_Inst", "TypeAlg_Inst_bad.cfg", allow_error=True, timeout=900)
    if r.ok or "InstEqualsNamed" not in r.out and "ResultScoped" not in r.out and "MachineIsOperator" not in r.out:
        raise lib.Machinery("selftest: TLC accepted with_idx without down-shift:\n" + r.out[-1500:])
    # 2. a corrupted expectation (index of a kept parameter's occurrence) is flagged by the replay
    r = ctx.tlc("TypeAlg_Inst", "TypeAlg_Inst_tiny.cfg", timeout=900)
    sigs, one, two = parse_inst(r.printed)
    stats = {"one": 0, "two": 0, "shifted": 0, "ct_dropped": 0, "stale_const_var_ty": 0}
    base = replay_inst(sigs, one, two, dict(stats))
    if base:
        raise lib.Machinery(f"selftest: unchanged tree already mismatches: {base[0]}")
    key = next(k for k, v in sorted(one.items()) if v["params"] and any(x != ["-"] for x in json.loads(k[1])))
    one2 = dict(one)
    rr = copy.deepcopy(one[key])
    rr["params"][0][1] += 1
    one2[key] = rr
    if not replay_inst(sigs, one2, [], dict(stats)):
        raise lib.Machinery("selftest: corrupted expected parameter index was accepted")
    # ... and a corrupted two-step composition (drop the second step's argument)
    p = next(p for p in two if any(x != ["-"] for x in p["a2"]) and any(x != ["-"] for x in p["a1"]))
    p2 = dict(p, a12=p["a1"])
    if not replay_inst(sigs, one, [p2], dict(stats)):
        raise lib.Machinery("selftest: wrong composed argument vector was accepted")
    # 3. runtime half: corrupted expected result / Hugr parameter list / wrong substitution
    recs = mono_records(ctx, "TypeAlg_Mono_tiny.cfg")
    rec = next(r for r in recs if r["id"]["slots"][0][0] == "K")
    src = tp.render(rec, "generic")
    res = tp.run_variant({"id": 0, "src": src, "funcs": tp.func_names(rec, "generic")})
    if judge_variant(rec, "generic", res) is not None:
        raise lib.Machinery(f"selftest: unchanged generic program judged bad: {judge_variant(rec, 'generic', res)}")
    if not forwards_two_constants(rec) or len(res["defs"]["foo"]) != 2:
        raise lib.Machinery("selftest: the K case does not produce two instances of foo")
    bad = copy.deepcopy(rec)
    bad["rounds"][1]["expected"][0][1][1] += 1
    if judge_variant(bad, "generic", res) is None:
        raise lib.Machinery("selftest: corrupted expected result accepted")
    bad = copy.deepcopy(rec)
    bad["rounds"][0]["foo"]["hugr"] = ["nat"]
    if judge_variant(bad, "generic", res) is None:
        raise lib.Machinery("selftest: corrupted Hugr parameter expectation accepted")
    bad = copy.deepcopy(rec)  # "both instances of mid call the same instance of foo"
    bad["rounds"][1]["foo"]["mono"] = bad["rounds"][0]["foo"]["mono"]
    if judge_variant(bad, "generic", res) is None:
        raise lib.Machinery("selftest: a wrong number of expected foo instances was accepted")
    wrong = copy.deepcopy(rec)  # specialised copy built from a wrong inferred argument (round 2)
    for fn in ("foo", "mid"):
        for nm, a in wrong["rounds"][1][fn]["csubst"]:
            if a[0] == "C":
                a[1][2] = ["val", ["int", 99]]
    res2 = tp.run_variant({"id": 1, "src": tp.render(wrong, "closed"), "funcs": tp.func_names(rec, "closed")})
    if judge_variant(rec, "closed", res2) is None:
        raise lib.Machinery("selftest: a copy specialised with the wrong constant was accepted")
    # +0.0 / -0.0 are told apart by the comparison
    if tp.strict([["r", "f64", 0.0]]) == tp.strict([["r", "f64", -0.0]]):
        raise lib.Machinery("selftest: event comparison does not distinguish -0.0 from 0.0")

if __name__ == "__main__":
    lib.main("C13", run, replay, selftest)
