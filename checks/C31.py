"""C31 Printed types read back as the same type; distinct variables get distinct names.

Decided by spec/TypePrint.tla: the grammar of type annotations (Parse), a reference printer with the
TLC-checked law Parse(RefPrint(t)) = t, the universe of first-order types and of types with
quantified function components, and Walk/NamesOK (names read off the printed text along the type).

Binding: TLC enumerates the universe (each type with its reference printing); the harness builds
the real objects, records str(ty), type_from_ast(str(ty)) and type_from_ast(reference printing);
spec/TypePrint_Trace.tla checks every record: read-back = type (classified with Parse as a printer
or a parser fault), reference form read back = type, names unique.
"""
import json
import os

import lib


def enumerate_cases(ctx):
    cases, seen = [], set()
    for cfg in ctx.pick(["TypePrint.cfg"], ["TypePrint_T.cfg", "TypePrint_D3.cfg"]):
        r = ctx.tlc("TypePrint", cfg, timeout=3000)
        if not r.ok:
            raise lib.Machinery(f"TypePrint law Parse(RefPrint(t)) = t violated (specification error):\n{r.error}")
        new = [p for p in r.printed if isinstance(p, dict) and "kind" in p and "t" in p]
        if not new:
            raise lib.Machinery(f"TypePrint/{cfg} emitted no cases")
        ctx.log(f"{cfg}: {len(new)} cases, {r.wall:.0f}s")
        for c in new:
            k = json.dumps(c["t"])
            if k not in seen:
                seen.add(k)
                cases.append(c)
    for i, c in enumerate(cases):
        c["id"] = i
    return cases


def observe(cases):
    import pool
    import ty_print as TP

    if len(cases) < 10000:  # a process pool would only add start-up time
        return TP.observe_chunk(cases)
    CH = 250
    jobs = [cases[i:i + CH] for i in range(0, len(cases), CH)]
    res = pool.map_jobs(TP.observe_chunk, jobs, chunksize=1)
    return [o for ch in res for o in ch]


def validate(ctx, obs, tag):
    reports = {}
    CH = 40000
    for k in range(0, len(obs), CH):
        chunk = obs[k:k + CH]
        path = os.path.join(ctx.workdir, f"typeprint_obs_{tag}_{k}.json")
        keep = ("id", "kind", "t", "w", "back", "refback")
        json.dump([{f: o[f] for f in keep if f in o} for o in chunk], open(path, "w"))
        r = ctx.tlc("TypePrint_Trace", env={"VERIF_TRACE": path}, timeout=3000)
        if not r.ok:
            raise lib.Machinery(f"TypePrint_Trace failed:\n{r.error}")
        for p in r.printed:
            if isinstance(p, dict) and "id" in p and "kind" in p:
                reports[p["id"]] = p
        missing = [o["id"] for o in chunk if o["id"] not in reports]
        if missing:
            raise lib.Machinery(f"TypePrint_Trace gave no verdict for {len(missing)} cases, e.g. {missing[:3]}")
    return reports


def subterms(t):
    import ty_terms as TT

    out = []
    for c in TT.children(t):
        if not TT.is_const(c):
            out.append(c)
            out += subterms(c)
    return out


def run(ctx):
    import ty_print as TP
    import ty_terms as TT

    ctx.level = "model_checking"
    cases = enumerate_cases(ctx)
    obs = observe(cases)
    for o in obs:
        if any(t[0] == "bad" for t in o["w"]):
            raise lib.Machinery(f"cannot tokenise printed type {o['text']!r}")
    reps = validate(ctx, obs, "p")
    tcases = [o for o in obs if o["kind"] == "type"]
    ncases = [o for o in obs if o["kind"] == "names"]
    failing = {TT.tl(o["t"]) for o in tcases if reps[o["id"]]["kind"] != "ok"}
    kinds, disagreements = {}, 0
    for o in tcases:
        rep = reps[o["id"]]
        if not rep["grammar_agrees"]:
            disagreements += 1
            if rep["kind"] == "ok":
                # real read-back is right but the grammar model reads the text differently
                raise lib.Machinery(f"TypePrint.Parse disagrees with the real parser on {o['text']!r}: "
                                    f"{rep['denotes']} vs {o['back']}")
        if rep["kind"] == "ok":
            continue
        minimal = not any(TT.tl(s) in failing for s in subterms(o["t"]))
        if minimal:
            kinds.setdefault(f"{rep['kind']}:{TP.shape(o['t'])}", []).append(
                {"type": o["t"], "printed": o["text"], "read_back": o["back"], "why": o["why"],
                 "reference": o["reftext"], "reference_read_back": o["refback"], "spec_denotes": rep["denotes"]})
    for o in ncases:
        rep = reps[o["id"]]
        if rep["kind"] != "ok":
            # group by the pair of variable kinds that clash
            cl = rep.get("clashes") or []
            nm = {"b": "quantified", "ex": "existential"}
            sig = "unreadable" if rep["kind"] != "names-clash" else sorted(
                {"/".join(sorted([nm[c[0][0][0]], nm[c[1][0][0]]])) + (":one-name" if c[0][1] == c[1][1] else ":two-names")
                 for c in cl})[0]
            kinds.setdefault(f"{rep['kind']}:{sig}", []).append(
                {"type": o["t"], "printed": o["text"], "names": rep.get("names"), "clashes": cl[:4]})
    for key, cs in sorted(kinds.items()):
        cs.sort(key=lambda c: len(c["printed"]))
        c0 = cs[0]
        what = (f"{key}: {len(cs)} minimal cases; e.g. type {json.dumps(c0['type'])} is printed as {c0['printed']!r}"
                + (f" which reads back as {json.dumps(c0['read_back'])} ({c0['why']})" if "read_back" in c0
                   else f" with names {json.dumps(c0['clashes'][:1])}"))
        ctx.violation(key, what, {"cases": cs[:20]})
    n_fail = sum(1 for o in tcases if reps[o["id"]]["kind"] != "ok")
    ctx.coverage.update({
        "traces_validated_against_impl": len(obs),
        "evaluations": len(obs) + len(tcases),
        "distinct_nontrivial": sum(1 for o in tcases if TT.depth(o["t"]) >= 1) + len(ncases),
        "rule": "distinct types of the TLC-enumerated universe; non-trivial = has at least one constructor "
                "(tuple / array / Option / struct argument) or a quantified function component",
        "samples": [{"type": o["t"], "printed": o["text"]} for o in (tcases[0], tcases[len(tcases) // 2], tcases[-1], ncases[len(ncases) // 2])],
        "exhaustive": True,
        "first_order_types": len(tcases),
        "naming_cases": len(ncases),
        "types_not_reading_back": n_fail,
        "grammar_vs_real_parser_disagreements": disagreements,
        "mismatch_classes": {k: len(v) for k, v in kinds.items()},
    })
    ctx.assumptions += ["TLC", "JSON projection of Type objects (harness/ty_terms.py)", "tokeniser of printed types"]


def replay(ctx, data):
    import ty_print as TP

    cases = data["replay"]["cases"][:10]
    obs = []
    for i, c in enumerate(cases):
        kind = "names" if "clashes" in c else "type"
        case = {"id": i, "kind": kind, "t": c["type"]}
        if kind == "type":
            case["ref"] = TP.tokenize(c["reference"])
        obs.append(TP.observe_case(case))
    reps = validate(ctx, obs, "r")
    for i, c in enumerate(cases):
        print("type   :", json.dumps(c["type"]))
        print("  code : str ->", repr(obs[i]["text"]), "read back ->", json.dumps(obs[i].get("back")))
        print("  spec :", json.dumps(reps[i])[:500])


def selftest(ctx):
    import ty_print as TP

    I, B = ["num", "int"], ["opq", "bool", []]
    t1 = ["tup", [I, B]]
    t2 = ["opq", "array", [t1, ["nat", 2]]]
    g = lambda u, d: ["gfun", u, [[d, "type"]], [[["b", u, 0]], ["b", u, 0]]]
    cases = [
        {"id": 0, "kind": "type", "t": t1, "ref": TP.tokenize("(int, bool)")},
        {"id": 1, "kind": "type", "t": t2, "ref": TP.tokenize("array[(int, bool), 2]")},
        {"id": 2, "kind": "names", "t": ["tup", [g(1, "T"), ["ex", 1, "T"]]]},
    ]
    obs = [TP.observe_case(c) for c in cases]
    base = validate(ctx, obs, "s0")
    if [base[i]["kind"] for i in range(3)] != ["ok", "ok", "ok"]:
        raise lib.Machinery(f"selftest baseline unexpected: {base}")
    bad = []
    o = dict(obs[0]); o["id"] = 10; o["back"] = ["tup", [I, I]]; bad.append((o, "parser-misreads-print"))
    o = dict(obs[0]); o["id"] = 11; o["w"] = TP.tokenize("(int)"); o["back"] = I; bad.append((o, "print-denotes-other-type"))
    o = dict(obs[1]); o["id"] = 12; o["refback"] = ["err"]; bad.append((o, "reference-form-misread"))
    o = dict(obs[1]); o["id"] = 13; o["back"] = ["err"]; bad.append((o, "parser-misreads-print"))
    o = dict(obs[2]); o["id"] = 14; o["w"] = TP.tokenize("((forall T. T -> U), ?T)"); bad.append((o, "names-clash"))
    o = dict(obs[2]); o["id"] = 15; o["w"] = TP.tokenize("((forall T. T -> T), T)"); bad.append((o, "print-unreadable"))
    o = dict(obs[2]); o["id"] = 16; o["t"] = ["tup", [g(1, "T"), g(2, "T")]]
    o["w"] = TP.tokenize("((forall T. T -> T), (forall T. T -> T))"); bad.append((o, "names-clash"))
    o = dict(o); o["id"] = 17
    o["w"] = TP.tokenize("((forall T. T -> T), (forall T'1. T'1 -> T'1))"); bad.append((o, "ok"))
    reps = validate(ctx, [b for b, _ in bad], "s1")
    for b, want in bad:
        if reps[b["id"]]["kind"] != want:
            raise lib.Machinery(f"selftest: corrupted record {b['id']} classified {reps[b['id']]['kind']}, wanted {want}")


if __name__ == "__main__":
    lib.main("C31", run, replay, selftest)
