"""C29 Diagnostic rendering is total and faithful.

Decided by: spec/Render.tla (geometry of a rendered diagnostic: which source lines are
shown minus excess common indentation, their numbers, marker columns, items of the output;
coherence laws model-checked by TLC over every source/span of a grid) and
spec/Render_Trace.tla (consumes a recorded rendering row by row against Render!Items).

Binding, both directions:
 * spec -> code: TLC enumerates the grid (Render.cfg / Render_thorough.cfg, VERIF_EMIT) and
   prints every case; exactly those cases are rendered with the real DiagnosticsRenderer;
 * code -> spec: those renderings plus seeded random diagnostics (sub-diagnostics with and
   without spans, labels/messages of 0-30 words, paragraphs, {placeholders}, line numbers
   crossing 9/10, 99/100, 999/1000, indentation 0-27) are validated by TLC (Render_Trace).
Totality: an exception from render_diagnostic is an unmatched event (no such behaviour in the spec).
"""
import collections
import json
import os
import random

import lib
import pool

import diag_render as dr

PROFILES = ["plain"] * 8 + ["ws", "ws", "long", "hyph", "blanktext", "nospan", "nospan", "zerosub"]
TRACE_CHUNK = 12000


def grid_cases(ctx, cfg):
    r = ctx.tlc("Render", cfg, env={"VERIF_EMIT": "1"}, timeout=2400)
    if not r.ok:
        raise lib.Machinery("Render.tla: a geometry law is violated (specification error):\n" + r.error)
    cases = [p for p in r.printed if isinstance(p, dict) and "lines" in p]
    if len(cases) != r.distinct:
        raise lib.Machinery(f"Render.tla emitted {len(cases)} cases for {r.distinct} states")
    cases.sort(key=lambda c: json.dumps(c, sort_keys=True))
    for c in cases:
        c["profile"] = "grid"
    return cases


def random_cases(seed, n, profiles=PROFILES):
    rng = random.Random(seed * 7919 + 29)
    return [dr.random_case(rng, 0, profiles[i % len(profiles)]) for i in range(n)]


def observe_all(cases):
    if len(cases) <= 20000:  # ~1 ms per case: cheaper than starting the worker pool
        obs = dr.observe_many(cases)
    else:
        chunks = [cases[i:i + 500] for i in range(0, len(cases), 500)]
        obs = [o for ch in pool.map_jobs(dr.observe_many, chunks, chunksize=1) for o in ch]
    be = [o for o in obs if o.get("build_error")]
    if be:
        raise lib.Machinery(f"harness could not build {len(be)} diagnostics, e.g. {be[0]}")
    return obs


def validate(ctx, cases, obs, coverage=False):
    """Returns {case id: verdict record} for the rejected cases."""
    bad = {}
    for lo in range(0, len(cases), TRACE_CHUNK):
        part = [{"c": dr.spec_view(c), "rows": o["rows"], "exc": o["exc"]}
                for c, o in zip(cases[lo:lo + TRACE_CHUNK], obs[lo:lo + TRACE_CHUNK])]
        path = os.path.join(ctx.workdir, f"render_trace_{lo}.json")
        with open(path, "w") as f:
            json.dump(part, f, separators=(",", ":"))
        r = ctx.tlc("Render_Trace", env={"VERIF_TRACE": path}, coverage=coverage, timeout=3000)
        os.unlink(path)
        if not r.ok:
            raise lib.Machinery("Render_Trace failed:\n" + (r.error or r.out[-2000:]))
        acc = [p for p in r.printed if isinstance(p, dict) and "accepted" in p]
        if len({p["accepted"] for p in acc}) != 16 or max(p["upto"] for p in acc) != len(part):
            raise lib.Machinery(f"Render_Trace walked {len(acc)} of 16 chunks:\n{r.out[-1500:]}")
        got = [p for p in r.printed if isinstance(p, dict) and "bad" in p]
        if sum(p["nbad"] for p in acc) != len(got):
            raise lib.Machinery("Render_Trace: number of rejected cases and printed verdicts differ")
        for p in got:
            bad[p["bad"]] = p
        if coverage:
            ctx.coverage["trace_actions"] = {k: v for k, v in r.coverage.items()
                                             if k in ("Load", "RowStep", "MarkStep", "LabelStep", "TextStep", "Accept", "Reject")}
    return bad


def signature(case, o, verdict):
    if verdict["why"] == "exception":
        return f"totality:{o['exc']}@{o.get('site', '?')}"
    it = verdict["item"]
    exp = "row." + it["r"]["k"] if it["t"] == "row" else it["t"]
    ob = verdict["obs"]
    key = f"faithful:{case['profile']}:{verdict['why']}:{exp}/{ob['k']}"
    if 0 in ob.get("txt", []) and ob["k"] != "src":
        key += ":foreign-token"
    return key


def nontrivial(c):
    s = c["span"]
    return c["hasSpan"] and (s["sl"] != s["el"] or c["subs"] or max((len(x) for x in c["lines"]), default=0) > 12)


def run(ctx):
    ctx.level = "model_checking"
    cases = grid_cases(ctx, ctx.pick("Render.cfg", "Render_thorough.cfg"))
    ngrid = len(cases)
    cases += random_cases(ctx.seed, ctx.pick(3000, 60000))
    for i, c in enumerate(cases):
        c["id"] = i
    ctx.log(f"{ngrid} grid cases from TLC, {len(cases) - ngrid} seeded random cases")
    obs = observe_all(cases)
    ctx.log("rendered; validating")
    # vacuity guard: every action of the trace spec is exercised on a slice of the cases
    sl = cases[ngrid:ngrid + 400]
    validate(ctx, sl, obs[ngrid:ngrid + 400], coverage=True)
    cov = ctx.coverage.get("trace_actions", {})
    missing = [a for a in ("Load", "RowStep", "MarkStep", "LabelStep", "TextStep", "Accept") if not cov.get(a, (0, 0))[1]]
    if missing:
        raise lib.Machinery(f"vacuous trace validation: actions never taken: {missing} ({cov})")
    bad = validate(ctx, cases, obs)
    groups = collections.defaultdict(list)
    for cid, v in bad.items():
        groups[signature(cases[cid], obs[cid], v)].append(cid)
    for key, ids in sorted(groups.items()):
        ids.sort(key=lambda i: (len(json.dumps(dr.spec_view(cases[i]))), i))
        ex = ids[0]
        c, o, v = cases[ex], obs[ex], bad[ex]
        shown = "\n".join(o.get("buffer", [])) if not o["exc"] else f"{o['exc']}: {o.get('msg', '')} at {o.get('site')}"
        what = (f"{key}: {len(ids)} of {len(cases)} rendered diagnostics rejected by Render_Trace; smallest: "
                f"case={json.dumps(dr.spec_view(c))} verdict={json.dumps(v)} rendering=\n{shown}")
        ctx.violation(key, what, {"cases": [cases[i] for i in ids[:5]], "verdicts": [bad[i] for i in ids[:5]]})
    nt = {json.dumps(dr.spec_view(c), sort_keys=True) for c in cases if nontrivial(c)}
    ctx.coverage.update({
        "traces_validated_against_impl": len(cases),
        "evaluations": len(cases),
        "distinct_nontrivial": len(nt),
        "rule": "a case is one diagnostic (source, spans, texts) rendered by the real DiagnosticsRenderer and walked by "
                "Render_Trace; non-trivial = has a span and (multi-line span or sub-diagnostics or a line longer than "
                "MAX_LEADING_WHITESPACE); distinct by canonical JSON",
        "grid_cases_enumerated_by_TLC": ngrid,
        "random_cases": len(cases) - ngrid,
        "profiles": dict(collections.Counter(c["profile"] for c in cases)),
        "renderer_exceptions": dict(collections.Counter(o["exc"] for o in obs if o["exc"])),
        "rejected": len(bad),
        "samples": [dr.spec_view(cases[i]) for i in (0, ngrid // 2, ngrid, ngrid + 1, len(cases) - 1)],
        "exhaustive": False,
        "exhaustive_part": "every source of <= MaxLines lines over Indents x Bodies and every span inside it (see cfg)",
    })
    ctx.assumptions += ["TLC", "projection of the output buffer to rows (harness/diag_render.py: project)",
                        "vocabulary of distinct letter-only words; sources over {blank, letter}",
                        "text beyond geometry (wording, exact wrap positions, continuation indent) is not constrained"]


def replay(ctx, data):
    for c in data["replay"]["cases"]:
        o = dr.observe(c)
        print("case:", json.dumps(dr.spec_view(c)))
        print("\n".join(o.get("buffer", [])) if not o["exc"] else f"renderer raised {o['exc']}: {o.get('msg')} at {o.get('site')}")
        c2 = dict(c, id=0)
        bad = validate(ctx, [c2], [o])
        print("spec:", "accepted" if not bad else json.dumps(bad[0]))


def selftest(ctx):
    base = random_cases(12345, 600, ["plain"])
    for i, c in enumerate(base):
        c["id"] = i
    obs = observe_all(base)
    bad0 = validate(ctx, base, obs)
    good = [i for i in range(len(base)) if i not in bad0]

    def pick(pred):
        for i in good:
            if pred(base[i], obs[i]):
                good.remove(i)
                return i
        raise lib.Machinery("selftest: no suitable accepted case")

    muts = {}

    def mut(name, pred, f):
        i = pick(pred)
        o = json.loads(json.dumps(obs[i]))
        f(o, base[i])
        muts[i] = (name, o)

    def rows(o, k):
        return [j for j, r in enumerate(o["rows"]) if r["k"] == k]

    has_mark = lambda c, o: any(r["k"] == "g" and r["n"] > 0 for r in o["rows"])
    mut("drop a source row", lambda c, o: len(rows(o, "src")) >= 2, lambda o, c: o["rows"].pop(rows(o, "src")[0]))
    mut("shift markers right", has_mark,
        lambda o, c: next(r for r in o["rows"] if r["k"] == "g" and r["n"] > 0).__setitem__("lead", 1 + next(r for r in o["rows"] if r["k"] == "g" and r["n"] > 0)["lead"]))
    mut("one marker too many", has_mark,
        lambda o, c: next(r for r in o["rows"] if r["k"] == "g" and r["n"] > 0).__setitem__("n", 1 + next(r for r in o["rows"] if r["k"] == "g" and r["n"] > 0)["n"]))
    mut("wrong line number", lambda c, o: rows(o, "src"), lambda o, c: o["rows"][rows(o, "src")[-1]].__setitem__("no", o["rows"][rows(o, "src")[-1]]["no"] + 1))
    mut("one column too few trimmed", lambda c, o: any(r["k"] == "src" and r["txt"][:4] == [0, 0, 0, 0] and len(c["lines"][0]) > 13 for r in o["rows"]),
        lambda o, c: [r["txt"].insert(0, 0) for r in o["rows"] if r["k"] == "src"])
    mut("label word lost", lambda c, o: any(r["k"] == "g" and len(r["txt"]) >= 2 for r in o["rows"]),
        lambda o, c: next(r for r in o["rows"] if r["k"] == "g" and len(r["txt"]) >= 2)["txt"].pop())
    mut("message word broken", lambda c, o: any(r["k"] == "msg" and len(r["txt"]) >= 3 for r in o["rows"]),
        lambda o, c: next(r for r in o["rows"] if r["k"] == "msg" and len(r["txt"]) >= 3)["txt"].__setitem__(1, 0))
    mut("words swapped", lambda c, o: any(r["k"] == "msg" and len(set(r["txt"][1:3])) == 2 and len(r["txt"]) >= 3 for r in o["rows"]),
        lambda o, c: (lambda r: r["txt"].__setitem__(slice(1, 3), r["txt"][1:3][::-1]))(next(r for r in o["rows"] if r["k"] == "msg" and len(set(r["txt"][1:3])) == 2 and len(r["txt"]) >= 3)))
    mut("renderer raised", lambda c, o: True, lambda o, c: o.update(exc="ValueError", rows=[]))
    mut("gutter too narrow", lambda c, o: any(r["gw"] == 2 for r in o["rows"]), lambda o, c: [r.__setitem__("gw", 1) for r in o["rows"] if r["gw"] == 2])
    mut("extra trailing row", lambda c, o: True, lambda o, c: o["rows"].append(dict(o["rows"][-1])))
    mut("sub-diagnostic snippet missing", lambda c, o: any(s["hasSpan"] for s in c["subs"]) and any(r["ch"] == 2 for r in o["rows"]),
        lambda o, c: o.__setitem__("rows", [r for r in o["rows"] if r["ch"] != 2]))
    obs2 = [muts[i][1] if i in muts else obs[i] for i in range(len(base))]
    bad1 = validate(ctx, base, obs2)
    for i, (name, _) in muts.items():
        if i not in bad1:
            raise lib.Machinery(f"selftest: corrupted rendering ({name}) of case {i} was accepted")
    extra = set(bad1) - set(bad0) - set(muts)
    if extra:
        raise lib.Machinery(f"selftest: untouched cases changed verdict: {sorted(extra)[:5]}")
    print(f"selftest: {len(muts)} corruptions rejected, {len(good)} untouched renderings still accepted")


if __name__ == "__main__":
    lib.main("C29", run, replay, selftest)
