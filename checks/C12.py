"""C12 Type inference finds an instantiation exactly when one exists.

Decided by spec/Unify.tla: (A) the algorithm-shaped unifier (equation stack + triangular
substitution, one action per step of unify/_unify_var/_unify_args), (B) a declarative
unification-closure oracle, (C) on small universes the literal "exists an assignment" by
enumeration.  TLC checks (A) terminates and (A) = (B) = (C), result unifies and is most general.

Binding to the code, both directions:
  spec -> code: every problem TLC enumerates in the exhaustive models (with the expected
     verdict and mgu) and seeded deeper problems are replayed into the real `unify`;
  code -> spec: every observation (returned dict / None / exception, number of recursive calls)
     is validated by spec/Unify_Trace.tla, which re-runs (A) and (B) on the problem inside TLC and
     requires: None <=> no unifier; the returned dict is acyclic, unifies both sides and the start
     bindings, and the specification's mgu is an instance of it.
  program level: generic calls f(args) are type-checked by the real checker; accept <=> TLC finds
     a unifier of the parameter types with the argument types (and the bounds of the variables hold).
"""
import json
import os

import lib

MODELS = [("Unify", "Unify.cfg"), ("Unify", "Unify_B.cfg")]
ACTIONS = ["Load", "SameVar", "ChaseL", "ChaseOther", "Occurs", "Bind", "Decompose", "Clash", "Ambiguous", "Finish"]
# development aid (never used by ./check runs of the tiers): VERIF_C12_FAST=1 skips the replay of the
# exhaustive models and shrinks the seeded sample, for trying code mutations on a loaded machine
FAST = os.environ.get("VERIF_C12_FAST") == "1"
def vkey(prefix, rep):
    """Stable key of a mismatch class: a cyclic result / non-termination is one class whatever the
    specification's own reason; other classes are split by the specification's failure reason."""
    if rep["kind"] in ("cyclic-result", "nontermination"):
        return f"{prefix}:{rep['kind']}"
    return f"{prefix}:{rep['kind']}:{rep['why']}"


MISMATCH_IS_MACHINERY = {"spec-disagree", "bad-input", "bad-observation"}


def enumerate_models(ctx):
    """TLC explores the exhaustive models; returns the emitted problems with expected outcome."""
    out = []
    for module, cfg in MODELS:
        r = ctx.tlc(module, cfg, coverage=False, timeout=3000)
        if not r.ok:
            raise lib.Machinery(f"{cfg}: the formulations of Unify.tla disagree / property violated:\n{r.error}")
        cases = [p for p in r.printed if isinstance(p, dict) and "verdict" in p]
        if not cases:
            raise lib.Machinery(f"{cfg}: no cases emitted")
        for c in cases:
            c["model"] = cfg
        ctx.log(f"{cfg}: {len(cases)} problems, {r.distinct} states, {r.wall:.0f}s")
        out += cases
    return out


def check_action_coverage(ctx):
    """Vacuity guard: every action of the algorithm is taken in the exhaustive models."""
    seen = {}
    for module, cfg in MODELS:
        r = ctx.tlc(module, cfg, coverage=True, timeout=3000)
        for a, (d, _t) in r.coverage.items():
            seen[a] = seen.get(a, 0) + d
    missing = [a for a in ACTIONS if not seen.get(a)]
    if missing:
        raise lib.Machinery(f"vacuous model: actions never taken: {missing}")
    return {a: seen[a] for a in ACTIONS}


def validate(ctx, obs, tag):
    """Run Unify_Trace on observations; returns {id: report}."""
    import pool  # noqa: F401

    reports = {}
    CH = 40000
    for k in range(0, len(obs), CH):
        chunk = obs[k:k + CH]
        path = os.path.join(ctx.workdir, f"unify_obs_{tag}_{k}.json")
        slim = [{f: o[f] for f in ("id", "s", "t", "start", "calls", "obs")} for o in chunk]
        for o in slim:
            if o["obs"][0] == "exc":
                o["obs"] = ["exc", o["obs"][1].split(":")[0]]
        json.dump(slim, open(path, "w"))
        r = ctx.tlc("Unify_Trace", env={"VERIF_TRACE": path}, timeout=3000)
        if not r.ok:
            raise lib.Machinery(f"Unify_Trace failed:\n{r.error}")
        for p in r.printed:
            if isinstance(p, dict) and "id" in p and "kind" in p:
                if p["kind"] == "bad-input":
                    raise lib.Machinery(f"generated start substitution is cyclic: id {p['id']}")
                reports[p["id"]] = p
        missing = [o["id"] for o in chunk if o["id"] not in reports]
        if missing:
            raise lib.Machinery(f"Unify_Trace produced no verdict for {len(missing)} problems, e.g. id {missing[:3]} "
                                f"(algorithm did not reach a verdict)")
    return reports


def observe_all(problems, fn, parallel=True):
    import pool
    import ty_unify  # noqa: F401

    if not parallel:  # a unify call costs microseconds; a process pool would only add start-up time
        return fn(problems)
    CH = 25
    jobs = [problems[i:i + CH] for i in range(0, len(problems), CH)]
    res = pool.map_jobs(fn, jobs, chunksize=1)
    return [o for chunk in res for o in chunk]


def run(ctx):
    import ty_unify as TU

    ctx.level = "model_checking"
    # 1. the design: exhaustive models, three formulations agree, termination
    cases = [] if FAST else enumerate_models(ctx)
    if not ctx.quick:
        ctx.coverage["actions_taken_in_models"] = check_action_coverage(ctx)
        # a larger universe, algorithm against the closure oracle only (no replay)
        r = ctx.tlc("Unify", "Unify_C.cfg", timeout=6000)
        if not r.ok:
            raise lib.Machinery(f"Unify_C.cfg: algorithm and closure oracle disagree:\n{r.error}")
        ctx.log(f"Unify_C.cfg: {r.distinct} states, {r.wall:.0f}s")
    problems = []
    for c in cases:
        problems.append({"id": len(problems), "s": c["s"], "t": c["t"], "start": c["start"],
                         "expected": c["verdict"], "origin": c["model"]})
    n_model = len(problems)
    # 2. seeded deeper problems (depth <= 3, functions with flags, arrays, structs, starts)
    g = TU.Gen(ctx.seed * 7919 + 12)
    n_rand = 2500 if FAST else ctx.pick(6000, 150000)
    seen = set()
    while len(problems) < n_model + n_rand:
        p = g.problem(3)
        key = json.dumps(p, sort_keys=True)
        if key in seen:
            continue
        seen.add(key)
        problems.append({"id": len(problems), **p, "origin": "seeded"})
    # 3. replay into the real unify
    obs = observe_all(problems, TU.observe_chunk, parallel=False)
    ctx.log(f"{len(obs)} unify calls observed")
    # 4. TLC validates every observation
    reports = validate(ctx, obs, "u")
    byid = {o["id"]: o for o in obs}
    kinds, nontrivial, verdicts, whys = {}, 0, {}, {}
    for p in problems:
        rep = reports[p["id"]]
        verdicts[rep["verdict"]] = verdicts.get(rep["verdict"], 0) + 1
        whys[rep["why"]] = whys.get(rep["why"], 0) + 1
        if "expected" in p and p["expected"] != rep["verdict"]:
            raise lib.Machinery(f"Unify and Unify_Trace disagree on {p}: {rep}")
        if rep["kind"] in MISMATCH_IS_MACHINERY:
            raise lib.Machinery(f"{rep['kind']} on {json.dumps(byid[p['id']])}")
        if rep["steps"] >= 5:
            nontrivial += 1
        if rep["kind"] not in ("ok", "skip"):
            kinds.setdefault(vkey("unify", rep), []).append(
                {"problem": {k: p[k] for k in ("s", "t", "start")}, "observed": byid[p["id"]]["obs"],
                 "calls": byid[p["id"]]["calls"], "spec": {k: rep[k] for k in ("verdict", "why", "mgu", "steps")}})
    # vacuity guard: the replayed problems exercise every way the specification can answer
    for need in ("occurs", "clash", "flags-linear", "flags-affine", "-"):
        if not whys.get(need):
            raise lib.Machinery(f"vacuous sample: no problem with specification outcome {need!r}: {whys}")
    for need in ("unif", "none", "amb"):
        if not verdicts.get(need):
            raise lib.Machinery(f"vacuous sample: no problem with verdict {need!r}: {verdicts}")
    # 5. program level: generic calls
    g2 = TU.Gen(ctx.seed * 104729 + 5, program_level=True)
    n_call = 120 if FAST else ctx.pick(250, 4000)
    cps, seen = [], set()
    while len(cps) < n_call:
        p = g2.call_problem()
        key = json.dumps(p, sort_keys=True)
        if key in seen:
            continue
        seen.add(key)
        cps.append({"id": len(cps), **p})
    cobs = observe_all(cps, TU.observe_call_chunk)
    creps = validate(ctx, cobs, "c")
    call_verdicts = {}
    for o in cobs:
        rep = creps[o["id"]]
        call_verdicts[o["obs"][0] + "/" + rep["verdict"]] = call_verdicts.get(o["obs"][0] + "/" + rep["verdict"], 0) + 1
        if rep["kind"] in MISMATCH_IS_MACHINERY:
            raise lib.Machinery(f"{rep['kind']} on {json.dumps(o)}")
        if rep["kind"] not in ("ok", "skip"):
            kinds.setdefault(vkey("call", rep), []).append(
                {"problem": {k: o[k] for k in ("s", "t", "start")}, "observed": o["obs"], "src": o["src"],
                 "spec": {k: rep[k] for k in ("verdict", "why", "mgu", "steps")}})
    if call_verdicts.get("accept/unif", 0) < n_call // 20 or call_verdicts.get("reject/none", 0) < n_call // 20:
        raise lib.Machinery(f"program-level sample is lopsided: {call_verdicts}")
    for key, cs in sorted(kinds.items()):
        cs.sort(key=lambda c: len(json.dumps(c["problem"])))
        ctx.violation(key, f"{key}: {len(cs)} cases; smallest: unify({json.dumps(cs[0]['problem'])}) "
                           f"-> {json.dumps(cs[0]['observed'])[:300]}; specification: {json.dumps(cs[0]['spec'])[:300]}",
                      {"cases": cs[:25]})
    ctx.coverage.update({
        "traces_validated_against_impl": len(obs) + len(cobs),
        "evaluations": len(obs) + len(cobs),
        "distinct_nontrivial": nontrivial,
        "rule": "distinct (s, t, start) problems; non-trivial = the specification's algorithm needs >= 5 steps "
                "(at least one decomposition plus variable steps)",
        "samples": [{k: problems[i][k] for k in ("s", "t", "start")} for i in sorted({0, n_model // 2, min(n_model, len(problems) - 1), len(problems) - 1})],
        "exhaustive": False,
        "exhaustive_part": f"{n_model} problems of the two small universes (all pairs x all consistent starts)",
        "seeded_problems": n_rand,
        "spec_verdicts": verdicts,
        "spec_failure_reasons": whys,
        "program_level_calls": call_verdicts,
        "mismatch_classes": {k: len(v) for k, v in kinds.items()},
    })
    ctx.assumptions += ["TLC", "JSON projection of Type/Const objects (harness/ty_terms.py)",
                        "problems whose function types differ in flags at an input of variable copyability are "
                        "out of scope (verdict amb)"]


def replay(ctx, data):
    import ty_unify as TU

    cases = data["replay"]["cases"][:10]
    obs = []
    for i, c in enumerate(cases):
        p = {"id": i, **c["problem"]}
        obs.append(TU.observe_call(p) if "src" in c else TU.observe_unify(p))
    reps = validate(ctx, obs, "r")
    for i, c in enumerate(cases):
        print("problem:", json.dumps(c["problem"]))
        print("  code :", json.dumps(obs[i]["obs"])[:400], "calls", obs[i]["calls"])
        print("  spec :", json.dumps(reps[i])[:400])


def selftest(ctx):
    import ty_unify as TU

    a, b = ["ev", "a", "c"], ["ev", "b", "c"]
    I, Bo = ["num", "int"], ["opq", "bool", []]
    tup = lambda *x: ["tup", list(x)]
    P = [
        {"s": tup(a, b), "t": tup(tup(I), tup(Bo)), "start": []},      # unifiable
        {"s": tup(a, I), "t": tup(Bo, Bo), "start": []},               # clash
        {"s": tup(a, b), "t": tup(b, tup(I)), "start": []},            # unifiable, var-var
        {"s": a, "t": tup(a), "start": []},                            # occurs
    ]
    for i, p in enumerate(P):
        p["id"] = i
    obs = [TU.observe_unify(p) for p in P]
    base = validate(ctx, obs, "s0")
    if [base[i]["kind"] for i in range(4)] != ["ok"] * 4 or [base[i]["verdict"] for i in range(4)] != ["unif", "none", "unif", "none"]:
        raise lib.Machinery(f"selftest baseline unexpected: {base}")
    corrupt = [
        (0, ["none"], "missed-unifier"),                                   # flipped verdict
        (1, ["subst", [[a, Bo]]], "spurious-unifier"),                     # flipped verdict
        (0, ["subst", [[a, tup(I)]]], "not-a-unifier"),                    # dropped binding
        (2, ["subst", [[a, tup(I)], [b, tup(I)]]], None),                  # still an mgu (resolved) -> ok
        (2, ["subst", [[a, b], [b, tup(I)]]], None),
        (0, ["subst", [[a, tup(I)], [b, tup(Bo)], [["ev", "c", "c"], I]]], "not-most-general"),  # extra binding
        (3, ["subst", [[a, tup(a)]]], "cyclic-result"),
        (0, ["exc", "RecursionError"], "nontermination"),
    ]
    batch, wants = [], []
    for idx, o, want in corrupt:
        batch.append({**obs[idx], "id": len(batch), "obs": o})
        wants.append(want)
    batch.append({**obs[0], "id": len(batch), "calls": 10000})   # call budget overrun
    wants.append("step-budget")
    reps = validate(ctx, batch, "s1")
    for rec, want in zip(batch, wants):
        got = reps[rec["id"]]["kind"]
        if (want or "ok") != got:
            raise lib.Machinery(f"selftest: corrupted observation {rec['obs']} on problem {rec['s']} ~ {rec['t']} "
                                f"classified {got}, wanted {want or 'ok'}")
    # program level: flipped accept/reject
    cp = [{"id": 0, "s": tup(tup(a, I)), "t": tup(tup(Bo, I)), "start": []},
          {"id": 1, "s": tup(tup(a, a)), "t": tup(tup(Bo, I)), "start": []}]
    cobs = [TU.observe_call(p) for p in cp]
    reps = validate(ctx, cobs, "s3")
    if [reps[i]["kind"] for i in (0, 1)] != ["ok", "ok"] or cobs[0]["obs"][0] != "accept" or cobs[1]["obs"][0] != "reject":
        raise lib.Machinery(f"selftest: program-level baseline unexpected {cobs} {reps}")
    cobs[0]["obs"], cobs[1]["obs"] = cobs[1]["obs"], cobs[0]["obs"]
    reps = validate(ctx, cobs, "s4")
    if reps[0]["kind"] != "rejected-despite-instantiation" or reps[1]["kind"] != "accepted-without-instantiation":
        raise lib.Machinery(f"selftest: swapped program-level verdicts accepted: {reps}")


if __name__ == "__main__":
    lib.main("C12", run, replay, selftest)
