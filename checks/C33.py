"""C33 Experimental features are gated and the gate state is restored.

Decided by: spec/Gate.tla - state machine of guppylang_internals/experimental.py (flag, stack
of live context-manager objects with their saved value, ghost `pre`), with the properties
Restoration / SavedIsPrevious / CheckIsPure / GateLaw / EntrySets model-checked by TLC.
Binding (spec -> code): TLC enumerates every complete history (all with-blocks closed) of
enable()/disable() calls, `with enable..():`/`with disable..():` blocks left normally or by an
exception (nesting <= 3) and check(program) steps for 8 probe programs (list literal, list
comprehension, list type, function tensor, capturing closure, modifier block, ungated control),
each step annotated with the spec's expected flag and accept/reject + error title.  Every
history is replayed on the real module with real `with` statements and real `defn.check()`;
flag, verdict and exception propagation are compared after every step.
"""
import json
import os
import random
import shutil

import lib

ALL_FIRST = ["call:enable", "call:disable", "enter:enable", "enter:disable", "check:list_lit", "check:list_comp",
             "check:list_type", "check:tensor", "check:tensor_syn", "check:closure", "check:modifier", "check:plain"]
CHUNK = 400


def tlc_histories(ctx, cfg, first=None, **kw):
    """Run Gate.tla with spec/<cfg>; optionally restrict the first step (shard). Returns (result, histories)."""
    kw.setdefault("workers", 4)  # small models; the machine is shared
    if first is None:
        r = ctx.tlc("Gate", cfg, **kw)
    else:
        d = os.path.join(ctx.workdir, "gate_shard")
        os.makedirs(d, exist_ok=True)
        shutil.copy(os.path.join(lib.SPEC, "Gate.tla"), d)
        text = open(os.path.join(lib.SPEC, cfg)).read().splitlines()
        text = [("  FirstOps = {" + ", ".join(json.dumps(f) for f in first) + "}") if l.strip().startswith("FirstOps") else l
                for l in text]
        open(os.path.join(d, cfg), "w").write("\n".join(text) + "\n")
        r = ctx.tlc("Gate", cfg, spec_dir=d, **kw)
    if not r.ok:
        raise lib.Machinery(f"Gate.tla ({cfg}): TLC reports an error (specification problem):\n{r.error}")
    hists = [p for p in r.printed if isinstance(p, list)]
    return r, hists


def replay_all(hists, procs=None):
    import eng_gate
    import pool

    eng_gate.preload()  # import guppylang + load the probe programs once, before the pool forks
    jobs = [{"hists": hists[i:i + CHUNK]} for i in range(0, len(hists), CHUNK)]
    res = pool.map_jobs(eng_gate.replay_job, jobs, procs=procs, chunksize=1)
    bad = []
    for j, out in enumerate(res):
        for k, step, exp, obs in out:
            bad.append((hists[j * CHUNK + k], step, exp, obs))
    return bad


def enclosing_enter(h, step):
    """The enter step matching the exit at index `step` (or None)."""
    depth = 0
    for i in range(step - 1, -1, -1):
        if h[i][0] == "exit":
            depth += 1
        elif h[i][0] == "enter":
            if depth == 0:
                return h[i]
            depth -= 1
    return None


def classify(h, step, exp, obs):
    if step < 0 or exp is None or obs is None:
        return f"replay-failure: {obs}"
    site = f"{exp[0]}:{exp[1]}"
    if exp[0] == "exit":
        e = enclosing_enter(h, step)
        site += f" of with-{e[1] if e else '?'}"
    return f"{site}: expected flag={exp[2]} outcome={exp[3]!r}, observed flag={obs[2]} outcome={obs[3]!r}"


def stats(hists):
    st = {"histories": len(hists), "steps": 0, "checks": 0, "exc_exits": 0, "depth3": 0, "nested": 0,
          "restore_changes_flag": 0, "check_cells": set()}
    for h in hists:
        st["steps"] += len(h)
        d = md = 0
        prev = "F"
        for s in h:
            if s[0] == "enter":
                d += 1
                md = max(md, d)
            elif s[0] == "exit":
                d -= 1
                st["exc_exits"] += s[1] == "exc"
                st["restore_changes_flag"] += s[2] != prev
            elif s[0] == "check":
                st["checks"] += 1
                st["check_cells"].add((s[1], s[2]))
            prev = s[2]
        st["depth3"] += md >= 3
        st["nested"] += md >= 2
    return st


def run(ctx):
    import eng_tree

    eng_tree.freeze_tree(ctx)
    import eng_gate

    ctx.level = "model_checking"
    # 0. model Init: the gate is closed in a fresh interpreter
    d = eng_gate.default_flag_fresh_process()
    if d != "False":
        ctx.violation("default-flag", f"EXPERIMENTAL_FEATURES_ENABLED is {d} right after import; the gate must start closed "
                      "(spec Gate.tla Init: flag = FALSE)", {"history": []})
    total = {"histories": 0, "steps": 0, "checks": 0, "exc_exits": 0, "depth3": 0, "nested": 0,
             "restore_changes_flag": 0, "check_cells": set()}
    allbad = []
    samples = []

    def consume(hists):
        st = stats(hists)
        for k, v in st.items():
            total[k] = (total[k] | v) if isinstance(v, set) else total[k] + v
        if hists and len(samples) < 4:
            samples.append(hists[len(hists) // 2])
        allbad.extend(replay_all(hists, procs=ctx.pick(4, 12)))

    # 1. exhaustive enumeration + model-level properties (coverage of actions read once)
    if ctx.quick:
        r, hists = tlc_histories(ctx, "Gate.cfg", coverage=True)
        cov = r.coverage
        consume(hists)
        ctx.log(f"quick: {len(hists)} complete histories (<=4 steps + closing exits)")
    else:
        r, hists = tlc_histories(ctx, "Gate.cfg", coverage=True)
        cov = r.coverage
        del hists  # the thorough enumeration below is a superset of these prefixes
        for f in ALL_FIRST:
            r, hists = tlc_histories(ctx, "Gate_thorough.cfg", first=[f], heap="4g")
            consume(hists)
            ctx.log(f"thorough shard first={f}: {len(hists)} histories, mismatches so far {len(allbad)}")
    for act in ("Call", "Enter", "Exit", "Check"):
        if cov.get(act, (0, 0))[1] == 0:
            raise lib.Machinery(f"vacuous model run: action {act} never taken ({cov})")
    # 2. long random histories (simulation), deduplicated
    nsim = ctx.pick(1000, 20000)
    r, hists = tlc_histories(ctx, "Gate_sim.cfg", simulate=f"num={nsim // 3 + 1}", depth=80, seed=ctx.seed + 1,
                             heap="4g")
    eng_tree.count_sim_states(ctx, r)
    uniq = sorted({json.dumps(h) for h in hists})
    random.Random(ctx.seed).shuffle(uniq)
    sim = [json.loads(s) for s in uniq[:nsim]]
    consume(sim)
    ctx.log(f"simulation: {len(hists)} emitted, {len(uniq)} distinct, {len(sim)} replayed")

    # vacuity: every probe program must have been checked under both flag values, exits after which the flag differs
    # from the value inside the block must exist, so must exceptional exits and depth-3 nesting
    want = {(p, f) for p in eng_gate.PROGRAMS for f in "TF"}
    if want - total["check_cells"] or not (total["exc_exits"] and total["depth3"] and total["restore_changes_flag"]):
        raise lib.Machinery(f"vacuous enumeration: {total}")

    mach = [b for b in allbad if b[3] and "machinery" in str(b[3][3] if isinstance(b[3], list) else b[3])]
    if mach:
        raise lib.Machinery(f"source files unreadable during replay (tree modified concurrently?): {mach[0]}")
    groups = {}
    for h, step, exp, obs in allbad:
        groups.setdefault(classify(h, step, exp, obs), []).append((h, step, exp, obs))
    for key, cases in sorted(groups.items()):
        h, step, exp, obs = min(cases, key=lambda c: (len(c[0]), json.dumps(c[0])))
        ctx.violation(key, f"{len(cases)} histories disagree with Gate.tla at {key}; shortest: history={json.dumps(h)} "
                      f"step {step}: spec {exp} code {obs}", {"history": h, "step": step, "expected": exp, "observed": obs})
    total["check_cells"] = len(total["check_cells"])
    # unbounded-history argument (thorough tier): Apalache shows the restoration invariant inductive
    apa = "not run (quick tier)"
    if not ctx.quick:
        import subprocess
        pr = subprocess.run([os.path.join(lib.VERIF, "harness", "apalache_gate.sh")], capture_output=True, text=True, timeout=2400)
        if pr.returncode == 0:
            apa = "IndInv inductive (Init => IndInv, IndInv /\\ Next => IndInv'), nesting <= 3, unbounded history: " + pr.stdout.strip()
        elif pr.returncode == 1:
            raise lib.Machinery("Apalache refutes the inductive invariant of spec/apalache/GateInd.tla: " + pr.stdout[-500:])
        else:
            apa = "apalache did not complete: " + pr.stdout.strip()[-200:]
    ctx.coverage.update({
        "apalache_inductive_invariant": apa,
        "traces_validated_against_impl": total["histories"],
        "evaluations": total["steps"],
        "distinct_nontrivial": total["nested"],
        "rule": "complete histories (all blocks closed) emitted by TLC from Gate.tla, each replayed step by step on the "
                "real module; non-trivial = history with with-blocks nested >= 2",
        "samples": samples,
        "exhaustive": True,
        "bounds": ("all histories of <= 4 steps with <= 1 check (+ closing exits), nesting <= 3, 8 probe programs" if ctx.quick else
                   "all histories of <= 5 steps with <= 3 checks (+ closing exits), nesting <= 3, 8 probe programs") +
                  f"; plus {len(sim)} random histories of 16 steps (TLC simulation, seed {ctx.seed + 1})",
        "history_stats": total,
        "tlc_action_coverage": {k: list(v) for k, v in cov.items()},
        "mismatching_histories": len(allbad),
    })
    ctx.assumptions += ["TLC", "probe programs (tests/error/experimental_errors) are representative uses of each gated "
                        "feature", "context managers used as `with f():` (construction and entry together)",
                        "single-threaded use of the process-global flag"]


def replay(ctx, data):
    import eng_tree

    eng_tree.freeze_tree(ctx)
    import eng_gate

    h = data["replay"]["history"]
    obs = eng_gate.replay(h)
    for i, (e, o) in enumerate(zip(h, obs)):
        print(i, "spec:", e, "code:", o, "" if e == o else "   <-- MISMATCH")
    if obs != h:
        ctx.violation(data.get("key", "replay"), "history still disagrees", data["replay"])


def selftest(ctx):
    import eng_tree

    eng_tree.freeze_tree(ctx)
    import eng_gate
    import guppylang_internals.experimental as ex

    r, hists = tlc_histories(ctx, "Gate.cfg")
    random.Random(ctx.seed).shuffle(hists)
    hists = [h for h in hists if any(s[0] == "check" for s in h) and any(s[0] == "exit" for s in h)][:1500]
    if len(hists) < 100:
        raise lib.Machinery("selftest: too few histories")
    if eng_gate.replay_job({"hists": hists}):
        raise lib.Machinery("selftest: baseline histories already disagree")
    # (a) corrupt one expected field of one step: flag after an exit, a verdict, a propagation outcome
    flips = 0
    for h in hists[:60]:
        for i, s in enumerate(h):
            for fld in (2, 3):
                h2 = [list(x) for x in h]
                if fld == 2:
                    h2[i][2] = "T" if s[2] == "F" else "F"
                elif s[0] == "check":
                    h2[i][3] = "acc" if s[3] != "acc" else "Experimental feature: Lists"
                elif s[0] == "exit" and s[1] == "exc":
                    h2[i][3] = "swallowed"
                else:
                    continue
                flips += 1
                if not eng_gate.replay_job({"hists": [h2]}):
                    raise lib.Machinery(f"selftest: corrupted expectation accepted: {h2} step {i} field {fld}")
    # (b) drop a step that changes the flag: the following expectations no longer fit
    h = [["call", "enable", "T", ""], ["check", "tensor", "T", "acc"]]
    if not eng_gate.replay_job({"hists": [h[1:]]}):
        raise lib.Machinery("selftest: history with dropped enable() accepted")
    # (c) mutated gate in this process only: each must be flagged by the replay of the enumerated histories
    allh = hists
    orig_exit = ex.disable_experimental_features.__exit__
    orig_init = ex.enable_experimental_features.__init__
    orig_mod = ex.check_modifiers_enabled

    def bad_exit(self, *a):
        ex.EXPERIMENTAL_FEATURES_ENABLED = True

    def bad_init(self):
        ex.EXPERIMENTAL_FEATURES_ENABLED = True
        self.original = ex.EXPERIMENTAL_FEATURES_ENABLED

    def swallowing_exit(self, *a):
        orig_exit(self, *a)
        return True

    muts = {"disable.__exit__ sets True": (ex.disable_experimental_features, "__exit__", bad_exit),
            "enable.__init__ saves after setting": (ex.enable_experimental_features, "__init__", bad_init),
            "disable.__exit__ swallows exceptions": (ex.disable_experimental_features, "__exit__", swallowing_exit)}
    for name, (cls, attr, fn) in muts.items():
        old = getattr(cls, attr)
        setattr(cls, attr, fn)
        try:
            bad = eng_gate.replay_job({"hists": allh})
        finally:
            setattr(cls, attr, old)
        if not bad:
            raise lib.Machinery(f"selftest: in-process mutation '{name}' not detected")
    assert ex.disable_experimental_features.__exit__ is orig_exit and ex.enable_experimental_features.__init__ is orig_init
    assert ex.check_modifiers_enabled is orig_mod
    ctx.log(f"selftest: {flips} corrupted expectations rejected, 3 in-process gate mutations detected")


if __name__ == "__main__":
    lib.main("C33", run, replay, selftest)
