"""C18 range() yields Python's sequence.

Decided by: spec/Range.tla - PyRange (declarative) vs the (next, stop, step) iterator;
TLC checks iterator = PyRange, the progression / shift / scale laws, and the static size of
the comptime overload, and prints for every call of a box the sequence it must yield.

Binding (spec -> code): ONE compiled Guppy function per form (`for i in range(a, b, c)`,
two- and one-argument forms) is called on the interpreter with
  * every call of the small box (start, stop in -6..6, steps +-1..3) as is, and - by
    ShiftLaw - anchored at 2^63-1 and at -2^63 (all int64 inputs near the bounds),
  * every call of a Width-bit box scaled by 2^(64-Width) (ScaleLaw): huge steps and
    ranges spanning the whole int64 domain,
and must report exactly the printed sequence (a longer one is cut by a run-time limit and is
a violation, not a hang).  CPython's range is evaluated on every decoded call as a guard
on the specification (disagreement = machinery failure).
Comptime-sized range(n), n in 0..6: programs demanding m in {n-1, n, n+1} elements (unpacking,
array comprehension annotated array[int, m], SizedIter[Range, m] return annotation) must be
accepted iff the spec's static size equals m, and accepted ones must yield 0..n-1.
"""
import collections
import json
import random

import lib
import coll_range as cr

CHUNK = 400


def tlc_records(ctx, cfg):
    r = ctx.tlc("Range", cfg, timeout=3000)
    if not r.ok:
        raise lib.Machinery(f"Range.tla / {cfg}: specification error:\n{r.error}")
    return [p for p in r.printed if isinstance(p, dict)]


def decode_cases(records, family, shift=0, scale=1):
    """TLC call records -> concrete int64 calls with the sequence the spec demands."""
    out = []
    for p in records:
        if "call" not in p:
            continue
        a, b, c = p["call"]
        call = [a * scale + shift, b * scale + shift, c * scale]
        if not all(cr.MIN <= x <= cr.MAX for x in call):
            continue
        seq = [x * scale + shift for x in p["expect"]]
        if shift == 0 and scale == 1:
            forms = p["forms"]
        elif scale == 1:
            forms = [f for f in p["forms"] if f != "r1"]      # start = 0 is not anchored
        else:
            forms = ["r3"]
        if list(range(*call)) != seq:          # guard on the specification, see DESIGN 2.4
            raise lib.Machinery(f"Range.tla disagrees with CPython on range{tuple(call)}: spec {seq[:8]}..")
        for f in forms:
            out.append({"family": family, "form": f, "call": call, "expect": seq, "model": p["call"]})
    return out


def run_cases(cases):
    import pool
    import runner

    groups = collections.defaultdict(list)
    for i, c in enumerate(cases):
        groups[c["form"]].append(i)
    jobs = []
    for form, idxs in sorted(groups.items()):
        for k in range(0, len(idxs), CHUNK):
            part = idxs[k:k + CHUNK]
            jobs.append({"id": part, "src": cr.DRIVER, "entry": form, "validate": k == 0, "budget": 100_000,
                         "args": [cr.args_for(form, cases[i]["call"], len(cases[i]["expect"]) + 2) for i in part]})
    results = pool.map_jobs(runner.run_job, jobs, chunksize=1)
    observed = [None] * len(cases)
    for job, res in zip(jobs, results):
        if res["status"] != "ok":
            raise lib.Machinery(f"range driver {job['entry']}: {res['status']} {res.get('error')}")
        for i, run in zip(job["id"], res["runs"]):
            if run["end"] in ("unsupported", "interp_error"):
                raise lib.Machinery(f"interpreter: {run['end']} {run.get('msg')} on {cases[i]}")
            ev = cr.project(run.get("events", []))
            if run["end"] == "budget":
                ev.append(["step budget exhausted", 0])
            observed[i] = ev
    return observed


def show(c):
    a, b, cc = c["call"]
    return {"r3": f"range({a}, {b}, {cc})", "r2": f"range({a}, {b})", "r1": f"range({b})"}[c["form"]]


def classify(c, obs):
    """(class of the disagreement, is it the int64 wrap-around class)"""
    exp = c["expect"]
    vals = [e[1] for e in obs if e[0] == "i"]
    step = c["call"][2]
    sign = "positive" if step > 0 else "negative"
    if exp and vals[:len(exp)] == exp and len(vals) > len(exp) and vals[len(exp)] == cr.wrap64(exp[-1] + step) \
            and not (cr.MIN <= exp[-1] + step <= cr.MAX):
        return f"Range.__next__: next + step wraps past int64 ({sign} step)", True
    if any(e[0] == "panic" for e in obs):
        kind = "panics"
    elif vals[:len(exp)] == exp and len(vals) > len(exp):
        kind = "yields extra values"
    elif vals == exp[:len(vals)]:
        kind = "stops early"
    else:
        kind = "yields different values"
    return f"{c['form']} with {sign} step {kind}", False


def static_cases(records):
    out = []
    for p in records:
        if "static" not in p:
            continue
        for verdict in ("accept", "reject"):
            for m in p[verdict]:
                for form in ("unpack", "array", "annot"):
                    out.append({"n": p["static"], "m": m, "form": form, "accept": verdict == "accept",
                                "expect": p["expect"]})
    return out


def run_static(cases):
    import pool
    import runner

    jobs = [{"id": i, "src": cr.STATIC_PRELUDE_EXTRA + cr.static_src(c["form"], c["n"], c["m"]), "entry": "main",
             "args": [[]], "budget": 50_000} for i, c in enumerate(cases)]
    return pool.map_jobs(runner.run_job, jobs, chunksize=2)


def check_static(ctx, cases, results):
    bad = 0
    for c, res in zip(cases, results):
        name = f"comptime range({c['n']}) {c['form']} demanding {c['m']} elements"
        if res["status"] not in ("ok", "rejected"):
            if res["status"] == "machinery":
                raise lib.Machinery(f"{name}: {res.get('error')}")
            ctx.violation(f"{name}: {res['status']}", f"{name}: compiler {res['status']} {json.dumps(res.get('error'))[:300]} "
                          f"(specification: {'accept' if c['accept'] else 'reject with a type error'})", c)
            bad += 1
            continue
        accepted = res["status"] == "ok"
        if accepted != c["accept"]:
            ctx.violation(f"{name}: {'accepted' if accepted else 'rejected'}",
                          f"{name}: {'accepted' if accepted else 'rejected ' + json.dumps(res.get('error'))[:200]}, "
                          f"but the static size of range({c['n']}) is {c['n']}", c)
            bad += 1
        elif accepted:
            run = res["runs"][0]
            if run["end"] in ("unsupported", "interp_error"):
                raise lib.Machinery(f"interpreter: {run['end']} {run.get('msg')} on {name}")
            if cr.project(run["events"]) != cr.expected_events(c["expect"]):
                ctx.violation(f"{name}: wrong values", f"{name}: yields {cr.project(run['events'])}, "
                              f"specification {cr.expected_events(c['expect'])}", c)
                bad += 1
    return bad


def build_cases(ctx):
    small = tlc_records(ctx, "Range_GenSmall.cfg")
    cases = decode_cases(small, "small")
    cases += decode_cases(small, "near +2^63", shift=cr.MAX)
    cases += decode_cases(small, "near -2^63", shift=cr.MIN)
    width = ctx.pick(4, 5)
    wide = tlc_records(ctx, f"Range_GenW{width}.cfg")
    cases += decode_cases(wide, f"{width}-bit box x 2^{64 - width}", scale=1 << (64 - width))
    return small, cases, width


def run(ctx):
    ctx.level = "model_checking"
    r = ctx.tlc("Range", coverage=True, timeout=3000)
    if not r.ok:
        raise lib.Machinery("Range.tla: iterator does not equal PyRange / a law fails (specification error):\n" + r.error)
    if any(r.coverage.get(a, (0, 0))[0] == 0 for a in ("Yield", "Stop")):
        raise lib.Machinery("Range.tla: vacuous run")
    small, cases, width = build_cases(ctx)
    ctx.log(f"{len(cases)} calls")
    observed = run_cases(cases)
    bad = [i for i, (c, o) in enumerate(zip(cases, observed)) if o != cr.expected_events(c["expect"])]
    groups = collections.defaultdict(list)
    for i in bad:
        groups[classify(cases[i], observed[i])].append(i)
    for (cls, is_wrap), idxs in sorted(groups.items()):
        idxs.sort(key=lambda i: (len(cases[i]["expect"]), [abs(x) for x in cases[i]["call"]]))
        ex = [{"form": cases[i]["form"], "call": cases[i]["call"], "expect": cases[i]["expect"][-3:],
               "observed": observed[i][-6:]} for i in idxs[:10]]
        # the wrap-around class is one finding; any other class is reported by its smallest calls
        for i in (idxs[:1] if is_wrap else idxs[:3]):
            c0 = cases[i]
            ctx.violation(cls if is_wrap else f"{show(c0)}: {cls.split(' step ')[-1]}",
                          f"{show(c0)} must yield {c0['expect']} (Python) but the compiled program reports "
                          f"{observed[i]}; {len(idxs)} of {len(cases)} calls in class `{cls}`, e.g. "
                          f"{[show(cases[j]) for j in idxs[:5]]}", {"cases": ex if is_wrap else [{"form": c0["form"], "call": c0["call"]}]})
    # what the model of the code with wrapping addition predicts (information for triage only)
    if width == 4:
        pred = {tuple(p["diverges"]) for p in tlc_records(ctx, "Range_Wrap4.cfg") if "diverges" in p}
        seen = {tuple(cases[i]["model"]) for i in bad if cases[i]["family"].startswith("4-bit")}
        ctx.coverage["wrap_model"] = {"calls_predicted_to_diverge_with_4bit_wrapping_add": len(pred),
                                      "scaled_calls_that_disagree": len(seen), "same_set": pred == seen}
    # comptime-sized range(n)
    st = static_cases(small)
    if len(st) < 50:
        raise lib.Machinery(f"only {len(st)} static cases generated")
    sbad = check_static(ctx, st, run_static(st))
    fam = collections.Counter(c["family"] for c in cases)
    rnd = random.Random(ctx.seed)
    ctx.coverage.update({
        "traces_validated_against_impl": len(cases) + len(st),
        "evaluations": sum(len(c["expect"]) + 1 for c in cases),
        "distinct_nontrivial": sum(1 for c in cases if len(c["expect"]) >= 2),
        "rule": "distinct (form, start, stop, step) calls executed on the compiled code with the full yielded "
                "sequence compared; non-trivial = Python's sequence has >= 2 elements",
        "samples": [{"call": show(c), "expect": c["expect"]} for c in rnd.sample(cases, 4)],
        "exhaustive": True,
        "exhaustive_scope": f"all start/stop in -6..6 x steps +-1..3 (also anchored at +-2^63, one/two-argument forms); "
                            f"all calls of the {width}-bit box scaled by 2^{64 - width}; comptime sizes 0..6 x 3 forms x m in n-1..n+1",
        "calls_by_family": dict(fam), "calls_disagreeing": len(bad), "empty_sequences": sum(1 for c in cases if not c["expect"]),
        "negative_step_calls": sum(1 for c in cases if c["call"][2] < 0),
        "static_cases": len(st), "static_disagreeing": sbad,
    })
    ctx.assumptions += ["TLC", "reference HUGR interpreter (wrapping 64-bit iadd)", "compat shim",
                        "CPython range as guard of the specification", "shift/scale laws (TLC-checked on the small box) "
                        "carry the small-box expectations to the int64 bounds"]


def replay(ctx, data):
    for c in data["replay"].get("cases", []):
        case = {"form": c["form"], "call": c["call"], "expect": list(range(*c["call"])), "family": "replay", "model": None}
        obs = run_cases([case])[0]
        print(show(case), "python:", case["expect"][:10], "code:", obs[:12])


def selftest(ctx):
    small, cases, _ = build_cases(ctx)
    pick = [c for c in cases if c["family"] == "small" and len(c["expect"]) >= 2][:40] + \
           [c for c in cases if c["family"] != "small" and 1 <= len(c["expect"]) and
            cr.MIN <= c["expect"][-1] + c["call"][2] <= cr.MAX][:40]
    observed = run_cases(pick)
    if any(o != cr.expected_events(c["expect"]) for c, o in zip(pick, observed)):
        raise lib.Machinery("selftest: baseline calls disagree")
    # corrupted expectations (one value changed / one dropped / one extra) must be flagged
    n = 0
    for c, o in zip(pick, observed):
        for mut in (lambda s: s[:-1], lambda s: s + [s[-1] + c["call"][2]], lambda s: [s[0] + 1] + s[1:]):
            if o == cr.expected_events(mut(list(c["expect"]))):
                raise lib.Machinery(f"selftest: corrupted expectation accepted for {show(c)}")
            n += 1
    # a flipped static verdict must be flagged
    st = static_cases(small)[:12]
    res = run_static(st)
    flipped = [dict(c, accept=not c["accept"]) for c in st]

    class Probe:
        def __init__(self):
            self.v = []

        def violation(self, key, what, replay=None):
            self.v.append(key)

    p0, p1 = Probe(), Probe()
    check_static(p0, st, res)
    check_static(p1, flipped, res)
    if p0.v or len(p1.v) != len(st):
        raise lib.Machinery(f"selftest: static verdicts: genuine flagged {p0.v}, flipped flagged {len(p1.v)} of {len(st)}")
    ctx.log(f"selftest: {n} corrupted sequences and {len(st)} flipped static verdicts flagged")


if __name__ == "__main__":
    lib.main("C18", run, replay, selftest)
