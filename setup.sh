#!/bin/sh
# Offline setup: parse every specification, check the shim resolves guppylang to /repo,
# and run the interpreter smoke test.
set -e
HERE=$(cd "$(dirname "$0")" && pwd)
cd "$HERE"
mkdir -p work evidence replays
# scratch of the JVM / Python started here goes to a directory that is removed again (nothing is left under /tmp)
SCRATCH=$(mktemp -d "$HERE/work/setup_XXXXXX")
trap 'rm -rf "$SCRATCH"' EXIT
export TMPDIR="$SCRATCH" JAVA_TOOL_OPTIONS="-Djava.io.tmpdir=$SCRATCH"
for f in spec/*.tla; do
  out=$(cd spec && tla-sany "$(basename "$f")" 2>&1) || { echo "$out" | tail -20; echo "SANY failed: $f"; exit 1; }
  case "$out" in *"Semantic errors"*|*"Parse Error"*|*"Fatal errors"*) echo "$out" | tail -20; echo "SANY failed: $f"; exit 1;; esac
done
PYTHONDONTWRITEBYTECODE=1 PYTHONPATH="$HERE/harness:$HERE/harness/compat" /venv/bin/python "$HERE/harness/smoke.py"
echo "setup ok"
