SPECIFICATION Spec
CONSTANTS
  Kinds = {"int", "qubit"}
  Ns = {1, 2, 3}
  Pad = 2
  MaxOps = 2
  Terms = {"index", "unpack", "starL", "starR", "starM", "starLL", "starRR", "iter", "comp", "copy"}
  Record = FALSE
INVARIANT NothingLent
INVARIANT OrderLaw
PROPERTY FrameOK
PROPERTY PanicOnlyBad
PROPERTY CompleteOnlyGood
CHECK_DEADLOCK FALSE
