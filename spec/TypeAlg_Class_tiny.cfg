SPECIFICATION Spec
CONSTANTS
  Depth = 2
  TupW = 1
INVARIANT TupleLaw
INVARIANT ArrayLaw
INVARIANT EitherLaw
INVARIANT FrozenLaw
INVARIANT FnLaw
INVARIANT QubitLaw
INVARIANT StructLaw
INVARIANT BoundsSound
INVARIANT DropLaw
INVARIANT HugrSafe
INVARIANT HugrConverseOnlyPhantom
INVARIANT Emit
CHECK_DEADLOCK FALSE
