----------------------------- MODULE NumOpsLaws -----------------------------
(* Design-level check of NumOps!Expected at a small width: laws of PYTHON's integer
   semantics that relate operators which NumOps computes by independent routes
   (>> by BvAshr/BvLshr vs // by ZDivMod, ** by squaring vs repeated *, reflected forms,
   result types), over all operand pairs and all nat/int operand-type pairs.       *)
EXTENDS Integers, Sequences, TLC

CONSTANTS NL, LB, FP
INSTANCE NumOps

Word == [1..NL -> 0..(B - 1)]
ITypes == {"nat", "int"}
VARIABLES a, b, ta, tb, ph
vars == <<a, b, ta, tb, ph>>
Init == a \in Word /\ b = Zero(NL) /\ ta \in ITypes /\ tb \in ITypes /\ ph = 0
Next == ph = 0 /\ ph' = 1 /\ a' = a /\ b' \in Word /\ UNCHANGED <<ta, tb>>
Spec == Init /\ [][Next]_vars

V(w) == [w |-> w, s |-> 0, e |-> 0, x |-> 0]
F(op, t, u) == [op |-> op, ta |-> t, tb |-> u, blit |-> 0, lneg |-> 0]
E(op) == Expected(F(op, ta, tb), V(a), V(b))                  \* a op b
R(op) == Expected(F(op, tb, ta), V(b), V(a))                  \* b op a
U1(op, t, w) == Expected(F(op, t, "none"), V(w), V(BvZero))
J == Join(ta, tb)

ResultTypes ==
    /\ \A op \in {"+", "-", "*", "&", "|", "^"} : E(op).def /\ E(op).ty = J
    /\ \A op \in {"==", "!=", "<", "<=", ">", ">="} : E(op).def => E(op).ty = "bool"
    /\ \A op \in {"//", "%", "<<", ">>", "**"} : E(op).def => E(op).ty = J
    /\ E("/").def => E("/").ty = "float"
Reflected ==
    /\ E("+").v = R("+").v /\ E("*").v = R("*").v /\ E("&").v = R("&").v
    /\ (E("<").def /\ R(">").def) => E("<").v = R(">").v
    /\ (E("<=").def /\ R(">=").def) => E("<=").v = R(">=").v
    /\ E("==").def => (E("==").v # E("!=").v)
    /\ E("<").def => (BvAdd(BvAdd(E("<").v.w, E("==").v.w), E(">").v.w) = BvOne)         \* trichotomy
DivModIdentity ==
    E("//").def =>
       /\ E("%").def /\ E("divmod0").v = E("//").v /\ E("divmod1").v = E("%").v
       /\ BvAdd(BvMul(E("//").v.w, b), E("%").v.w) = a                                   \* a = (a//b)*b + a%b
       \* the remainder is zero or has the sign of the divisor, and is smaller in magnitude
       /\ LET r == ZAt(J, E("%").v)
              d == ZAt(J, V(b))
          IN  (NIsZero(r.mag) \/ r.neg = d.neg) /\ NCmp(r.mag, d.mag) < 0
ShiftIsMulDiv ==
    LET k == ShiftCount(b)
        p == BvShl(BvOne, IF k >= 0 THEN k ELSE 0)                                     \* 2^k
        two_k == [op |-> "//", ta |-> ta, tb |-> ta, blit |-> 0, lneg |-> 0]
    IN  /\ E("<<").def <=> k >= 0
        /\ E("<<").def => E("<<").v.w = BvMul(a, p)
        \* a >> k = a // 2^k (floor), whenever 2^k is representable at the type of a
        /\ (tb = ta /\ E(">>").def /\ (ta = "nat" \/ k < W - 1)) =>
               E(">>").v.w = Expected(two_k, V(a), V(p)).v.w
PowIsRepeatedMul ==
    LET k == ShiftCount(b)        \* small exponents only
    IN  (k >= 0 /\ k < 6 /\ E("**").def) =>
           E("**").v.w = (CASE k = 0 -> BvOne [] k = 1 -> a [] k = 2 -> BvMul(a, a) [] k = 3 -> BvMul(a, BvMul(a, a))
                            [] k = 4 -> BvMul(BvMul(a, a), BvMul(a, a)) [] k = 5 -> BvMul(a, BvMul(BvMul(a, a), BvMul(a, a))))
Unary ==
    /\ U1("neg", "int", a).v.w = Expected(F("-", "int", "int"), V(BvZero), V(a)).v.w     \* -a = 0 - a
    /\ U1("inv", ta, a).v.w = BvSub(BvNeg(a), BvOne)                                       \* ~a = -a - 1
    /\ U1("abs", "int", a).v.w = (IF Expected(F("<", "int", "int"), V(a), V(BvZero)).v.w = BvOne
                                   THEN U1("neg", "int", a).v.w ELSE a)
    /\ U1("bool", ta, a).v # U1("not", ta, a).v
    /\ U1("co_int", "nat", a).def <=> ~BvIsNeg(a)
FloatRoundTrip ==
    \* int -> float -> int is the identity exactly when the integer is representable
    LET f  == U1("float", ta, a)
        bk == Expected(F(IF ta = "nat" THEN "nat" ELSE "int", "float", "none"), f.v, V(BvZero))
    IN  /\ f.def
        /\ DRepr(DOfZ(ZVal(ta, V(a)))) => (bk.def /\ bk.v.w = a)
        /\ U1("co_float", ta, a) = f

Laws == ph = 1 => /\ ResultTypes /\ Reflected /\ DivModIdentity /\ ShiftIsMulDiv
                  /\ PowIsRepeatedMul /\ Unary /\ FloatRoundTrip
=============================================================================
