------------------------------- MODULE Render -------------------------------
(* Geometry of a rendered diagnostic (C29).  Mirrors the observable contract of
   guppylang_internals/diagnostic.py  DiagnosticsRenderer.render_diagnostic /
   render_snippet / wrap  and  span.py  SourceMap.span_lines, Span.shift_left.

   What is modelled
   * A source file is a map  line number -> line shape, a shape being a sequence over
     {0 = space, 1 = letter}.  The first `base` lines all have shape `fill`, then follow
     `lines`.  (Letters of line n are rendered with the letter code 1 + n % 7, so that a
     row showing the wrong line is visible even when the shapes agree.)
   * A span is [sl, sc, el, ec]: start inclusive, end exclusive, lines from 1, columns
     from 0, as in span.py.  Texts (title, labels, messages) are sequences of paragraphs,
     a paragraph being a sequence of word ids (integers); level prefixes are the
     reserved tokens -1 "Error:", -2 "Note:", -3 "Help:".
   * The rendering is a sequence of ROWS.  The operator `Items` gives, for a diagnostic,
     the sequence of expected items:
        "row"  - exactly this row
        "mark" - the marker row under a source line followed by the (wrapped) label
        "text" - a wrapped message
     Where the property leaves freedom (at which blank a text is wrapped, how far
     continuation lines are indented) the item leaves it open; module Render_Trace
     resolves it against an observed rendering.
   * The declarative core: SpanCols (which columns of a line are spanned), Common /
     Remove (how much common indentation is dropped), the rows shown.

   Model-checked here (Render.cfg): coherence laws of that geometry over every source of
   <= MaxLines lines built from Indents x Bodies and every span inside it.  With
   VERIF_EMIT set, every enumerated case is printed so that the harness renders exactly
   the enumerated cases with the real code (spec -> code direction).                    *)
EXTENDS Naturals, Integers, Sequences, FiniteSets, TLC, Json, IOUtils

CONSTANTS MaxLead,     \* common indentation above which it is trimmed    (MAX_LEADING_WHITESPACE)
          OptLead,     \* common indentation that is left after trimming  (OPTIMAL_LEADING_WHITESPACE)
          PrefixCtx,   \* context lines shown before the primary span     (PREFIX_CONTEXT_LINES)
          Indents, Bodies, MaxLines, Bases, FillShape   \* case space of the model (cfg)

Min2(a, b) == IF a <= b THEN a ELSE b
Max2(a, b) == IF a >= b THEN a ELSE b
MinS(S) == CHOOSE x \in S : \A y \in S : x <= y
MaxS(S) == CHOOSE x \in S : \A y \in S : x >= y
Digits(n) == IF n < 10 THEN 1 ELSE IF n < 100 THEN 2 ELSE IF n < 1000 THEN 3 ELSE IF n < 10000 THEN 4 ELSE 5
Spaces(n) == [j \in 1..n |-> 0]
Drop(s, k) == IF k >= Len(s) THEN <<>> ELSE SubSeq(s, k + 1, Len(s))

\* ---- source ---------------------------------------------------------------------------
NLines(c) == c.base + Len(c.lines)
Shape(c, ln) == IF ln <= c.base THEN c.fill ELSE c.lines[ln - c.base]
Letter(ln) == 1 + (ln % 7)
LineText(c, ln) == LET s == Shape(c, ln) IN [j \in 1..Len(s) |-> IF s[j] = 0 THEN 0 ELSE Letter(ln)]
\* number of leading blanks (a blank-only line counts in full, as len(l) - len(l.lstrip()))
RECURSIVE IndentFrom(_, _)
IndentFrom(s, j) == IF j > Len(s) \/ s[j] # 0 THEN j - 1 ELSE IndentFrom(s, j + 1)
Indent(s) == IndentFrom(s, 1)

\* ---- spans ----------------------------------------------------------------------------
LocLE(l1, c1, l2, c2) == l1 < l2 \/ (l1 = l2 /\ c1 <= c2)
LocLT(l1, c1, l2, c2) == l1 < l2 \/ (l1 = l2 /\ c1 < c2)
SpanInSource(c, sp) ==
    /\ 1 <= sp.sl /\ sp.sl <= sp.el /\ sp.el <= NLines(c)
    /\ LocLE(sp.sl, sp.sc, sp.el, sp.ec)
    /\ 0 <= sp.sc /\ sp.sc <= Len(Shape(c, sp.sl))
    /\ 0 <= sp.ec /\ sp.ec <= Len(Shape(c, sp.el))
\* the columns of line ln covered by the half-open span
SpanCols(c, sp, ln) ==
    {col \in 0..(Len(Shape(c, ln)) - 1) : LocLE(sp.sl, sp.sc, ln, col) /\ LocLT(ln, col, sp.el, sp.ec)}

\* ---- indentation trimming -------------------------------------------------------------
Common(c, from, to) == MinS({Indent(Shape(c, ln)) : ln \in from..to})
Remove(c, from, to) == LET m == Common(c, from, to) IN IF m > MaxLead THEN m - OptLead ELSE 0

\* ---- rows -----------------------------------------------------------------------------
\* k: "head" | "src" | "g" (gutter row without number) | "ell" | "blank" | "msg"
\* head: no = line, lead = column, n = level; src: no = line number, txt = characters;
\* g: lead blanks, n markers of kind ch (1 = ^, 2 = -), gap blanks, txt = words of that line
Row(k, gw, no, lead, n, ch, gap, txt) ==
    [k |-> k, gw |-> gw, no |-> no, lead |-> lead, n |-> n, ch |-> ch, gap |-> gap, txt |-> txt]
RowItem(r) == [t |-> "row", r |-> r]
PadRow(gw) == Row("g", gw, 0, 0, 0, 0, 0, <<>>)

Snippet(c, sp, label, gw, primary, pctx) ==
    LET p     == Min2(pctx, sp.sl - 1)
        first == sp.sl - p
        rm    == Remove(c, first, sp.el)
        src(ln) == RowItem(Row("src", gw, ln, 0, 0, 0, 0, Drop(LineText(c, ln), rm)))
        mark(ln, paras) ==
            LET vis == {col - rm : col \in {x \in SpanCols(c, sp, ln) : x >= rm}}
            IN [t |-> "mark", gw |-> gw,
                lead |-> IF vis = {} THEN -1 ELSE MinS(vis),   \* -1: position of an empty marker run is free
                n |-> Cardinality(vis),
                ch |-> IF vis = {} THEN 0 ELSE IF primary THEN 1 ELSE 2,
                paras |-> paras]
    IN  <<RowItem(PadRow(gw))>>
        \o [j \in 1..p |-> src(first + j - 1)]
        \o (IF sp.sl = sp.el
            THEN <<src(sp.sl), mark(sp.sl, label)>>
            ELSE <<src(sp.sl), mark(sp.sl, <<>>)>>
                 \o (IF sp.el - sp.sl >= 2 THEN <<RowItem(Row("ell", gw, 0, 0, 0, 0, 0, <<>>))>> ELSE <<>>)
                 \o <<src(sp.el), mark(sp.el, label)>>)

LevelTok(lvl) == IF lvl = "error" THEN -1 ELSE IF lvl = "note" THEN -2 ELSE -3
WithPrefix(tok, paras) == <<(<<tok>> \o paras[1])>> \o Drop(paras, 1)
TextItems(tok, paras) ==
    <<RowItem(Row("blank", 0, 0, 0, 0, 0, 0, <<>>)), [t |-> "text", paras |-> WithPrefix(tok, paras)]>>
RECURSIVE Cat(_)
Cat(ss) == IF ss = <<>> THEN <<>> ELSE Head(ss) \o Cat(Tail(ss))

SubsWithSpan(c) == {j \in 1..Len(c.subs) : c.subs[j].hasSpan}
MaxLineNo(c) == MaxS({c.span.el} \cup {c.subs[j].span.el : j \in SubsWithSpan(c)})

\* the whole rendering of diagnostic c
Items(c) ==
    IF ~c.hasSpan
    THEN <<[t |-> "text", paras |-> WithPrefix(-1, IF c.msg # <<>> THEN c.msg ELSE <<c.title>>)]>>
    ELSE LET gw == Digits(MaxLineNo(c)) IN
         <<RowItem(Row("head", 0, c.span.sl, c.span.sc, 1, 0, 0, c.title))>>
         \o Snippet(c, c.span, c.label, gw, TRUE, PrefixCtx)
         \o Cat([j \in 1..Len(c.subs) |->
                   IF c.subs[j].hasSpan THEN Snippet(c, c.subs[j].span, c.subs[j].label, gw, FALSE, 0) ELSE <<>>])
         \o (IF c.msg # <<>> THEN <<RowItem(Row("blank", 0, 0, 0, 0, 0, 0, <<>>)), [t |-> "text", paras |-> c.msg]>> ELSE <<>>)
         \o Cat([j \in 1..Len(c.subs) |->
                   IF c.subs[j].msg # <<>> THEN TextItems(LevelTok(c.subs[j].lvl), c.subs[j].msg) ELSE <<>>])

\* =======================================================================================
\* Model: every source / span of the configured case space; laws as invariants
\* =======================================================================================
VARIABLES c, its, rm0, seed   \* the case, its expected items (= Items(c)), columns trimmed from the primary
                              \* snippet, TRUE for the first case of a source
LineShapes == {Spaces(i) \o b : i \in Indents, b \in Bodies}
Sources == UNION {[1..n -> LineShapes] : n \in 1..MaxLines}
Case(b, ls, sl, sc, el, ec) ==
    [base |-> b, fill |-> FillShape, lines |-> ls, hasSpan |-> TRUE,
     span |-> [sl |-> sl, sc |-> sc, el |-> el, ec |-> ec],
     title |-> <<1, 2>>, label |-> <<<<3, 4>>>>, msg |-> <<>>, subs |-> <<>>]

\* one initial state per source (span = empty span at the very start) ...
Init == \E b \in Bases, ls \in Sources :
          /\ c = Case(b, ls, b + 1, 0, b + 1, 0)
          /\ its = Items(c)
          /\ rm0 = Remove(c, c.span.sl - Min2(PrefixCtx, c.span.sl - 1), c.span.el)
          /\ seed = TRUE
\* ... from which every other span of that source is one step away
PickSpan ==
    /\ seed
    /\ \E sl \in (c.base + 1)..NLines(c) : \E el \in sl..NLines(c) :
         \E sc \in 0..Len(Shape(c, sl)), ec \in 0..Len(Shape(c, el)) :
           /\ LocLE(sl, sc, el, ec)
           /\ c' = Case(c.base, c.lines, sl, sc, el, ec)
           /\ its' = Items(c')
           /\ rm0' = Remove(c', sl - Min2(PrefixCtx, sl - 1), el)
           /\ seed' = FALSE
Next == PickSpan
Spec == Init /\ [][Next]_<<c, its, rm0, seed>>

sp0 == c.span
p0 == Min2(PrefixCtx, sp0.sl - 1)
SrcRows == {j \in 1..Len(its) : its[j].t = "row" /\ its[j].r.k = "src"}
Marks == {j \in 1..Len(its) : its[j].t = "mark"}

InSource == SpanInSource(c, sp0)
\* trimming never cuts a letter, and leaves exactly OptLead columns of common indentation
TrimSafe == \A ln \in (sp0.sl - p0)..sp0.el : rm0 <= Indent(Shape(c, ln))
TrimLeavesOpt == rm0 > 0 => MinS({Indent(Drop(Shape(c, ln), rm0)) : ln \in (sp0.sl - p0)..sp0.el}) = OptLead
TrimOnlyExcess == rm0 > 0 <=> Common(c, sp0.sl - p0, sp0.el) > MaxLead
\* each shown line is the source line of that number minus the removed columns
RowsAreSource == \A j \in SrcRows : its[j].r.txt = Drop(LineText(c, its[j].r.no), rm0)
\* numbers: strictly increasing, context then first and last spanned line
NumbersIncrease == \A i, j \in SrcRows : i < j => its[i].r.no < its[j].r.no
NumbersShown == {its[j].r.no : j \in SrcRows} = ((sp0.sl - p0)..sp0.sl) \cup {sp0.el}
ElidedIffMiddle == (\E j \in 1..Len(its) : its[j].t = "row" /\ its[j].r.k = "ell") <=> sp0.el - sp0.sl >= 2
\* a marker row directly follows the spanned line it marks; spanned columns form an interval;
\* markers (shifted back) are exactly the spanned columns of that line and stay inside the shown text
MarkFollowsSrc == \A j \in Marks : j > 1 /\ (j - 1) \in SrcRows /\ its[j - 1].r.no \in {sp0.sl, sp0.el}
MarkCols(j) == IF its[j].n = 0 THEN {} ELSE {its[j].lead + k + rm0 : k \in 0..(its[j].n - 1)}
\* (a span may begin or end inside the common indentation that is trimmed away)
SpanVisible == \A ln \in {sp0.sl, sp0.el} : \A col \in SpanCols(c, sp0, ln) : col >= rm0
MarkersExact == SpanVisible => \A j \in Marks : MarkCols(j) = SpanCols(c, sp0, its[j - 1].r.no)
MarkersInside == \A j \in Marks : its[j].n > 0 => its[j].lead + its[j].n <= Len(its[j - 1].r.txt)
SpanColsInterval == \A ln \in {sp0.sl, sp0.el} : LET S == SpanCols(c, sp0, ln) IN S # {} => S = MinS(S)..MaxS(S)
LabelOnLastMark == \A j \in Marks : (its[j].paras # <<>>) <=> (j = MaxS(Marks))
GutterFits == \A j \in SrcRows : Digits(its[j].r.no) <= its[j].r.gw
\* case-space definitions referenced by the cfgs
MCBodies == {<<>>, <<1, 0, 1>>}
MCFill == <<0, 0, 1, 1>>
\* spec -> code: print every enumerated case for the harness to render with the real code
Emit == ("VERIF_EMIT" \in DOMAIN IOEnv) => PrintT(ToJson(c))
=============================================================================
