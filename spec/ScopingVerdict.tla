--------------------------- MODULE ScopingVerdict ---------------------------
(* Second phase of the C08 verdict extraction.  Input (IOEnv.VERIF_FACTS): for every
   read <<id, v, l>> of a program (with its deadness d) the set of statuses that module Scoping observed
   there over all control-flow paths (the harness only forms the union of the
   printed facts).  This module classifies each read with Scoping!Kinds and prints
   one witness record per read that has a witness kind; reads without any kind
   print nothing, so "no witness" = accept.  Chunked so that 16 workers share it. *)
EXTENDS Naturals, Sequences, FiniteSets, TLC, Json, IOUtils

CONSTANTS NChunks
S == INSTANCE Scoping WITH Vars <- {"va", "vb"}, pid <- 0, stack <- <<>>, env <- <<>>, dead <- FALSE

Facts == JsonDeserialize(IOEnv.VERIF_FACTS)
N == Len(Facts)
First(kk) == ((kk - 1) * N) \div NChunks + 1
Last(kk)  == (kk * N) \div NChunks
ToSet(seq) == {seq[j] : j \in 1..Len(seq)}

VARIABLES k, i
vars == <<k, i>>
Init == k \in 1..NChunks /\ i = First(k)
Step == /\ i <= Last(k)
        /\ i' = i + 1
        /\ k' = k
        /\ LET f == Facts[i]
               ks == S!Kinds(ToSet(f.sts))
           IN IF ks = {} THEN TRUE
              ELSE PrintT(ToJson([id |-> f.id, v |-> f.v, l |-> f.l, d |-> f.d, kinds |-> ks]))
Spec == Init /\ [][Step]_vars
Accept == (i = Last(k) + 1) => PrintT(ToJson([accepted |-> k, upto |-> i - 1]))
=============================================================================
