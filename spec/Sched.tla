------------------------------- MODULE Sched -------------------------------
(* Schedules of the hash-ordered choice points inside the compiler (property C10).

   A program's compilation consults hash-ordered containers at a sequence of choice points
   (recorded from an instrumented native run: site and number of candidates).  The
   compiler's result must not depend on which candidate each choice point yields, so the
   model is simply: at choice point i ANY of the candidates may be taken.  TLC enumerates
   every schedule (vector of candidate ranks) for the recorded choice points - bounded to
   the first MaxPoints points with a real choice and MaxRank alternatives each - and the
   harness replays each schedule in a fresh compiler state, requiring byte-identical HUGR
   or an identical rendered diagnostic.  The two dataflow worklists are not choice points
   any more (they pop the lowest/highest block index); their order-independence is C09's
   model (Dataflow.tla), where `evidence` shows why a fixed order is needed. *)
EXTENDS Naturals, Sequences, TLC, Json, IOUtils

CONSTANTS MaxPoints, MaxRank

Input == JsonDeserialize(IOEnv.VERIF_IN)
Progs == Input.progs            \* Progs[p].sizes = <<number of candidates at each choice point>>

VARIABLES p, i, vec, real
vars == <<p, i, vec, real>>

Sizes == Progs[p].sizes
Min(a, b) == IF a < b THEN a ELSE b

Init == p \in 1..Len(Progs) /\ i = 1 /\ vec = <<>> /\ real = 0

\* choice point i yields the candidate of rank c (rank 1 = what the native run took)
Choose(c) ==
    /\ i <= Len(Sizes)
    /\ c \in 1..(IF Sizes[i] >= 2 /\ real < MaxPoints THEN Min(Sizes[i], MaxRank) ELSE 1)
    /\ vec' = Append(vec, c)
    /\ real' = IF Sizes[i] >= 2 /\ real < MaxPoints THEN real + 1 ELSE real
    /\ i' = i + 1
    /\ p' = p

Next == \E c \in 1..MaxRank : Choose(c)
Spec == Init /\ [][Next]_vars

Complete == i = Len(Sizes) + 1
Emit == Complete => PrintT(ToJson([prog |-> p, schedule |-> vec]))
=============================================================================
