\* batch verdict extraction: every program of VERIF_IN is explored on all paths
SPECIFICATION Spec
INVARIANT TypeOK
INVARIANT BorrowedBound
INVARIANT Report
CHECK_DEADLOCK FALSE
