SPECIFICATION Spec
CONSTANTS
  Files = {"A", "B"}
  MaxLine = 2
  MaxCol = 2
INVARIANT ContainsReflexive
INVARIANT ContainsAntisym
INVARIANT ContainsTransitive
INVARIANT ContainsIsPointwise
INVARIANT MeetIsSpan
INVARIANT MeetCommutes
INVARIANT MeetLower
INVARIANT MeetGreatest
INVARIANT MeetPointwise
INVARIANT MeetNoneIffDisjoint
INVARIANT CrossFile
CHECK_DEADLOCK FALSE
