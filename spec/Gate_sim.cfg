SPECIFICATION Spec
CONSTANTS
  MaxLen = 16
  MaxDepth = 3
  MaxChecks = 6
  Programs = {"list_lit", "list_comp", "list_type", "tensor", "tensor_syn", "closure", "modifier", "plain"}
  FirstOps = {"call:enable", "call:disable", "enter:enable", "enter:disable", "check:list_lit", "check:list_comp", "check:list_type", "check:tensor", "check:tensor_syn", "check:closure", "check:modifier", "check:plain"}
  EmitHist = TRUE
INVARIANT TypeOK
INVARIANT SavedIsPrevious
INVARIANT GateLaw
INVARIANT EntrySets
INVARIANT Emit
PROPERTY Restoration
PROPERTY CheckIsPure
CHECK_DEADLOCK FALSE
