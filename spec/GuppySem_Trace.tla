--------------------------- MODULE GuppySem_Trace ---------------------------
(* Trace validation against the source-level semantics GuppySem.
   Each run carries the event stream observed when the program was executed - by the
   compiled HUGR on the reference interpreter (kind "impl"), or by CPython (kind "py", the
   guard that the specification itself agrees with Python).  The machine may take an Emit /
   Panic step only if the produced event IS the next recorded event; a run is accepted iff
   the machine terminates the way the recording did with every recorded event consumed.
   Rejections name the first unmatched event. *)
EXTENDS GuppySem

Trace == Runs[r].trace

RECURSIVE EvEq(_, _)
EvEq(a, b) ==      \* deep equality of event payload values; numbers compare by value
    IF a[1] = "array" \/ a[1] = "tuple"
    THEN b[1] = a[1] /\ Len(a[2]) = Len(b[2]) /\ \A i \in 1..Len(a[2]) : EvEq(a[2][i], b[2][i])
    ELSE IF IsNum(a) THEN IsNum(b) /\ a[1] = b[1] /\ a[2] = b[2]
    ELSE a[1] = b[1]

Matches(ev, rec) ==
    /\ ev[1] = rec[1]
    /\ IF ev[1] = "result" THEN ev[2] = rec[2] /\ EvEq(ev[3], rec[3])
       ELSE TRUE                           \* panic: the message text is compared by the harness

Bad(what, got) ==
    PrintT(ToJson([run |-> r, bad |-> what, at |-> out + 1, got |-> got,
                   want |-> IF out + 1 <= Len(Trace) THEN Trace[out + 1] ELSE <<"end of trace">>]))

ObsOK == \/ (out <= Len(Trace) /\ Matches(last, Trace[out]))
TEmit  == Emit  /\ (ObsOK' \/ (Bad("event", last') /\ FALSE))
TPanic == Panic /\ (ObsOK' \/ (Bad("event", last') /\ FALSE))

TNext == Eval \/ Apply \/ Exec \/ Unwind \/ TEmit \/ TPanic \/ Halt
TraceSpec == Init /\ [][TNext]_vars

\* final verdicts (always-true invariant with reporting side effect)
Verdict ==
    /\ (st = "stuck") => PrintT(ToJson([run |-> r, stuck |-> last, at |-> out + 1]))
    /\ (st \in {"done", "panic"}) =>
          IF out # Len(Trace)
          THEN PrintT(ToJson([run |-> r, bad |-> "recorded events remain", at |-> out + 1, got |-> <<"machine ", st>>,
                              want |-> Trace[out + 1]]))
          ELSE IF (st = "done") # (Runs[r].end = "return")
          THEN PrintT(ToJson([run |-> r, bad |-> "termination differs", at |-> out + 1, got |-> <<st>>, want |-> <<Runs[r].end>>]))
          ELSE IF st = "done" /\ Runs[r].ret # <<"skip">> /\ ~EvEq(last[2], Runs[r].ret)
          THEN PrintT(ToJson([run |-> r, bad |-> "return value differs", at |-> out + 1, got |-> last[2], want |-> Runs[r].ret]))
          ELSE PrintT(ToJson([run |-> r, accepted |-> out]))
=============================================================================
