\* exhaustive small model B: function types with ownership flags, arrays with const lengths,
\* one type and one const variable, start substitutions with <= 1 binding; brute force on
SPECIFICATION Spec
CONSTANTS
  TVarNames = {"a"}
  CVarNames = {"n"}
  TyAtomNames = {"int", "qubit"}
  NatVals = {0, 1}
  UseTup1 = FALSE
  UseTup2 = FALSE
  UseFun = TRUE
  UseArr = TRUE
  Depth = 1
  StartDepth = 1
  MaxStart = 1
  GDepth = 1
  BruteForce = TRUE
INVARIANT Deterministic
INVARIANT SubInv
INVARIANT AgreeClosure
INVARIANT ResultUnifies
INVARIANT AgreeBruteForce
INVARIANT Emit
PROPERTY Termination
CHECK_DEADLOCK FALSE
