SPECIFICATION Spec
INVARIANT FirstMatch
INVARIANT TrailInOrder
INVARIANT Deterministic
INVARIANT Emit
CHECK_DEADLOCK FALSE
