\* the universe constants are unused here (cases come from VERIF_TRACE)
SPECIFICATION Spec
CONSTANTS
  AtomNames = {}
  NatVals = {}
  MaxTup = 0
  MaxTupDeep = 0
  Depth = 0
  Opq1 = {}
  Opq2 = {}
  NameDepth = 0
INVARIANT Report
CHECK_DEADLOCK FALSE
