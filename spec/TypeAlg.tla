------------------------------- MODULE TypeAlg -------------------------------
(* Type algebra of Guppy (guppylang_internals/tys/{ty,param,arg,const,subst,builtin}.py,
   definition/struct.py, compiler/core.py).  Pure operators only; the state machines
   that enumerate inputs and carry the invariants are TypeAlg_Inst (C13a),
   TypeAlg_Mono (C13b) and TypeAlg_Class (C14).

   Terms are tagged tuples (first component a string tag, fixed shape per tag):

     types    <<"int">> <<"nat">> <<"float">> <<"bool">> <<"str">> <<"qubit">>
              <<"none", preserve>>               NoneType(preserve=..)
              <<"tup", preserve, <<t..>>>>       TupleType
              <<"arr", t, c>>  <<"farr", t, c>>  array[t, c] / frozenarray[t, c]
              <<"opt", t>>                       Option[t]
              <<"either", l, r>>                 Either[l, r] (a Hugr sum with one row per side)
              <<"fn", <<t..>>, t>>               non-generic FunctionType (Callable)
              <<"rec", <<t..>>>>                 non-generic struct with these field types
              <<"st", name, <<arg..>>>>          instance of the generic struct `name` (GStruct)
              <<"bv", idx, name, cop, drop>>     BoundTypeVar  (de Bruijn index = position
                                                 of its binder in the parameter list)
              <<"tv", name, cop, drop>>          the same variable in the *named* calculus
     consts   <<"cval", ty, token>>              ConstValue
              <<"bc", idx, name>>  <<"cn", name>> BoundConstVar / its named form
     args     <<"T", type>>  <<"C", const>>  <<"-">> (None: parameter is not instantiated)
     params   <<"tp", idx, name, must_be_copyable, must_be_droppable>>      TypeParam
              <<"cp", idx, name, ty, from_comptime_arg>>                     ConstParam
     signature  [params, inputs : Seq(<<ty, flag, name>>), output, cargs : Seq(const)]
              = FunctionType(inputs, output, params, comptime_args)

   Sections: 1 instantiation with de Bruijn indices exactly as the code does it
   (Instantiator, ParameterBase.with_idx/to_bound/instantiate_bounds,
   FunctionType.instantiate_partial); 2 the same in a calculus with named binders
   (the oracle: "substitute the arguments textually"); 3 copy/drop classification
   (Type.copyable/droppable, OpaqueTypeDef flags, StructType.intrinsically_copyable etc.),
   well-formedness (TypeParam.check_arg) and the drop leaves of an unused value
   (DFContainer.__setitem__ unpacking + insert_drops/requires_drop);
   4 partial monomorphisation (partially_monomorphize_args, compile_variable_idx). *)
EXTENDS Naturals, Sequences, FiniteSets, TLC

SeqMap(F(_), s) == [k \in DOMAIN s |-> F(s[k])]
Range(s) == {s[k] : k \in DOMAIN s}
RECURSIVE SeqFilter(_, _)
SeqFilter(s, keep) ==        \* keep : DOMAIN s -> BOOLEAN
    IF s = <<>> THEN <<>>
    ELSE LET n == Len(s)
             front == SeqFilter(SubSeq(s, 1, n - 1), [k \in 1..(n - 1) |-> keep[k]])
         IN IF keep[n] THEN Append(front, s[n]) ELSE front
RECURSIVE SeqFlatten(_)
SeqFlatten(ss) == IF ss = <<>> THEN <<>> ELSE Head(ss) \o SeqFlatten(Tail(ss))

\* ---- constructors -------------------------------------------------------------
TInt == <<"int">>
TNat == <<"nat">>
TFloat == <<"float">>
TBool == <<"bool">>
TStr == <<"str">>
TQubit == <<"qubit">>
TNone == <<"none", FALSE>>
TTup(es) == <<"tup", FALSE, es>>
TArr(t, c) == <<"arr", t, c>>
TFArr(t, c) == <<"farr", t, c>>
TOpt(t) == <<"opt", t>>
TEither(l, r) == <<"either", l, r>>
TFn(ins, out) == <<"fn", ins, out>>
TRec(fs) == <<"rec", fs>>
TSt(name, args) == <<"st", name, args>>
BV(i, name, c, d) == <<"bv", i, name, c, d>>
TV(name, c, d) == <<"tv", name, c, d>>
CVal(ty, tok) == <<"cval", ty, tok>>
BC(i, name) == <<"bc", i, name>>
CN(name) == <<"cn", name>>
ArgT(t) == <<"T", t>>
ArgC(c) == <<"C", c>>
NoArg == <<"-">>
TP(i, name, c, d) == <<"tp", i, name, c, d>>
CP(i, name, ty, ct) == <<"cp", i, name, ty, ct>>
NatC(tok) == CVal(TNat, tok)

IsTypeParam(p) == p[1] = "tp"
IsConstParam(p) == p[1] = "cp"
PIdx(p) == p[2]
PName(p) == p[3]

\* ---- generic structs (a fixed table; the harness declares exactly these) -------------
GStructNames == {"G1", "GQ", "GA", "GN", "GP", "GC", "GD", "GF", "Tag"}
GStruct(name) ==
    CASE name = "G1" -> [params |-> <<TP(0, "T", FALSE, FALSE)>>,           \* x: T
                         fields |-> <<BV(0, "T", FALSE, FALSE)>>]
      [] name = "GQ" -> [params |-> <<TP(0, "T", FALSE, FALSE)>>,           \* q: qubit; x: T
                         fields |-> <<TQubit, BV(0, "T", FALSE, FALSE)>>]
      [] name = "GA" -> [params |-> <<TP(0, "T", FALSE, FALSE)>>,           \* xs: array[T, 2]
                         fields |-> <<TArr(BV(0, "T", FALSE, FALSE), NatC("2"))>>]
      [] name = "GN" -> [params |-> <<TP(0, "T", FALSE, FALSE), CP(1, "n", TNat, FALSE)>>,
                         fields |-> <<TArr(BV(0, "T", FALSE, FALSE), BC(1, "n"))>>]
      [] name = "GP" -> [params |-> <<TP(0, "T", FALSE, FALSE)>>,           \* phantom: y: int
                         fields |-> <<TInt>>]
      [] name = "GC" -> [params |-> <<TP(0, "T", TRUE, FALSE)>>,            \* T: Copy; x: T
                         fields |-> <<BV(0, "T", TRUE, FALSE)>>]
      [] name = "GD" -> [params |-> <<TP(0, "T", FALSE, TRUE)>>,            \* T: Drop; x: T
                         fields |-> <<BV(0, "T", FALSE, TRUE)>>]
      [] name = "Tag" -> [params |-> <<CP(0, "B", TBool, FALSE)>>,         \* no fields: B: bool const
                          fields |-> <<>>]
      [] name = "GF" -> [params |-> <<TP(0, "T", FALSE, FALSE)>>,           \* f: Callable[[T], T]
                         fields |-> <<TFn(<<BV(0, "T", FALSE, FALSE)>>, BV(0, "T", FALSE, FALSE))>>]

(***************************************************************************)
(* 1. Instantiation with de Bruijn indices (tys/subst.py Instantiator)      *)
(***************************************************************************)
RECURSIVE InstT(_, _), InstC(_, _), InstA(_, _)
InstT(t, inst) ==
    CASE t[1] = "bv" ->
            IF t[2] < Len(inst) THEN inst[t[2] + 1][2]           \* arg.ty
            ELSE BV(t[2] - Len(inst), t[3], t[4], t[5])          \* lower the index
      [] t[1] = "tup" -> <<"tup", t[2], SeqMap(LAMBDA e : InstT(e, inst), t[3])>>
      [] t[1] \in {"arr", "farr"} -> <<t[1], InstT(t[2], inst), InstC(t[3], inst)>>
      [] t[1] = "opt" -> TOpt(InstT(t[2], inst))
      [] t[1] = "either" -> TEither(InstT(t[2], inst), InstT(t[3], inst))
      [] t[1] = "fn" -> TFn(SeqMap(LAMBDA e : InstT(e, inst), t[2]), InstT(t[3], inst))
      [] t[1] = "rec" -> t                                     \* closed by construction
      [] t[1] = "st" -> TSt(t[2], SeqMap(LAMBDA a : InstA(a, inst), t[3]))
      [] OTHER -> t
InstC(c, inst) ==
    CASE c[1] = "bc" ->
            IF c[2] < Len(inst) THEN inst[c[2] + 1][2]           \* arg.const
            ELSE BC(c[2] - Len(inst), c[3])
      [] OTHER -> c
InstA(a, inst) ==
    CASE a[1] = "T" -> ArgT(InstT(a[2], inst))
      [] a[1] = "C" -> ArgC(InstC(a[2], inst))

\* ParameterBase.with_idx / to_bound / instantiate_bounds
WithIdx(p, k) == IF IsTypeParam(p) THEN TP(k, p[3], p[4], p[5]) ELSE CP(k, p[3], p[4], p[5])
ToBound(p) == IF IsTypeParam(p) THEN ArgT(BV(p[2], p[3], p[4], p[5])) ELSE ArgC(BC(p[2], p[3]))
InstBounds(p, inst) == IF IsTypeParam(p) THEN p ELSE CP(p[2], p[3], InstT(p[4], inst), p[5])

\* instantiate_partial: "Set the `preserve` flag for instantiated tuples and None"
MarkPreserve(a) ==
    IF a[1] = "T" /\ a[2][1] = "tup" THEN ArgT(<<"tup", TRUE, a[2][3]>>)
    ELSE IF a[1] = "T" /\ a[2][1] = "none" THEN ArgT(<<"none", TRUE>>)
    ELSE a

\* one iteration of the loop in FunctionType.instantiate_partial
IPKeep(p, full, rem) ==
    LET p2 == WithIdx(p, Len(rem))
    IN [full |-> Append(full, ToBound(p2)), rem |-> Append(rem, InstBounds(p2, full))]
IPInst(a, full, rem) == [full |-> Append(full, MarkPreserve(a)), rem |-> rem]

RECURSIVE IPLoop(_, _, _, _)
IPLoop(params, args, full, rem) ==
    IF params = <<>> THEN [full |-> full, rem |-> rem]
    ELSE LET st == IF Head(args) = NoArg THEN IPKeep(Head(params), full, rem)
                   ELSE IPInst(Head(args), full, rem)
         IN IPLoop(Tail(params), Tail(args), st.full, st.rem)

IPTransform(sig, full, rem) ==
    [params |-> rem,
     inputs |-> SeqMap(LAMBDA x : <<InstT(x[1], full), x[2], x[3]>>, sig.inputs),
     output |-> InstT(sig.output, full),
     cargs  |-> SeqMap(LAMBDA c : InstC(c, full), sig.cargs)]

InstPartial(sig, args) ==
    LET r == IPLoop(sig.params, args, <<>>, <<>>) IN IPTransform(sig, r.full, r.rem)

\* args2 refers to the parameters that args1 left open
RECURSIVE ComposeArgs(_, _)
ComposeArgs(args1, args2) ==
    IF args1 = <<>> THEN <<>>
    ELSE IF Head(args1) = NoArg THEN <<Head(args2)>> \o ComposeArgs(Tail(args1), Tail(args2))
    ELSE <<Head(args1)>> \o ComposeArgs(Tail(args1), args2)

\* scoping of a signature: every index points at a binder of the right kind whose
\* name and bounds the occurrence repeats, and binders are numbered by position
RECURSIVE ScopedT(_, _), ScopedC(_, _)
ScopedT(t, params) ==
    CASE t[1] = "bv" -> /\ t[2] < Len(params)
                        /\ params[t[2] + 1] = TP(t[2], t[3], t[4], t[5])
      [] t[1] = "tup" -> \A k \in DOMAIN t[3] : ScopedT(t[3][k], params)
      [] t[1] \in {"arr", "farr"} -> ScopedT(t[2], params) /\ ScopedC(t[3], params)
      [] t[1] = "opt" -> ScopedT(t[2], params)
      [] t[1] = "either" -> ScopedT(t[2], params) /\ ScopedT(t[3], params)
      [] t[1] = "fn" -> (\A k \in DOMAIN t[2] : ScopedT(t[2][k], params)) /\ ScopedT(t[3], params)
      [] t[1] = "st" -> \A k \in DOMAIN t[3] :
                            IF t[3][k][1] = "T" THEN ScopedT(t[3][k][2], params)
                            ELSE ScopedC(t[3][k][2], params)
      [] t[1] = "tv" -> FALSE
      [] OTHER -> TRUE
ScopedC(c, params) ==
    CASE c[1] = "bc" -> /\ c[2] < Len(params)
                        /\ IsConstParam(params[c[2] + 1])
                        /\ PIdx(params[c[2] + 1]) = c[2]
                        /\ PName(params[c[2] + 1]) = c[3]
      [] c[1] = "cn" -> FALSE
      [] OTHER -> TRUE
ScopedSig(sig) ==
    /\ \A k \in DOMAIN sig.params :
          /\ PIdx(sig.params[k]) = k - 1
          /\ IsConstParam(sig.params[k]) =>
                ScopedT(sig.params[k][4], SubSeq(sig.params, 1, k - 1))
    /\ \A k \in DOMAIN sig.inputs : ScopedT(sig.inputs[k][1], sig.params)
    /\ ScopedT(sig.output, sig.params)
    /\ \A k \in DOMAIN sig.cargs : ScopedC(sig.cargs[k], sig.params)

(***************************************************************************)
(* 2. The named calculus: binders are names, instantiation is textual       *)
(*    substitution.  Arguments are closed, so there is no capture.          *)
(***************************************************************************)
RECURSIVE NameT(_, _), NameC(_, _)
NameT(t, params) ==           \* de Bruijn -> named, using the binder the index points at
    CASE t[1] = "bv" -> LET p == params[t[2] + 1] IN TV(p[3], p[4], p[5])
      [] t[1] = "tup" -> <<"tup", t[2], SeqMap(LAMBDA e : NameT(e, params), t[3])>>
      [] t[1] \in {"arr", "farr"} -> <<t[1], NameT(t[2], params), NameC(t[3], params)>>
      [] t[1] = "opt" -> TOpt(NameT(t[2], params))
      [] t[1] = "either" -> TEither(NameT(t[2], params), NameT(t[3], params))
      [] t[1] = "fn" -> TFn(SeqMap(LAMBDA e : NameT(e, params), t[2]), NameT(t[3], params))
      [] t[1] = "st" -> TSt(t[2], SeqMap(LAMBDA a : IF a[1] = "T" THEN ArgT(NameT(a[2], params))
                                                    ELSE ArgC(NameC(a[2], params)), t[3]))
      [] OTHER -> t
NameC(c, params) == IF c[1] = "bc" THEN CN(params[c[2] + 1][3]) ELSE c

ToNamed(sig) ==
    [params |-> [k \in DOMAIN sig.params |->
                    LET p == sig.params[k] IN
                    IF IsTypeParam(p) THEN <<"ntp", p[3], p[4], p[5]>>
                    ELSE <<"ncp", p[3], NameT(p[4], sig.params), p[5]>>],
     inputs |-> SeqMap(LAMBDA x : <<NameT(x[1], sig.params), x[2], x[3]>>, sig.inputs),
     output |-> NameT(sig.output, sig.params),
     cargs  |-> SeqMap(LAMBDA c : NameC(c, sig.params), sig.cargs)]

RECURSIVE SubstT(_, _), SubstC(_, _)
SubstT(t, sigma) ==           \* sigma : [set of names -> args]
    CASE t[1] = "tv" -> IF t[2] \in DOMAIN sigma THEN sigma[t[2]][2] ELSE t
      [] t[1] = "tup" -> <<"tup", t[2], SeqMap(LAMBDA e : SubstT(e, sigma), t[3])>>
      [] t[1] \in {"arr", "farr"} -> <<t[1], SubstT(t[2], sigma), SubstC(t[3], sigma)>>
      [] t[1] = "opt" -> TOpt(SubstT(t[2], sigma))
      [] t[1] = "either" -> TEither(SubstT(t[2], sigma), SubstT(t[3], sigma))
      [] t[1] = "fn" -> TFn(SeqMap(LAMBDA e : SubstT(e, sigma), t[2]), SubstT(t[3], sigma))
      [] t[1] = "st" -> TSt(t[2], SeqMap(LAMBDA a : IF a[1] = "T" THEN ArgT(SubstT(a[2], sigma))
                                                    ELSE ArgC(SubstC(a[2], sigma)), t[3]))
      [] OTHER -> t
SubstC(c, sigma) == IF c[1] = "cn" /\ c[2] \in DOMAIN sigma THEN sigma[c[2]][2] ELSE c

NamedInst(nsig, args) ==
    LET n == Len(nsig.params)
        given == {k \in 1..n : args[k] # NoArg}
        pos(name) == CHOOSE k \in 1..n : nsig.params[k][2] = name
        sigma == [name \in {nsig.params[k][2] : k \in given} |-> MarkPreserve(args[pos(name)])]
        keep == [k \in 1..n |-> args[k] = NoArg]
        sub(p) == IF p[1] = "ntp" THEN p ELSE <<"ncp", p[2], SubstT(p[3], sigma), p[4]>>
    IN [params |-> SeqMap(sub, SeqFilter(nsig.params, keep)),
        inputs |-> SeqMap(LAMBDA x : <<SubstT(x[1], sigma), x[2], x[3]>>, nsig.inputs),
        output |-> SubstT(nsig.output, sigma),
        cargs  |-> SeqMap(LAMBDA c : SubstC(c, sigma), nsig.cargs)]

RECURSIVE UnnameT(_, _), UnnameC(_, _)
UnnameT(t, nparams) ==        \* named -> de Bruijn: index = position of the binder
    CASE t[1] = "tv" -> LET k == CHOOSE j \in DOMAIN nparams : nparams[j][2] = t[2]
                        IN BV(k - 1, t[2], nparams[k][3], nparams[k][4])
      [] t[1] = "tup" -> <<"tup", t[2], SeqMap(LAMBDA e : UnnameT(e, nparams), t[3])>>
      [] t[1] \in {"arr", "farr"} -> <<t[1], UnnameT(t[2], nparams), UnnameC(t[3], nparams)>>
      [] t[1] = "opt" -> TOpt(UnnameT(t[2], nparams))
      [] t[1] = "either" -> TEither(UnnameT(t[2], nparams), UnnameT(t[3], nparams))
      [] t[1] = "fn" -> TFn(SeqMap(LAMBDA e : UnnameT(e, nparams), t[2]), UnnameT(t[3], nparams))
      [] t[1] = "st" -> TSt(t[2], SeqMap(LAMBDA a : IF a[1] = "T" THEN ArgT(UnnameT(a[2], nparams))
                                                    ELSE ArgC(UnnameC(a[2], nparams)), t[3]))
      [] OTHER -> t
UnnameC(c, nparams) ==
    IF c[1] = "cn" THEN BC((CHOOSE j \in DOMAIN nparams : nparams[j][2] = c[2]) - 1, c[2]) ELSE c

FromNamed(nsig) ==
    [params |-> [k \in DOMAIN nsig.params |->
                    LET p == nsig.params[k] IN
                    IF p[1] = "ntp" THEN TP(k - 1, p[2], p[3], p[4])
                    ELSE CP(k - 1, p[2], UnnameT(p[3], nsig.params), p[4])],
     inputs |-> SeqMap(LAMBDA x : <<UnnameT(x[1], nsig.params), x[2], x[3]>>, nsig.inputs),
     output |-> UnnameT(nsig.output, nsig.params),
     cargs  |-> SeqMap(LAMBDA c : UnnameC(c, nsig.params), nsig.cargs)]

InstPartialNamed(sig, args) == FromNamed(NamedInst(ToNamed(sig), args))

(***************************************************************************)
(* 3. Copy / drop classification                                           *)
(***************************************************************************)
RECURSIVE Copyable(_), Droppable(_)
Copyable(t) ==
    CASE t[1] \in {"int", "nat", "float", "bool", "str", "none", "fn"} -> TRUE
      [] t[1] = "qubit" -> FALSE
      [] t[1] = "arr" -> FALSE                                   \* never_copyable
      [] t[1] \in {"bv", "tv"} -> IF t[1] = "bv" THEN t[4] ELSE t[3]
      [] t[1] = "tup" -> \A k \in DOMAIN t[3] : Copyable(t[3][k])
      [] t[1] \in {"opt", "farr"} -> Copyable(t[2])
      [] t[1] = "either" -> Copyable(t[2]) /\ Copyable(t[3])
      [] t[1] = "rec" -> \A k \in DOMAIN t[2] : Copyable(t[2][k])
      [] t[1] = "st" ->
            /\ \A k \in DOMAIN GStruct(t[2]).fields : Copyable(InstT(GStruct(t[2]).fields[k], t[3]))
            /\ \A k \in DOMAIN t[3] : t[3][k][1] = "T" => Copyable(t[3][k][2])
Droppable(t) ==
    CASE t[1] \in {"int", "nat", "float", "bool", "str", "none", "fn"} -> TRUE
      [] t[1] = "qubit" -> FALSE
      [] t[1] \in {"bv", "tv"} -> IF t[1] = "bv" THEN t[5] ELSE t[4]
      [] t[1] = "tup" -> \A k \in DOMAIN t[3] : Droppable(t[3][k])
      [] t[1] \in {"arr", "opt", "farr"} -> Droppable(t[2])
      [] t[1] = "either" -> Droppable(t[2]) /\ Droppable(t[3])
      [] t[1] = "rec" -> \A k \in DOMAIN t[2] : Droppable(t[2][k])
      [] t[1] = "st" ->
            /\ \A k \in DOMAIN GStruct(t[2]).fields : Droppable(InstT(GStruct(t[2]).fields[k], t[3]))
            /\ \A k \in DOMAIN t[3] : t[3][k][1] = "T" => Droppable(t[3][k][2])
Affine(t) == Droppable(t) /\ ~Copyable(t)
Linear(t) == ~Droppable(t) /\ ~Copyable(t)
\* "Its HUGR type is a copyable HUGR type exactly when the Guppy type is copyable"
HugrCopyable(t) == Copyable(t)
\* What the lowering produces (Type.to_hugr): structs and tuples become Hugr tuples of
\* their (instantiated) fields, Option a sum, array a linear borrow_array, frozenarray a
\* copyable static array, a type variable a Hugr variable with the parameter's bound.
\* The bound of that Hugr type is structural in the representation - type arguments that
\* occur in no field do not show.
RECURSIVE HugrRepCopyable(_)
HugrRepCopyable(t) ==
    CASE t[1] \in {"int", "nat", "float", "bool", "str", "none", "fn", "farr"} -> TRUE
      [] t[1] \in {"qubit", "arr"} -> FALSE
      [] t[1] \in {"bv", "tv"} -> IF t[1] = "bv" THEN t[4] ELSE t[3]
      [] t[1] = "tup" -> \A k \in DOMAIN t[3] : HugrRepCopyable(t[3][k])
      [] t[1] = "opt" -> HugrRepCopyable(t[2])
      [] t[1] = "either" -> HugrRepCopyable(t[2]) /\ HugrRepCopyable(t[3])    \* every variant row
      [] t[1] = "rec" -> \A k \in DOMAIN t[2] : HugrRepCopyable(t[2][k])
      [] t[1] = "st" -> \A k \in DOMAIN GStruct(t[2]).fields :
                            HugrRepCopyable(InstT(GStruct(t[2]).fields[k], t[3]))
\* generic structs in t that are non-copyable only because of a type argument that no field
\* holds as data (unused parameter, or used under Callable only)
RECURSIVE Phantoms(_)
Phantoms(t) ==
    CASE t[1] = "tup" -> UNION {Phantoms(t[3][k]) : k \in DOMAIN t[3]}
      [] t[1] \in {"arr", "farr", "opt"} -> Phantoms(t[2])
      [] t[1] = "either" -> Phantoms(t[2]) \cup Phantoms(t[3])
      [] t[1] = "rec" -> UNION {Phantoms(t[2][k]) : k \in DOMAIN t[2]}
      [] t[1] = "st" ->            \* blame the innermost struct only
            LET inner == UNION {IF t[3][k][1] = "T" THEN Phantoms(t[3][k][2]) ELSE {} : k \in DOMAIN t[3]}
            IN IF inner = {} /\ ~Copyable(t) /\ HugrRepCopyable(t) THEN {t[2]} ELSE inner
      [] OTHER -> {}

\* TypeParam.check_arg: an argument must satisfy the bounds of its parameter
ArgFits(p, a) ==
    IF IsTypeParam(p)
    THEN a[1] = "T" /\ (p[4] => Copyable(a[2])) /\ (p[5] => Droppable(a[2]))
    ELSE a[1] = "C"

RECURSIVE WellFormed(_)
WellFormed(t) ==
    CASE t[1] = "tup" -> \A k \in DOMAIN t[3] : WellFormed(t[3][k])
      [] t[1] = "arr" -> WellFormed(t[2])
      [] t[1] = "opt" -> WellFormed(t[2])
      [] t[1] = "either" -> WellFormed(t[2]) /\ WellFormed(t[3])
      [] t[1] = "farr" -> WellFormed(t[2]) /\ Copyable(t[2]) /\ Droppable(t[2])
      [] t[1] = "fn" -> (\A k \in DOMAIN t[2] : WellFormed(t[2][k])) /\ WellFormed(t[3])
      [] t[1] = "rec" -> \A k \in DOMAIN t[2] : WellFormed(t[2][k])
      [] t[1] = "st" ->
            /\ Len(t[3]) = Len(GStruct(t[2]).params)
            /\ \A k \in DOMAIN t[3] :
                  /\ ArgFits(GStruct(t[2]).params[k], t[3][k])
                  /\ t[3][k][1] = "T" => WellFormed(t[3][k][2])
      [] OTHER -> TRUE

\* An unused value of type t that was bound to a variable is held as the wires of its
\* leaves: DFContainer.__setitem__ unpacks tuples and structs recursively.  Each
\* leaf must be consumed by one tket.guppy.drop.  Leaves are named by their access path.
RECURSIVE DropLeaves(_, _)
DropLeaves(t, path) ==
    CASE t[1] = "tup" ->
            SeqFlatten([k \in DOMAIN t[3] |-> DropLeaves(t[3][k], Append(path, k - 1))])
      [] t[1] = "rec" ->
            SeqFlatten([k \in DOMAIN t[2] |-> DropLeaves(t[2][k], Append(path, k - 1))])
      [] t[1] = "st" ->
            SeqFlatten([k \in DOMAIN GStruct(t[2]).fields |->
                          DropLeaves(InstT(GStruct(t[2]).fields[k], t[3]), Append(path, k - 1))])
      [] OTHER -> IF HugrRepCopyable(t) THEN <<>> ELSE <<path>>
\* a value that is discarded without being bound (expression statement) is one wire
DropWhole(t) == IF HugrRepCopyable(t) THEN <<>> ELSE << <<>> >>

(***************************************************************************)
(* 4. Partial monomorphisation (compiler/core.py)                           *)
(***************************************************************************)
RECURSIVE BoundIdxT(_)
BoundIdxT(t) ==               \* indices of the bound variables occurring in a type
    CASE t[1] = "bv" -> {t[2]}
      [] t[1] = "tup" -> UNION {BoundIdxT(t[3][k]) : k \in DOMAIN t[3]}
      [] t[1] \in {"arr", "farr"} -> BoundIdxT(t[2]) \cup (IF t[3][1] = "bc" THEN {t[3][2]} ELSE {})
      [] t[1] = "opt" -> BoundIdxT(t[2])
      [] t[1] = "either" -> BoundIdxT(t[2]) \cup BoundIdxT(t[3])
      [] t[1] = "fn" -> UNION {BoundIdxT(t[2][k]) : k \in DOMAIN t[2]} \cup BoundIdxT(t[3])
      [] t[1] = "st" -> UNION {IF t[3][k][1] = "T" THEN BoundIdxT(t[3][k][2])
                               ELSE IF t[3][k][2][1] = "bc" THEN {t[3][k][2][2]} ELSE {}
                               : k \in DOMAIN t[3]}
      [] OTHER -> {}

\* Instantiator(current_mono_args, allow_partial=True): open positions stay as they are
RECURSIVE NormT(_, _), NormC(_, _)
NormT(t, mono) ==
    CASE t[1] = "bv" -> IF mono[t[2] + 1] = NoArg THEN t ELSE mono[t[2] + 1][2]
      [] t[1] = "tup" -> <<"tup", t[2], SeqMap(LAMBDA e : NormT(e, mono), t[3])>>
      [] t[1] \in {"arr", "farr"} -> <<t[1], NormT(t[2], mono), NormC(t[3], mono)>>
      [] t[1] = "opt" -> TOpt(NormT(t[2], mono))
      [] t[1] = "either" -> TEither(NormT(t[2], mono), NormT(t[3], mono))
      [] t[1] = "fn" -> TFn(SeqMap(LAMBDA e : NormT(e, mono), t[2]), NormT(t[3], mono))
      [] t[1] = "st" -> TSt(t[2], SeqMap(LAMBDA a : IF a[1] = "T" THEN ArgT(NormT(a[2], mono))
                                                    ELSE ArgC(NormC(a[2], mono)), t[3]))
      [] OTHER -> t
NormC(c, mono) == IF c[1] = "bc" /\ mono[c[2] + 1] # NoArg THEN mono[c[2] + 1][2] ELSE c
NormA(a, mono) == IF a[1] = "T" THEN ArgT(NormT(a[2], mono)) ELSE ArgC(NormC(a[2], mono))

\* partially_monomorphize_args(params, args, ctx) -> mono_args
\* (args already normalised w.r.t. the caller's monomorphisation)
MonoArgs(params, args) ==
    LET n == Len(params)
        forcedByType == UNION {IF IsConstParam(params[k]) /\ params[k][4] # TNat
                               THEN BoundIdxT(params[k][4]) ELSE {} : k \in 1..n}
        self == {k - 1 : k \in {j \in 1..n : IsConstParam(params[j])
                                             /\ InstT(params[j][4], args) # TNat}}
    IN [k \in 1..n |-> IF (k - 1) \in (forcedByType \cup self) THEN args[k] ELSE NoArg]
RemArgs(args, mono) == SeqFilter(args, [k \in DOMAIN args |-> mono[k] = NoArg])
\* compile_variable_idx
HugrIdx(idx, mono) == Cardinality({k \in 1..idx : mono[k] = NoArg})
\* the Hugr type parameters a (partially) monomorphised function keeps
HugrParams(params, mono) ==
    SeqMap(LAMBDA p : IF IsTypeParam(p) THEN (IF p[4] THEN "type:Copyable" ELSE "type:Linear")
                      ELSE "nat",
           SeqFilter(params, [k \in DOMAIN params |-> mono[k] = NoArg]))
=============================================================================
