SPECIFICATION Spec
INVARIANT TypeOK
INVARIANT RejectedIsLocatedUserError
INVARIANT OnlyLastMayReject
INVARIANT NoOtherOutcome
INVARIANT StagesInOrder
INVARIANT NoRejectAfterLowering
INVARIANT FinalIffStuck
CHECK_DEADLOCK FALSE
