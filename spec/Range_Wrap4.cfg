SPECIFICATION Spec
CONSTANTS
  NegLo = 8
  Hi = 7
  NegStepLo = 8
  StepHi = 7
  Width = 4
  Static = FALSE
  MaxStatic = 6
  Record = FALSE
INVARIANT PrefixOK
INVARIANT DoneOK
CHECK_DEADLOCK FALSE
