SPECIFICATION Spec
CONSTANT TrackEvidence = FALSE
INVARIANT ReportWrong
PROPERTY Variant
PROPERTY Terminates
CHECK_DEADLOCK FALSE
