------------------------------ MODULE Collections ------------------------------
(* Implementation-shaped model of guppylang.std.collections (C27):

     /repo/guppylang/src/guppylang/std/collections/stack.py           Stack
     /repo/guppylang/src/guppylang/std/collections/priority_queue.py  PriorityQueue

   State mirrors the structs: `buf` is the option array (None = option.nothing,
   <<e>> = option.some(e)), `size` is PriorityQueue.size / Stack.end.  The queue is
   a binary min-heap in the array prefix; one action per loop iteration of the
   sift loops, with the same intermediate states as the code:

     push : buf[size] := some((p, v)); i := size                         PQPushStart
            while i > 0: compare with buf[(i-1)//2]; `>=` stops,         SiftUpSwap
                         otherwise swap and continue                     SiftUpDone
            return PriorityQueue(buf, size + 1)        (size bumped at the very end)
     pop  : take buf[0] (returned) and buf[size-1] (`held`, the displaced  PQPopStart
            entry; the root is now a hole), i := 0
            loop: smaller child (right only if strictly smaller) moves    SiftDownLeft
                  up into the hole unless held <= child                   SiftDownRight
            buf[i] := some(held); size := size - 1                        SiftDownDone

   Checked by TLC:
     * ShapeOK  - the INVARIANT documented on `buf` (prefix of some, rest nothing;
                  during a sift exactly the cells the code has taken are empty), so no
                  unwrap()/unwrap_nothing() of the code can fail,
     * HeapOK, UpInv, DownInv - heap order when idle and the loop invariants,
     * Refinement - under the mapping  queue |-> bag of all stored entries (+ held),
                  stack |-> the prefix as a sequence, every step is a step of the
                  reference model CollectionsAbs (or stutters): pop/peek return an
                  entry of minimal priority, the multiset is preserved, over-capacity
                  push and pop/peek on empty panic, nothing happens after a panic.

   With Record = TRUE the operation history is kept and every complete script
   (MaxOps operations, or ending in the first panic) is printed as JSON; these
   scripts are replayed on the compiled std library by checks/C27.py. *)
EXTENDS CollectionsAbs, TLC, Json

CONSTANTS Kinds,        \* subset of {"pq", "stack"}
          Caps,         \* set of capacities (MAX_SIZE)
          Prios,        \* priorities used by push
          Vals,         \* values used by push when UniqueVals = FALSE
          UniqueVals,   \* TRUE: the k-th operation pushes value k (all entries distinct)
          MaxOps,       \* script length
          Record        \* keep + print the history (script generation)

None == <<>>
Some(e) == <<e>>
NoEntry == <<-1, -1>>
Parent(k) == (k - 1) \div 2

VARIABLES kind, cap, buf, size, pc, i, held, out, nops, hist
vars == <<kind, cap, buf, size, pc, i, held, out, nops, hist>>

Cells == 0..(cap - 1)
At(k) == buf[k][1]                      \* .unwrap() of a cell
ValsNow == IF UniqueVals THEN {nops} ELSE Vals

Init ==
    /\ kind \in Kinds
    /\ cap \in Caps
    /\ buf = [k \in Cells |-> None]     \* empty_stack / empty_priority_queue
    /\ size = 0
    /\ pc = "idle"
    /\ i = 0
    /\ held = NoEntry
    /\ out = <<"none", 0, 0>>
    /\ nops = 0
    /\ hist = <<>>

Call(op) ==                             \* a new operation of the script starts
    /\ pc = "idle"
    /\ nops < MaxOps
    /\ nops' = nops + 1
    /\ hist' = IF Record THEN Append(hist, op) ELSE hist
    /\ UNCHANGED <<kind, cap>>

PanicNow ==
    /\ pc' = "panicked"
    /\ out' = PANIC
    /\ UNCHANGED <<buf, size, i, held>>

Silent == UNCHANGED <<kind, cap, out, nops, hist>>

\* ------------------------------ PriorityQueue ---------------------------------
PQPushStart(p, v) ==
    /\ kind = "pq"
    /\ Call(<<"push", p, v>>)
    /\ IF size >= cap THEN PanicNow
       ELSE /\ buf' = [buf EXCEPT ![size] = Some(<<p, v>>)]
            /\ i' = size
            /\ pc' = "up"
            /\ out' = <<"pushed", p, v>>
            /\ UNCHANGED <<size, held>>

SiftUpSwap ==
    /\ pc = "up" /\ i > 0
    /\ ~(Prio(At(i)) >= Prio(At(Parent(i))))
    /\ buf' = [buf EXCEPT ![i] = buf[Parent(i)], ![Parent(i)] = buf[i]]
    /\ i' = Parent(i)
    /\ UNCHANGED <<size, pc, held>>
    /\ Silent

SiftUpDone ==
    /\ pc = "up"
    /\ i > 0 => Prio(At(i)) >= Prio(At(Parent(i)))
    /\ size' = size + 1
    /\ pc' = "idle"
    /\ UNCHANGED <<buf, i, held>>
    /\ Silent

PQPopStart ==
    /\ kind = "pq"
    /\ Call(<<"pop", 0, 0>>)
    /\ IF size <= 0 THEN PanicNow
       ELSE /\ out' = <<"pop", At(0)[1], At(0)[2]>>
            /\ IF size - 1 = 0
               THEN /\ buf' = [buf EXCEPT ![0] = None]
                    /\ size' = 0
                    /\ UNCHANGED <<pc, i, held>>
               ELSE /\ buf' = [buf EXCEPT ![0] = None, ![size - 1] = None]
                    /\ held' = At(size - 1)
                    /\ i' = 0
                    /\ pc' = "down"
                    /\ UNCHANGED size

NewSize == size - 1
Left == 2 * i + 1
Right == 2 * i + 2
Child == IF Right < NewSize /\ Prio(At(Right)) < Prio(At(Left)) THEN Right ELSE Left
Descend == Left < NewSize /\ ~(Prio(held) <= Prio(At(Child)))

MoveUp(c) ==                            \* self.buf[i].swap(some(child)); i = child_i
    /\ buf' = [buf EXCEPT ![i] = buf[c], ![c] = None]
    /\ i' = c
    /\ UNCHANGED <<size, pc, held>>
    /\ Silent

SiftDownLeft ==
    /\ pc = "down" /\ Descend /\ Child = Left
    /\ MoveUp(Left)

SiftDownRight ==
    /\ pc = "down" /\ Descend /\ Child = Right
    /\ MoveUp(Right)

SiftDownDone ==
    /\ pc = "down" /\ ~Descend
    /\ buf' = [buf EXCEPT ![i] = Some(held)]
    /\ size' = NewSize
    /\ pc' = "idle"
    /\ held' = NoEntry
    /\ UNCHANGED i
    /\ Silent

PQPeek ==
    /\ kind = "pq"
    /\ Call(<<"peek", 0, 0>>)
    /\ IF size <= 0 THEN PanicNow
       ELSE /\ out' = <<"peek", At(0)[1], At(0)[2]>>
            /\ UNCHANGED <<buf, size, pc, i, held>>

Length ==                               \* __len__ of both structs
    /\ Call(<<"len", 0, 0>>)
    /\ out' = <<"len", size, 0>>
    /\ UNCHANGED <<buf, size, pc, i, held>>

\* ---------------------------------- Stack ---------------------------------------
StPush(v) ==
    /\ kind = "stack"
    /\ Call(<<"push", 0, v>>)
    /\ IF size >= cap THEN PanicNow
       ELSE /\ buf' = [buf EXCEPT ![size] = Some(<<0, v>>)]
            /\ size' = size + 1
            /\ out' = <<"pushed", 0, v>>
            /\ UNCHANGED <<pc, i, held>>

StPop ==
    /\ kind = "stack"
    /\ Call(<<"pop", 0, 0>>)
    /\ IF size <= 0 THEN PanicNow
       ELSE /\ out' = <<"pop", 0, At(size - 1)[2]>>
            /\ buf' = [buf EXCEPT ![size - 1] = None]
            /\ size' = size - 1
            /\ UNCHANGED <<pc, i, held>>

StPeek ==
    /\ kind = "stack"
    /\ Call(<<"peek", 0, 0>>)
    /\ IF size <= 0 THEN PanicNow
       ELSE /\ out' = <<"peek", 0, At(size - 1)[2]>>
            /\ UNCHANGED <<buf, size, pc, i, held>>

Next ==
    \/ \E p \in Prios, v \in ValsNow : PQPushStart(p, v)
    \/ SiftUpSwap \/ SiftUpDone
    \/ PQPopStart \/ SiftDownLeft \/ SiftDownRight \/ SiftDownDone
    \/ PQPeek \/ Length
    \/ \E v \in ValsNow : StPush(v)
    \/ StPop \/ StPeek

Spec == Init /\ [][Next]_vars

\* ------------------------------- invariants -------------------------------------
IsSome(k) == buf[k] # None

ShapeOK ==
    /\ pc \in {"idle", "panicked"} => \A k \in Cells : IsSome(k) <=> k < size
    /\ pc = "up"   => /\ size < cap /\ i \in 0..size
                      /\ \A k \in Cells : IsSome(k) <=> k <= size
    /\ pc = "down" => /\ size >= 2 /\ i \in 0..(NewSize - 1) /\ held # NoEntry
                      /\ \A k \in Cells : IsSome(k) <=> (k < NewSize /\ k # i)

Le(a, b) == Prio(At(a)) <= Prio(At(b))

HeapOK ==
    (kind = "pq" /\ pc \in {"idle", "panicked"}) =>
        \A k \in 1..(size - 1) : Le(Parent(k), k)

UpInv ==
    pc = "up" =>
        /\ \A k \in 1..size : k # i => Le(Parent(k), k)
        /\ \A k \in 1..size : (Parent(k) = i /\ i > 0) => Le(Parent(i), k)

DownInv ==
    pc = "down" =>
        /\ \A k \in 1..(NewSize - 1) : (k # i /\ Parent(k) # i) => Le(Parent(k), k)
        /\ \A k \in 1..(NewSize - 1) : (Parent(k) = i /\ i > 0) => Le(Parent(i), k)
        /\ i > 0 => Prio(At(Parent(i))) <= Prio(held)

\* ------------------------------- refinement -------------------------------------
Stored == {k \in Cells : IsSome(k)}
RECURSIVE BagOfCells(_)
BagOfCells(S) == IF S = {} THEN EmptyBag
                 ELSE LET k == CHOOSE x \in S : TRUE IN One(At(k)) (+) BagOfCells(S \ {k})

AbsState ==
    IF kind = "pq"
    THEN BagOfCells(Stored) (+) (IF pc = "down" THEN One(held) ELSE EmptyBag)
    ELSE [k \in 1..size |-> At(k - 1)]

AbsOps == {<<"push", e[1], e[2]>> : e \in (Prios \cup {0}) \X (IF UniqueVals THEN 0..MaxOps ELSE Vals)}
              \cup {<<"pop", 0, 0>>, <<"peek", 0, 0>>, <<"len", 0, 0>>}

AbsNext ==
    /\ out # PANIC
    /\ \E op \in AbsOps : <<out', AbsState'>> \in Allowed(kind, cap, AbsState, op)

Refinement == [][AbsNext]_<<AbsState, out>>

\* ---------------------------- script generation -----------------------------------
\* A complete script (MaxOps operations, or ending in the first panic) is printed by
\* the step that leaves the complete state - once per explored complete state, and in
\* simulation mode only for the states the random walk actually visits.
Complete == pc = "panicked" \/ (pc = "idle" /\ nops = MaxOps)
Finish ==
    /\ Record /\ Complete
    /\ PrintT(ToJson([kind |-> kind, cap |-> cap, ops |-> hist]))
    /\ pc' = "emitted"
    /\ UNCHANGED <<kind, cap, buf, size, i, held, out, nops, hist>>

\* The two extra push disjuncts are logically redundant (A \/ A = A); TLC's simulator picks
\* among the disjuncts, so they make random scripts push three times as often as they pop
\* and the heap gets deep.
PushAgain == \E p \in Prios, v \in ValsNow : PQPushStart(p, v)
GenNext == Next \/ Finish \/ PushAgain \/ (PushAgain /\ TRUE)
GenSpec == Init /\ [][GenNext]_vars

\* simulation-mode generation only (ACTION_CONSTRAINT): do not waste random scripts on
\* an early panic - a panicking call may only be the last operation of the script
LatePanic == (pc' = "panicked") => (nops' = MaxOps)
\* ... and deep-heap scripts consist of push/pop only (peek/len do not move entries)
PushPopOnly == (nops' # nops) => hist'[Len(hist')][1] \in {"push", "pop"}
=============================================================================
