--------------------------- MODULE Dataflow_Trace ---------------------------
(* Trace validation for the dataflow analyses: every run recorded from the real
   ForwardAnalysis.run / BackwardAnalysis.run (through the guarded hooks in
   guppylang_internals/_verif.py: one record per worklist iteration with the popped block,
   its recomputed value and the worklist afterwards) must be a behaviour of Dataflow,
   step for step, must end with an empty worklist, and its final result must equal both
   the model's and the declarative path solution.
   Input.runs[r] = [graph |-> index, mode |-> "live"|"assign", steps |-> <<...>>, final |-> <<...>>] *)
EXTENDS Dataflow

Runs == Input.runs
VARIABLES r, l
tvars == <<vars, r, l>>

R == Runs[r]
Steps == R.steps

PairSet(s) == {<<s[i][1], s[i][2]>> : i \in 1..Len(s)}
DictPairs(d) == {<<x, d[x]>> : x \in DOMAIN d}

TraceInit == \E rr \in 1..Len(Runs) : r = rr /\ l = 1 /\ InitFor(Runs[rr].graph, Runs[rr].mode)

Bad(what, s) == PrintT(ToJson([run |-> r, step |-> l, bad |-> what, logged |-> s]))

StepMatches(s) ==
    IF mode = "live"
    THEN /\ (DictPairs(vb'[s.b]) = PairSet(s.before) \/ Bad("value of popped block", s))
         /\ (queue' = Set(s.queue) \/ Bad("worklist after iteration", s))
    ELSE /\ (vb'[s.b] = <<Set(s.before[1]), Set(s.before[2])>> \/ Bad("value before popped block", s))
         /\ (va'[s.b] = <<Set(s.after[1]), Set(s.after[2])>> \/ Bad("value after popped block", s))
         /\ (queue' = Set(s.queue) \/ Bad("worklist after iteration", s))

TraceStep ==
    /\ l <= Len(Steps)
    /\ r' = r
    /\ LET s == Steps[l] IN
       IF s.b \in queue
       THEN Pop(s.b) /\ l' = l + 1 /\ StepMatches(s)
       ELSE Bad("popped block not in worklist", s) /\ l' = Len(Steps) + 2 /\ UNCHANGED vars

TraceSpec == TraceInit /\ [][TraceStep]_tvars

AtEnd == l = Len(Steps) + 1
FinalMatches ==
    IF mode = "live"
    THEN \A b \in Blocks : DictPairs(vb[b]) = PairSet(R.final[b])
    ELSE \A b \in Blocks : vb[b] = <<Set(R.final[b][1]), Set(R.final[b][2])>>
Accept == AtEnd =>
    /\ (queue = {} \/ PrintT(ToJson([run |-> r, step |-> l, bad |-> "trace ends with non-empty worklist"])))
    /\ (FinalMatches \/ PrintT(ToJson([run |-> r, step |-> l, bad |-> "returned result differs from model"])))
    /\ PrintT(ToJson([run |-> r, accepted |-> l - 1]))
=============================================================================
