-------------------------- MODULE Lifecycle_Trace --------------------------
(* Trace validation for C02: lifecycles recorded from the real engine
   (harness/diag_lifecycle.py: one trace per top-level definition of every mutant)
   must be behaviours of module Lifecycle that end in a final state.

   Input IOEnv.VERIF_TRACE: JSON list of
     [id |-> n, mode |-> "compile"|"check", events |-> << [stage, out, located, rendered, cls, site] >>]
   (identical traces are sent once; the harness keeps the multiplicity).
   Actions:  Step        the next recorded event is a transition of the automaton
             Unmatched   it is not: print trace id, index, event and automaton state
             EndOk       trace consumed in a final state
             Incomplete  trace consumed but the lifecycle is not finished            *)
EXTENDS Naturals, Sequences, TLC, Json, IOUtils

CONSTANT NChunks
L == INSTANCE Lifecycle WITH st <- "Raw", mode <- "compile", hist <- <<>>

Trace == JsonDeserialize(IOEnv.VERIF_TRACE)
N == Len(Trace)
First(kk) == ((kk - 1) * N) \div NChunks + 1
Last(kk)  == (kk * N) \div NChunks

VARIABLES k, ti, j, s, done, nbad
vars == <<k, ti, j, s, done, nbad>>
T == Trace[ti]
E == T.events[j]

NextTrace == /\ IF ti = Last(k) THEN done' = TRUE /\ ti' = ti ELSE done' = FALSE /\ ti' = ti + 1
             /\ j' = 1 /\ s' = "Raw" /\ k' = k

Step == /\ ~done /\ j <= Len(T.events)
        /\ L!Accepts(s, T.mode, E)
        /\ s' = L!After(s, E) /\ j' = j + 1
        /\ UNCHANGED <<k, ti, done, nbad>>
Unmatched == /\ ~done /\ j <= Len(T.events)
             /\ ~L!Accepts(s, T.mode, E)
             /\ PrintT(ToJson([bad |-> T.id, at |-> j - 1, state |-> s, event |-> E]))
             /\ nbad' = nbad + 1 /\ NextTrace
EndOk == /\ ~done /\ j > Len(T.events) /\ L!Final(s, T.mode)
         /\ NextTrace /\ UNCHANGED nbad
Incomplete == /\ ~done /\ j > Len(T.events) /\ ~L!Final(s, T.mode)
              /\ PrintT(ToJson([bad |-> T.id, at |-> j - 1, state |-> s, event |-> [stage |-> "end", out |-> "incomplete"]]))
              /\ nbad' = nbad + 1 /\ NextTrace

Init == /\ k \in 1..NChunks /\ ti = First(k) /\ j = 1 /\ s = "Raw" /\ nbad = 0
        /\ done = (First(k) > Last(k))
Next == Step \/ Unmatched \/ EndOk \/ Incomplete
Spec == Init /\ [][Next]_vars
ChunkDone == done => PrintT(ToJson([accepted |-> k, upto |-> Last(k), nbad |-> nbad]))
=============================================================================
