------------------------------ MODULE Emulator ------------------------------
(* Emulator configurations (guppylang/emulator/instance.py), property C28.

   Implementation-shaped part (same variables as the code):
     cfgs  - every EmulatorInstance derived so far; a config is the modelled slice of
             `_Options`: a REFERENCE `sim` to a simulator object plus the value fields
             `_seed`, `_shots`, `_shot_offset`, `_shot_increment`.  Index = identity;
             config 1 is the instance returned by EmulatorBuilder.build.
     sims  - the heap of simulator objects: kind (Quest/Stim/Coinflip) and the mutable
             attribute `random_seed` that selene reads at run time
             (selene_sim.instance._get_component_config: the component's own random_seed
             wins over the `random_seed=` argument of run_shots).
   Specification part (what the property demands):
     ideal - the immutable VALUE each config denoted at the moment it was derived.
   One action per public method: WithOption (= _with_option / dataclasses.replace),
   NewSim (statevector_sim / stabilizer_sim / coinflip_sim), WithSimulator (a simulator
   object made by the user, possibly handed to several configs), WithSeed, Run.

   CopyOnSeed = TRUE  models `with_seed` giving the derived config its own simulator
                      object (what the property needs);
   CopyOnSeed = FALSE models instance.py as written: `new_options._simulator.random_seed
                      = value` writes into the object shared with the parent.  TLC refutes
                      `Immutable` and `Reproducible` for it (see Emulator_AsIs.cfg).

   Run(c) yields one label per shot: [kind, seed, idx] for a seeded simulator - equal
   labels must mean equal measured bits, every time - or "nondet".
   With Emit = TRUE every history of exactly MaxSteps steps is printed together with what
   the specification expects: the value of every config, the labels of every run, and an
   audit (labels of a final run of every config).  checks/C28.py replays them on real
   EmulatorInstance objects. *)
EXTENDS Naturals, Sequences, FiniteSets, TLC, Json

CONSTANTS Seeds,        \* non-zero seeds, e.g. {1, 2}
          ShotVals, OffVals, IncVals,
          MaxSteps,
          CopyOnSeed,   \* see above
          Emit          \* print maximal histories

NoSeed == 0             \* Python None
Kinds == {"Quest", "Stim", "Coinflip"}
PoolKinds == <<"Quest", "Stim">>      \* user-made simulator objects for with_simulator
SimMethod == [statevector_sim |-> "Quest", stabilizer_sim |-> "Stim", coinflip_sim |-> "Coinflip"]

VARIABLES sims, cfgs, ideal, hist, runs
vars == <<sims, cfgs, ideal, hist, runs>>

Init ==
    /\ sims = <<[kind |-> "Quest", rseed |-> NoSeed]>>
              \o [j \in 1..Len(PoolKinds) |-> [kind |-> PoolKinds[j], rseed |-> NoSeed]]
    /\ cfgs = <<[sim |-> 1, seed |-> NoSeed, shots |-> 1, off |-> 0, inc |-> 1]>>
    /\ ideal = <<[kind |-> "Quest", seed |-> NoSeed, shots |-> 1, off |-> 0, inc |-> 1]>>
    /\ hist = <<>>
    /\ runs = <<>>

\* ---- observable behaviour of a config ----------------------------------------
\* what the implementation-shaped state makes selene do for config i
Beh(i) == LET c == cfgs[i]
              s == sims[c.sim]
          IN [kind |-> s.kind, seed |-> c.seed,
              simseed |-> IF s.rseed # NoSeed THEN s.rseed ELSE c.seed,
              shots |-> c.shots, off |-> c.off, inc |-> c.inc]
\* what the property says it must do
IdealBeh(i) == LET v == ideal[i]
               IN [kind |-> v.kind, seed |-> v.seed, simseed |-> v.seed,
                   shots |-> v.shots, off |-> v.off, inc |-> v.inc]

ShotLabels(b) ==
    [k \in 1..b.shots |->
        IF b.simseed = NoSeed THEN [kind |-> "nondet", seed |-> 0, idx |-> 0]
        ELSE [kind |-> b.kind, seed |-> b.simseed, idx |-> b.off + (k - 1) * b.inc]]

Step(op, c, v) == /\ Len(hist) < MaxSteps
                  /\ hist' = Append(hist, [op |-> op, c |-> c, v |-> v])

\* ---- actions -------------------------------------------------------------------
WithOption(i, op, f, v) ==
    /\ cfgs' = Append(cfgs, [cfgs[i] EXCEPT ![f] = v])
    /\ ideal' = Append(ideal, [ideal[i] EXCEPT ![f] = v])
    /\ Step(op, i, v)
    /\ UNCHANGED <<sims, runs>>

NewSim(i, op) ==
    /\ sims' = Append(sims, [kind |-> SimMethod[op], rseed |-> NoSeed])
    /\ cfgs' = Append(cfgs, [cfgs[i] EXCEPT !.sim = Len(sims) + 1])
    /\ ideal' = Append(ideal, [ideal[i] EXCEPT !.kind = SimMethod[op]])
    /\ Step(op, i, 0)
    /\ UNCHANGED runs

WithSimulator(i, j) ==
    /\ cfgs' = Append(cfgs, [cfgs[i] EXCEPT !.sim = 1 + j])
    /\ ideal' = Append(ideal, [ideal[i] EXCEPT !.kind = PoolKinds[j]])
    /\ Step("with_simulator", i, j)
    /\ UNCHANGED <<sims, runs>>

WithSeed(i, v) ==
    /\ IF CopyOnSeed
       THEN /\ sims' = Append(sims, [sims[cfgs[i].sim] EXCEPT !.rseed = v])
            /\ cfgs' = Append(cfgs, [cfgs[i] EXCEPT !.seed = v, !.sim = Len(sims) + 1])
       ELSE /\ sims' = [sims EXCEPT ![cfgs[i].sim].rseed = v]
            /\ cfgs' = Append(cfgs, [cfgs[i] EXCEPT !.seed = v])
    /\ ideal' = Append(ideal, [ideal[i] EXCEPT !.seed = v])
    /\ Step("with_seed", i, v)
    /\ UNCHANGED runs

Run(i) ==
    /\ runs' = Append(runs, [step |-> Len(hist) + 1, c |-> i, shots |-> ShotLabels(Beh(i))])
    /\ Step("run", i, 0)
    /\ UNCHANGED <<sims, cfgs, ideal>>

Cfg == 1..Len(cfgs)
DoWithSeed      == \E i \in Cfg, v \in Seeds \cup {NoSeed} : WithSeed(i, v)
DoWithShots     == \E i \in Cfg, v \in ShotVals : WithOption(i, "with_shots", "shots", v)
DoWithOffset    == \E i \in Cfg, v \in OffVals : WithOption(i, "with_shot_offset", "off", v)
DoWithIncrement == \E i \in Cfg, v \in IncVals : WithOption(i, "with_shot_increment", "inc", v)
DoNewSim        == \E i \in Cfg, op \in DOMAIN SimMethod : NewSim(i, op)
DoWithSimulator == \E i \in Cfg, j \in 1..Len(PoolKinds) : WithSimulator(i, j)
DoRun           == \E i \in Cfg : Run(i)
Next == DoWithSeed \/ DoWithShots \/ DoWithOffset \/ DoWithIncrement \/ DoNewSim \/ DoWithSimulator \/ DoRun

Spec == Init /\ [][Next]_vars

\* ---- properties (one INVARIANT line each) ---------------------------------------
\* deriving never changes what an existing configuration does
Immutable == \A i \in 1..Len(cfgs) : Beh(i) = IdealBeh(i)
\* a seeded configuration yields the same labels on every run, whatever happened between
Reproducible ==
    \A a, b \in 1..Len(runs) :
        (runs[a].c = runs[b].c /\ ideal[runs[a].c].seed # NoSeed) => runs[a].shots = runs[b].shots
\* the result is a function of the configuration value, not of the object or the history
FunctionOfValue ==
    \A a, b \in 1..Len(runs) :
        (ideal[runs[a].c] = ideal[runs[b].c] /\ ideal[runs[a].c].seed # NoSeed)
            => runs[a].shots = runs[b].shots
\* derived configs only ever get appended
AppendOnly == [][\A i \in 1..Len(ideal) : ideal'[i] = ideal[i]]_vars

\* ---- emission of replayable histories ---------------------------------------------
Expected ==
    [hist |-> hist,
     cfgs |-> [i \in 1..Len(ideal) |-> IdealBeh(i)],
     runs |-> [r \in 1..Len(runs) |->
                 [step |-> runs[r].step, c |-> runs[r].c, shots |-> ShotLabels(IdealBeh(runs[r].c))]],
     audit |-> [i \in 1..Len(ideal) |-> ShotLabels(IdealBeh(i))]]
Out == (Emit /\ Len(hist) = MaxSteps) => PrintT(ToJson(Expected))
=============================================================================
