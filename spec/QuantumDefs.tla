---------------------------- MODULE QuantumDefs ----------------------------
(* Constant-level definitions shared by Quantum, Quantum_Gen, Quantum_Trace and
   Pytket (properties C20, C26).

   EXACT AMPLITUDES.  TLC has no reals, so amplitudes live in the ring
       R = Z[zeta] / sqrt2^k,   zeta = e^{i pi/8}  (zeta^8 = -1, zeta^16 = 1),
   an element being [c |-> <<c0..c7>>, k |-> K] = (sum_m c_m zeta^m) / sqrt2^K.
   sqrt2 = zeta^2 + zeta^-2, i = zeta^4, e^{i pi/4} = zeta^2, and for an angle
   theta = t*pi/4 (t any integer):  e^{i theta/2} = zeta^t,
   cos(theta/2) = (zeta^t + zeta^-t)/2,  sin(theta/2) = (zeta^(t-4) - zeta^(-t-4))/2.
   So every matrix documented in guppylang/std/quantum/__init__.py and
   guppylang/std/qsystem/__init__.py is exact for all angles that are multiples of
   pi/4 - including the half-angle phases of Rz/CRz/ZZPhase - and the matrices below
   are literal transcriptions of those docstrings (an entry is a short list of monomials
   <<sign, power of zeta>> over a per-matrix denominator sqrt2^K).

   ANGLES.  guppylang/std/angles.py: an `angle` is a float number of half-turns,
   `pi` = angle(1.0), with +, -, * float, float *, / float, float / angle, unary -.
   Here an angle value is an integer number of 1/64 half-turns; angle expressions are
   tagged tuples evaluated by Units(e).  Only expressions whose intermediate values
   are exact in that grid and whose value is a multiple of pi/4 are generated
   (binary floats represent all of them exactly, so the float arithmetic of the
   implementation is exact on them as well).

   QUBIT ORDER.  A state of NQ qubits lists one amplitude per basis index 0..2^NQ-1; qubit 0 is the
   most significant bit of the index (the order in which state_result lists qubits).
   For a k-qubit gate applied to the qubit list qs, qs[1] is the most significant bit
   of the row/column index of the documented matrix ("Qubit ordering: [control, target]"). *)
EXTENDS Integers, Sequences, FiniteSets, TLC

CONSTANT NQ                      \* number of qubits of the register (<= 3)

\* ------------------------------------------------------------------ ring R
\* (TLC evaluates [i \in S |-> e] lazily and interprets every arithmetic node, so coefficient
\*  vectors are explicit 8-tuples, multiplication by zeta^j goes through the two constant
\*  tables below, and whole states share one exponent k - see "states")
Idx == 1..8
Vec(F(_)) == <<F(1), F(2), F(3), F(4), F(5), F(6), F(7), F(8)>>
ZeroC == <<0, 0, 0, 0, 0, 0, 0, 0>>
OneC  == <<1, 0, 0, 0, 0, 0, 0, 0>>
R(c, k) == [c |-> c, k |-> k]
Zero == R(ZeroC, 0)
One  == R(OneC, 0)

Mod16(j) == ((j % 16) + 16) % 16
\* zeta^j * (sum_m c_m zeta^m): coefficient n of the product is SGN[j+1][n] * c[SRC[j+1][n]]
\* (zeta^8 = -1), j in 0..15
SRC == << <<1, 2, 3, 4, 5, 6, 7, 8>>,
        <<8, 1, 2, 3, 4, 5, 6, 7>>,
        <<7, 8, 1, 2, 3, 4, 5, 6>>,
        <<6, 7, 8, 1, 2, 3, 4, 5>>,
        <<5, 6, 7, 8, 1, 2, 3, 4>>,
        <<4, 5, 6, 7, 8, 1, 2, 3>>,
        <<3, 4, 5, 6, 7, 8, 1, 2>>,
        <<2, 3, 4, 5, 6, 7, 8, 1>>,
        <<1, 2, 3, 4, 5, 6, 7, 8>>,
        <<8, 1, 2, 3, 4, 5, 6, 7>>,
        <<7, 8, 1, 2, 3, 4, 5, 6>>,
        <<6, 7, 8, 1, 2, 3, 4, 5>>,
        <<5, 6, 7, 8, 1, 2, 3, 4>>,
        <<4, 5, 6, 7, 8, 1, 2, 3>>,
        <<3, 4, 5, 6, 7, 8, 1, 2>>,
        <<2, 3, 4, 5, 6, 7, 8, 1>> >>
SGN == << <<1, 1, 1, 1, 1, 1, 1, 1>>,
        <<-1, 1, 1, 1, 1, 1, 1, 1>>,
        <<-1, -1, 1, 1, 1, 1, 1, 1>>,
        <<-1, -1, -1, 1, 1, 1, 1, 1>>,
        <<-1, -1, -1, -1, 1, 1, 1, 1>>,
        <<-1, -1, -1, -1, -1, 1, 1, 1>>,
        <<-1, -1, -1, -1, -1, -1, 1, 1>>,
        <<-1, -1, -1, -1, -1, -1, -1, 1>>,
        <<-1, -1, -1, -1, -1, -1, -1, -1>>,
        <<1, -1, -1, -1, -1, -1, -1, -1>>,
        <<1, 1, -1, -1, -1, -1, -1, -1>>,
        <<1, 1, 1, -1, -1, -1, -1, -1>>,
        <<1, 1, 1, 1, -1, -1, -1, -1>>,
        <<1, 1, 1, 1, 1, -1, -1, -1>>,
        <<1, 1, 1, 1, 1, 1, -1, -1>>,
        <<1, 1, 1, 1, 1, 1, 1, -1>> >>
RotC(c, j) == LET s == SRC[Mod16(j) + 1] g == SGN[Mod16(j) + 1]
                  F(i) == g[i] * c[s[i]]
              IN Vec(F)
AddC(a, b) == LET F(i) == a[i] + b[i] IN Vec(F)
NegC(a)    == LET F(i) == 0 - a[i] IN Vec(F)
Sqrt2C(c)  == AddC(RotC(c, 2), RotC(c, 14))          \* sqrt2 * x,  sqrt2 = zeta^2 + zeta^-2
IsZeroC(c) == c = ZeroC
EvenC(c)   == \A i \in Idx : c[i] % 2 = 0
HalfC(c)   == LET F(i) == c[i] \div 2 IN Vec(F)

RECURSIVE RaiseC(_, _)
RaiseC(c, n) == IF n = 0 THEN c ELSE RaiseC(Sqrt2C(c), n - 1)

\* canonical form of a ring element: smallest exponent k >= 0 with integer coefficients; 0 has k = 0
RECURSIVE Norm(_)
Norm(x) == IF IsZeroC(x.c) THEN Zero
           ELSE IF x.k = 0 THEN x
           ELSE LET y == Sqrt2C(x.c)
                IN IF EvenC(y) THEN Norm(R(HalfC(y), x.k - 1)) ELSE x

Max(a, b) == IF a >= b THEN a ELSE b
Add(x, y) == LET k == Max(x.k, y.k) IN
             R(AddC(RaiseC(x.c, k - x.k), RaiseC(y.c, k - y.k)), k)
Rot(x, j) == R(RotC(x.c, j), x.k)
MulC(a, b) == LET r1 == RotC(a, 0) r2 == RotC(a, 1) r3 == RotC(a, 2) r4 == RotC(a, 3)
                  r5 == RotC(a, 4) r6 == RotC(a, 5) r7 == RotC(a, 6) r8 == RotC(a, 7)
                  F(i) == b[1] * r1[i] + b[2] * r2[i] + b[3] * r3[i] + b[4] * r4[i]
                        + b[5] * r5[i] + b[6] * r6[i] + b[7] * r7[i] + b[8] * r8[i]
              IN Vec(F)
Mul(x, y) == R(MulC(x.c, y.c), x.k + y.k)
ConjC(c)  == LET F(i) == IF i = 1 THEN c[1] ELSE 0 - c[10 - i] IN Vec(F)
Conj(x)   == R(ConjC(x.c), x.k)
REq(x, y) == Norm(x) = Norm(y)

\* ------------------------------------------------------------------ documented matrices
\* A matrix is [k |-> K, m |-> rows]: every entry is (sum of its monomials) / sqrt2^K, a monomial
\* <<s, j>> being s * zeta^j (s = 1 or -1).  E0 is the entry 0.
E0      == <<>>
Ez(j)   == <<<<1, j>>>>                        \* zeta^j          (e^{i theta/2} for theta = j pi/4)
E1      == Ez(0)
ESqrt2  == <<<<1, 2>>, <<1, -2>>>>             \* sqrt2
NegM(m) == <<0 - m[1], m[2]>>
RotM(m, j) == <<m[1], m[2] + j>>
ENeg(e) == IF Len(e) = 0 THEN <<>> ELSE IF Len(e) = 1 THEN <<NegM(e[1])>> ELSE <<NegM(e[1]), NegM(e[2])>>
ERot(e, j) == IF Len(e) = 0 THEN <<>> ELSE IF Len(e) = 1 THEN <<RotM(e[1], j)>>
              ELSE <<RotM(e[1], j), RotM(e[2], j)>>
\* over the denominator 2 (K = 2):  2 cos(theta/2) and 2 sin(theta/2), theta = t pi/4
ECos2(t) == <<<<1, t>>, <<1, 0 - t>>>>         \* zeta^t + zeta^-t
ESin2(t) == <<<<1, t - 4>>, <<-1, 0 - t - 4>>>>   \* (zeta^t - zeta^-t) / i
MatK(k, rows) == [k |-> k, m |-> rows]
M2(a, b, c, d) == << <<a, b>>, <<c, d>> >>
Diag4(a, b, c, d) == << <<a, E0, E0, E0>>, <<E0, b, E0, E0>>, <<E0, E0, c, E0>>, <<E0, E0, E0, d>> >>

MH   == MatK(1, M2(E1, E1, E1, Ez(8)))                        \* 1/sqrt2 (1 1; 1 -1)
MX   == MatK(0, M2(E0, E1, E1, E0))
MY   == MatK(0, M2(E0, Ez(12), Ez(4), E0))                    \* (0 -i; i 0)
MZ   == MatK(0, M2(E1, E0, E0, Ez(8)))
MS   == MatK(0, M2(E1, E0, E0, Ez(4)))                        \* diag(1, i)
MSdg == MatK(0, M2(E1, E0, E0, Ez(12)))
MT   == MatK(0, M2(E1, E0, E0, Ez(2)))                        \* diag(1, e^{i pi/4})
MTdg == MatK(0, M2(E1, E0, E0, Ez(14)))
MV   == MatK(1, M2(E1, Ez(12), Ez(12), E1))                   \* 1/sqrt2 (1 -i; -i 1)
MVdg == MatK(1, M2(E1, Ez(4), Ez(4), E1))                     \* 1/sqrt2 (1 i; i 1)
\* rotations by theta = t*pi/4
MRz(t) == MatK(0, M2(Ez(0 - t), E0, E0, Ez(t)))               \* diag(e^{-i theta/2}, e^{i theta/2})
MRx(t) == MatK(2, M2(ECos2(t), ERot(ENeg(ESin2(t)), 4),       \* (c -is; -is c)
                     ERot(ENeg(ESin2(t)), 4), ECos2(t)))
MRy(t) == MatK(2, M2(ECos2(t), ENeg(ESin2(t)), ESin2(t), ECos2(t)))   \* (c -s; s c)
MCX  == MatK(0, << <<E1, E0, E0, E0>>, <<E0, E1, E0, E0>>, <<E0, E0, E0, E1>>, <<E0, E0, E1, E0>> >>)
MCY  == MatK(0, << <<E1, E0, E0, E0>>, <<E0, E1, E0, E0>>, <<E0, E0, E0, Ez(12)>>, <<E0, E0, Ez(4), E0>> >>)
MCZ  == MatK(0, Diag4(E1, E1, E1, Ez(8)))
\* CH: the docstring prints 1/sqrt2 in front of the WHOLE 4x4 matrix, which is not unitary
\* (QuantumLaws!CHDocstringMatrixIsNotUnitary); the gate documented in words ("Controlled-H",
\* qubit ordering [control, target]) is the block matrix (1 0; 0 H), here over the denominator sqrt2.
MCH  == MatK(1, << <<ESqrt2, E0, E0, E0>>, <<E0, ESqrt2, E0, E0>>, <<E0, E0, E1, E1>>, <<E0, E0, E1, Ez(8)>> >>)
MCHAsPrinted == MatK(1, << <<E1, E0, E0, E0>>, <<E0, E1, E0, E0>>, <<E0, E0, E1, E1>>, <<E0, E0, E1, Ez(8)>> >>)
MCRz(t) == MatK(0, Diag4(E1, E1, Ez(0 - t), Ez(t)))
MToffoli == MatK(0, << <<E1, E0, E0, E0, E0, E0, E0, E0>>, <<E0, E1, E0, E0, E0, E0, E0, E0>>,
                       <<E0, E0, E1, E0, E0, E0, E0, E0>>, <<E0, E0, E0, E1, E0, E0, E0, E0>>,
                       <<E0, E0, E0, E0, E1, E0, E0, E0>>, <<E0, E0, E0, E0, E0, E1, E0, E0>>,
                       <<E0, E0, E0, E0, E0, E0, E0, E1>>, <<E0, E0, E0, E0, E0, E0, E1, E0>> >>)
\* qsystem native gates
\* PhasedX(t1, t2) = ( cos(t1/2)  -i e^{-i t2} sin(t1/2) ; -i e^{i t2} sin(t1/2)  cos(t1/2) )
MPhasedX(t1, t2) == MatK(2, M2(ECos2(t1), ERot(ENeg(ESin2(t1)), 4 - 2 * t2),
                               ERot(ENeg(ESin2(t1)), 4 + 2 * t2), ECos2(t1)))
MZZPhase(t) == MatK(0, Diag4(Ez(0 - t), Ez(t), Ez(t), Ez(0 - t)))
MZZMax == MatK(0, Diag4(Ez(-2), Ez(2), Ez(2), Ez(-2)))       \* e^{-+ i pi/4}

Gates0 == {"h", "x", "y", "z", "s", "sdg", "t", "tdg", "v", "vdg"}    \* 1 qubit, no angle
Gates1 == {"rx", "ry", "rz", "qrz"}                                  \* 1 qubit, 1 angle (qrz = qsystem.rz)
Gates2 == {"cx", "cy", "cz", "ch", "zz_max"}                         \* 2 qubits, no angle
Gates21 == {"crz", "zz_phase"}                                       \* 2 qubits, 1 angle
GateNames == Gates0 \cup Gates1 \cup Gates2 \cup Gates21 \cup {"toffoli", "phased_x"}
Arity(g) == IF g \in Gates0 \cup Gates1 \cup {"phased_x"} THEN 1
            ELSE IF g = "toffoli" THEN 3 ELSE 2
NAngles(g) == IF g \in Gates1 \cup Gates21 THEN 1 ELSE IF g = "phased_x" THEN 2 ELSE 0

\* ts = angle values in units of pi/4
Mat(g, ts) ==
    CASE g = "h" -> MH [] g = "x" -> MX [] g = "y" -> MY [] g = "z" -> MZ
      [] g = "s" -> MS [] g = "sdg" -> MSdg [] g = "t" -> MT [] g = "tdg" -> MTdg
      [] g = "v" -> MV [] g = "vdg" -> MVdg
      [] g = "rx" -> MRx(ts[1]) [] g = "ry" -> MRy(ts[1]) [] g = "rz" -> MRz(ts[1])
      [] g = "qrz" -> MRz(ts[1])
      [] g = "cx" -> MCX [] g = "cy" -> MCY [] g = "cz" -> MCZ [] g = "ch" -> MCH
      [] g = "crz" -> MCRz(ts[1]) [] g = "toffoli" -> MToffoli
      [] g = "phased_x" -> MPhasedX(ts[1], ts[2])
      [] g = "zz_phase" -> MZZPhase(ts[1]) [] g = "zz_max" -> MZZMax

\* ------------------------------------------------------------------ states
\* A state is [k |-> K, a |-> <<c_0, .., c_{Dim-1}>>]: amplitude of basis index i is
\* (sum_m a[i+1][m+1] zeta^m) / sqrt2^K  - one common exponent for the whole vector.
Dim == 2 ^ NQ
Index == 0..(Dim - 1)
Qubits == 0..(NQ - 1)
Pow2(n) == 2 ^ n
Bit(i, q) == (i \div Pow2(NQ - 1 - q)) % 2
SetBit(i, q, b) == i + (b - Bit(i, q)) * Pow2(NQ - 1 - q)
Loc(i, qs) == IF Len(qs) = 1 THEN Bit(i, qs[1])
              ELSE IF Len(qs) = 2 THEN 2 * Bit(i, qs[1]) + Bit(i, qs[2])
              ELSE 4 * Bit(i, qs[1]) + 2 * Bit(i, qs[2]) + Bit(i, qs[3])
WithLoc(i, qs, l) ==
    IF Len(qs) = 1 THEN SetBit(i, qs[1], l)
    ELSE IF Len(qs) = 2 THEN SetBit(SetBit(i, qs[1], l \div 2), qs[2], l % 2)
    ELSE SetBit(SetBit(SetBit(i, qs[1], l \div 4), qs[2], (l \div 2) % 2), qs[3], l % 2)

St(k, a) == [k |-> k, a |-> a]
AmpVec(F(_)) == IF NQ = 1 THEN <<F(0), F(1)>>
                ELSE IF NQ = 2 THEN <<F(0), F(1), F(2), F(3)>>
                ELSE <<F(0), F(1), F(2), F(3), F(4), F(5), F(6), F(7)>>
Basis(b) == LET F(i) == IF i = b THEN OneC ELSE ZeroC IN St(0, AmpVec(F))
ZeroState == Basis(0)
Amp(st, i) == R(st.a[i + 1], st.k)                   \* amplitude i as a ring element

\* the terms <<sign, j, source index>> that make up new amplitude i:  row Loc(i) of the matrix
RECURSIVE EntryTerms(_, _, _)
EntryTerms(e, src, m) == IF m > Len(e) THEN <<>>
                         ELSE <<<<e[m][1], Mod16(e[m][2]) + 1, src + 1>>>> \o EntryTerms(e, src, m + 1)
RECURSIVE RowTerms(_, _, _, _)
RowTerms(row, qs, i, l) == IF l = Len(row) THEN <<>>
                           ELSE EntryTerms(row[l + 1], WithLoc(i, qs, l), 1) \o RowTerms(row, qs, i, l + 1)
RECURSIVE TermSum(_, _, _, _)
TermSum(a, terms, n, t) ==
    IF t > Len(terms) THEN 0
    ELSE LET tm == terms[t] IN tm[1] * SGN[tm[2]][n] * a[tm[3]][SRC[tm[2]][n]] + TermSum(a, terms, n, t + 1)
NewAmp(a, terms) == LET F(n) == TermSum(a, terms, n, 1) IN Vec(F)

\* cheap reduction: a common factor 2 = sqrt2^2
AllEven(a) == \A i \in DOMAIN a : EvenC(a[i])
RECURSIVE Reduce2(_)
Reduce2(st) == IF st.k >= 2 /\ AllEven(st.a)
               THEN Reduce2(St(st.k - 2, [i \in DOMAIN st.a |-> HalfC(st.a[i])]))
               ELSE st
\* canonical form of a state: smallest common exponent
RECURSIVE NormState(_)
NormState(st) == IF st.k = 0 THEN st
                 ELSE LET y == [i \in DOMAIN st.a |-> Sqrt2C(st.a[i])]
                      IN IF AllEven(y) THEN NormState(St(st.k - 1, [i \in DOMAIN y |-> HalfC(y[i])])) ELSE st

ApplyMat(st, M, qs) ==
    LET F(i) == NewAmp(st.a, RowTerms(M.m[Loc(i, qs) + 1], qs, i, 0))
    IN Reduce2(St(st.k + M.k, AmpVec(F)))

\* <u|v> and |v|^2 as ring elements
Inner(u, v) == LET RECURSIVE S(_)
                   S(i) == IF i = Dim THEN ZeroC ELSE AddC(MulC(ConjC(u.a[i + 1]), v.a[i + 1]), S(i + 1))
               IN Norm(R(S(0), u.k + v.k))
NormSq(st) == Inner(st, st)
StEq(u, v) == NormState(u) = NormState(v)

\* projective Z-basis measurement of qubit q with outcome b (state left un-normalised)
Possible(st, q, b) == \E i \in Index : Bit(i, q) = b /\ st.a[i + 1] # ZeroC
Project(st, q, b) == LET F(i) == IF Bit(i, q) = b THEN st.a[i + 1] ELSE ZeroC IN St(st.k, AmpVec(F))
Flip(st, q) == LET F(i) == st.a[SetBit(i, q, 1 - Bit(i, q)) + 1] IN St(st.k, AmpVec(F))
\* measured with outcome b, then put back to |0>
ProjectReset(st, q, b) == IF b = 1 THEN Flip(Project(st, q, 1), q) ELSE Project(st, q, 0)

\* ------------------------------------------------------------------ angle expressions
\* value = integer number of 1/64 half-turns; numbers k are dyadic <<num, den>>
\*   <<"pi">>  <<"lit", u>> (angle(u/64))  <<"neg", e>>  <<"add", e, f>>  <<"sub", e, f>>
\*   <<"mul", e, k>> (e * k)  <<"rmul", k, e>> (k * e)  <<"div", e, k>> (e / k)
\*   <<"rdiv", k, e>> (k / e  =  angle(k / e.halfturns), angles.py __rtruediv__)
Bad == -1000000                                       \* "not exact / not defined"
Abs(n) == IF n < 0 THEN 0 - n ELSE n
Divides(d, n) == d # 0 /\ n % Abs(d) = 0
Quot(n, d) == IF d < 0 THEN (0 - n) \div (0 - d) ELSE n \div d       \* exact quotient
RECURSIVE Units(_)
Units(e) ==
    CASE e[1] = "pi"  -> 64
      [] e[1] = "lit" -> e[2]
      [] e[1] = "neg" -> (LET u == Units(e[2]) IN IF u = Bad THEN Bad ELSE 0 - u)
      [] e[1] = "add" -> (LET u == Units(e[2]) v == Units(e[3]) IN IF u = Bad \/ v = Bad THEN Bad ELSE u + v)
      [] e[1] = "sub" -> (LET u == Units(e[2]) v == Units(e[3]) IN IF u = Bad \/ v = Bad THEN Bad ELSE u - v)
      [] e[1] = "mul" -> (LET u == Units(e[2]) k == e[3] IN
                          IF u = Bad \/ ~Divides(k[2], u * k[1]) THEN Bad ELSE Quot(u * k[1], k[2]))
      [] e[1] = "rmul" -> (LET u == Units(e[3]) k == e[2] IN
                          IF u = Bad \/ ~Divides(k[2], u * k[1]) THEN Bad ELSE Quot(u * k[1], k[2]))
      [] e[1] = "div" -> (LET u == Units(e[2]) k == e[3] IN
                          IF u = Bad \/ ~Divides(k[1], u * k[2]) THEN Bad ELSE Quot(u * k[2], k[1]))
      [] e[1] = "rdiv" -> (LET u == Units(e[3]) k == e[2] IN          \* 64 * (k / (u/64))
                          IF u = Bad \/ ~Divides(k[2] * u, 4096 * k[1]) THEN Bad
                          ELSE Quot(4096 * k[1], k[2] * u))
\* usable by a gate: exact and a multiple of pi/4, kept small
Usable(e) == LET u == Units(e) IN u # Bad /\ u % 16 = 0 /\ u >= -512 /\ u <= 512
Quarter(e) == Units(e) \div 16                        \* theta in units of pi/4

\* ------------------------------------------------------------------ operations
\* An operation is a record
\*   [g |-> name, qs |-> <<qubits>>, a |-> <<angle exprs>>, f |-> "p" | "f", b |-> outcome]
\* f: procedural form (h(q)) or functional form (q = functional.h(q)) of the same gate;
\* b: -1 for gates, 0/1 for the outcome of a measurement-like operation (for reset the
\* outcome is not visible to the program; it is the branch taken).
Distinct(qs) == \A i, j \in DOMAIN qs : i # j => qs[i] # qs[j]
ApplyGate(st, op) == ApplyMat(st, Mat(op.g, [i \in DOMAIN op.a |-> Quarter(op.a[i])]), op.qs)

\* measurement-like operations: all are projective Z-basis operations
\*   project_z            non-destructive: projects, returns b
\*   measure / qmeasure   destructive measure (std.quantum / std.qsystem) followed by a fresh
\*                        qubit() bound to the same variable: projects, returns b, leaves |0>
\*   measure_and_reset    qsystem: projects, returns b, leaves |0>
\*   reset / qreset       leaves |0>; the branch b is hidden
MeasNames == {"project_z", "measure", "qmeasure", "measure_and_reset", "reset", "qreset"}
Hidden(g) == g \in {"reset", "qreset"}
ApplyMeas(st, op) == IF op.g = "project_z" THEN Project(st, op.qs[1], op.b)
                     ELSE ProjectReset(st, op.qs[1], op.b)
IsGate(op) == op.g \in GateNames
ApplyOp(st, op) == IF IsGate(op) THEN ApplyGate(st, op) ELSE ApplyMeas(st, op)
Enabled(st, op) == IsGate(op) \/ Possible(st, op.qs[1], op.b)

RECURSIVE RunFrom(_, _, _)
RunFrom(st, ops, i) == IF i > Len(ops) THEN st ELSE RunFrom(ApplyOp(st, ops[i]), ops, i + 1)
Run(ops) == RunFrom(ZeroState, ops, 1)

\* qubit assignments: every injective list of k qubits
Assign(k) == IF k = 1 THEN {<<q>> : q \in Qubits}
             ELSE IF k = 2 THEN {<<p, q>> : p, q \in Qubits} \ {<<q, q>> : q \in Qubits}
             ELSE {qs \in {<<p, q, r>> : p, q, r \in Qubits} : Distinct(qs)}

Op(g, qs, a, f) == [g |-> g, qs |-> qs, a |-> a, f |-> f, b |-> -1]
MOp(g, q, f, b) == [g |-> g, qs |-> <<q>>, a |-> <<>>, f |-> f, b |-> b]
Lit(t) == <<"lit", 16 * t>>                            \* angle(t/4) : theta = t*pi/4

\* gates x every qubit assignment x angle values ts (canonical literal expressions) x forms
GateOps(names, ts, forms) ==
    UNION {
      {Op(g, qs, <<>>, f) : g \in names \cap (Gates0 \cup Gates2 \cup {"toffoli"}) \cap {gg \in GateNames : Arity(gg) = k},
                            qs \in Assign(k), f \in forms}
      \cup {Op(g, qs, <<Lit(t)>>, f) : g \in names \cap (Gates1 \cup Gates21) \cap {gg \in GateNames : Arity(gg) = k},
                            qs \in Assign(k), t \in ts, f \in forms}
      \cup (IF k = 1 /\ "phased_x" \in names
            THEN {Op("phased_x", qs, <<Lit(t1), Lit(t2)>>, f) : qs \in Assign(1), t1 \in ts, t2 \in ts, f \in forms}
            ELSE {})
      : k \in 1..(IF NQ >= 3 THEN 3 ELSE NQ)}

\* angle expressions built with the arithmetic of angles.py
PI == <<"pi">>
Atoms == {PI, <<"lit", 16>>, <<"lit", 32>>, <<"lit", -48>>, <<"lit", 96>>, <<"lit", 128>>}
Ks == {<<2, 1>>, <<4, 2>>, <<1, 2>>, <<-1, 1>>, <<3, 1>>, <<4, 1>>, <<3, 2>>, <<1, 4>>, <<-2, 4>>}
PiParts == {PI, <<"neg", PI>>, <<"div", PI, <<2, 1>>>>, <<"div", PI, <<4, 1>>>>, <<"rmul", <<2, 1>>, PI>>,
            <<"mul", PI, <<3, 2>>>>, <<"rmul", <<3, 1>>, <<"div", PI, <<4, 1>>>>>>,
            <<"div", <<"mul", PI, <<3, 1>>>>, <<4, 2>>>>, <<"neg", <<"div", PI, <<4, 1>>>>>>}
AngleExprs ==
    {e \in Atoms
         \cup {<<"neg", x>> : x \in Atoms}
         \cup {<<"mul", x, k>> : x \in Atoms, k \in Ks} \cup {<<"rmul", k, x>> : x \in Atoms, k \in Ks}
         \cup {<<"div", x, k>> : x \in Atoms, k \in Ks} \cup {<<"rdiv", k, x>> : x \in Atoms, k \in Ks}
         \cup {<<"add", x, y>> : x, y \in Atoms} \cup {<<"sub", x, y>> : x, y \in Atoms}
         \cup PiParts
         \cup {<<"add", x, y>> : x, y \in PiParts} \cup {<<"sub", x, y>> : x, y \in PiParts}
         \cup {<<"neg", <<"add", x, y>>>> : x, y \in PiParts}
     : Usable(e)}
\* every angle expression on one representative of each way an angle reaches an operation:
\* RotationCompiler (rz, crz), float(angle) for qsystem (qrz, zz_phase, both slots of phased_x)
ExprOps(forms, all) ==
    {Op("rz", <<0>>, <<e>>, f) : e \in AngleExprs, f \in forms}
    \cup {Op("crz", <<1, 0>>, <<e>>, f) : e \in AngleExprs, f \in forms}
    \cup {Op("qrz", <<1>>, <<e>>, f) : e \in AngleExprs, f \in forms}
    \cup (IF all THEN
            {Op("zz_phase", <<0, 1>>, <<e>>, f) : e \in AngleExprs, f \in forms}
            \cup {Op("phased_x", <<0>>, <<e, Lit(1)>>, f) : e \in AngleExprs, f \in forms}
            \cup {Op("phased_x", <<1>>, <<Lit(2), e>>, f) : e \in AngleExprs, f \in forms}
          ELSE {})
\* every angle expression once, on one of the three slots (which one: a fixed function of the
\* expression, so that both angle paths see every kind of expression)
ExprOpsOnce ==
    {Op("rz", <<0>>, <<e>>, "p") : e \in {x \in AngleExprs : (Quarter(x) + Len(x)) % 3 = 0}}
    \cup {Op("crz", <<1, 0>>, <<e>>, "p") : e \in {x \in AngleExprs : (Quarter(x) + Len(x)) % 3 = 1}}
    \cup {Op("qrz", <<1>>, <<e>>, "p") : e \in {x \in AngleExprs : (Quarter(x) + Len(x)) % 3 = 2}}

MeasOps(forms) == {MOp(g, q, f, b) : g \in MeasNames, q \in Qubits, f \in forms, b \in {0, 1}}

\* preparation prefixes: |0..0>, a product of pairwise different generic one-qubit states
\* (Bloch vectors off every rotation axis of the gate set: not on X, Y, Z, the H axis or an
\* equatorial axis at a multiple of pi/4), and the same entangled
PrepProduct == << Op("ry", <<0>>, <<Lit(1)>>, "p"), Op("s", <<0>>, <<>>, "p") >>
               \o (IF NQ >= 2 THEN << Op("ry", <<1>>, <<Lit(3)>>, "p"), Op("t", <<1>>, <<>>, "p") >> ELSE <<>>)
               \o (IF NQ >= 3 THEN << Op("ry", <<2>>, <<Lit(3)>>, "p"), Op("sdg", <<2>>, <<>>, "p") >> ELSE <<>>)
PrepEntangled == PrepProduct
               \o (IF NQ >= 2 THEN << Op("cx", <<0, 1>>, <<>>, "p") >> ELSE <<>>)
               \o (IF NQ >= 3 THEN << Op("cx", <<1, 2>>, <<>>, "p"), Op("ry", <<0>>, <<Lit(1)>>, "p"), Op("cx", <<2, 0>>, <<>>, "p") >> ELSE <<>>)
Preps == << <<>>, PrepProduct, PrepEntangled >>

\* output form of a state: common exponent and the Dim coefficient vectors
OutState(st) == [k |-> st.k, a |-> st.a]
=============================================================================
