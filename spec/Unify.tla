------------------------------- MODULE Unify -------------------------------
(* Unification of Guppy types and constants
   (guppylang_internals/tys/ty.py: unify / _unify_var / _unify_args, tys/subst.py).

   Terms (tagged tuples, also the JSON projection of the real Type/Const objects):
     <<"num", k>>  k in {"int","nat","float"}     <<"none">>
     <<"ev", name, lin>>   existential type variable, lin = "c" (copyable+droppable) | "l" (linear)
     <<"bv", idx, lin>>    bound type variable (a constant for unification)
     <<"tup", <<t1..tn>>>>
     <<"fun", <<<<ty, flag>>..>>, out, np>>  flag in {"none","inout","owned"}, np = #quantified params
     <<"opq", name, <<args>>>>   bool, str, qubit, array[T, n], option[T], list[T], frozenarray[T, n]
     <<"struct", name, <<args>>>>
     <<"nat", k>>  <<"cv", name>>  <<"cbv", idx>>      constants (array lengths)
   A substitution is a function from variable terms to terms; it is kept *triangular*
   (bindings may mention solved variables) exactly like the dict the code threads through.

   Three things are specified and compared by TLC:
   (A) the algorithm-shaped unifier: a stack of equations `work`, the substitution `sub`,
       one action per step of the code: Load / SameVar / ChaseL / ChaseOther (the two
       look-ups of `_unify_var`) / Bind / Occurs / Decompose (`_unify_args`) / Clash / Finish;
   (B) a declarative oracle by unification closure: the least equivalence on the subterms of
       the problem that contains the equations and is closed under decomposition must be
       homogeneous (no two constructors in one class) and its quotient acyclic;
   (C) (small models only, BruteForce = TRUE) the literal reading of the property:
       "exists an assignment of closed terms to the variables making both sides identical
       and satisfying the start substitution", by enumeration of all assignments over the
       closed terms of depth <= GDepth.
   TLC checks: (A) terminates; (A) = (B) = (C) on every problem; the substitution computed
   by (A) is a unifier, extends the start substitution and is most general w.r.t. (C).

   Ownership flags: a function input carries "inout"/"owned" iff its type is not copyable.
   Flags are part of the constructor.  Where the flags of two function types differ at an
   input whose non-copyability can change under substitution (a bare variable, a tuple
   with a variable ...) the code leaves the decision to a later bound check (check_inst);
   such problems get the verdict "amb" and are out of scope (HeadRel).
   Serves C12. *)
EXTENDS Naturals, Sequences, FiniteSets, TLC, Json

CONSTANTS
    TVarNames,      \* names of copyable existential type variables of the model universe
    CVarNames,      \* names of existential const variables
    TyAtomNames,    \* closed atomic types of the model universe: "int","nat","float","none","bool","qubit"
    NatVals,        \* nat constants
    UseTup1, UseTup2, UseFun, UseArr,   \* constructors of the model universe
    Depth,          \* depth of the two sides
    StartDepth,     \* depth of the terms in the start substitution
    MaxStart,       \* number of bindings in the start substitution (0..2)
    GDepth,         \* depth of the closed terms used by the brute-force oracle
    BruteForce      \* evaluate oracle (C)

\* ---------------------------------------------------------------- terms ----------------
Tag(t)   == t[1]
IsVar(t) == Tag(t) \in {"ev", "cv"}
IsConstTerm(t) == Tag(t) \in {"cv", "nat", "cbv"}

Children(t) ==
    CASE Tag(t) = "tup" -> t[2]
      [] Tag(t) = "fun" -> [i \in 1..Len(t[2]) |-> t[2][i][1]] \o <<t[3]>>
      [] Tag(t) \in {"opq", "struct"} -> t[3]
      [] OTHER -> <<>>

Rebuild(t, ch) ==
    CASE Tag(t) = "tup" -> <<"tup", ch>>
      [] Tag(t) = "fun" -> <<"fun", [i \in 1..Len(t[2]) |-> <<ch[i], t[2][i][2]>>], ch[Len(ch)], t[4]>>
      [] Tag(t) \in {"opq", "struct"} -> <<t[1], t[2], ch>>
      [] OTHER -> t

\* constructor symbol without the ownership flags
Ctor(t) ==
    CASE Tag(t) = "tup" -> <<"tup", Len(t[2])>>
      [] Tag(t) = "fun" -> <<"fun", t[4], Len(t[2])>>
      [] Tag(t) \in {"opq", "struct"} -> <<t[1], t[2], Len(t[3])>>
      [] OTHER -> t

RECURSIVE Vars(_)
Vars(t) == IF IsVar(t) THEN {t}
           ELSE LET ch == Children(t) IN UNION {Vars(ch[i]) : i \in DOMAIN ch}

RECURSIVE SubTerms(_)
SubTerms(t) == {t} \cup (LET ch == Children(t) IN UNION {SubTerms(ch[i]) : i \in DOMAIN ch})

Closed(t) == Vars(t) = {}

RECURSIVE NonCopy(_)
NonCopy(t) ==
    CASE Tag(t) \in {"ev", "bv"} -> t[3] = "l"
      [] Tag(t) = "tup" -> \E i \in DOMAIN t[2] : NonCopy(t[2][i])
      [] Tag(t) = "opq" -> \/ t[2] \in {"qubit", "array"}
                           \/ \E i \in DOMAIN t[3] : ~IsConstTerm(t[3][i]) /\ NonCopy(t[3][i])
      [] Tag(t) = "struct" -> \/ t[2] = "G2"       \* G2 has an array field: never copyable
                              \/ \E i \in DOMAIN t[3] : ~IsConstTerm(t[3][i]) /\ NonCopy(t[3][i])
      [] OTHER -> FALSE

RECURSIVE NonDrop(_)
NonDrop(t) ==
    CASE Tag(t) \in {"ev", "bv"} -> t[3] = "l"
      [] Tag(t) = "tup" -> \E i \in DOMAIN t[2] : NonDrop(t[2][i])
      [] Tag(t) = "opq" -> \/ t[2] = "qubit"
                           \/ \E i \in DOMAIN t[3] : ~IsConstTerm(t[3][i]) /\ NonDrop(t[3][i])
      [] Tag(t) = "struct" -> \E i \in DOMAIN t[3] : ~IsConstTerm(t[3][i]) /\ NonDrop(t[3][i])
      [] OTHER -> FALSE
Linear(t) == NonCopy(t) /\ NonDrop(t)

\* non-copyable / copyable whatever is substituted for the variables
InvNC(t) == (Closed(t) /\ NonCopy(t)) \/ (Tag(t) = "opq" /\ t[2] \in {"qubit", "array"})
InvC(t)  == (Closed(t) /\ ~NonCopy(t)) \/ Tag(t) = "fun"

\* relation of the constructors of two non-variable terms: "same" | "clash" | "amb"
HeadRel(s, t) ==
    IF Ctor(s) # Ctor(t) THEN "clash"
    ELSE IF Tag(s) # "fun" THEN "same"
    ELSE LET D == {i \in DOMAIN s[2] : s[2][i][2] # t[2][i][2]} IN
         IF D = {} THEN "same"
         ELSE IF \A i \in D : \/ InvNC(s[2][i][1]) /\ InvNC(t[2][i][1])
                              \/ InvNC(s[2][i][1]) /\ InvC(t[2][i][1])
                              \/ InvC(s[2][i][1]) /\ InvNC(t[2][i][1])
              THEN "clash"
              ELSE "amb"

\* ------------------------------------------------------- substitutions ----------------
EmptyS == [x \in {} |-> x]
Bind1(sb, v, t) == [x \in DOMAIN sb \cup {v} |-> IF x = v THEN t ELSE sb[x]]
SeqToSubst(q) == [v \in {q[i][1] : i \in DOMAIN q} |-> q[CHOOSE i \in DOMAIN q : q[i][1] = v][2]]
SubstToSet(sb) == {<<x, sb[x]>> : x \in DOMAIN sb}

RECURSIVE RV(_, _)
RV(S, sb) == LET S2 == S \cup UNION {Vars(sb[x]) : x \in S \cap DOMAIN sb}
             IN IF S2 = S THEN S ELSE RV(S2, sb)
ReachVars(t, sb) == RV(Vars(t), sb)          \* variables of t seen through sb
Acyclic(sb) == \A x \in DOMAIN sb : x \notin ReachVars(sb[x], sb)

\* apply an acyclic triangular substitution exhaustively
RECURSIVE Resolve(_, _)
Resolve(sb, t) ==
    IF IsVar(t) THEN (IF t \in DOMAIN sb THEN Resolve(sb, sb[t]) ELSE t)
    ELSE LET ch == Children(t) IN Rebuild(t, [i \in DOMAIN ch |-> Resolve(sb, ch[i])])

\* identity of types: structural, flags included
Solves(sb, p) ==
    /\ Resolve(sb, p.s) = Resolve(sb, p.t)
    /\ \A x \in DOMAIN p.start : Resolve(sb, x) = Resolve(sb, p.start[x])

ProbVars(p) == Vars(p.s) \cup Vars(p.t) \cup DOMAIN p.start
               \cup UNION {Vars(p.start[x]) : x \in DOMAIN p.start}

\* ------------------------------------------------ (B) unification closure ---------------
\* A partition of the subterms of the problem; two subterms share a block iff every unifier
\* must identify them.  Start: the equations; closure: equal constructors => children equal.
ProbNodes(p) == SubTerms(p.s) \cup SubTerms(p.t) \cup DOMAIN p.start
                \cup UNION {SubTerms(p.start[x]) : x \in DOMAIN p.start}

BlockOf(P, n) == CHOOSE B \in P : n \in B
Merge(P, e) == LET A == BlockOf(P, e[1]) B == BlockOf(P, e[2])
               IN IF A = B THEN P ELSE (P \ {A, B}) \cup {A \cup B}
RECURSIVE MergeAll(_, _)
MergeAll(P, Es) == IF Es = {} THEN P
                   ELSE LET e == CHOOSE e \in Es : TRUE IN MergeAll(Merge(P, e), Es \ {e})

ChildPairs(u, v) == LET cu == Children(u) cv == Children(v)
                    IN {<<cu[i], cv[i]>> : i \in DOMAIN cu}
NonVarPairs(B) == {q \in B \X B : ~IsVar(q[1]) /\ ~IsVar(q[2]) /\ q[1] # q[2]}
RECURSIVE Close(_)
Close(P) ==
    LET new == UNION {ChildPairs(q[1], q[2]) :
                        q \in UNION {{q \in NonVarPairs(B) : HeadRel(q[1], q[2]) = "same"} : B \in P}}
        P2 == MergeAll(P, new)
    IN IF P2 = P THEN P ELSE Close(P2)

KidsOf(S) == UNION {LET ch == Children(n) IN {ch[i] : i \in DOMAIN ch} : n \in S}
\* blocks whose members denote finite terms: least fixpoint of "all child blocks are finite"
RECURSIVE FinFix(_, _)
FinFix(F, kids) == LET F2 == F \cup {B \in DOMAIN kids : kids[B] \subseteq F}
                   IN IF F2 = F THEN F ELSE FinFix(F2, kids)

Oracle(p) ==
    LET N == ProbNodes(p)
        P == Close(MergeAll({{n} : n \in N},
                            {<<p.s, p.t>>} \cup {<<x, p.start[x]>> : x \in DOMAIN p.start}))
        rels == UNION {{HeadRel(q[1], q[2]) : q \in NonVarPairs(B)} : B \in P}
        kids == [B \in P |-> {BlockOf(P, k) : k \in KidsOf(B)}]
    IN IF "amb" \in rels THEN "amb"
       ELSE IF "clash" \in rels \/ FinFix({}, kids) # P THEN "none" ELSE "unif"

\* ------------------------------------------------ (C) brute force -----------------------
AtomTerm(n) == CASE n \in {"int", "nat", "float"} -> <<"num", n>>
                 [] n = "none" -> <<"none">>
                 [] OTHER -> <<"opq", n, <<>>>>
TyAtoms == {AtomTerm(n) : n \in TyAtomNames}
GFlags(x) == IF NonCopy(x) THEN {"inout", "owned"} ELSE {"none"}
RECURSIVE GroundTy(_)
GroundTy(d) ==
    IF d = 0 THEN TyAtoms
    ELSE LET S == GroundTy(d - 1) IN
         S \cup (IF UseTup1 THEN {<<"tup", <<x>>>> : x \in S} ELSE {})
           \cup (IF UseTup2 THEN {<<"tup", <<x, y>>>> : x \in S, y \in S} ELSE {})
           \cup (IF UseFun THEN UNION {{<<"fun", <<<<x, f>>>>, y, 0>> : f \in GFlags(x)} : x \in S, y \in S} ELSE {})
           \cup (IF UseArr THEN {<<"opq", "array", <<x, <<"nat", k>>>>>> : x \in S, k \in NatVals} ELSE {})
GroundConst == {<<"nat", k>> : k \in NatVals}
GroundTyU == GroundTy(GDepth)

Thetas(p) ==
    LET V == ProbVars(p)
        TV == {v \in V : Tag(v) = "ev"}
        CVs == {v \in V : Tag(v) = "cv"}
    IN {[v \in V |-> IF v \in TV THEN a[v] ELSE b[v]] : a \in [TV -> GroundTyU], b \in [CVs -> GroundConst]}
BFUnifiers(p) == {th \in Thetas(p) : Solves(th, p)}

\* ------------------------------------------------ (A) the algorithm ---------------------
VARIABLES prob,    \* the problem [s, t, start] (constant along a behaviour)
          orc,     \* verdict of the closure oracle (B), evaluated once when the problem is loaded
          work,    \* stack of equations still to be solved (head = next), as in the recursion
          sub,     \* the substitution built so far
          status,  \* "idle" | "run" | "unif" | "none" | "amb"
          steps
vars == <<prob, orc, work, sub, status, steps>>

L == work[1][1]
R == work[1][2]
Rest == Tail(work)
Running == status = "run" /\ work # <<>>
\* the variable handed to _unify_var and the other side
V1 == IF IsVar(L) THEN L ELSE R
O1 == IF IsVar(L) THEN R ELSE L
VarCase  == Running /\ (IsVar(L) \/ IsVar(R)) /\ L # R
Bindable == VarCase /\ V1 \notin DOMAIN sub /\ ~(IsVar(O1) /\ O1 \in DOMAIN sub)
Struct   == Running /\ ~IsVar(L) /\ ~IsVar(R)

\* guards (pairwise exclusive, see Deterministic)
GLoad       == status = "idle"
GSameVar    == Running /\ IsVar(L) /\ L = R
GChaseL     == VarCase /\ V1 \in DOMAIN sub
GChaseOther == VarCase /\ V1 \notin DOMAIN sub /\ IsVar(O1) /\ O1 \in DOMAIN sub
GOccurs     == Bindable /\ V1 \in ReachVars(O1, sub)
GBind       == Bindable /\ V1 \notin ReachVars(O1, sub)
GDecompose  == Struct /\ HeadRel(L, R) = "same"
GClash      == Struct /\ HeadRel(L, R) = "clash"
GAmbiguous  == Struct /\ HeadRel(L, R) = "amb"
GFinish     == status = "run" /\ work = <<>>

Step(w, sb, st) == /\ work' = w /\ sub' = sb /\ status' = st
                   /\ steps' = steps + 1 /\ UNCHANGED <<prob, orc>>

\* problems start "idle" so that TLC's (single-threaded) initial-state phase stays trivial
Load       == GLoad /\ work' = <<<<prob.s, prob.t>>>> /\ sub' = prob.start /\ status' = "run"
              /\ orc' = Oracle(prob) /\ UNCHANGED <<prob, steps>>
SameVar    == GSameVar /\ Step(Rest, sub, "run")                               \* unify: same id
ChaseL     == GChaseL /\ Step(<<<<sub[V1], O1>>>> \o Rest, sub, "run")          \* _unify_var: var in subst
ChaseOther == GChaseOther /\ Step(<<<<V1, sub[O1]>>>> \o Rest, sub, "run")      \* _unify_var: t in subst
Occurs     == GOccurs /\ Step(work, sub, "none")                               \* occurs check, through sub
Bind       == GBind /\ Step(Rest, Bind1(sub, V1, O1), "run")                   \* {var: t, **subst}
Decompose  == GDecompose                                                       \* _unify_args
              /\ Step((LET cl == Children(L) cr == Children(R)
                       IN [i \in DOMAIN cl |-> <<cl[i], cr[i]>>]) \o Rest, sub, "run")
Clash      == GClash /\ Step(work, sub, "none")                                \* case _: return None
Ambiguous  == GAmbiguous /\ Step(work, sub, "amb")
Finish     == GFinish /\ Step(work, sub, "unif")

Next == Load \/ SameVar \/ ChaseL \/ ChaseOther \/ Occurs \/ Bind \/ Decompose \/ Clash \/ Ambiguous \/ Finish

InitOf(p) == /\ prob = p /\ orc = "-" /\ work = <<>> /\ sub = EmptyS
             /\ status = "idle" /\ steps = 0

\* why the algorithm said "none": the failing equation is still the head of `work`
Why == IF status # "none" THEN "-"
       ELSE IF IsVar(L) \/ IsVar(R) THEN "occurs"
       ELSE IF Ctor(L) # Ctor(R) THEN "clash"
       ELSE IF \A i \in {i \in DOMAIN L[2] : L[2][i][2] # R[2][i][2]} : Linear(L[2][i][1]) /\ Linear(R[2][i][1])
            THEN "flags-linear" ELSE "flags-affine"

\* ------------------------------------------------ model universe ------------------------
VarTerms == {<<"ev", n, "c">> : n \in TVarNames}
CVarTerms == {<<"cv", n>> : n \in CVarNames}
ConstTerms == CVarTerms \cup GroundConst
RECURSIVE TyTerms(_)
TyTerms(d) ==
    IF d = 0 THEN TyAtoms \cup VarTerms
    ELSE LET S == TyTerms(d - 1) IN
         S \cup (IF UseTup1 THEN {<<"tup", <<x>>>> : x \in S} ELSE {})
           \cup (IF UseTup2 THEN {<<"tup", <<x, y>>>> : x \in S, y \in S} ELSE {})
           \cup (IF UseFun THEN UNION {{<<"fun", <<<<x, f>>>>, y, 0>> : f \in GFlags(x)} : x \in S, y \in S} ELSE {})
           \cup (IF UseArr THEN {<<"opq", "array", <<x, c>>>> : x \in S, c \in ConstTerms} ELSE {})

Bindings == (VarTerms \X TyTerms(StartDepth)) \cup (CVarTerms \X ConstTerms)
Starts == {sb \in {SeqToSubst(q) : q \in UNION {[1..k -> Bindings] : k \in 0..MaxStart}} : Acyclic(sb)}
Pairs == (TyTerms(Depth) \X TyTerms(Depth)) \cup (ConstTerms \X ConstTerms)
Init == \E pr \in Pairs, sb \in Starts : InitOf([s |-> pr[1], t |-> pr[2], start |-> sb])
Spec == Init /\ [][Next]_vars /\ WF_vars(Next)

\* ------------------------------------------------ properties ---------------------------
Done == status \notin {"idle", "run"}
Termination == <>Done

\* exactly one action is enabled until the verdict (the algorithm is deterministic, like the code)
B2N(b) == IF b THEN 1 ELSE 0
Deterministic ==
    status \in {"idle", "run"} =>
        B2N(GLoad) + B2N(GSameVar) + B2N(GChaseL) + B2N(GChaseOther) + B2N(GOccurs) + B2N(GBind)
        + B2N(GDecompose) + B2N(GClash) + B2N(GAmbiguous) + B2N(GFinish) = 1

\* the start substitution is only ever extended, and stays acyclic (what makes Resolve total)
SubInv == status # "idle" =>
          /\ \A x \in DOMAIN prob.start : x \in DOMAIN sub /\ sub[x] = prob.start[x]
          /\ Acyclic(sub)

OracleVerdict == orc

\* (A) = (B): the verdicts agree (ambiguity seen by the algorithm is seen by the oracle)
AgreeClosure ==
    Done => LET o == OracleVerdict IN
            /\ status = "amb" => o = "amb"
            /\ o # "amb" => status = o

\* the computed substitution is a unifier that extends the start substitution
ResultUnifies == status = "unif" => Solves(sub, prob)

\* (A) = (C) and most general: every closed unifier factors through the result
AgreeBruteForce ==
    (BruteForce /\ Done /\ OracleVerdict # "amb") =>
        LET U == BFUnifiers(prob) IN
        /\ (status = "unif") <=> (U # {})
        /\ status = "unif" => \A th \in U : \A x \in DOMAIN th : Resolve(th, Resolve(sub, x)) = th[x]

\* one JSON line per problem: the case and the specification's expected outcome
Emit == Done => PrintT(ToJson([s |-> prob.s, t |-> prob.t, start |-> SubstToSet(prob.start),
                               verdict |-> (IF OracleVerdict = "amb" THEN "amb" ELSE status),
                               mgu |-> IF status = "unif" THEN SubstToSet(sub) ELSE {},
                               steps |-> steps]))
=============================================================================
