SPECIFICATION Spec
CONSTANTS
  MaxLead = 12
  OptLead = 4
  PrefixCtx = 2
  NChunks = 16
INVARIANT ChunkDone
CHECK_DEADLOCK FALSE
