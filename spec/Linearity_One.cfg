\* one program (VERIF_IN holds a single program): a violation trace is the witness path
SPECIFICATION Spec
INVARIANT TypeOK
INVARIANT NoWitness
CHECK_DEADLOCK FALSE
