SPECIFICATION Spec
CONSTANTS
  NF = 2
  Mods = {"A", "B"}
  BindOptions = {{}, {"int=user", "len=none"}, {"float=zero", "len=user"}}
  Faults = {"none", "py_after", "guppy_before", "intr_after", "bad_return"}
  AllowNest = TRUE
  MaxCompiles = 1
  EmitHist = TRUE
INVARIANT Restored
INVARIANT StepsRestored
INVARIANT MockedInside
INVARIANT Untouched
INVARIANT OldIsInitOrMock
INVARIANT Emit
CHECK_DEADLOCK FALSE
