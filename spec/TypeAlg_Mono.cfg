SPECIFICATION Spec
CONSTANTS
  MaxSlots = 3
  Only = "all"
INVARIANT CasesValid
INVARIANT SigsScoped
INVARIANT InferRecovers
INVARIANT InferMidTotal
INVARIANT MonoClosed
INVARIANT MonoComposes
INVARIANT InstancesFollow
INVARIANT PartialThenRest
INVARIANT HugrIdxDense
INVARIANT OpenIsHugrExpressible
INVARIANT Emit
CHECK_DEADLOCK FALSE
