SPECIFICATION Spec
CONSTANT TrackEvidence = FALSE
INVARIANT ReportWrong
PROPERTY Variant
CHECK_DEADLOCK FALSE
