\* quick tier: every history of 3 steps, printed with the expected values
SPECIFICATION Spec
CONSTANTS
  Seeds = {1, 2}
  ShotVals = {1, 2}
  OffVals = {1}
  IncVals = {2}
  MaxSteps = 3
  CopyOnSeed = TRUE
  Emit = TRUE
INVARIANT Immutable
INVARIANT Reproducible
INVARIANT FunctionOfValue
INVARIANT Out
CHECK_DEADLOCK FALSE
