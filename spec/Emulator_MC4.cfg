\* thorough tier, depth 4; model check of the design: with copy-on-seed the heap-shaped model refines the ideal values
SPECIFICATION Spec
CONSTANTS
  Seeds = {1, 2}
  ShotVals = {1, 2}
  OffVals = {1}
  IncVals = {2}
  MaxSteps = 4
  CopyOnSeed = TRUE
  Emit = FALSE
INVARIANT Immutable
INVARIANT Reproducible
INVARIANT FunctionOfValue
PROPERTY AppendOnly
CHECK_DEADLOCK FALSE
