SPECIFICATION Spec
CONSTANTS
  NQ = 2
  Depth = 2
  MCGates = {"h", "s", "t", "v", "rx", "rz", "cx", "ch", "crz", "zz_phase", "phased_x"}
  MCTs <- MCTsQuick
INVARIANT TypeOK
INVARIANT NormPreserved
INVARIANT BranchWeights
INVARIANT NeverZero
INVARIANT Repeatable
INVARIANT LastResetIsZero
CHECK_DEADLOCK FALSE
