SPECIFICATION Spec
CONSTANTS
  NQ = 2
  Depth = 2
  MCGates = {"h", "t", "rx", "cx", "crz", "phased_x"}
  MCTs <- MCTsQuick1
INVARIANT TypeOK
INVARIANT NormPreserved
INVARIANT BranchWeights
INVARIANT NeverZero
INVARIANT Repeatable
INVARIANT LastResetIsZero
CHECK_DEADLOCK FALSE
