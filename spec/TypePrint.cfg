\* quick universe: depth 2 over 5 atoms (two numeric kinds), tuples of arity <= 2, Option / array / G; naming universe on
SPECIFICATION Spec
CONSTANTS
  AtomNames = {"int", "nat", "bool", "none", "qubit"}
  NatVals = {0, 2}
  MaxTup = 2
  MaxTupDeep = 2
  Depth = 2
  Opq1 = {"Option", "G"}
  Opq2 = {"array"}
  NameDepth = 1
INVARIANT RefRoundTrip
INVARIANT Emit
CHECK_DEADLOCK FALSE
