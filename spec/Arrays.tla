-------------------------------- MODULE Arrays --------------------------------
(* Arrays of guppylang (C19): element access through `array[T, n]` subscripts.

   Mirrors
     guppylang-internals/.../std/_internal/compiler/array.py   ArrayGetitemCompiler /
         ArraySetitemCompiler: copyable elements use get/set (+ "Array index out of
         bounds" panic), non-copyable elements are BORROWED out of the array and
         RETURNED after the call (`borrow` / `return` of collections.borrow_arr),
     guppylang-internals/.../compiler/expr_compiler.py  visit_PlaceNode,
         _update_inout_ports (arguments borrowed left to right, given back left to
         right after the call), visit_DesugaredArrayComp,
     guppylang-internals/.../compiler/stmt_compiler.py  _assign_array (pop_left /
         pop_right around the starred target),
     guppylang/std/array.py  ArrayIter.__next__, copy.

   State: `cells` maps 0..n-1 to Val(v) = <<v>> or Borrowed = <<>>.  A script is a
   sequence of operations with RUNTIME indices drawn from -Pad..n-1+Pad, closed by
   one observer that reports the whole contents.

     kind "int"   (copyable):  get a | set a (value 20+position) | aug a (xs[a] += 100)
                               | swap a b  (xs[a], xs[b] = xs[b], xs[a])
     kind "qubit" (linear, cell value = the bit a Z measurement returns):
                               get a (project_z) | flip a (x) | swap a b (mem_swap)
                               | cx a b  - every access lends the element to the callee:
                               StartLend, Borrow (one per argument), Apply, Return (one
                               per argument) are separate actions.
     observers: index (static subscripts) | unpack | starL `a, *r = xs` | starR
                `*r, c = xs` | starM `a, *r, c = xs` | starLL `a, b, *r = xs` | starRR
                `*r, b, c = xs` | iter | comp (array(f(x) for x in
                xs), f reports its argument) | copy (ys = xs.copy(), then xs is
                overwritten with -1; int only)

   `out` is the event stream the program must produce: one event per completed
   operation (<<"get", <<v>>>> or <<"ok", <<>>>>), the observer's events, or - instead
   of the completion event - <<"panic", <<>>>> after which nothing follows.

   Checked by TLC on the model:
     FrameOK      an operation changes no cell other than the ones it names,
     PanicOnlyBad / CompleteOnlyGood   an operation panics iff one of its indices is
                  outside 0..n-1 (negative ones included) or it lends the same
                  element twice at once,
     NothingLent  between operations no cell is borrowed,
     OrderLaw     every observer reports the cells in index order.
   With Record = TRUE each complete script is printed with its expected event
   stream (replayed on the compiled code by checks/C19.py). *)
EXTENDS Integers, Sequences, FiniteSets, TLC, Json

CONSTANTS Kinds,      \* subset of {"int", "qubit"}
          Ns,         \* array lengths
          Pad,        \* indices range over -Pad .. n-1+Pad
          MaxOps,     \* operations before the observer
          Terms,      \* observers to use
          Record      \* keep + print scripts

Val(v) == <<v>>
Borrowed == <<>>

VARIABLES kind, n, cells, pc, cur, want, held, out, nops, hist, term
vars == <<kind, n, cells, pc, cur, want, held, out, nops, hist, term>>

Idx == 0..(n - 1)
Index == (0 - Pad)..(n - 1 + Pad)
InRange(x) == x \in Idx
V(k) == cells[k][1]

InitCells(kd, m) ==
    IF kd = "int" THEN [k \in 0..(m - 1) |-> Val(10 + k)]
    ELSE [k \in 0..(m - 1) |-> Val(IF k = 0 THEN 1 ELSE 0)]     \* x(qs[0]) after allocation

Init ==
    /\ kind \in Kinds
    /\ n \in Ns
    /\ cells = InitCells(kind, n)
    /\ pc = "idle"
    /\ cur = <<"none", 0, 0>>
    /\ want = <<>>
    /\ held = <<>>
    /\ out = <<>>
    /\ nops = 0
    /\ hist = <<>>
    /\ term = "none"

Ev(tag, vals) == <<tag, vals>>
OK == Ev("ok", <<>>)
PANIC == Ev("panic", <<>>)

Call(op) ==
    /\ pc = "idle"
    /\ nops < MaxOps
    /\ nops' = nops + 1
    /\ cur' = op
    /\ hist' = IF Record THEN Append(hist, op) ELSE hist
    /\ UNCHANGED <<kind, n, term>>

Panics ==
    /\ pc' = "panicked"
    /\ out' = Append(out, PANIC)
    /\ UNCHANGED <<cells, want, held>>

\* ------------------------- copyable elements (get / set) -------------------------
IntGet(a) ==
    /\ kind = "int"
    /\ Call(<<"get", a, a>>)
    /\ IF ~InRange(a) THEN Panics
       ELSE /\ out' = Append(out, Ev("get", <<V(a)>>))
            /\ UNCHANGED <<cells, pc, want, held>>

IntSet(a) ==
    /\ kind = "int"
    /\ Call(<<"set", a, a>>)
    /\ IF ~InRange(a) THEN Panics
       ELSE /\ cells' = [cells EXCEPT ![a] = Val(20 + nops)]
            /\ out' = Append(out, OK)
            /\ UNCHANGED <<pc, want, held>>

IntAug(a) ==                             \* xs[a] += 100 : get a, then set a
    /\ kind = "int"
    /\ Call(<<"aug", a, a>>)
    /\ IF ~InRange(a) THEN Panics
       ELSE /\ cells' = [cells EXCEPT ![a] = Val(V(a) + 100)]
            /\ out' = Append(out, OK)
            /\ UNCHANGED <<pc, want, held>>

IntSwap(a, b) ==                         \* xs[a], xs[b] = xs[b], xs[a]
    /\ kind = "int"
    /\ Call(<<"swap", a, b>>)
    /\ IF ~InRange(a) \/ ~InRange(b) THEN Panics
       ELSE /\ cells' = [[cells EXCEPT ![a] = cells[b]] EXCEPT ![b] = cells[a]]
            /\ out' = Append(out, OK)
            /\ UNCHANGED <<pc, want, held>>

\* --------------------- linear elements (borrow / return) -------------------------
StartLend(name, a, b) ==
    /\ kind = "qubit"
    /\ Call(<<name, a, b>>)
    /\ want' = IF name \in {"swap", "cx"} THEN <<a, b>> ELSE <<a>>
    /\ pc' = "borrow"
    /\ UNCHANGED <<cells, held, out>>

Silent == UNCHANGED <<kind, n, cur, nops, hist, term>>

Borrow ==                                \* borrow_arr.borrow for the next argument
    /\ pc = "borrow" /\ want # <<>>
    /\ LET x == Head(want) IN
       IF ~InRange(x) \/ cells[x] = Borrowed
       THEN Panics
       ELSE /\ cells' = [cells EXCEPT ![x] = Borrowed]
            /\ held' = Append(held, <<x, V(x)>>)
            /\ want' = Tail(want)
            /\ UNCHANGED <<pc, out>>
    /\ Silent

Apply ==                                 \* the callee runs on the lent elements
    /\ pc = "borrow" /\ want = <<>>
    /\ pc' = "return"
    /\ LET name == cur[1]
           v1 == held[1][2]
           v2 == held[Len(held)][2] IN
       CASE name = "get"  -> held' = held /\ out' = Append(out, Ev("get", <<v1>>))
         [] name = "flip" -> held' = <<<<held[1][1], 1 - v1>>>> /\ out' = Append(out, OK)
         [] name = "swap" -> held' = <<<<held[1][1], v2>>, <<held[2][1], v1>>>> /\ out' = Append(out, OK)
         [] name = "cx"   -> held' = <<held[1], <<held[2][1], (v1 + v2) % 2>>>> /\ out' = Append(out, OK)
    /\ UNCHANGED <<cells, want>>
    /\ Silent

Return ==                                \* borrow_arr.return, arguments left to right
    /\ pc = "return"
    /\ IF held = <<>>
       THEN pc' = "idle" /\ UNCHANGED <<cells, held, out>>
       ELSE LET x == held[1][1] IN
            IF cells[x] # Borrowed
            THEN pc' = "panicked" /\ out' = Append(out, PANIC) /\ UNCHANGED <<cells, held>>
            ELSE /\ cells' = [cells EXCEPT ![x] = Val(held[1][2])]
                 /\ held' = Tail(held)
                 /\ UNCHANGED <<pc, out>>
    /\ UNCHANGED want
    /\ Silent

\* --------------------------------- observers --------------------------------------
All == [k \in 1..n |-> V(k - 1)]
Elem(k) == Ev("c", <<V(k)>>)
Elems == [k \in 1..n |-> Elem(k - 1)]
Mapped == IF kind = "int" THEN [k \in 1..n |-> V(k - 1) + 100] ELSE All

Applicable(t) ==
    /\ t \in Terms
    /\ t \in {"starM", "starLL", "starRR"} => n >= 2
    /\ t = "copy" => kind = "int"

Observe(t) ==
    CASE t \in {"index", "unpack", "iter"} -> Elems
      [] t = "starL" -> <<Elem(0), Ev("rest", SubSeq(All, 2, n))>>
      [] t = "starR" -> <<Ev("rest", SubSeq(All, 1, n - 1)), Elem(n - 1)>>
      [] t = "starM" -> <<Elem(0), Ev("rest", SubSeq(All, 2, n - 1)), Elem(n - 1)>>
      [] t = "starLL" -> <<Elem(0), Elem(1), Ev("rest", SubSeq(All, 3, n))>>
      [] t = "starRR" -> <<Ev("rest", SubSeq(All, 1, n - 2)), Elem(n - 2), Elem(n - 1)>>
      [] t = "comp"  -> Elems \o <<Ev("ys", Mapped)>>
      [] t = "copy"  -> <<Ev("ys", All), Ev("xs", [k \in 1..n |-> 0 - 1])>>

Terminal(t) ==
    /\ pc = "idle"
    /\ Applicable(t)
    /\ term' = t
    /\ out' = out \o Observe(t)
    /\ pc' = "done"
    /\ UNCHANGED <<kind, n, cells, cur, want, held, nops, hist>>

Next ==
    \/ \E a \in Index : IntGet(a)
    \/ \E a \in Index : IntSet(a)
    \/ \E a \in Index : IntAug(a)
    \/ \E a \in Index, b \in Index : IntSwap(a, b)
    \/ \E a \in Index, nm \in {"get", "flip"} : StartLend(nm, a, a)
    \/ \E a \in Index, b \in Index, nm \in {"swap", "cx"} : StartLend(nm, a, b)
    \/ Borrow \/ Apply \/ Return
    \/ \E t \in Terms : Terminal(t)

Spec == Init /\ [][Next]_vars

\* ---------------------------------- laws ---------------------------------------
Named == {cur[2], cur[3]}
FrameOK == [][\A c \in Idx : cells'[c] # cells[c] => c \in {cur'[2], cur'[3]}]_cells

TwoArgs(op) == op[1] \in {"swap", "cx"}
Bad(op) == \/ ~InRange(op[2]) \/ ~InRange(op[3])
           \/ (kind = "qubit" /\ TwoArgs(op) /\ op[2] = op[3])
PanicOnlyBad == [][pc' = "panicked" => Bad(cur')]_pc
Completed == (pc' = "idle" /\ pc = "return") \/ (pc' = "idle" /\ pc = "idle" /\ nops' = nops + 1)
CompleteOnlyGood == [][Completed => ~Bad(cur')]_<<pc, nops>>

NothingLent == pc \in {"idle", "done", "emitted"} => \A c \in Idx : cells[c] # Borrowed

RECURSIVE Flat(_)
Flat(evs) == IF evs = <<>> THEN <<>> ELSE Head(evs)[2] \o Flat(Tail(evs))
Unmap(t, evs) == IF t = "comp" THEN SubSeq(evs, 1, n)
                 ELSE IF t = "copy" THEN SubSeq(evs, 1, 1) ELSE evs
OrderLaw == pc = "idle" => \A t \in Terms : Applicable(t) => Flat(Unmap(t, Observe(t))) = All

\* ---------------------------- script generation -----------------------------------
Complete == pc \in {"done", "panicked"}
Finish ==
    /\ Record /\ Complete
    /\ PrintT(ToJson([kind |-> kind, n |-> n, ops |-> hist, term |-> term, expect |-> out]))
    /\ pc' = "emitted"
    /\ UNCHANGED <<kind, n, cells, cur, want, held, out, nops, hist, term>>

GenNext == Next \/ Finish
GenSpec == Init /\ [][GenNext]_vars

\* simulation mode only (ACTION_CONSTRAINT): a panicking operation may only come last,
\* and the observer only after MaxOps operations
LatePanic == /\ (pc' = "panicked") => (nops' = MaxOps)
             /\ (pc' = "done") => (nops' = MaxOps)
=============================================================================
