SPECIFICATION Spec
CONSTANTS
  Pool = {"ct_good", "ct_bad", "ct_many", "ct_expr", "use_mono", "loops", "long_names"}
  EntryOps = {}
  FirstOps = {}
  MaxLen = 2
  EmitHist = TRUE
INVARIANT NoStaleRead
INVARIANT CachesOfThisEpoch
INVARIANT CheckedAreParsed
INVARIANT OutputIndependent
INVARIANT OutcomeIndependent
INVARIANT LoweredOnlyNow
INVARIANT Emit
CHECK_DEADLOCK FALSE
