SPECIFICATION Spec
CONSTANT TrackEvidence = TRUE
INVARIANT ReportFinal
CHECK_DEADLOCK FALSE
