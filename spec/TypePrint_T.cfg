\* thorough universe: 8 atoms, tuples of arity <= 2, frozenarray and G2 as well
SPECIFICATION Spec
CONSTANTS
  AtomNames = {"int", "nat", "float", "bool", "none", "qubit", "str", "S0"}
  NatVals = {0, 3}
  MaxTup = 2
  MaxTupDeep = 2
  Depth = 2
  Opq1 = {"Option", "G"}
  Opq2 = {"array", "frozenarray", "G2"}
  NameDepth = 1
INVARIANT RefRoundTrip
INVARIANT Emit
CHECK_DEADLOCK FALSE
