SPECIFICATION Spec
CONSTANTS
  Kinds = {"pq", "stack"}
  Caps = {1, 2, 3, 4}
  Prios = {0, 1, 2}
  Vals = {0, 1}
  UniqueVals = FALSE
  MaxOps = 7
  Record = FALSE
INVARIANT ShapeOK
INVARIANT HeapOK
INVARIANT UpInv
INVARIANT DownInv
PROPERTY Refinement
CHECK_DEADLOCK FALSE
