\* thorough, second universe: depth 3 over two atoms (one copyable, one not)
SPECIFICATION Spec
CONSTANTS
  AtomNames = {"int", "qubit"}
  NatVals = {2}
  MaxTup = 2
  MaxTupDeep = 2
  Depth = 3
  Opq1 = {"Option"}
  Opq2 = {"array"}
  NameDepth = 0
INVARIANT RefRoundTrip
INVARIANT Emit
CHECK_DEADLOCK FALSE
