---------------------------- MODULE Lifecycle01 ----------------------------
(* C01: lifecycle of ONE definition through /repo's pipeline, as a trace acceptor.

       Raw --check:ok--> Checked --compile:ok--> Compiled --validate:ok--> Validated
        \--check:rejected--> Rejected            (a located user error: not C01's subject)

   There is deliberately NO transition for `compile:exc` (any exception after the checker
   accepted: InternalGuppyError, AssertionError, KeyError, a late GuppyError ...), for
   `validate:err` (hugr-core validation failure of the emitted package), or for a checker
   crash (`check:exc`).  A recorded trace (from harness/lin_life.py: GuppyDefinition.check(),
   .compile_function(), Package.to_bytes() -> hugr validator) is accepted iff it can be
   consumed to its end in an accepting phase; the first event without a transition is
   reported together with the phase.

   Input (env VERIF_TRACE): sequence of [id, ev |-> << [ev |-> "check"|"compile"|"validate",
                                                        out |-> "ok"|"rejected"|"exc"|"err"] >>] *)
EXTENDS Naturals, Sequences, TLC, Json, IOUtils

Traces == JsonDeserialize(IOEnv.VERIF_TRACE)

VARIABLES tid, i, phase
vars == <<tid, i, phase>>

Phases == {"Raw", "Checked", "Compiled", "Validated", "Rejected"}
Accepting == {"Validated", "Rejected"}

\* the transition relation of the lifecycle
Delta(ph, e) ==
    CASE ph = "Raw"      /\ e.ev = "check"    /\ e.out = "ok"       -> "Checked"
      [] ph = "Raw"      /\ e.ev = "check"    /\ e.out = "rejected" -> "Rejected"
      [] ph = "Checked"  /\ e.ev = "compile"  /\ e.out = "ok"       -> "Compiled"
      [] ph = "Compiled" /\ e.ev = "validate" /\ e.out = "ok"       -> "Validated"
      [] OTHER -> "Stuck"

Tr  == Traces[tid].ev
Cur == Tr[i]

Init == tid \in 1..Len(Traces) /\ i = 1 /\ phase = "Raw"

Check    == i <= Len(Tr) /\ Cur.ev = "check"    /\ Delta(phase, Cur) # "Stuck" /\ phase' = Delta(phase, Cur) /\ i' = i + 1 /\ UNCHANGED tid
Compile  == i <= Len(Tr) /\ Cur.ev = "compile"  /\ Delta(phase, Cur) # "Stuck" /\ phase' = Delta(phase, Cur) /\ i' = i + 1 /\ UNCHANGED tid
Validate == i <= Len(Tr) /\ Cur.ev = "validate" /\ Delta(phase, Cur) # "Stuck" /\ phase' = Delta(phase, Cur) /\ i' = i + 1 /\ UNCHANGED tid

Next == Check \/ Compile \/ Validate
Spec == Init /\ [][Next]_vars

TypeOK == phase \in Phases /\ i \in 1..(Len(Tr) + 1)
\* a package is only ever validated after the checker accepted and the compiler finished
Ordered == /\ phase = "Validated" => i = 4
           /\ phase = "Compiled"  => i = 3
           /\ phase = "Checked"   => i = 2

\* trace acceptance / first unmatched event (always TRUE; reports)
Report ==
    /\ (i = Len(Tr) + 1 /\ phase \in Accepting) => PrintT(ToJson([id |-> Traces[tid].id, accepted |-> phase]))
    /\ (i = Len(Tr) + 1 /\ phase \notin Accepting) =>
            PrintT(ToJson([id |-> Traces[tid].id, stuck |-> i, phase |-> phase, event |-> [ev |-> "end", out |-> "truncated"]]))
    /\ (i <= Len(Tr) /\ Delta(phase, Cur) = "Stuck") =>
            PrintT(ToJson([id |-> Traces[tid].id, stuck |-> i, phase |-> phase, event |-> [ev |-> Cur.ev, out |-> Cur.out]]))
=============================================================================
