SPECIFICATION Spec
CONSTANTS
  Vars = {"va", "vb"}
INVARIANT EmitFacts
INVARIANT EmitShadow
INVARIANT EmitDone
INVARIANT TypeOK
INVARIANT JumpsWellFormed
INVARIANT UnboundOnlyInFun
INVARIANT LiveInsideLive
CHECK_DEADLOCK FALSE
