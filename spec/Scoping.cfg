SPECIFICATION Spec
CONSTANTS
  Vars = {"va", "vb"}
INVARIANT EmitFacts
INVARIANT EmitDone
INVARIANT TypeOK
INVARIANT JumpsWellFormed
INVARIANT UnboundOnlyInFun
CHECK_DEADLOCK FALSE
