---------------------------- MODULE RoundFamily ----------------------------
(* C16, value family for the coercions nat -> float and int -> float: integers around the
   rounding boundaries of the float type, generated ON LIMBS by the spec and printed for the
   harness (spec -> code).  For every binade exponent e (2^e <= n < 2^(e+1), e >= FP - 1) with
   ulp(e) = 2^(e - FP + 1):
        n = 2^e + k * ulp(e) + d,   k in 0..3  (even and odd significand LSB),
        d in {0, 1, ulp/2 - 1, ulp/2, ulp/2 + 1, ulp - 1}
   i.e. exactly representable integers, exact ties (d = ulp/2: round to even decides) and
   integers one off a tie / one off a representable integer.  nat: e in FP..W-1; int: both
   signs, e in FP-1..W-2.  Each value is printed with its class computed by the spec
   (Class: "exact", "tie", "neartie", "other"), so the harness can refuse a vacuous family.
   The expected converted value is NOT decided here but by NumOps!Expected (op co_float:
   BitVec64!DRound, round to nearest, ties to even, exact comparison in NumOps_Trace).   *)
EXTENDS Integers, Sequences, TLC, Json

CONSTANTS NL, LB, FP
INSTANCE BitVec64

L == NL + 1
Small(n) == Tup([i \in 1..L |-> IF i = 1 THEN n ELSE 0])
P2(e) == NShl(One(L), e, L)
Ulp(e) == P2(e - FP + 1)
Half(e) == P2(e - FP)
Kinds == {"zero", "one", "half-1", "half", "half+1", "ulp-1"}
D(e, dk) == CASE dk = "zero"   -> Zero(L)
              [] dk = "one"    -> One(L)
              [] dk = "half-1" -> NSub(Half(e), One(L), L)
              [] dk = "half"   -> Half(e)
              [] dk = "half+1" -> NAdd(Half(e), One(L), L)
              [] dk = "ulp-1"  -> NSub(Ulp(e), One(L), L)
\* kinds that make sense in binade e (ulp(e) = 1: only d = 0; ulp(e) = 2: half = 1)
KindOk(e, dk) == \/ dk = "zero"
                 \/ (e >= FP /\ dk \in {"one", "half", "ulp-1"})
                 \/ (e >= FP + 1 /\ dk \in {"half-1", "half+1"})
Mag(e, k, dk) == NAdd(NAdd(P2(e), NShl(Small(k), e - FP + 1, L), L), D(e, dk), L)

\* class of a magnitude w.r.t. rounding to FP significant bits
Class(m) ==
    LET bl == NBitLen(m)
    IN  IF bl <= FP THEN "exact"
        ELSE LET sh   == bl - FP
                 rem  == NSub(m, NShl(NShr(m, sh, L), sh, L), L)
                 half == NShl(One(L), sh - 1, L)
             IN  IF NIsZero(rem) THEN "exact"
                 ELSE IF NCmp(rem, half) = 0 THEN "tie"
                 ELSE IF NCmp(NAdd(rem, One(L), L), half) = 0 \/ NCmp(rem, NAdd(half, One(L), L)) = 0 THEN "neartie"
                 ELSE "other"

Members == {m \in [ty : {"nat", "int"}, neg : {0, 1}, e : (FP - 1)..(W - 1), k : 0..3, dk : Kinds] :
              /\ KindOk(m.e, m.dk)
              /\ m.ty = "nat" => (m.neg = 0 /\ m.e >= FP)
              /\ m.ty = "int" => m.e <= W - 2}

VARIABLES mem
Init == mem \in Members
Next == UNCHANGED mem
Spec == Init /\ [][Next]_mem

Value == Mag(mem.e, mem.k, mem.dk)
\* every member lies in its binade and in the range of its type
InRange == /\ NBitLen(Value) = mem.e + 1
           /\ IF mem.ty = "nat" THEN ZInU(ZMk(FALSE, Value)) ELSE ZInS(ZMk(mem.neg = 1, Value))
\* the kinds hit the classes they are meant to hit
KindsHitClasses == /\ mem.dk = "half" => Class(Value) = "tie"
                   /\ mem.dk \in {"half-1", "half+1"} => Class(Value) = "neartie"
                   /\ mem.dk = "zero" => Class(Value) = "exact"
Emit == PrintT(ToJson([ty |-> mem.ty, neg |-> mem.neg, mag |-> Fit(Value, NL), cls |-> Class(Value),
                       e |-> mem.e, k |-> mem.k, dk |-> mem.dk]))
=============================================================================
