SPECIFICATION GenSpec
CONSTANTS
  Kinds = {"pq"}
  Caps = {7, 10}
  Prios = {0, 1, 2, 3, 4, 5}
  Vals = {0, 1}
  UniqueVals = TRUE
  MaxOps = 24
  Record = TRUE
CHECK_DEADLOCK FALSE
ACTION_CONSTRAINT LatePanic
ACTION_CONSTRAINT PushPopOnly
