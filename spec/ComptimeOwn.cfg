\* model check of the ownership mechanism against the property (all subjects, bodies of <= 2 statements)
SPECIFICATION Spec
CONSTANTS
  Types = {"Q", "I", "F", "O", "AQ", "AI", "TQ", "SQ", "SA", "TA"}
  Origins = {"owned", "borrowed", "local"}
  MutOps = {"append", "extend", "insert", "pop", "popuse", "remove", "clear", "sort", "reverse", "setitem", "setalias", "delitem", "iadd", "imul1", "imul2", "reinit"}
  MaxOps = 2
  Emit = FALSE
INVARIANT LinearOnce
INVARIANT NoOwnedMutation
INVARIANT RegistryExact
INVARIANT Rejected
CHECK_DEADLOCK FALSE
