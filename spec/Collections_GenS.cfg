SPECIFICATION GenSpec
CONSTANTS
  Kinds = {"pq", "stack"}
  Caps = {4}
  Prios = {0, 1, 2}
  Vals = {0, 1}
  UniqueVals = FALSE
  MaxOps = 8
  Record = TRUE
CHECK_DEADLOCK FALSE
ACTION_CONSTRAINT LatePanic
