------------------------------ MODULE Unitary ------------------------------
(* C24 - unitary contexts reject non-unitary quantum operations.

   What is modelled.  A *case* is one small Guppy function: a unitary context
   (decorator flags and/or up to three nested `with` statements, each with an item stack), at most
   one call site (callee kind + callee flags + argument mix + syntactic position)
   and at most one extra construct (loop, assignment, subscripted place).
   The checker (guppylang_internals/checker/unitary_checker.py: check_cfg_unitary /
   BBUnitaryChecker._check_call / _check_assign / visit_PlaceNode,
   check_invalid_under_dagger; checker/modifier_checker.py: the dagger tests of
   check_modified_block; nodes.py: ModifiedBlock.flags; decorator.py: _parse_kwargs)
   is modelled as a walk over the *sites* of the case: every site is examined once,
   in any order (the order in which the code meets the sites is not part of the
   property); the first site that violates the context rejects with that reason,
   and the case is accepted when no site is left.

   The verdict rule is the one of the property statement:
     - Call:       the call passes a qubit (anywhere in an argument type), the callee
                   is not barrier/state_result, and the context flags are not all
                   among the callee's flags - whatever the position of the call,
                   branch and loop conditions included;
     - Loop / Assignment / Subscript: the construct occurs and the context has Dagger;
     - accepted otherwise.
   Context flags: decorator keywords (unitary = all three), or for a `with` stack
   Dagger iff the number of dagger items is odd, Control / Power iff present; a block
   requires the union of the decorator flags and of all enclosing stacks.
   Positions of the call include being an argument of another call - alone, after a
   qubit argument, or before one (the checker must look into every argument).
   Accepted functions record FlagValue(flags) (Control=1, Dagger=2, Power=4, as in
   tys/ty.py UnitaryFlags) as `unitary` metadata of their FuncDefn.

   TLC enumerates the whole table, checks the laws below on it, and prints every
   terminal state (case, verdict, missing flags, expected metadata); checks/C24.py
   renders each case to Guppy source, runs the real check()/compile_function() and
   compares. *)
EXTENDS Naturals, Sequences, FiniteSets, TLC, Json

CONSTANTS MaxWith,        \* longest item stack of a single `with`
          MaxOuter,       \* longest outer stack of a nested `with`
          MaxInner,       \* longest inner stack of a nested `with`
          CrossConstructs \* TRUE: constructs are crossed with every context kind

Flags == {"C", "D", "P"}
FlagBit(f) == CASE f = "C" -> 1 [] f = "D" -> 2 [] f = "P" -> 4
FlagValue(S) == (IF "C" \in S THEN 1 ELSE 0) + (IF "D" \in S THEN 2 ELSE 0) + (IF "P" \in S THEN 4 ELSE 0)

Mods == {"dagger", "control", "power"}
Stacks(n) == UNION {[1..k -> Mods] : k \in 1..n}
Count(s, m) == Cardinality({i \in DOMAIN s : s[i] = m})

\* ModifiedBlock.flags(): dagger by parity, control/power by presence
StackFlags(s) == (IF Count(s, "dagger") % 2 = 1 THEN {"D"} ELSE {})
           \cup (IF Count(s, "control") > 0 THEN {"C"} ELSE {})
           \cup (IF Count(s, "power") > 0 THEN {"P"} ELSE {})

\* ---- contexts -----------------------------------------------------------------
\* deco: decorator flags of the function; levels: item stacks of the nested `with`
\* statements around the body, outermost first (<<>> = the body is the function body)
Ctx(kind, deco, alias, levels) == [kind |-> kind, deco |-> deco, alias |-> alias, levels |-> levels]
DecoCtxs == {Ctx("deco", F, FALSE, <<>>) : F \in SUBSET Flags}
       \cup {Ctx("deco", Flags, TRUE, <<>>)}          \* spelled `unitary=True`
WithCtxs == {Ctx("with", {}, FALSE, <<s>>) : s \in Stacks(MaxWith)}
NestedCtxs == {Ctx("nested", {}, FALSE, <<o, s>>) : o \in Stacks(MaxOuter), s \in Stacks(MaxInner)}
\* three stacked blocks, and blocks inside a decorated function (single items)
DeepCtxs == {Ctx("deep", {}, FALSE, <<a, b, c>>) : a \in Stacks(1), b \in Stacks(1), c \in Stacks(1)}
DecoWithCtxs == {Ctx("decowith", F, FALSE, <<a>>) : F \in (SUBSET Flags) \ {{}}, a \in Stacks(1)}
           \cup {Ctx("decowith", F, FALSE, <<a, b>>) : F \in (SUBSET Flags) \ {{}}, a \in Stacks(1), b \in Stacks(1)}
BaseCtxs == DecoCtxs \cup WithCtxs \cup NestedCtxs
Ctxs == BaseCtxs \cup DeepCtxs \cup DecoWithCtxs

LevelFlags(c, n) == c.deco \cup UNION {StackFlags(c.levels[i]) : i \in 1..n}     \* requirement at depth n
CtxFlags(c) == LevelFlags(c, Len(c.levels))

\* ---- call sites ----------------------------------------------------------------
\* kind: decl (guppy.declare with flags) / defn (guppy with flags) / h (std gate, all
\* flags) / reset, project_z (std, no flags) / local (Callable parameter, no flags) /
\* barrier, state_result (always allowed) / none (no call in the body)
\* args: q = one qubit, c = classical only, qc = qubit and classical, arr = array of qubits
Call(kind, flags, args, pos) == [kind |-> kind, flags |-> flags, args |-> args, pos |-> pos]
\* pos: nested_arg = sole (classical) argument of another call; arg_after_qubit / arg_before_qubit =
\* argument of a fully unitary call that also takes a qubit, after resp. before that qubit
BoolPositions == {"stmt", "nested_arg", "arg_after_qubit", "arg_before_qubit", "if_cond", "while_cond",
                  "ifexp_cond", "ifexp_arm", "boolop_cond"}
Calls ==
    {Call("decl", F, a, p) : F \in SUBSET Flags, a \in {"q", "c", "qc", "arr"}, p \in BoolPositions}
    \cup {Call("defn", F, a, p) : F \in SUBSET Flags, a \in {"q", "qc"}, p \in BoolPositions}
    \cup {Call("local", {}, a, p) : a \in {"q", "c"}, p \in BoolPositions}
    \cup {Call("project_z", {}, "q", p) : p \in BoolPositions}
    \cup {Call("h", Flags, "q", "stmt"), Call("reset", {}, "q", "stmt"),
          Call("barrier", {}, "q", "stmt"), Call("state_result", {}, "q", "stmt")}
\* call sites used with the deep / decorated-with contexts
DeepCalls == {Call("decl", F, "q", p) : F \in SUBSET Flags, p \in BoolPositions} \cup {Call("h", Flags, "q", "stmt")}
CallsOf(c) == IF c \in BaseCtxs THEN Calls ELSE DeepCalls
NoCall == Call("none", {}, "c", "stmt")
Exempt == {"barrier", "state_result"}
HasQubit(a) == a \in {"q", "qc", "arr"}

ConstructKinds == {"for", "while", "assign", "annassign", "augassign", "subscript"}
\* calls that are crossed with the constructs
ConstructCalls == {NoCall, Call("h", Flags, "q", "stmt"), Call("decl", {}, "q", "stmt"),
                   Call("decl", {"D"}, "qc", "nested_arg"), Call("project_z", {}, "q", "if_cond")}

Case(ctx, call, con) == [ctx |-> ctx, call |-> call, con |-> con]
ConstructCtxs == IF CrossConstructs THEN Ctxs ELSE DecoCtxs \cup {w \in WithCtxs : Len(w.levels[1]) <= 2}
\* the table: every context x every call site, plus ConstructCtxs x ConstructCalls x ConstructKinds

\* ---- the verdict rule of the property --------------------------------------------
CallBad(cs) == /\ cs.call.kind # "none"
               /\ cs.call.kind \notin Exempt
               /\ HasQubit(cs.call.args)
               /\ ~(CtxFlags(cs.ctx) \subseteq cs.call.flags)
Missing(cs) == CtxFlags(cs.ctx) \ cs.call.flags
\* flags required by the innermost context alone (differs from CtxFlags for nested `with`)
OwnFlags(c) == IF Len(c.levels) = 0 THEN c.deco ELSE StackFlags(c.levels[Len(c.levels)])
\* which requirement a bad call violates: that of its own block, or only one inherited
\* from the enclosing `with`
Scope(cs) == IF Missing(cs) \cap OwnFlags(cs.ctx) # {} THEN "own" ELSE "outer"
UnderDagger(cs) == "D" \in CtxFlags(cs.ctx)
LoopBad(cs) == UnderDagger(cs) /\ (cs.con \in {"for", "while"} \/ (cs.call.kind # "none" /\ cs.call.pos = "while_cond"))
AssignBad(cs) == UnderDagger(cs) /\ cs.con \in {"assign", "annassign", "augassign"}
SubscriptBad(cs) == UnderDagger(cs) /\ cs.con = "subscript"
Reasons(cs) == (IF CallBad(cs) THEN {"Call"} ELSE {}) \cup (IF LoopBad(cs) THEN {"Loop"} ELSE {})
          \cup (IF AssignBad(cs) THEN {"Assignment"} ELSE {}) \cup (IF SubscriptBad(cs) THEN {"Subscript"} ELSE {})

\* functions of the compiled module and the `unitary` metadata they must carry:
\* the decorated function itself, and one function per `with` block (own stack flags;
\* for a block inside another context any value between its own flags and the
\* union with the enclosing contexts is admitted - the property does not fix it)
MetaExpected(cs) ==
    [test |-> FlagValue(cs.ctx.deco),
     blocks |-> [n \in 1..Len(cs.ctx.levels) |->
                    <<FlagValue(StackFlags(cs.ctx.levels[n])), FlagValue(LevelFlags(cs.ctx, n))>>]]

\* ---- the checker as a walk over sites ---------------------------------------------
Sites(cs) == (IF cs.call.kind # "none" THEN {"call"} ELSE {})
        \cup (IF cs.con # "none" THEN {"construct"} ELSE {})
        \cup (IF cs.call.kind # "none" /\ cs.call.pos = "while_cond" THEN {"condloop"} ELSE {})
SiteVerdict(cs, s) ==
    CASE s = "call" -> IF CallBad(cs) THEN "Call" ELSE "ok"
      [] s = "condloop" -> IF UnderDagger(cs) THEN "Loop" ELSE "ok"
      [] s = "construct" ->
            IF ~UnderDagger(cs) THEN "ok"
            ELSE CASE cs.con \in {"for", "while"} -> "Loop"
                   [] cs.con = "subscript" -> "Subscript"
                   [] OTHER -> "Assignment"

VARIABLES phase, cs, todo, verdict
vars == <<phase, cs, todo, verdict>>

\* The table is enumerated by two choice actions (context, then sites) so that TLC
\* explores it in parallel; "check" is the phase in which the checker walks.
Unset == Case(Ctx("unset", {}, FALSE, <<>>), NoCall, "none")
Init == phase = "ctx" /\ cs = Unset /\ todo = {} /\ verdict = "pending"
ChooseContext == /\ phase = "ctx"
                 /\ \E c \in Ctxs : cs' = [cs EXCEPT !.ctx = c]
                 /\ phase' = "sites"
                 /\ UNCHANGED <<todo, verdict>>
ChooseSites == /\ phase = "sites"
               /\ \/ \E k \in CallsOf(cs.ctx) : cs' = Case(cs.ctx, k, "none")
                  \/ /\ cs.ctx \in ConstructCtxs
                     /\ \E k \in ConstructCalls, y \in ConstructKinds : cs' = Case(cs.ctx, k, y)
               /\ todo' = Sites(cs')
               /\ phase' = "check"
               /\ UNCHANGED verdict
CheckSite(s) == /\ phase = "check"
                /\ verdict = "pending"
                /\ s \in todo
                /\ IF SiteVerdict(cs, s) = "ok"
                   THEN todo' = todo \ {s} /\ verdict' = verdict
                   ELSE todo' = todo /\ verdict' = SiteVerdict(cs, s)
                /\ UNCHANGED <<phase, cs>>
Accept == /\ phase = "check"
          /\ verdict = "pending"
          /\ todo = {}
          /\ verdict' = "accept"
          /\ UNCHANGED <<phase, cs, todo>>
Next == ChooseContext \/ ChooseSites \/ Accept \/ \E s \in {"call", "construct", "condloop"} : CheckSite(s)
Spec == Init /\ [][Next]_vars

\* every terminal state reports itself
Report == (phase = "check" /\ verdict # "pending") =>
    PrintT(ToJson([case |-> cs, verdict |-> verdict, flags |-> CtxFlags(cs.ctx),
                   missing |-> Missing(cs), scope |-> Scope(cs), meta |-> MetaExpected(cs),
                   calleemeta |-> FlagValue(cs.call.flags)]))

\* ---- laws checked on the table ------------------------------------------------------
WalkAgreesWithRule == phase = "check" =>
    /\ verdict = "accept" => Reasons(cs) = {}
    /\ verdict \notin {"accept", "pending"} => verdict \in Reasons(cs)
    /\ (verdict = "pending" /\ todo = {}) => Reasons(cs) = {}
    /\ (verdict = "pending" /\ Reasons(cs) # {}) => todo # {}
\* more callee flags never turn an accepted call into a rejected one
MonotoneInCallee == (phase = "check") => \A F \in SUBSET Flags :
    (cs.call.flags \subseteq F /\ Reasons(cs) = {}) => Reasons([cs EXCEPT !.call.flags = F]) = {}
\* a weaker decorator context never rejects more
AntitoneInContext == (phase = "check" /\ cs.ctx.kind = "deco") => \A F \in SUBSET cs.ctx.deco :
    Reasons(cs) = {} => Reasons([cs EXCEPT !.ctx.deco = F]) = {}
ClassicalCallsAllowed == (phase = "check" /\ cs.call.args = "c") => "Call" \notin Reasons(cs)
ExemptCallsAllowed == (phase = "check" /\ cs.call.kind \in Exempt) => "Call" \notin Reasons(cs)
NoContextAcceptsAll == (phase = "check" /\ CtxFlags(cs.ctx) = {}) => Reasons(cs) = {}
FullyUnitaryCalleeAllowed == (phase = "check" /\ cs.call.flags = Flags) => "Call" \notin Reasons(cs)
OnlyDaggerRestrictsConstructs == (phase = "check" /\ "D" \notin CtxFlags(cs.ctx)) => Reasons(cs) \subseteq {"Call"}
PositionIrrelevantForCalls == (phase = "check" /\ cs.call.pos \in BoolPositions) => \A p \in BoolPositions :
    (CallBad(cs) <=> CallBad([cs EXCEPT !.call.pos = p]))
DoubleDaggerCancels == (phase = "check" /\ cs.ctx.kind = "with") =>
    StackFlags(cs.ctx.levels[1] \o <<"dagger", "dagger">>) = StackFlags(cs.ctx.levels[1])
\* an enclosing context never weakens the requirement
EnclosingOnlyAdds == phase = "check" => \A n \in 1..Len(cs.ctx.levels) :
    LevelFlags(cs.ctx, n - 1) \subseteq LevelFlags(cs.ctx, n)
=============================================================================
