---------------------------- MODULE Quantum_Gen ----------------------------
(* C20, spec -> code.  TLC enumerates Guppy circuits (module Quantum's actions: library gate
   calls with every qubit assignment, angle value and angle expression, in procedural and
   functional form; measurement-like operations with every possible outcome) after a
   preparation prefix, and prints each circuit together with the exact final state that the
   documented matrices give.  checks/C20.py renders every printed circuit as Guppy source,
   compiles it with /repo, executes the HUGR and compares state_result with `st`
   (up to global phase and normalisation), forcing the printed measurement outcomes.

   Level(n) selects the operations offered at position n of the circuit:
     "quick"    all gates x all qubit assignments x angle values QuickTs (procedural form) and
                angle value pi/4 (functional form; the two-angle gate phased_x with all QuickTs pairs, so
                that its two slots are told apart in both forms); every angle expression once, spread over rz,
                crz (RotationCompiler) and qsystem rz (float(angle)); all measurements
     "full"     the same with angle values -8..8, both forms everywhere, and the angle expressions
                also on zz_phase and both slots of phased_x
     "core"     all gates/assignments, angle values {1, 2}, procedural form, measurements
     "none"     nothing *)
EXTENDS QuantumDefs, Json

CONSTANTS Depth, Level1, Level2, PrepSet
VARIABLES prep, slice, ops, st
vars == <<prep, slice, ops, st>>

QuickTs == {-3, 1, 2, 5}
Both == {"p", "f"}
OpSet(name) ==
    CASE name = "quick" -> GateOps(GateNames, QuickTs, {"p"}) \cup GateOps(GateNames, {1}, {"f"})
                           \cup GateOps({"phased_x"}, QuickTs, {"f"})   \* two angle slots: distinct values
                           \cup ExprOpsOnce \cup MeasOps(Both)
      [] name = "full"  -> GateOps(GateNames, -8..8, Both) \cup ExprOps(Both, TRUE) \cup MeasOps(Both)
      [] name = "core"  -> GateOps(GateNames, {1, 2}, {"p"}) \cup MeasOps({"p"})
      [] name = "none"  -> {}
Level(n) == IF n = 1 THEN OpSet(Level1) ELSE OpSet(Level2)

\* the preparation prefixes are printed once so that the harness renders exactly these
ASSUME PrintT(ToJson([preps |-> Preps]))

\* The first operation is taken from one slice <<name, first qubit>> of Level(1) per initial
\* state; this only spreads the enumeration over TLC's workers, every slice is explored.
Slices == (GateNames \cup MeasNames) \X Qubits
NotStarted == [k |-> -1, a |-> <<>>]

Init == /\ prep \in PrepSet
        /\ slice \in Slices
        /\ ops = <<>>
        /\ st = NotStarted

Prepare == /\ st = NotStarted
           /\ st' = RunFrom(ZeroState, Preps[prep], 1)
           /\ UNCHANGED <<prep, slice, ops>>

Step(op) == /\ st # NotStarted
            /\ ops = <<>> => (op.g = slice[1] /\ op.qs[1] = slice[2])
            /\ Enabled(st, op)                     \* measurement outcomes of non-zero probability only
            /\ st' = ApplyOp(st, op)
            /\ ops' = Append(ops, op)
            /\ UNCHANGED <<prep, slice>>

Next == \/ Prepare
        \/ Len(ops) < Depth /\ \E op \in Level(Len(ops) + 1) : Step(op)
Spec == Init /\ [][Next]_vars

\* every enumerated circuit (the bare preparation included) reports itself with its expected final state
Emit == st # NotStarted => PrintT(ToJson([prep |-> prep, ops |-> ops, st |-> OutState(st)]))
=============================================================================
