SPECIFICATION Spec
CONSTANTS
  NQ = 3
  Depth = 0
  Mode = "perm"
INVARIANT Emit
CHECK_DEADLOCK FALSE
