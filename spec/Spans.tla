------------------------------- MODULE Spans -------------------------------
(* Interval algebra of source spans (guppylang_internals/span.py).
   A location is <<file, line, column>>; locations of one file are ordered
   lexicographically by (line, column).  A span is a closed interval
   <<start, end>> of locations of one file with start <= end.
   Serves C30; reused by Render (C29) and the Engine diagnostics monitor (C02). *)
EXTENDS Naturals, Sequences, FiniteSets, TLC

CONSTANTS Files, MaxLine, MaxCol

Loc == Files \X (1..MaxLine) \X (0..MaxCol)

File(l) == l[1]
LocLE(a, b) == a[2] < b[2] \/ (a[2] = b[2] /\ a[3] <= b[3])
LocLT(a, b) == LocLE(a, b) /\ a # b
LocMax(a, b) == IF LocLE(a, b) THEN b ELSE a
LocMin(a, b) == IF LocLE(a, b) THEN a ELSE b

IsSpan(s) == File(s[1]) = File(s[2]) /\ LocLE(s[1], s[2])
Span == {s \in Loc \X Loc : IsSpan(s)}
SFile(s) == File(s[1])

\* ---- the three operations of the property ----------------------------------
SpanIn(a, b) ==            \* a in b
    /\ SFile(a) = SFile(b)
    /\ LocLE(b[1], a[1])
    /\ LocLE(a[2], b[2])

LocIn(x, b) ==             \* location x in span b
    /\ File(x) = SFile(b)
    /\ LocLE(b[1], x)
    /\ LocLE(x, b[2])

NoSpan == <<>>
Disjoint(a, b) == SFile(a) # SFile(b) \/ LocLT(a[2], b[1]) \/ LocLT(b[2], a[1])
Meet(a, b) == IF Disjoint(a, b) THEN NoSpan
              ELSE <<LocMax(a[1], b[1]), LocMin(a[2], b[2])>>

\* ---- design-level laws, checked exhaustively by TLC on the grid --------------
VARIABLES a, b, c
vars == <<a, b, c>>
Init == a \in Span /\ b \in Span /\ c \in Span
Next == UNCHANGED vars
Spec == Init /\ [][Next]_vars

ContainsReflexive   == SpanIn(a, a)
ContainsAntisym     == (SpanIn(a, b) /\ SpanIn(b, a)) => a = b
ContainsTransitive  == (SpanIn(a, b) /\ SpanIn(b, c)) => SpanIn(a, c)
ContainsIsPointwise == SpanIn(a, b) <=> (\A x \in Loc : LocIn(x, a) => LocIn(x, b))
MeetIsSpan          == Meet(a, b) # NoSpan => IsSpan(Meet(a, b))
MeetCommutes        == Meet(a, b) = Meet(b, a)
MeetLower           == Meet(a, b) # NoSpan => SpanIn(Meet(a, b), a) /\ SpanIn(Meet(a, b), b)
MeetGreatest        == (SpanIn(c, a) /\ SpanIn(c, b)) => (Meet(a, b) # NoSpan /\ SpanIn(c, Meet(a, b)))
MeetPointwise       == \A x \in Loc : (LocIn(x, a) /\ LocIn(x, b)) <=> (Meet(a, b) # NoSpan /\ LocIn(x, Meet(a, b)))
MeetNoneIffDisjoint == Meet(a, b) = NoSpan <=> ~(\E x \in Loc : LocIn(x, a) /\ LocIn(x, b))
CrossFile           == SFile(a) # SFile(b) => (~SpanIn(a, b) /\ Meet(a, b) = NoSpan)
=============================================================================
