------------------------------ MODULE Literals ------------------------------
(* C17: integer literals and comptime Python integers, alone or as elements of tuple /
   array / list constants (nested tuples are flattened).

   Algorithm-shaped part, one action per step of the code path of a constant:
     Fold   cfg/builder.py ExprBuilder.visit_UnaryOp: `-` applied to a numeric constant is
            folded into the constant (only for elements written with a minus sign;
            comptime values arrive signed)
     Check  checker/expr_checker.py python_value_to_guppy_type + _int_bounds_check, applied
            to EVERY element of a tuple / list constant (one Check step per element, like the
            loops in python_value_to_guppy_type / _python_list_to_guppy_type): a non-negative
            value checked against nat is bounds-checked UNSIGNED and typed nat; every other
            integer is bounds-checked SIGNED and typed int
     Match  check_type_against / list coherence: every element's type must equal the
            expected element type (an int constant is never narrowed to nat)
     Lower  compiler/expr_compiler.py python_value_to_hugr: IntVal / UnsignedIntVal of
            width 64 hold the value modulo 2^64; the program observes element `pos`
     Observe compares with what the real compiler/interpreter did for this case.
   Declarative part (the property): the constant is accepted iff EVERY element lies in the
   range of the type (int: [-2^63, 2^63-1], nat: [0, 2^64-1]; NumOps!LitAccept on wide limb
   integers), and the program then observes exactly the value of the element it reads.
   Invariant Agreement ties both together on every case; Observe prints
   {"bad": case, "why": ...} for each disagreement between the spec and the recorded
   behaviour of /repo's compiler.

   Cases come from the JSON file named by VERIF_CASES:
     [ty |-> "int"|"nat", els |-> <<[minus |-> 0|1, neg |-> 0|1, mag |-> limbs], ...>>,
      pos |-> index of the element the program reads,
      st |-> "ok"|"rejected"|..., ret |-> word the function returned,
      rk |-> "int"|"uint"|"none" kind of the result() event, rw |-> its word]            *)
EXTENDS Integers, Sequences, TLC, Json, IOUtils

CONSTANTS NL, LB, FP, NChunks
INSTANCE NumOps

Cases == JsonDeserialize(IOEnv.VERIF_CASES)
N == Len(Cases)
First(kk) == ((kk - 1) * N) \div NChunks + 1
Last(kk)  == (kk * N) \div NChunks

VARIABLES k, i,        \* chunk, case index
          pc,          \* "fold", "check", "match", "lower", "observe"
          j,           \* element being checked
          val,         \* the elements (sequence of Z) as the compiler sees them at this point
          act,         \* types given to the elements checked so far
          verdict,     \* "?", "accept", "overflow", "mismatch"
          word,        \* lowered machine word
          nacc, nrej   \* verdict counts of the chunk
vars == <<k, i, pc, j, val, act, verdict, word, nacc, nrej>>

C == Cases[i]
Src(e) == ZMk(e.neg = 1 /\ e.minus = 0, e.mag)          \* a constant node before folding
Val(e) == ZMk(e.neg = 1, e.mag)                         \* the Python integer the user wrote
Source(c) == Tup([n \in 1..Len(c.els) |-> Src(c.els[n])])
Value(c)  == Tup([n \in 1..Len(c.els) |-> Val(c.els[n])])

Start(ii) == /\ i = ii /\ pc = "fold" /\ j = 1 /\ val = Source(Cases[ii]) /\ act = <<>>
             /\ verdict = "?" /\ word = BvZero
Idle(ii)  == /\ i = ii /\ pc = "fold" /\ j = 1 /\ val = <<>> /\ act = <<>> /\ verdict = "?" /\ word = BvZero
Init == /\ k \in 1..NChunks /\ nacc = 0 /\ nrej = 0
        /\ IF First(k) <= Last(k) THEN Start(First(k)) ELSE Idle(First(k))

Fold ==
    /\ pc = "fold" /\ i <= Last(k)
    /\ val' = Tup([n \in 1..Len(val) |-> IF C.els[n].minus = 1 THEN ZNeg(val[n]) ELSE val[n]])
    /\ pc' = "check"
    /\ UNCHANGED <<k, i, j, act, verdict, word, nacc, nrej>>
Check ==                                   \* one element per step
    /\ pc = "check"
    /\ IF C.ty = "nat" /\ ~val[j].neg
       THEN /\ act' = Append(act, "nat")
            /\ verdict' = IF verdict = "?" /\ ~ZInU(val[j]) THEN "overflow" ELSE verdict
       ELSE /\ act' = Append(act, "int")
            /\ verdict' = IF verdict = "?" /\ ~ZInS(val[j]) THEN "overflow" ELSE verdict
    /\ IF j < Len(val) THEN j' = j + 1 /\ pc' = "check" ELSE j' = j /\ pc' = "match"
    /\ UNCHANGED <<k, i, val, word, nacc, nrej>>
Match ==
    /\ pc = "match"
    /\ verdict' = IF verdict # "?" THEN verdict
                  ELSE IF \A n \in 1..Len(act) : act[n] = C.ty THEN "accept" ELSE "mismatch"
    /\ pc' = "lower"
    /\ UNCHANGED <<k, i, j, val, act, word, nacc, nrej>>
Lower ==
    /\ pc = "lower"
    /\ word' = IF verdict = "accept" THEN ZWrap(val[C.pos]) ELSE word
    /\ pc' = "observe"
    /\ UNCHANGED <<k, i, j, val, act, verdict, nacc, nrej>>

Reported(c) == IF c.rk = "int" THEN ZOfS(c.rw) ELSE ZOfU(c.rw)
Why(c) ==
    IF verdict = "accept"
    THEN IF c.st # "ok" THEN "verdict"
         ELSE IF c.ret # word THEN "value"
         ELSE IF c.rk # "none" /\ ZCmp(Reported(c), Value(c)[c.pos]) # 0 THEN "report"
         ELSE "none"
    ELSE IF c.st # "rejected" THEN "verdict" ELSE "none"
Observe ==
    /\ pc = "observe"
    /\ IF Why(C) = "none" THEN TRUE
       ELSE PrintT(ToJson([bad |-> i - 1, why |-> Why(C), verdict |-> verdict, word |-> word]))
    /\ nacc' = nacc + (IF verdict = "accept" THEN 1 ELSE 0)
    /\ nrej' = nrej + (IF verdict = "accept" THEN 0 ELSE 1)
    /\ IF i + 1 <= Last(k)
       THEN /\ i' = i + 1 /\ pc' = "fold" /\ j' = 1 /\ val' = Source(Cases[i + 1]) /\ act' = <<>>
            /\ verdict' = "?" /\ word' = BvZero
       ELSE /\ i' = i + 1 /\ pc' = "fold" /\ UNCHANGED <<j, val, act, verdict, word>>
    /\ k' = k
Next == Fold \/ Check \/ Match \/ Lower \/ Observe
Spec == Init /\ [][Next]_vars

\* the algorithm agrees with the declarative statement on every case
Agreement ==
    pc = "observe" =>
       /\ (verdict = "accept") <=> (\A n \in 1..Len(C.els) : LitAccept(C.ty, Value(C)[n]))
       /\ verdict = "accept" => (word = LitWord(Value(C)[C.pos]) /\ val = Value(C))
Done == i = Last(k) + 1
Accept == Done => PrintT(ToJson([accepted |-> k, acc |-> nacc, rej |-> nrej]))
=============================================================================
