------------------------------ MODULE Literals ------------------------------
(* C17: integer literals and comptime Python integers.

   Algorithm-shaped part, one action per step of the code path of a constant:
     Fold   cfg/builder.py ExprBuilder.visit_UnaryOp: `-` applied to a numeric constant is
            folded into the constant (only for the literal forms written with a minus sign;
            comptime values arrive signed)
     Check  checker/expr_checker.py python_value_to_guppy_type + _int_bounds_check:
            a non-negative value checked against nat is bounds-checked UNSIGNED and typed
            nat; every other integer is bounds-checked SIGNED and typed int
     Match  check_type_against: the constant's type must equal the expected type (an int
            constant is never narrowed to nat)
     Lower  compiler/expr_compiler.py python_value_to_hugr: IntVal / UnsignedIntVal of
            width 64 hold the value modulo 2^64
     Observe compares with what the real compiler/interpreter did for this case.
   Declarative part (the property): a value is accepted at int iff it lies in
   [-2^63, 2^63-1], at nat iff in [0, 2^64-1] (NumOps!LitAccept on wide limb integers), and
   the program then observes exactly that value.  Invariant Agreement ties both together on
   every case; Observe prints {"bad": case, "why": ...} for each disagreement between the
   spec and the recorded behaviour of /repo's compiler.

   Cases come from the JSON file named by VERIF_CASES:
     [ty |-> "int"|"nat", minus |-> 0|1 (written with unary minus), neg |-> 0|1, mag |-> limbs,
      st |-> "ok"|"rejected"|..., ret |-> word the function returned,
      rk |-> "int"|"uint"|"none" kind of the result() event, rw |-> its word]            *)
EXTENDS Integers, Sequences, TLC, Json, IOUtils

CONSTANTS NL, LB, FP, NChunks
INSTANCE NumOps

Cases == JsonDeserialize(IOEnv.VERIF_CASES)
N == Len(Cases)
First(kk) == ((kk - 1) * N) \div NChunks + 1
Last(kk)  == (kk * N) \div NChunks

VARIABLES k, i,        \* chunk, case index
          pc,          \* "fold", "check", "match", "lower", "observe"
          val,         \* the constant (Z) as the compiler sees it at this point
          act,         \* type given to the constant: "int", "nat", "none"
          verdict,     \* "?", "accept", "overflow", "mismatch"
          word,        \* lowered machine word
          nacc, nrej   \* verdict counts of the chunk
vars == <<k, i, pc, val, act, verdict, word, nacc, nrej>>

C == Cases[i]
Source(c) == ZMk(c.neg = 1 /\ c.minus = 0, c.mag)        \* the constant node before folding
Value(c)  == ZMk(c.neg = 1, c.mag)                       \* the Python integer the user wrote

Start(ii) == /\ i = ii /\ pc = "fold" /\ val = Source(Cases[ii]) /\ act = "none"
             /\ verdict = "?" /\ word = BvZero
Init == /\ k \in 1..NChunks /\ nacc = 0 /\ nrej = 0
        /\ IF First(k) <= Last(k) THEN Start(First(k))
           ELSE i = First(k) /\ pc = "fold" /\ val = ZMk(FALSE, BvZero) /\ act = "none" /\ verdict = "?" /\ word = BvZero

Fold ==
    /\ pc = "fold" /\ i <= Last(k)
    /\ val' = IF C.minus = 1 THEN ZNeg(val) ELSE val
    /\ pc' = "check"
    /\ UNCHANGED <<k, i, act, verdict, word, nacc, nrej>>
Check ==
    /\ pc = "check"
    /\ IF C.ty = "nat" /\ ~val.neg
       THEN /\ act' = "nat"
            /\ verdict' = IF ZInU(val) THEN "?" ELSE "overflow"
       ELSE /\ act' = "int"
            /\ verdict' = IF ZInS(val) THEN "?" ELSE "overflow"
    /\ pc' = "match"
    /\ UNCHANGED <<k, i, val, word, nacc, nrej>>
Match ==
    /\ pc = "match"
    /\ verdict' = IF verdict # "?" THEN verdict ELSE IF act = C.ty THEN "accept" ELSE "mismatch"
    /\ pc' = "lower"
    /\ UNCHANGED <<k, i, val, act, word, nacc, nrej>>
Lower ==
    /\ pc = "lower"
    /\ word' = IF verdict = "accept" THEN ZWrap(val) ELSE word
    /\ pc' = "observe"
    /\ UNCHANGED <<k, i, val, act, verdict, nacc, nrej>>

Reported(c) == IF c.rk = "int" THEN ZOfS(c.rw) ELSE ZOfU(c.rw)
Why(c) ==
    IF verdict = "accept"
    THEN IF c.st # "ok" THEN "verdict"
         ELSE IF c.ret # word THEN "value"
         ELSE IF c.rk # "none" /\ ZCmp(Reported(c), Value(c)) # 0 THEN "report"
         ELSE "none"
    ELSE IF c.st # "rejected" THEN "verdict" ELSE "none"
Observe ==
    /\ pc = "observe"
    /\ IF Why(C) = "none" THEN TRUE
       ELSE PrintT(ToJson([bad |-> i - 1, why |-> Why(C), verdict |-> verdict, word |-> word]))
    /\ nacc' = nacc + (IF verdict = "accept" THEN 1 ELSE 0)
    /\ nrej' = nrej + (IF verdict = "accept" THEN 0 ELSE 1)
    /\ IF i + 1 <= Last(k)
       THEN /\ i' = i + 1 /\ pc' = "fold" /\ val' = Source(Cases[i + 1]) /\ act' = "none"
            /\ verdict' = "?" /\ word' = BvZero
       ELSE /\ i' = i + 1 /\ pc' = "fold" /\ UNCHANGED <<val, act, verdict, word>>
    /\ k' = k
Next == Fold \/ Check \/ Match \/ Lower \/ Observe
Spec == Init /\ [][Next]_vars

\* the algorithm agrees with the declarative statement on every case
Agreement ==
    pc = "observe" =>
       /\ (verdict = "accept") <=> LitAccept(C.ty, Value(C))
       /\ verdict = "accept" => (word = LitWord(Value(C)) /\ val = Value(C))
Done == i = Last(k) + 1
Accept == Done => PrintT(ToJson([accepted |-> k, acc |-> nacc, rej |-> nrej]))
=============================================================================
