-------------------------------- MODULE Engine --------------------------------
(* The compilation engine's session state (guppylang_internals/engine.py) over a fixed pool
   of definitions (harness/eng_pool.py), for C11 "compiling a definition does not depend on
   session history".

   Code mirrored (one action per step of the code):
     CompilationEngine.check(id):
        self.reset()                                          -> Start (Reset)
        to_check_worklist = {id: defn.parse(..)}              -> PreParse   (the entry is parsed, the
              result is NOT stored in `parsed`; definitions discovered by that parse stay in
              `parsed` but the assignment overwrites to_check_worklist)
        while worklists: popitem() (types first, LIFO)        -> LoopPop
            get_checked(id) = get_parsed(id) [parse, store,   -> ParseDef
                              push on a worklist] + check     -> CheckDef  (raises -> Fail)
     CompilationEngine.compile(id): check(id); CompilerContext.compile:
        compiled/worklist (LIFO), compile_inner per entry     -> CompileDef (tracing a comptime
              function discovers + checks its callees on the fly; a raise inside -> Fail)
        self.compiled = ctx.compiled                          -> CompileDone
     GuppyFunctionDefinition.compile() = compile_function() + "entrypoint has arguments"
        rejection after the fact                              -> CompileDone (op = "entry")
     DEF_STORE.register_def/register_impl for the generated methods of a checked struct
        (a new DefId on every check: the store grows)         -> CheckDef("Pt")

   Static description of the pool: which own definitions a definition refers to in its
   signature (found while parsing), in its body (found while checking; for a comptime
   function: while tracing) and which (callee, instantiation) pairs lowering it compiles.
   Granularity: all references of a body are discovered when that body is checked; this is
   exact for the failing members of the pool (they have no references before the failure).

   Artefacts carry the epoch (number of Resets so far) in which they were produced.
   Properties (INVARIANTs): a compile never reads an artefact of an earlier epoch
   (NoStaleRead, CachesOfThisEpoch); the abstract output of a successful compile of d - the
   set of artefacts read, each with the number of times it had been lowered before - is the
   same wherever it occurs in any history (OutputIndependent); failures leave nothing that
   a later call reads (by the first two plus Start emptying every cache).
   Complete histories with the expected outcome and projected engine state after every
   public call are printed and replayed on the real engine by checks/C11.py.             *)
EXTENDS Naturals, Sequences, FiniteSets, TLC, Json

CONSTANTS Pool,        \* entry points used by the public calls
          EntryOps,    \* subset of Pool on which `entry` (defn.compile()) is also exercised
          FirstOps,    \* labels "<op>:<d>" allowed as first call ({} = any): selects families of histories
          MaxLen,      \* history length
          EmitHist

Own == {"plain", "caller", "main0", "bad_type", "calls_bad", "ct_good", "ct_bad", "ct_many", "ct_intr", "ct_exit", "ct_expr", "closure", "first",
        "use_generic", "mono", "use_mono", "Pt", "Pt.norm1", "Pt.__new__", "use_struct",
        "ov_int", "ov_float", "over", "use_over", "effects", "long_names", "loops", "n"}
ASSUME Pool \subseteq Own /\ EntryOps \subseteq Pool

Types    == {"Pt"}                      \* go to types_to_check_worklist
Comptime == {"ct_good", "ct_bad", "ct_many", "ct_intr", "ct_exit"}       \* traced, body not examined by check()
\* definitions whose body check raises a GuppyError, with the diagnostic's title.  ct_expr evaluates
\* `comptime(plain(1))`: calling a Guppy function from Python outside tracing is an error, whatever
\* happened earlier in the session (no reference to `plain` is resolved by the engine)
FailTitle == [bad_type |-> "Type mismatch", ct_expr |-> "Python error"]
FailsCheck == DOMAIN FailTitle
\* comptime functions whose Python body raises while being traced, with the exception's class.
\* ct_intr / ct_exit raise a BaseException that is not an Exception (Ctrl-C, sys.exit) after
\* side-effecting ops were traced; for the engine this is just another failed compile
TraceFail == [ct_bad |-> "IndexError", ct_intr |-> "KeyboardInterrupt", ct_exit |-> "SystemExit"]
FailsTrace == DOMAIN TraceFail
NoArgs == {"main0"}

Tab(f, x) == IF x \in DOMAIN f THEN f[x] ELSE <<>>
SigRefs(x)   == Tab([first |-> <<"n">>, mono |-> <<>>] @@ ("Pt.norm1" :> <<"Pt">>), x)
BodyRefs(x)  == Tab([caller |-> <<"plain">>, main0 |-> <<"caller">>, calls_bad |-> <<"plain", "bad_type">>,
                     use_generic |-> <<"first">>, use_mono |-> <<"mono">>,
                     use_struct |-> <<"Pt", "Pt.__new__", "Pt.norm1">>,
                     use_over |-> <<"over", "ov_int", "ov_float">>], x)
TraceRefs(x) == Tab([ct_good |-> <<"plain">>, ct_bad |-> <<"plain">>, ct_many |-> <<"plain">>,
                     ct_intr |-> <<"plain">>, ct_exit |-> <<"plain">>], x)
\* (callee, instantiation tag) pairs compiled when x is lowered
Calls(x) == Tab([caller |-> << <<"plain", 0>> >>, main0 |-> << <<"caller", 0>> >>,
                 use_generic |-> << <<"first", 0>> >>, use_mono |-> << <<"mono", 1>>, <<"mono", 2>> >>,
                 use_struct |-> << <<"Pt.__new__", 0>>, <<"Pt.norm1", 0>> >>,
                 use_over |-> << <<"ov_int", 0>>, <<"ov_float", 0>> >>,
                 ct_good |-> << <<"plain", 0>> >>, ct_bad |-> << <<"plain", 0>> >>,
                 ct_many |-> << <<"plain", 0>> >>, ct_intr |-> << <<"plain", 0>> >>,
                 ct_exit |-> << <<"plain", 0>> >>], x)

Ops == {<<"check", d>> : d \in Pool} \cup {<<"compile", d>> : d \in Pool} \cup {<<"entry", d>> : d \in EntryOps}

VARIABLES epoch,        \* number of Resets so far
          parsedAt,     \* [Own -> 0 (absent) | epoch of the parse]          ENGINE.parsed
          checkedAt,    \* [Own -> 0 | epoch]                                 ENGINE.checked
          compiled,     \* sequence of names (bag)                            ENGINE.compiled keys
          wl, twl,      \* to_check_worklist / types_to_check_worklist (LIFO: last = next)
          store,        \* generated struct methods registered so far         DEF_STORE growth
          lowered,      \* [Own -> times the checked artefact was lowered]    in-place mutation of CheckedCFGs
          staleRead,    \* ghost: some lowering read an artefact of another epoch
          pc,           \* control state of the running public call
          hist          \* completed public calls with expected observations
vars == <<epoch, parsedAt, checkedAt, compiled, wl, twl, store, lowered, staleRead, pc, hist>>

Idle == [phase |-> "idle", op |-> "", d |-> "", cur |-> "", work |-> <<>>, done |-> <<>>, reads |-> {}]
Zero == [x \in Own |-> 0]

Init ==
    /\ epoch = 0 /\ parsedAt = Zero /\ checkedAt = Zero /\ compiled = <<>>
    /\ wl = <<>> /\ twl = <<>> /\ store = 0 /\ lowered = Zero
    /\ staleRead = FALSE /\ pc = Idle /\ hist = <<>>

\* ---- get_parsed over a sequence of names: parse the unparsed ones (their signature
\* ---- references first), store them, push them on the matching worklist ----------------
RECURSIVE GetParsed(_, _)
GetParsed(st, names) ==       \* st = [p |-> parsedAt, w |-> wl, t |-> twl]
    IF names = <<>> THEN st
    ELSE LET x == Head(names) IN
         IF st.p[x] # 0 THEN GetParsed(st, Tail(names))
         ELSE LET s1 == GetParsed(st, SigRefs(x))          \* parse(x) resolves its signature
                  s2 == [p |-> [s1.p EXCEPT ![x] = epoch],
                         w |-> IF x \in Types THEN s1.w ELSE Append(s1.w, x),
                         t |-> IF x \in Types THEN Append(s1.t, x) ELSE s1.t]
              IN GetParsed(s2, Tail(names))
St == [p |-> parsedAt, w |-> wl, t |-> twl]
SetSt(s) == parsedAt' = s.p /\ wl' = s.w /\ twl' = s.t

Front(s) == SubSeq(s, 1, Len(s) - 1)
Last(s) == s[Len(s)]
ToSet(s) == {s[i] : i \in 1..Len(s)}
Names(f) == {x \in Own : f[x] # 0}

\* ---- a public call starts: reset() -----------------------------------------------------
Start(op, d) ==
    /\ pc = Idle /\ Len(hist) < MaxLen
    /\ (hist # <<>> \/ FirstOps = {} \/ (op \o ":" \o d) \in FirstOps)
    /\ epoch' = epoch + 1
    /\ parsedAt' = Zero /\ checkedAt' = Zero /\ compiled' = <<>> /\ wl' = <<>> /\ twl' = <<>>
    /\ lowered' = Zero
    /\ pc' = [Idle EXCEPT !.phase = "preparse", !.op = op, !.d = d]
    /\ UNCHANGED <<store, staleRead, hist>>

PreParse ==
    /\ pc.phase = "preparse"
    /\ LET s == GetParsed(St, SigRefs(pc.d)) IN
       /\ parsedAt' = s.p /\ twl' = s.t
       /\ wl' = <<pc.d>>                      \* assignment overwrites what the parse queued
    /\ pc' = [pc EXCEPT !.phase = "loop"]
    /\ UNCHANGED <<epoch, checkedAt, compiled, store, lowered, staleRead, hist>>

LoopPop ==
    /\ pc.phase = "loop" /\ (twl # <<>> \/ wl # <<>>)
    /\ IF twl # <<>> THEN /\ twl' = Front(twl) /\ wl' = wl
                          /\ pc' = [pc EXCEPT !.phase = "parse", !.cur = Last(twl)]
                     ELSE /\ wl' = Front(wl) /\ twl' = twl
                          /\ pc' = [pc EXCEPT !.phase = "parse", !.cur = Last(wl)]
    /\ UNCHANGED <<epoch, parsedAt, checkedAt, compiled, store, lowered, staleRead, hist>>

\* get_checked(cur), first half: get_parsed
ParseDef ==
    /\ pc.phase = "parse"
    /\ IF checkedAt[pc.cur] # 0
       THEN pc' = [pc EXCEPT !.phase = "loop"] /\ UNCHANGED <<parsedAt, wl, twl>>
       ELSE SetSt(GetParsed(St, <<pc.cur>>)) /\ pc' = [pc EXCEPT !.phase = "checkdef"]
    /\ UNCHANGED <<epoch, checkedAt, compiled, store, lowered, staleRead, hist>>

Projection(outcome, comp) ==
    [op |-> pc.op, d |-> pc.d, outcome |-> outcome,
     parsed |-> Names(parsedAt'), checked |-> Names(checkedAt'), compiled |-> comp,
     worklist |-> wl' \o twl', store |-> store',
     out |-> IF outcome = "ok" /\ pc.op # "check" THEN pc.reads ELSE {}]
Finish(outcome, comp) == hist' = Append(hist, Projection(outcome, comp)) /\ pc' = Idle

\* get_checked(cur), second half: check the body (discovers its references)
CheckDef ==
    /\ pc.phase = "checkdef"
    /\ LET x == pc.cur
           s == IF x \in Comptime THEN St ELSE GetParsed(St, BodyRefs(x)) IN
       /\ SetSt(s)
       /\ IF x \in FailsCheck
          THEN /\ UNCHANGED <<checkedAt, store>>
               /\ Finish("rejected:" \o FailTitle[x], <<>>)
          ELSE /\ checkedAt' = [checkedAt EXCEPT ![x] = epoch]
               /\ store' = IF x = "Pt" THEN store + 1 ELSE store
               /\ pc' = [pc EXCEPT !.phase = "loop"] /\ hist' = hist
    /\ UNCHANGED <<epoch, compiled, lowered, staleRead>>

\* both worklists drained
LoopDone ==
    /\ pc.phase = "loop" /\ twl = <<>> /\ wl = <<>>
    /\ UNCHANGED <<epoch, parsedAt, checkedAt, compiled, wl, twl, store, lowered, staleRead>>
    /\ IF pc.op = "check"
       THEN Finish("ok", <<>>)
       ELSE /\ pc' = [pc EXCEPT !.phase = "lower", !.work = << <<pc.d, 0>> >>, !.done = << <<pc.d, 0>> >>,
                                !.reads = {}]
            /\ hist' = hist

\* CompilerContext.compile: popitem + compile_inner of one (definition, instantiation)
CompileDef ==
    /\ pc.phase = "lower" /\ pc.work # <<>>
    /\ LET item == Last(pc.work)
           x == item[1]
           \* tracing resolves callees with ENGINE.get_checked: parse + check on the fly
           s == IF x \in Comptime THEN GetParsed(St, TraceRefs(x)) ELSE St
           newc == IF x \in Comptime THEN [y \in Own |-> IF y \in ToSet(TraceRefs(x)) /\ checkedAt[y] = 0
                                                          THEN epoch ELSE checkedAt[y]]
                   ELSE checkedAt
           fresh == SelectSeq(Calls(x), LAMBDA c : c \notin ToSet(pc.done))
           rd == <<x, item[2], lowered[x]>> IN
       /\ UNCHANGED <<epoch, compiled, store>>
       /\ SetSt(s)
       /\ checkedAt' = newc
       /\ staleRead' = (staleRead \/ checkedAt[x] # epoch)
       /\ lowered' = [lowered EXCEPT ![x] = @ + 1]
       /\ IF x \in FailsTrace
          THEN Finish("raised:" \o TraceFail[x], <<>>)
          ELSE /\ pc' = [pc EXCEPT !.work = Front(pc.work) \o fresh, !.done = pc.done \o fresh,
                                   !.reads = pc.reads \cup {rd}]
               /\ hist' = hist

CompileDone ==
    /\ pc.phase = "lower" /\ pc.work = <<>>
    /\ UNCHANGED <<epoch, parsedAt, checkedAt, wl, twl, store, lowered, staleRead>>
    /\ compiled' = [i \in 1..Len(pc.done) |-> pc.done[i][1]]
    /\ Finish(IF pc.op = "entry" /\ pc.d \notin NoArgs
              THEN "rejected:Entrypoint function has arguments" ELSE "ok", compiled')

Next ==
    \/ \E o \in Ops : Start(o[1], o[2])
    \/ PreParse \/ LoopPop \/ ParseDef \/ CheckDef \/ LoopDone \/ CompileDef \/ CompileDone

Spec == Init /\ [][Next]_vars

\* ---- properties ----------------------------------------------------------------------
NoStaleRead == ~staleRead

\* whatever is cached was produced after the current call's own Reset
CachesOfThisEpoch ==
    \A x \in Own : parsedAt[x] \in {0, epoch} /\ checkedAt[x] \in {0, epoch}

\* checked implies parsed, except for the entry's discarded pre-parse there is no exception
CheckedAreParsed == \A x \in Own : checkedAt[x] # 0 => parsedAt[x] # 0

\* "The HUGR produced for a definition is independent of session history": the abstract
\* output of a successful compile of d is the same at every position of every history
OutputIndependent ==
    \A i, j \in 1..Len(hist) :
        (hist[i].d = hist[j].d /\ hist[i].op # "check" /\ hist[j].op # "check"
           /\ hist[i].out # {} /\ hist[j].out # {}) => hist[i].out = hist[j].out

\* outcome of a call depends on (op, d) only
OutcomeIndependent ==
    \A i, j \in 1..Len(hist) :
        (hist[i].d = hist[j].d /\ hist[i].op = hist[j].op) => hist[i].outcome = hist[j].outcome

\* an in-place mutated artefact never survives into a later call
LoweredOnlyNow == pc = Idle \/ \A x \in Own : lowered[x] > 0 => checkedAt[x] = epoch

\* ---- emission ---------------------------------------------------------------------------
Complete == pc = Idle /\ Len(hist) = MaxLen
Emit == (EmitHist /\ Complete) =>
    PrintT(ToJson([i \in 1..Len(hist) |->
        [op |-> hist[i].op, d |-> hist[i].d, outcome |-> hist[i].outcome, parsed |-> hist[i].parsed,
         checked |-> hist[i].checked, compiled |-> hist[i].compiled, worklist |-> hist[i].worklist,
         store |-> hist[i].store]]))
=============================================================================
