------------------------------ MODULE Overload ------------------------------
(* Resolution of a call to a function declared with @guppy.overload (property C15).

   Mirrors guppylang_internals/definition/overloaded.py
   (OverloadedFunctionDef.check_call / synthesize_call: try the variants in the
   listed order, the first one whose own call check does not raise wins, otherwise
   OverloadNoMatchError) and, for what "a variant's signature accepts the call" means,
   checker/expr_checker.py: check_num_args, type_check_args (arguments left to right,
   a generic parameter T is bound by the first argument checked against it and is a
   concrete type afterwards), check_type_against / try_coerce_to (implicit numeric
   widening nat < int < float only), python_value_to_guppy_type (a non-negative int
   literal is a nat when checked against nat, int otherwise), check_call (the result
   type must equal an annotated target exactly; a T that occurs only in the result is
   inferred from the target and cannot be inferred in synthesis position).

   A variant may itself be an overloaded function (k = "set", vs = its own function
   variants): the outer loop calls the inner set's check_call/synthesize_call, which tries
   its variants in order and raises OverloadNoMatchError if none accepts - which the outer
   loop suppresses like any other failure.  (The placeholder signature `() -> None` that
   the decorator gives an overloaded function plays no role in the resolution.)

   A case (batch read from IOEnv.VERIF_IN) is
     [id, vs : sequence of variants [k : "fn", ps : parameter types, ret : result type]
                                  or [k : "set", vs : sequence of "fn" variants],
      args : sequence of argument forms, mode : "synth" or the annotated target type]
   types:  "nat" "int" "float" "bool" and "T" (one generic parameter per variant)
   argument forms: variables "vnat" "vint" "vfloat" "vbool",
                   literals  "lpos" (1) "lneg" (-1) "lfloat" (1.5) "lbool" (True)

   The state machine walks the variants exactly as the code does: one action per
   critical step (arity check, one argument check, result check, fall through to the
   next variant).  Invariant FirstMatch relates it to the declarative reading of the
   property: the picked variant is the least index whose signature accepts the call.
   Terminal states print [id, pick (0 = reject), ipick (index inside a nested set, else 0),
   rty, acc (per variant the acceptance of its function(s)), trail]. *)
EXTENDS Naturals, Sequences, FiniteSets, TLC, Json, IOUtils

Cases == JsonDeserialize(IOEnv.VERIF_IN)

Num == {"nat", "int", "float"}
Rank(t) == CASE t = "nat" -> 0 [] t = "int" -> 1 [] t = "float" -> 2
Widens(a, p) == a \in Num /\ p \in Num /\ Rank(a) < Rank(p)

IsVar(a) == a \in {"vnat", "vint", "vfloat", "vbool"}
\* type synthesised for an argument when nothing is expected of it
SynthTy(a) == CASE a = "vnat" -> "nat" [] a = "vint" -> "int" [] a = "vfloat" -> "float"
                [] a = "vbool" -> "bool" [] a = "lpos" -> "int" [] a = "lneg" -> "int"
                [] a = "lfloat" -> "float" [] a = "lbool" -> "bool"
\* is argument form a accepted where the concrete type p is expected?
AcceptsAt(a, p) ==
    IF IsVar(a) THEN SynthTy(a) = p \/ Widens(SynthTy(a), p)
    ELSE CASE a = "lpos"   -> p \in Num
           [] a = "lneg"   -> p \in {"int", "float"}
           [] a = "lfloat" -> p = "float"
           [] a = "lbool"  -> p = "bool"
\* accepted only thanks to an implicit conversion / literal re-typing
Coerced(a, p) == AcceptsAt(a, p) /\ SynthTy(a) # p

\* ---- declarative reading: does variant v accept the call? ---------------------------
TPositions(v) == {i \in 1..Len(v.ps) : v.ps[i] = "T"}
Min(S) == CHOOSE x \in S : \A y \in S : x <= y
BoundT(v, args) == IF TPositions(v) = {} THEN "none" ELSE SynthTy(args[Min(TPositions(v))])
ParamTy(v, args, i) == IF v.ps[i] = "T" THEN BoundT(v, args) ELSE v.ps[i]
ResultTy(v, args, mode) ==
    IF v.ret # "T" THEN v.ret
    ELSE IF BoundT(v, args) # "none" THEN BoundT(v, args)
    ELSE IF mode # "synth" THEN mode ELSE "none"
AcceptsFn(v, args, mode) ==
    /\ Len(v.ps) = Len(args)
    /\ \A i \in 1..Len(args) : AcceptsAt(args[i], ParamTy(v, args, i))
    /\ ResultTy(v, args, mode) # "none"
    /\ mode # "synth" => ResultTy(v, args, mode) = mode
\* an overloaded function used as a variant accepts what one of its own variants accepts
Accepts(v, args, mode) ==
    IF v.k = "set" THEN \E j \in 1..Len(v.vs) : AcceptsFn(v.vs[j], args, mode)
    ELSE AcceptsFn(v, args, mode)

\* ---- the resolution algorithm ---------------------------------------------------------
VARIABLES cid,    \* case
          vi,     \* variant of the called set being tried (1-based)
          ji,     \* variant of the nested set being tried (0 if variant vi is a plain function)
          ai,     \* 0 = arity not checked yet, k = about to check argument k, n+1 = result check
          tb,     \* binding of the function's T ("none" = unbound)
          out,    \* "run" | "pick" | "reject"
          trail   \* per abandoned function / nested set: where it failed (step, argument position),
                  \* and whether an earlier argument had already been accepted by coercion
vars == <<cid, vi, ji, ai, tb, out, trail>>

C == Cases[cid]
Outer == C.vs[vi]
V == IF Outer.k = "set" THEN Outer.vs[ji] ELSE Outer      \* the function being tried
N == Len(C.args)
FirstJ(v) == IF v.k = "set" THEN 1 ELSE 0

Init == /\ cid \in 1..Len(Cases)
        /\ vi = 1 /\ ji = FirstJ(Cases[cid].vs[1]) /\ ai = 0 /\ tb = "none" /\ out = "run" /\ trail = <<>>

CoercedBefore(k) == \E i \in 1..(k - 1) : Coerced(C.args[i], IF V.ps[i] = "T" THEN tb ELSE V.ps[i])

\* abandon the current function at step `why` (GuppyError suppressed) and go on: to the next
\* function of the nested set, or - when the nested set is exhausted (its OverloadNoMatchError,
\* raised after synthesising the types of all arguments, is suppressed too) - to the next variant
Abandon(why) ==
    LET e == [v |-> vi, j |-> ji, at |-> why, pos |-> ai,
              co |-> IF ai >= 2 /\ ai <= N + 1 THEN CoercedBefore(ai) ELSE FALSE]
        setDone == Outer.k = "set" /\ ji = Len(Outer.vs)
        es == IF setDone THEN <<e, [v |-> vi, j |-> 0, at |-> "set", pos |-> N + 1, co |-> FALSE]>> ELSE <<e>>
    IN /\ trail' = trail \o es
       /\ IF Outer.k = "set" /\ ~setDone
          THEN ji' = ji + 1 /\ ai' = 0 /\ tb' = "none" /\ UNCHANGED <<vi, out>>
          ELSE IF vi < Len(C.vs)
          THEN vi' = vi + 1 /\ ji' = FirstJ(C.vs[vi + 1]) /\ ai' = 0 /\ tb' = "none" /\ out' = out
          ELSE out' = "reject" /\ UNCHANGED <<vi, ji, ai, tb>>
       /\ UNCHANGED cid

ArityOk   == out = "run" /\ ai = 0 /\ Len(V.ps) = N /\ ai' = 1 /\ UNCHANGED <<cid, vi, ji, tb, out, trail>>
ArityFail == out = "run" /\ ai = 0 /\ Len(V.ps) # N /\ Abandon("arity")

ArgBindsT == /\ out = "run" /\ ai \in 1..N /\ V.ps[ai] = "T" /\ tb = "none"
             /\ tb' = SynthTy(C.args[ai]) /\ ai' = ai + 1
             /\ UNCHANGED <<cid, vi, ji, out, trail>>
Expected == IF V.ps[ai] = "T" THEN tb ELSE V.ps[ai]
ArgOk   == /\ out = "run" /\ ai \in 1..N /\ ~(V.ps[ai] = "T" /\ tb = "none")
           /\ AcceptsAt(C.args[ai], Expected)
           /\ ai' = ai + 1 /\ UNCHANGED <<cid, vi, ji, tb, out, trail>>
ArgFail == /\ out = "run" /\ ai \in 1..N /\ ~(V.ps[ai] = "T" /\ tb = "none")
           /\ ~AcceptsAt(C.args[ai], Expected)
           /\ Abandon("arg")

Resolved == IF V.ret = "T" THEN tb ELSE V.ret
ResultOk ==
    /\ out = "run" /\ ai = N + 1
    /\ \/ C.mode = "synth" /\ Resolved # "none"
       \/ C.mode # "synth" /\ Resolved \in {"none", C.mode}
    /\ out' = "pick"
    /\ tb' = IF Resolved = "none" THEN C.mode ELSE tb      \* T inferred from the target
    /\ UNCHANGED <<cid, vi, ji, ai, trail>>
ResultFail ==
    /\ out = "run" /\ ai = N + 1
    /\ \/ C.mode = "synth" /\ Resolved = "none"
       \/ C.mode # "synth" /\ Resolved \notin {"none", C.mode}
    /\ Abandon("result")

Next == ArityOk \/ ArityFail \/ ArgBindsT \/ ArgOk \/ ArgFail \/ ResultOk \/ ResultFail
Spec == Init /\ [][Next]_vars

\* ---- properties -----------------------------------------------------------------------
FirstMatch ==
    /\ out = "pick"   => /\ Accepts(Outer, C.args, C.mode)
                         /\ AcceptsFn(V, C.args, C.mode)
                         /\ \A j \in 1..(vi - 1) : ~Accepts(C.vs[j], C.args, C.mode)
                         /\ Outer.k = "set" => \A j \in 1..(ji - 1) : ~AcceptsFn(Outer.vs[j], C.args, C.mode)
    /\ out = "reject" => \A j \in 1..Len(C.vs) : ~Accepts(C.vs[j], C.args, C.mode)
\* functions are tried in listing order (nested sets in place), an abandoned one is never picked later
Before(a, b) == a.v < b.v \/ (a.v = b.v /\ a.j # 0 /\ (b.j = 0 \/ a.j < b.j))
TrailInOrder ==
    /\ \A k \in 1..(Len(trail) - 1) : Before(trail[k], trail[k + 1])
    /\ out = "pick" => \A k \in 1..Len(trail) : Before(trail[k], [v |-> vi, j |-> IF ji = 0 THEN 0 ELSE ji])
\* resolution is deterministic: exactly one step is possible until the outcome is known
Deterministic == out = "run" =>
    Cardinality({a \in {"ArityOk", "ArityFail", "ArgBindsT", "ArgOk", "ArgFail", "ResultOk", "ResultFail"} :
        CASE a = "ArityOk" -> ENABLED ArityOk [] a = "ArityFail" -> ENABLED ArityFail
          [] a = "ArgBindsT" -> ENABLED ArgBindsT [] a = "ArgOk" -> ENABLED ArgOk
          [] a = "ArgFail" -> ENABLED ArgFail [] a = "ResultOk" -> ENABLED ResultOk
          [] a = "ResultFail" -> ENABLED ResultFail}) = 1

AccOf(v) == IF v.k = "set" THEN [j \in 1..Len(v.vs) |-> AcceptsFn(v.vs[j], C.args, C.mode)]
            ELSE <<AcceptsFn(v, C.args, C.mode)>>
Emit == out # "run" =>
    PrintT(ToJson([id |-> C.id, pick |-> IF out = "pick" THEN vi ELSE 0,
                   ipick |-> IF out = "pick" THEN ji ELSE 0,
                   rty |-> IF out = "pick" THEN (IF V.ret = "T" THEN tb ELSE V.ret) ELSE "none",
                   acc |-> [j \in 1..Len(C.vs) |-> AccOf(C.vs[j])],
                   trail |-> trail]))
=============================================================================
