------------------------------ MODULE Overload ------------------------------
(* Resolution of a call to a function declared with @guppy.overload (property C15).

   Mirrors guppylang_internals/definition/overloaded.py
   (OverloadedFunctionDef.check_call / synthesize_call: try the variants in the
   listed order, the first one whose own call check does not raise wins, otherwise
   OverloadNoMatchError) and, for what "a variant's signature accepts the call" means,
   checker/expr_checker.py: check_num_args, type_check_args (arguments left to right,
   a generic parameter T is bound by the first argument checked against it and is a
   concrete type afterwards), check_type_against / try_coerce_to (implicit numeric
   widening nat < int < float only), python_value_to_guppy_type (a non-negative int
   literal is a nat when checked against nat, int otherwise), check_call (the result
   type must equal an annotated target exactly; a T that occurs only in the result is
   inferred from the target and cannot be inferred in synthesis position).

   A variant may itself be an overloaded function (k = "set", vs = its own function
   variants): the outer loop calls the inner set's check_call/synthesize_call, which tries
   its variants in order and raises OverloadNoMatchError if none accepts - which the outer
   loop suppresses like any other failure.  (The placeholder signature `() -> None` that
   the decorator gives an overloaded function plays no role in the resolution.)

   Nested CALLS: a case may carry an outer overload set `os` (variants [p : the type of
   their single parameter, ret]) and an outer mode `omode`; the call is then h(f(args)).
   Each outer variant checks the inner call against its parameter type (ExprChecker.visit_Call
   -> inner check_call with that type as target; synthesis if the parameter is generic), so
   the inner call is resolved afresh per outer variant: if no inner variant fits, the inner
   call fails as a whole (OverloadNoMatchError, suppressed by the outer loop) and is checked
   again for the outer's next variant.  Every attempt starts from the arguments as written.

   A case (batch read from IOEnv.VERIF_IN) is
     [id, vs : sequence of variants [k : "fn", ps : parameter types, ret : result type]
                                  or [k : "set", vs : sequence of "fn" variants],
      args : sequence of argument forms, mode : "synth" or the annotated target type]
   types:  "nat" "int" "float" "bool" and "T" (one generic parameter per variant)
   argument forms: variables "vnat" "vint" "vfloat" "vbool",
                   literals  "lpos" (1) "lneg" (-1) "lfloat" (1.5) "lbool" (True)

   The state machine walks the variants exactly as the code does: one action per
   critical step (arity check, one argument check, result check, fall through to the
   next variant).  Invariant FirstMatch relates it to the declarative reading of the
   property: the picked variant is the least index whose signature accepts the call.
   (os = <<>> for a plain call.)  Terminal states print [id, opick, ocomp (per outer variant the
   inner function it would be composed with and whether it accepts), pick (0 = reject), ipick (index inside a nested set, else 0),
   rty, acc (per variant the acceptance of its function(s)), trail]. *)
EXTENDS Naturals, Sequences, FiniteSets, TLC, Json, IOUtils

Cases == JsonDeserialize(IOEnv.VERIF_IN)

Num == {"nat", "int", "float"}
Rank(t) == CASE t = "nat" -> 0 [] t = "int" -> 1 [] t = "float" -> 2
Widens(a, p) == a \in Num /\ p \in Num /\ Rank(a) < Rank(p)

IsVar(a) == a \in {"vnat", "vint", "vfloat", "vbool"}
\* type synthesised for an argument when nothing is expected of it
SynthTy(a) == CASE a = "vnat" -> "nat" [] a = "vint" -> "int" [] a = "vfloat" -> "float"
                [] a = "vbool" -> "bool" [] a = "lpos" -> "int" [] a = "lneg" -> "int"
                [] a = "lfloat" -> "float" [] a = "lbool" -> "bool"
\* is argument form a accepted where the concrete type p is expected?
AcceptsAt(a, p) ==
    IF IsVar(a) THEN SynthTy(a) = p \/ Widens(SynthTy(a), p)
    ELSE CASE a = "lpos"   -> p \in Num
           [] a = "lneg"   -> p \in {"int", "float"}
           [] a = "lfloat" -> p = "float"
           [] a = "lbool"  -> p = "bool"
\* accepted only thanks to an implicit conversion / literal re-typing
Coerced(a, p) == AcceptsAt(a, p) /\ SynthTy(a) # p

\* ---- declarative reading: does variant v accept the call? ---------------------------
TPositions(v) == {i \in 1..Len(v.ps) : v.ps[i] = "T"}
Min(S) == CHOOSE x \in S : \A y \in S : x <= y
BoundT(v, args) == IF TPositions(v) = {} THEN "none" ELSE SynthTy(args[Min(TPositions(v))])
ParamTy(v, args, i) == IF v.ps[i] = "T" THEN BoundT(v, args) ELSE v.ps[i]
ResultTy(v, args, mode) ==
    IF v.ret # "T" THEN v.ret
    ELSE IF BoundT(v, args) # "none" THEN BoundT(v, args)
    ELSE IF mode # "synth" THEN mode ELSE "none"
AcceptsFn(v, args, mode) ==
    /\ Len(v.ps) = Len(args)
    /\ \A i \in 1..Len(args) : AcceptsAt(args[i], ParamTy(v, args, i))
    /\ ResultTy(v, args, mode) # "none"
    /\ mode # "synth" => ResultTy(v, args, mode) = mode
\* an overloaded function used as a variant accepts what one of its own variants accepts
Accepts(v, args, mode) ==
    IF v.k = "set" THEN \E j \in 1..Len(v.vs) : AcceptsFn(v.vs[j], args, mode)
    ELSE AcceptsFn(v, args, mode)

\* ---- the resolution algorithm ---------------------------------------------------------
VARIABLES cid,    \* case
          oi,     \* variant of the OUTER set being tried (0 if the call is not nested in another one)
          vi,     \* variant of the called set being tried (1-based)
          ji,     \* variant of the nested set being tried (0 if variant vi is a plain function)
          ai,     \* 0 = arity not checked yet, k = about to check argument k, n+1 = result check
          tb,     \* binding of the function's T ("none" = unbound)
          out,    \* "run" | "ipick" (inner call resolved, outer result check pending) | "pick" | "reject"
          trail   \* per abandoned function / nested set / outer variant: where it failed
vars == <<cid, oi, vi, ji, ai, tb, out, trail>>

C == Cases[cid]
HasOuter == Len(C.os) > 0
O == C.os[oi]
OM(o) == IF o.p = "T" THEN "synth" ELSE o.p          \* mode in which outer variant o checks the inner call
Mode == IF HasOuter THEN OM(O) ELSE C.mode
Outer == C.vs[vi]
V == IF Outer.k = "set" THEN Outer.vs[ji] ELSE Outer      \* the function being tried
N == Len(C.args)
FirstJ(v) == IF v.k = "set" THEN 1 ELSE 0
Cond(r, m) == (m = "synth" /\ r # "none") \/ (m # "synth" /\ r \in {"none", m})

Init == /\ cid \in 1..Len(Cases)
        /\ oi = IF Len(Cases[cid].os) > 0 THEN 1 ELSE 0
        /\ vi = 1 /\ ji = FirstJ(Cases[cid].vs[1]) /\ ai = 0 /\ tb = "none" /\ out = "run" /\ trail = <<>>

CoercedBefore(k) == \E i \in 1..(k - 1) : Coerced(C.args[i], IF V.ps[i] = "T" THEN tb ELSE V.ps[i])

\* the current outer variant is abandoned (entries es record why): next outer variant, the inner call
\* is resolved again from scratch; or nothing is left
NextOuter(es) ==
    /\ trail' = trail \o es
    /\ IF HasOuter /\ oi < Len(C.os)
       THEN oi' = oi + 1 /\ vi' = 1 /\ ji' = FirstJ(C.vs[1]) /\ ai' = 0 /\ tb' = "none" /\ out' = "run"
       ELSE out' = "reject" /\ UNCHANGED <<oi, vi, ji, ai, tb>>
    /\ UNCHANGED cid

\* abandon the current function at step `why` (GuppyError suppressed) and go on: to the next
\* function of the nested set, or - when the nested set is exhausted (its OverloadNoMatchError,
\* raised after synthesising the types of all arguments, is suppressed too) - to the next variant;
\* when the called set is exhausted the call fails as a whole (for the current outer variant)
Abandon(why) ==
    LET e == [v |-> vi, j |-> ji, at |-> why, pos |-> ai,
              co |-> IF ai >= 2 /\ ai <= N + 1 THEN CoercedBefore(ai) ELSE FALSE]
        setDone == Outer.k = "set" /\ ji = Len(Outer.vs)
        es == IF setDone THEN <<e, [v |-> vi, j |-> 0, at |-> "set", pos |-> N + 1, co |-> FALSE]>> ELSE <<e>>
    IN IF Outer.k = "set" /\ ~setDone
       THEN trail' = trail \o es /\ ji' = ji + 1 /\ ai' = 0 /\ tb' = "none" /\ UNCHANGED <<cid, oi, vi, out>>
       ELSE IF vi < Len(C.vs)
       THEN /\ trail' = trail \o es
            /\ vi' = vi + 1 /\ ji' = FirstJ(C.vs[vi + 1]) /\ ai' = 0 /\ tb' = "none" /\ UNCHANGED <<cid, oi, out>>
       ELSE NextOuter(IF HasOuter THEN es \o <<[v |-> 0, j |-> 0, at |-> "oinner", pos |-> oi, co |-> FALSE]>> ELSE es)

ArityOk   == out = "run" /\ ai = 0 /\ Len(V.ps) = N /\ ai' = 1 /\ UNCHANGED <<cid, oi, vi, ji, tb, out, trail>>
ArityFail == out = "run" /\ ai = 0 /\ Len(V.ps) # N /\ Abandon("arity")

ArgBindsT == /\ out = "run" /\ ai \in 1..N /\ V.ps[ai] = "T" /\ tb = "none"
             /\ tb' = SynthTy(C.args[ai]) /\ ai' = ai + 1
             /\ UNCHANGED <<cid, oi, vi, ji, out, trail>>
Expected == IF V.ps[ai] = "T" THEN tb ELSE V.ps[ai]
ArgOk   == /\ out = "run" /\ ai \in 1..N /\ ~(V.ps[ai] = "T" /\ tb = "none")
           /\ AcceptsAt(C.args[ai], Expected)
           /\ ai' = ai + 1 /\ UNCHANGED <<cid, oi, vi, ji, tb, out, trail>>
ArgFail == /\ out = "run" /\ ai \in 1..N /\ ~(V.ps[ai] = "T" /\ tb = "none")
           /\ ~AcceptsAt(C.args[ai], Expected)
           /\ Abandon("arg")

Resolved == IF V.ret = "T" THEN tb ELSE V.ret
ResultOk ==
    /\ out = "run" /\ ai = N + 1
    /\ Cond(Resolved, Mode)
    /\ out' = IF HasOuter THEN "ipick" ELSE "pick"
    /\ tb' = IF Resolved = "none" THEN Mode ELSE tb      \* T inferred from the target
    /\ UNCHANGED <<cid, oi, vi, ji, ai, trail>>
ResultFail ==
    /\ out = "run" /\ ai = N + 1
    /\ ~Cond(Resolved, Mode)
    /\ Abandon("result")

\* the inner call is resolved (its type: InnerRty); the outer variant's own result check
InnerRty == IF V.ret = "T" THEN tb ELSE V.ret
OResOf(o, rty) == IF o.ret = "T" THEN (IF o.p = "T" THEN rty ELSE "none") ELSE o.ret
OuterOk   == /\ out = "ipick" /\ Cond(OResOf(O, InnerRty), C.omode)
             /\ out' = "pick" /\ UNCHANGED <<cid, oi, vi, ji, ai, tb, trail>>
OuterFail == /\ out = "ipick" /\ ~Cond(OResOf(O, InnerRty), C.omode)
             /\ NextOuter(<<[v |-> 0, j |-> 0, at |-> "oresult", pos |-> oi, co |-> FALSE]>>)

Next == ArityOk \/ ArityFail \/ ArgBindsT \/ ArgOk \/ ArgFail \/ ResultOk \/ ResultFail \/ OuterOk \/ OuterFail
Spec == Init /\ [][Next]_vars

\* ---- properties -----------------------------------------------------------------------
\* the functions of the called set in resolution order, as pairs <<variant, index in nested set or 0>>
Pairs == {p \in (1..Len(C.vs)) \X (0..3) :
            IF C.vs[p[1]].k = "set" THEN p[2] \in 1..Len(C.vs[p[1]].vs) ELSE p[2] = 0}
Lt(p, q) == p[1] < q[1] \/ (p[1] = q[1] /\ p[2] < q[2])
LeafFn(p) == IF p[2] = 0 THEN C.vs[p[1]] ELSE C.vs[p[1]].vs[p[2]]
AccPairs(m) == {p \in Pairs : AcceptsFn(LeafFn(p), C.args, m)}
FirstAcc(m) == IF AccPairs(m) = {} THEN <<0, 0>>
               ELSE CHOOSE p \in AccPairs(m) : \A q \in AccPairs(m) : p = q \/ Lt(p, q)
\* declaratively: outer variant o accepts h(f(args)) iff the inner call resolves under o's parameter
\* type and o's result fits
OuterAcc(o) == LET p == FirstAcc(OM(o)) IN
               /\ p # <<0, 0>>
               /\ Cond(OResOf(o, ResultTy(LeafFn(p), C.args, OM(o))), C.omode)

FirstMatch ==
    /\ (~HasOuter /\ out = "pick") =>
          /\ Accepts(Outer, C.args, C.mode)
          /\ AcceptsFn(V, C.args, C.mode)
          /\ \A j \in 1..(vi - 1) : ~Accepts(C.vs[j], C.args, C.mode)
          /\ Outer.k = "set" => \A j \in 1..(ji - 1) : ~AcceptsFn(Outer.vs[j], C.args, C.mode)
    /\ (~HasOuter /\ out = "reject") => \A j \in 1..Len(C.vs) : ~Accepts(C.vs[j], C.args, C.mode)
    /\ (HasOuter /\ out \in {"ipick", "pick"}) => <<vi, ji>> = FirstAcc(OM(O))
    /\ (HasOuter /\ out = "pick") => OuterAcc(O) /\ \A k \in 1..(oi - 1) : ~OuterAcc(C.os[k])
    /\ (HasOuter /\ out = "reject") => \A k \in 1..Len(C.os) : ~OuterAcc(C.os[k])
\* functions are tried in listing order (nested sets in place), an abandoned one is never picked later;
\* outer variants are abandoned in order 1, 2, ...
Before(a, b) == a.v < b.v \/ (a.v = b.v /\ a.j # 0 /\ (b.j = 0 \/ a.j < b.j))
IsOuterEntry(e) == e.at \in {"oinner", "oresult"}
TrailInOrder ==
    /\ ~HasOuter => /\ \A k \in 1..(Len(trail) - 1) : Before(trail[k], trail[k + 1])
                    /\ out = "pick" => \A k \in 1..Len(trail) : Before(trail[k], [v |-> vi, j |-> ji])
    /\ LET oe == SelectSeq(trail, IsOuterEntry) IN
       /\ \A k \in 1..Len(oe) : oe[k].pos = k
       /\ out = "pick" /\ HasOuter => Len(oe) = oi - 1
\* resolution is deterministic: exactly one step is possible until the outcome is known
Deterministic ==
    /\ out = "run" =>
        Cardinality({a \in {"ArityOk", "ArityFail", "ArgBindsT", "ArgOk", "ArgFail", "ResultOk", "ResultFail"} :
            CASE a = "ArityOk" -> ENABLED ArityOk [] a = "ArityFail" -> ENABLED ArityFail
              [] a = "ArgBindsT" -> ENABLED ArgBindsT [] a = "ArgOk" -> ENABLED ArgOk
              [] a = "ArgFail" -> ENABLED ArgFail [] a = "ResultOk" -> ENABLED ResultOk
              [] a = "ResultFail" -> ENABLED ResultFail}) = 1
    /\ out = "ipick" => (ENABLED OuterOk) # (ENABLED OuterFail)

AccOf(v) == IF v.k = "set" THEN [j \in 1..Len(v.vs) |-> AcceptsFn(v.vs[j], C.args, C.mode)]
            ELSE <<AcceptsFn(v, C.args, C.mode)>>
Emit == out \in {"pick", "reject"} =>
    PrintT(ToJson([id |-> C.id, pick |-> IF out = "pick" THEN vi ELSE 0,
                   ipick |-> IF out = "pick" THEN ji ELSE 0,
                   opick |-> IF out = "pick" THEN oi ELSE 0,
                   ocomp |-> [k \in 1..Len(C.os) |-> [leaf |-> FirstAcc(OM(C.os[k])), acc |-> OuterAcc(C.os[k])]],
                   rty |-> IF out = "pick" THEN (IF V.ret = "T" THEN tb ELSE V.ret) ELSE "none",
                   acc |-> [j \in 1..Len(C.vs) |-> AccOf(C.vs[j])],
                   trail |-> trail]))
=============================================================================
