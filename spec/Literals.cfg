SPECIFICATION Spec
CONSTANTS
  NL = 4
  LB = 16
  FP = 53
  NChunks = 16
INVARIANT Agreement
INVARIANT Accept
CHECK_DEADLOCK FALSE
