SPECIFICATION Spec
CONSTANTS
  MaxPoints = 4
  MaxRank = 3
INVARIANT Emit
CHECK_DEADLOCK FALSE
