SPECIFICATION Spec
CONSTANTS
  MaxPoints = 3
  MaxRank = 3
INVARIANT Emit
CHECK_DEADLOCK FALSE
