SPECIFICATION Spec
CONSTANTS
  NChunks = 16
INVARIANT ChunkDone
CHECK_DEADLOCK FALSE
