--------------------------- MODULE Collections_Trace ---------------------------
(* Validates event streams recorded from the COMPILED guppylang.std.collections code
   (Stack / PriorityQueue driver programs executed on the reference interpreter, see
   checks/C27.py) against the reference models of CollectionsAbs.

   Input (JSON, env VERIF_TRACE): a sequence of records
       [kind |-> "pq"|"stack", cap |-> N, ops |-> <<<<name, p, v>>, ...>>,
        ev |-> <<<<tag, int>>, ...>>]
   `ops` is the script the program was driven with, `ev` the observed stream:
       push  : <<"push", v>> then <<"pushed", p>>                 | <<"panic", 0>>
       pop   : <<"pop", 0>>  then <<"prio", p>>, <<"val", v>>     | <<"panic", 0>>
               (stack: only <<"val", v>>)
       peek  : <<"peek", 0>> then as pop
       len   : <<"len", n>>
       after the script: <<"end", n>>, the collection is drained by pops (same
       events as pop), discard_empty() must not panic, then <<"drained", 0>>.
   A panic ends the stream.

   The abstract state `abs` (bag / sequence) is advanced by the OBSERVED outcome, which
   must be one of the outcomes the reference model allows in that state: for the
   queue any entry of minimal priority may be popped/peeked (ties are the
   implementation's choice), the multiset is preserved because every later pop/len
   and the final drain are judged against the bag that results.
   Output: one "bad" record per rejected trace (first unmatched event, allowed
   outcomes, observed outcome) and one "accepted" record per trace consumed to its end. *)
EXTENDS CollectionsAbs, TLC, Json, IOUtils

Traces == JsonDeserialize(IOEnv.VERIF_TRACE)

VARIABLES tid, k, l, abs, st
vars == <<tid, k, l, abs, st>>

T == Traces[tid]
Ev == T.ev
Ops == T.ops
NEv == Len(Ev)
EvAt(j) == IF j <= NEv THEN Ev[j] ELSE <<"<end of stream>", 0>>
IsPQ == T.kind = "pq"

\* observed outcome of operation `op` when the event cursor is at j: <<outcome, #events>>
Malformed(j) == << <<"malformed", j, 0>>, 0 >>
Removal(tag, j) ==          \* pop/peek: announcement at j, result events behind it
    IF EvAt(j) # <<tag, 0>> THEN Malformed(j)
    ELSE IF EvAt(j + 1)[1] = "panic" THEN <<PANIC, 2>>
    ELSE IF IsPQ THEN
        IF EvAt(j + 1)[1] = "prio" /\ EvAt(j + 2)[1] = "val"
        THEN << <<tag, EvAt(j + 1)[2], EvAt(j + 2)[2]>>, 3 >> ELSE Malformed(j + 1)
    ELSE
        IF EvAt(j + 1)[1] = "val"
        THEN << <<tag, 0, EvAt(j + 1)[2]>>, 2 >> ELSE Malformed(j + 1)

Observed(op, j) ==
    CASE op[1] = "len" ->
            IF EvAt(j)[1] = "len" THEN << <<"len", EvAt(j)[2], 0>>, 1 >> ELSE Malformed(j)
      [] op[1] = "push" ->
            IF EvAt(j) # <<"push", op[3]>> THEN Malformed(j)
            ELSE IF EvAt(j + 1)[1] = "panic" THEN <<PANIC, 2>>
            ELSE IF EvAt(j + 1)[1] = "pushed"
                 THEN << <<"pushed", EvAt(j + 1)[2], op[3]>>, 2 >> ELSE Malformed(j + 1)
      [] op[1] = "pop"  -> Removal("pop", j)
      [] op[1] = "peek" -> Removal("peek", j)

Init ==
    /\ tid \in 1..Len(Traces)
    /\ k = 1
    /\ l = 1
    /\ abs = Empty(Traces[tid].kind)
    /\ st = "run"

Reject(what, allowed, got) ==
    /\ PrintT(ToJson([bad |-> tid - 1, at |-> l - 1, op |-> k - 1, what |-> what,
                      allowed |-> allowed, got |-> got]))
    /\ st' = "bad"
    /\ UNCHANGED <<tid, k, l, abs>>

Judge(op, next_st) ==       \* one operation: observed outcome must be allowed
    LET o == Observed(op, l)
        R == Allowed(T.kind, T.cap, abs, op)
        M == {r \in R : r[1] = o[1]}
    IN IF M # {}
       THEN /\ abs' = (CHOOSE r \in M : TRUE)[2]
            /\ l' = l + o[2]
            /\ st' = IF o[1] = PANIC THEN "panicked" ELSE next_st
            /\ UNCHANGED tid
       ELSE Reject("outcome not allowed by the reference model", {r[1] : r \in R}, o[1])

RunOp ==
    /\ st = "run" /\ k <= Len(Ops)
    /\ Judge(Ops[k], "run")
    /\ k' = IF st' = "bad" THEN k ELSE k + 1

EndOfScript ==
    /\ st = "run" /\ k > Len(Ops)
    /\ IF EvAt(l) = <<"end", Size(T.kind, abs)>>
       THEN /\ st' = "drain" /\ l' = l + 1 /\ UNCHANGED <<tid, k, abs>>
       ELSE Reject("final length", {<<"end", Size(T.kind, abs)>>}, EvAt(l))

Drain ==
    /\ st = "drain"
    /\ IF Size(T.kind, abs) > 0
       THEN Judge(<<"pop", 0, 0>>, "drain") /\ UNCHANGED k
       ELSE IF EvAt(l) = <<"drained", 0>> /\ l = NEv
            THEN /\ st' = "done" /\ l' = l + 1 /\ UNCHANGED <<tid, k, abs>>
            ELSE Reject("end of drain", {<<"drained", 0>>}, EvAt(l))

AfterPanic ==               \* nothing may follow a panic
    /\ st = "panicked"
    /\ IF l = NEv + 1
       THEN /\ st' = "done" /\ UNCHANGED <<tid, k, l, abs>>
       ELSE Reject("events after panic", {}, EvAt(l))

Next == RunOp \/ EndOfScript \/ Drain \/ AfterPanic
Spec == Init /\ [][Next]_vars

Accept == st = "done" => PrintT(ToJson([accepted |-> tid - 1]))
=============================================================================
