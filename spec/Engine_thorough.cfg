SPECIFICATION Spec
CONSTANTS
  Pool = {"calls_bad", "ct_good", "ct_bad", "ct_expr", "closure", "use_mono", "use_struct", "loops"}
  EntryOps = {}
  MaxLen = 3
  EmitHist = TRUE
INVARIANT NoStaleRead
INVARIANT CachesOfThisEpoch
INVARIANT CheckedAreParsed
INVARIANT OutputIndependent
INVARIANT OutcomeIndependent
INVARIANT LoweredOnlyNow
INVARIANT Emit
CHECK_DEADLOCK FALSE
