\* the universe constants are unused here (problems come from VERIF_TRACE)
SPECIFICATION Spec
CONSTANTS
  TVarNames = {}
  CVarNames = {}
  TyAtomNames = {}
  NatVals = {}
  UseTup1 = FALSE
  UseTup2 = FALSE
  UseFun = FALSE
  UseArr = FALSE
  Depth = 0
  StartDepth = 0
  MaxStart = 0
  GDepth = 0
  BruteForce = FALSE
INVARIANT StartOK
INVARIANT Report
CHECK_DEADLOCK FALSE
