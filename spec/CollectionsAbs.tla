--------------------------- MODULE CollectionsAbs ---------------------------
(* Reference models of the two collections of guppylang.std.collections (C27).

   Stack[T, N]          a sequence of entries, top = last element
   PriorityQueue[T, N]  a multiset (bag) of entries <<priority, value>>

   Every operation is given as the SET of allowed <<outcome, next state>> pairs:
   deterministic for the stack, nondeterministic for the queue (pop/peek may
   return ANY entry of minimal priority - which one among equal priorities is
   the implementation's choice).  An outcome is a triple
        <<"pushed", p, v>>  <<"pop", p, v>>  <<"peek", p, v>>  <<"len", n, 0>>
        <<"panic", 0, 0>>
   (stack entries are <<0, v>>).  After a panic nothing else happens.

   Pure operators only: used by Collections (refinement target of the
   array/heap implementation model) and by Collections_Trace (validation of
   event streams recorded from the compiled std-library code). *)
EXTENDS Integers, Sequences, FiniteSets, Bags

PANIC == <<"panic", 0, 0>>
Prio(e) == e[1]
One(e) == SetToBag({e})

\* ---- PriorityQueue: bag of <<prio, val>> --------------------------------------
MinEntries(b) ==
    {e \in BagToSet(b) : \A f \in BagToSet(b) : Prio(e) <= Prio(f)}

PQPushR(cap, b, e) ==
    IF BagCardinality(b) >= cap THEN {<<PANIC, b>>}
    ELSE {<< <<"pushed", e[1], e[2]>>, b (+) One(e) >>}

PQPopR(cap, b) ==
    IF BagCardinality(b) = 0 THEN {<<PANIC, b>>}
    ELSE {<< <<"pop", e[1], e[2]>>, b (-) One(e) >> : e \in MinEntries(b)}

PQPeekR(cap, b) ==
    IF BagCardinality(b) = 0 THEN {<<PANIC, b>>}
    ELSE {<< <<"peek", e[1], e[2]>>, b >> : e \in MinEntries(b)}

PQLenR(cap, b) == {<< <<"len", BagCardinality(b), 0>>, b >>}

\* ---- Stack: sequence of <<0, val>> ----------------------------------------------
StPushR(cap, s, e) ==
    IF Len(s) >= cap THEN {<<PANIC, s>>}
    ELSE {<< <<"pushed", e[1], e[2]>>, Append(s, e) >>}

StPopR(cap, s) ==
    IF Len(s) = 0 THEN {<<PANIC, s>>}
    ELSE {<< <<"pop", s[Len(s)][1], s[Len(s)][2]>>, SubSeq(s, 1, Len(s) - 1) >>}

StPeekR(cap, s) ==
    IF Len(s) = 0 THEN {<<PANIC, s>>}
    ELSE {<< <<"peek", s[Len(s)][1], s[Len(s)][2]>>, s >>}

StLenR(cap, s) == {<< <<"len", Len(s), 0>>, s >>}

\* ---- dispatch on the collection kind and on a script operation <<name, p, v>> ---
Empty(kind) == IF kind = "pq" THEN EmptyBag ELSE <<>>
Size(kind, a) == IF kind = "pq" THEN BagCardinality(a) ELSE Len(a)

Allowed(kind, cap, a, op) ==
    IF kind = "pq" THEN
        CASE op[1] = "push" -> PQPushR(cap, a, <<op[2], op[3]>>)
          [] op[1] = "pop"  -> PQPopR(cap, a)
          [] op[1] = "peek" -> PQPeekR(cap, a)
          [] op[1] = "len"  -> PQLenR(cap, a)
    ELSE
        CASE op[1] = "push" -> StPushR(cap, a, <<0, op[3]>>)
          [] op[1] = "pop"  -> StPopR(cap, a)
          [] op[1] = "peek" -> StPeekR(cap, a)
          [] op[1] = "len"  -> StLenR(cap, a)
=============================================================================
