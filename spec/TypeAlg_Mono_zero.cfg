SPECIFICATION Spec
CONSTANTS
  MaxSlots = 2
  Only = "zero"
INVARIANT CasesValid
INVARIANT SigsScoped
INVARIANT InferRecovers
INVARIANT InferMidTotal
INVARIANT MonoClosed
INVARIANT MonoComposes
INVARIANT InstancesFollow
INVARIANT PartialThenRest
INVARIANT HugrIdxDense
INVARIANT OpenIsHugrExpressible
INVARIANT Emit
CHECK_DEADLOCK FALSE
