SPECIFICATION Spec
CONSTANTS
  MaxLead = 12
  OptLead = 4
  PrefixCtx = 2
  Indents = {0, 13}
  Bodies <- MCBodies
  MaxLines = 3
  Bases = {0, 8}
  FillShape <- MCFill
INVARIANT InSource
INVARIANT TrimSafe
INVARIANT TrimLeavesOpt
INVARIANT TrimOnlyExcess
INVARIANT RowsAreSource
INVARIANT NumbersIncrease
INVARIANT NumbersShown
INVARIANT ElidedIffMiddle
INVARIANT MarkFollowsSrc
INVARIANT MarkersExact
INVARIANT MarkersInside
INVARIANT SpanColsInterval
INVARIANT LabelOnLastMark
INVARIANT GutterFits
INVARIANT Emit
CHECK_DEADLOCK FALSE
