SPECIFICATION Spec
INVARIANT OnlyWidens
INVARIANT Lattice
INVARIANT Emit
CHECK_DEADLOCK FALSE
