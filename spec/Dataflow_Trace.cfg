SPECIFICATION TraceSpec
CONSTANT TrackEvidence = TRUE
INVARIANT Accept
INVARIANT ReportWrong
CHECK_DEADLOCK FALSE
