SPECIFICATION Spec
CONSTANTS
  NQ = 3
INVARIANT Accept
CHECK_DEADLOCK FALSE
