SPECIFICATION Spec
CONSTANTS
  MaxLen = 4
  MaxLenNew = 3
  MaxOuter = 2
  MaxInner = 2
  Bodies = {"empty", "h", "cx_u", "arr"}
  NestedBodies = {"cx_u", "arr"}
INVARIANT Report
INVARIANT ClassesExact
INVARIANT WellTypedIffNotCrossed
INVARIANT ControlsPreserved
INVARIANT PowersPreserved
INVARIANT FixIsWellTyped
INVARIANT StaleWireExact
INVARIANT DaggerByParity
INVARIANT FlagsAgreeWithOps
INVARIANT NormalForm
CHECK_DEADLOCK FALSE
