SPECIFICATION Spec
CONSTANTS
  NF = 2
  Mods = {"A", "B"}
  BindOptions = {{}, {"int=user"}, {"float=none", "len=user"}, {"int=zero", "float=user", "len=none"}}
  Faults = {"none", "py_before", "guppy_before", "intr_before", "py_after", "guppy_after", "intr_after", "bad_return"}
  AllowNest = TRUE
  MaxCompiles = 2
  EmitHist = TRUE
INVARIANT Restored
INVARIANT StepsRestored
INVARIANT MockedInside
INVARIANT Untouched
INVARIANT OldIsInitOrMock
INVARIANT Emit
CHECK_DEADLOCK FALSE
