SPECIFICATION Spec
CONSTANTS
  MaxLen = 3
  MaxLenNew = 2
  MaxOuter = 1
  MaxInner = 2
  Bodies = {"empty", "h", "cx_u", "arr"}
  NestedBodies = {"cx_u"}
INVARIANT Report
INVARIANT ClassesExact
INVARIANT WellTypedIffNotCrossed
INVARIANT ControlsPreserved
INVARIANT PowersPreserved
INVARIANT FixIsWellTyped
INVARIANT StaleWireExact
INVARIANT DaggerByParity
INVARIANT FlagsAgreeWithOps
INVARIANT NormalForm
CHECK_DEADLOCK FALSE
