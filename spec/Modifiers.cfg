SPECIFICATION Spec
CONSTANTS
  MaxLen = 3
  MaxOuter = 1
  MaxInner = 2
  Bodies = {"empty", "h", "cx_u", "arr"}
  NestedBodies = {"cx_u", "arr"}
INVARIANT Report
INVARIANT ClassesExact
INVARIANT WellTypedIffNotCrossed
INVARIANT ControlsPreserved
INVARIANT PowersPreserved
INVARIANT FixIsWellTyped
INVARIANT DaggerByParity
INVARIANT FlagsAgreeWithOps
INVARIANT NormalForm
CHECK_DEADLOCK FALSE
