SPECIFICATION Spec
CONSTANTS
  MaxWith = 2
  MaxOuter = 1
  MaxInner = 1
  CrossConstructs = FALSE
INVARIANT Report
INVARIANT WalkAgreesWithRule
INVARIANT MonotoneInCallee
INVARIANT AntitoneInContext
INVARIANT ClassicalCallsAllowed
INVARIANT ExemptCallsAllowed
INVARIANT NoContextAcceptsAll
INVARIANT FullyUnitaryCalleeAllowed
INVARIANT OnlyDaggerRestrictsConstructs
INVARIANT PositionIrrelevantForCalls
INVARIANT DoubleDaggerCancels
INVARIANT EnclosingOnlyAdds
CHECK_DEADLOCK FALSE
