\* instance.py as written (with_seed mutates the shared simulator): TLC must refute Immutable
SPECIFICATION Spec
CONSTANTS
  Seeds = {1, 2}
  ShotVals = {1, 2}
  OffVals = {1}
  IncVals = {2}
  MaxSteps = 3
  CopyOnSeed = FALSE
  Emit = FALSE
INVARIANT Immutable
INVARIANT Reproducible
INVARIANT FunctionOfValue
PROPERTY AppendOnly
CHECK_DEADLOCK FALSE
