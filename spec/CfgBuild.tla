------------------------------ MODULE CfgBuild ------------------------------
(* The control-flow-graph builder of guppylang_internals/cfg/builder.py as a functional
   model: the same block-creation order, the same edge order, dummy (never-taken) edges for
   literal conditions, dead-code blocks after jumps, reachability and the final pruning.

   A program is a statement list (JSON, produced by harness/cfg2model.py from the Python AST
   with exactly the case analysis the builder does):
     statements  <<"S", vals>>                 simple statement (assignment, expression, nested def, pass)
                 <<"Ret", vals>>  <<"Break">>  <<"Continue">>
                 <<"If", cond, body, orelse>>  <<"While", cond, body>>
     conditions  <<"C", vals>>  opaque predicate      <<"T">> <<"F">>  literal True / False
                 <<"Not", c>>  <<"And", l, r>>  <<"Or", l, r>>  <<"IfExp", c, a, b>>
     vals        sequence of the branching sub-expressions met while building a value, in
                 the builder's visiting order:
                 <<"VIf", cond, vals_then, vals_else>>   conditional expression used as a value
                 <<"VBool", cond>>                       and/or/chained comparison used as a value
   The builder state is [n, succ, dsucc]; blocks are 1..n, entry = 1, exit = 2; 0 = "no
   current block" (the previous statement jumped).

   TLC checks the structural invariants the rest of the compiler relies on (and that C09
   uses to delimit its quantifier), and prints the graph of every program so that the
   harness can compare it block for block with what the real CFGBuilder produced.
   Serves C03, C05, C08, C09 (shape of real CFGs), C32. *)
EXTENDS Naturals, Sequences, FiniteSets, TLC, Json, IOUtils

Input == JsonDeserialize(IOEnv.VERIF_IN)
Progs == Input.progs

New(st) == [n |-> st.n + 1, succ |-> Append(st.succ, <<>>), dsucc |-> Append(st.dsucc, <<>>)]
Link(st, a, b) == [st EXCEPT !.succ[a] = Append(@, b)]
DLink(st, a, b) == [st EXCEPT !.dsucc[a] = Append(@, b)]
NewWithPreds(st, preds) ==           \* cfg.new_bb(*preds): the new block, every pred linked to it in order
    LET s1 == New(st)
        f[i \in 0..Len(preds)] == IF i = 0 THEN s1 ELSE Link(f[i - 1], preds[i], s1.n)
    IN f[Len(preds)]

RECURSIVE Branch(_, _, _, _, _)
RECURSIVE Vals(_, _, _, _)

\* build the branching sub-expressions vals[i..] of a value in block bb: <<state, final block>>
Vals(st, bb, vals, i) ==
    IF i > Len(vals) THEN <<st, bb>>
    ELSE LET v == vals[i] IN
         IF v[1] = "VIf"
         THEN LET s1 == New(st)                       \* if_bb
                  s2 == New(s1)                       \* else_bb
                  ifb == s1.n
                  elb == s2.n
                  s3 == Branch(s2, v[2], bb, ifb, elb)
                  r1 == Vals(s3, ifb, v[3], 1)
                  r2 == Vals(r1[1], elb, v[4], 1)
                  s4 == NewWithPreds(r2[1], <<r1[2], r2[2]>>)   \* merge block
              IN Vals(s4, s4.n, vals, i + 1)
         ELSE \* "VBool"
              LET s1 == New(st)
                  s2 == New(s1)
                  tb == s1.n
                  fb == s2.n
                  s3 == Branch(s2, v[2], bb, tb, fb)
                  s4 == NewWithPreds(s3, <<tb, fb>>)
              IN Vals(s4, s4.n, vals, i + 1)

\* BranchBuilder: wire condition c evaluated in block bb to true-block t / false-block f
Branch(st, c, bb, t, f) ==
    CASE c[1] = "C"   -> LET r == Vals(st, bb, c[2], 1) IN Link(Link(r[1], r[2], f), r[2], t)   \* false edge first
      [] c[1] = "T"   -> DLink(Link(st, bb, t), bb, f)
      [] c[1] = "F"   -> DLink(Link(st, bb, f), bb, t)
      [] c[1] = "Not" -> Branch(st, c[2], bb, f, t)
      [] c[1] = "And" -> LET s1 == New(st) IN Branch(Branch(s1, c[2], bb, s1.n, f), c[3], s1.n, t, f)
      [] c[1] = "Or"  -> LET s1 == New(st) IN Branch(Branch(s1, c[2], bb, t, s1.n), c[3], s1.n, t, f)
      [] c[1] = "IfExp" ->
            LET s1 == New(st)
                s2 == New(s1)
                s3 == Branch(s2, c[2], bb, s1.n, s2.n)
                s4 == Branch(s3, c[3], s1.n, t, f)
            IN Branch(s4, c[4], s2.n, t, f)

RECURSIVE Stmts(_, _, _, _, _, _)
RECURSIVE Stmt(_, _, _, _)

\* jumps = <<return block, continue block, break block>>
\* visit_stmts: <<state, current block or 0>>; prev = block in which the previous statement started
Stmts(st, ss, i, prev, cur, jumps) ==
    IF i > Len(ss) THEN <<st, cur>>
    ELSE LET s0 == IF cur = 0 THEN DLink(New(st), prev, st.n + 1) ELSE st    \* dead code: fresh block + dummy edge
             b0 == IF cur = 0 THEN st.n + 1 ELSE cur
             r == Stmt(s0, ss[i], b0, jumps)
         IN Stmts(r[1], ss, i + 1, b0, r[2], jumps)

Stmt(st, s, bb, jumps) ==
    CASE s[1] = "S"   -> Vals(st, bb, s[2], 1)
      [] s[1] = "Ret" -> LET r == Vals(st, bb, s[2], 1) IN <<Link(r[1], r[2], jumps[1]), 0>>
      [] s[1] = "Break"    -> <<Link(st, bb, jumps[3]), 0>>
      [] s[1] = "Continue" -> <<Link(st, bb, jumps[2]), 0>>
      [] s[1] = "If" ->
            LET s1 == New(st)
                s2 == New(s1)
                thn == s1.n
                els == s2.n
                s3 == Branch(s2, s[2], bb, thn, els)
                r1 == Stmts(s3, s[3], 1, thn, thn, jumps)
                r2 == Stmts(r1[1], s[4], 1, els, els, jumps)
            IN IF r1[2] = 0 THEN <<r2[1], r2[2]>>
               ELSE IF r2[2] = 0 THEN <<r2[1], r1[2]>>
               ELSE LET s4 == NewWithPreds(r2[1], <<r1[2], r2[2]>>) IN <<s4, s4.n>>
      [] s[1] = "While" ->
            LET s1 == NewWithPreds(st, <<bb>>)        \* head
                hd == s1.n
                s2 == New(s1)                         \* body
                s3 == New(s2)                         \* tail
                s4 == Branch(s3, s[2], hd, s2.n, s3.n)
                r  == Stmts(s4, s[3], 1, s2.n, s2.n, <<jumps[1], hd, s3.n>>)
                s5 == IF r[2] # 0 THEN Link(r[1], r[2], hd) ELSE r[1]
            IN <<s5, s3.n>>

\* ---- reachability and pruning (CFG.update_reachable, end of CFGBuilder.build) ----------------
ReachFrom(st, S) ==
    LET f[k \in 0..st.n] == IF k = 0 THEN S
                            ELSE LET p == f[k - 1] IN p \cup UNION {{st.succ[b][j] : j \in 1..Len(st.succ[b])} : b \in p}
    IN f[st.n]

SeqFilter(s, keep(_)) ==
    LET f[i \in 0..Len(s)] == IF i = 0 THEN <<>> ELSE IF keep(s[i]) THEN Append(f[i - 1], s[i]) ELSE f[i - 1]
    IN f[Len(s)]

Build(prog) ==
    LET st0 == [n |-> 2, succ |-> <<<<>>, <<>>>>, dsucc |-> <<<<>>, <<>>>>]
        r   == Stmts(st0, prog.body, 1, 1, 1, <<2, 0, 0>>)
        reach0 == ReachFrom(r[1], {1})                          \* before the implicit final return is linked
        st1 == IF r[2] # 0 THEN Link(r[1], r[2], 2) ELSE r[1]
        reach == IF r[2] # 0 /\ r[2] \in reach0 THEN reach0 \cup {2} ELSE reach0
        pruned == [n |-> st1.n,
                   succ  |-> [b \in 1..st1.n |-> IF b \in reach THEN st1.succ[b]
                                                 ELSE SeqFilter(st1.succ[b], LAMBDA x : x \notin reach)],
                   dsucc |-> [b \in 1..st1.n |-> SeqFilter(st1.dsucc[b], LAMBDA x : x \notin reach)]]
    IN [cfg |-> pruned, reach |-> reach, falls_off |-> (r[2] # 0 /\ r[2] \in reach0)]

---------------------------------------------------------------------------
\* which = "model": build the program with the model; which = "real": take the graph the real
\* CFGBuilder produced for the same program (Progs[p].real) - the invariants below are checked on both
VARIABLES p, which, built
vars == <<p, which, built>>
Init == p \in 1..Len(Progs) /\ which \in {"model", "real"} /\ built = <<>>
Real(prog) == [cfg |-> [n |-> prog.real.n, succ |-> prog.real.succ, dsucc |-> prog.real.dsucc],
               reach |-> {b \in 1..prog.real.n : prog.real.reach[b] = 1}, falls_off |-> FALSE]
BuildAction == /\ built = <<>>
               /\ built' = IF which = "model" THEN Build(Progs[p]) ELSE Real(Progs[p])
               /\ UNCHANGED <<p, which>>
Spec == Init /\ [][BuildAction]_vars

G == built.cfg
Blocks == 1..G.n
SuccSet(b) == {G.succ[b][j] : j \in 1..Len(G.succ[b])}
DSuccSet(b) == {G.dsucc[b][j] : j \in 1..Len(G.dsucc[b])}
Preds(b) == {q \in Blocks : b \in SuccSet(q) \cup DSuccSet(q)}
NoPredBlocks == {b \in Blocks : Preds(b) = {}}
ReachAll(S) == LET f[k \in 0..G.n] == IF k = 0 THEN S
                                      ELSE LET q == f[k - 1] IN q \cup UNION {SuccSet(b) \cup DSuccSet(b) : b \in q}
               IN f[G.n]

Done == built # <<>>
\* invariants of every CFG the builder can produce
EntryHasNoPreds     == Done => Preds(1) = {}
ExitHasNoSuccs      == Done => SuccSet(2) = {} /\ DSuccSet(2) = {}
AllFromPredless     == Done => ReachAll(NoPredBlocks) = Blocks
\* real successors only: a branching block whose arms both jump also carries a dummy edge into the dead code after it
OutDegreeAtMostTwo  == Done => \A b \in Blocks : Len(G.succ[b]) <= 2
ReachableClosed     == Done => \A b \in built.reach : SuccSet(b) \subseteq built.reach
DummyOnlyIntoDead   == Done => \A b \in Blocks : DSuccSet(b) \cap built.reach = {}
DeadNeverEntersLive == Done => \A b \in Blocks \ built.reach : SuccSet(b) \cap built.reach = {}
Holds == [EntryHasNoPreds |-> Preds(1) = {}, ExitHasNoSuccs |-> (SuccSet(2) = {} /\ DSuccSet(2) = {}),
          AllFromPredless |-> ReachAll(NoPredBlocks) = Blocks,
          OutDegreeAtMostTwo |-> (\A b \in Blocks : Len(G.succ[b]) <= 2),
          ReachableClosed |-> (\A b \in built.reach : SuccSet(b) \subseteq built.reach),
          DummyOnlyIntoDead |-> (\A b \in Blocks : DSuccSet(b) \cap built.reach = {}),
          DeadNeverEntersLive |-> (\A b \in Blocks \ built.reach : SuccSet(b) \cap built.reach = {})]
\* verdict extraction: the graph (model) or the invariant verdicts (real), one line per program
Emit == Done => IF which = "model"
                THEN PrintT(ToJson([prog |-> p, n |-> G.n, succ |-> G.succ, dsucc |-> G.dsucc,
                                    reach |-> [b \in Blocks |-> IF b \in built.reach THEN 1 ELSE 0]]))
                ELSE PrintT(ToJson([real |-> p, holds |-> Holds]))
\* the structural invariants are hard requirements on the MODEL; on real graphs they are reported
ModelInvariants == (Done /\ which = "model") => \A k \in DOMAIN Holds : Holds[k]
=============================================================================
