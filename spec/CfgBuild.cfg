SPECIFICATION Spec
INVARIANT ModelInvariants
INVARIANT Emit
CHECK_DEADLOCK FALSE
