\* thorough tier: every body of <= 3 statements, printed with its verdict
SPECIFICATION Spec
CONSTANTS
  Types = {"Q", "I", "F", "O", "AQ", "AI", "TQ", "SQ", "SA", "TA"}
  Origins = {"owned", "borrowed", "local"}
  MutOps = {"append", "extend", "insert", "pop", "popuse", "remove", "clear", "sort", "reverse", "setitem", "setalias", "delitem", "iadd", "imul1", "imul2", "reinit"}
  MaxOps = 3
  Emit = TRUE
INVARIANT LinearOnce
INVARIANT NoOwnedMutation
INVARIANT RegistryExact
INVARIANT Rejected
INVARIANT Out
CHECK_DEADLOCK FALSE
