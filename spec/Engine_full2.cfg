SPECIFICATION Spec
CONSTANTS
  Pool = {"plain", "caller", "main0", "bad_type", "calls_bad", "ct_good", "ct_bad", "ct_many", "ct_intr", "ct_exit", "ct_expr", "closure", "use_generic", "use_mono", "use_struct", "use_over", "effects", "long_names", "loops"}
  EntryOps = {"main0", "caller"}
  FirstOps = {}
  MaxLen = 2
  EmitHist = TRUE
INVARIANT NoStaleRead
INVARIANT CachesOfThisEpoch
INVARIANT CheckedAreParsed
INVARIANT OutputIndependent
INVARIANT OutcomeIndependent
INVARIANT LoweredOnlyNow
INVARIANT Emit
CHECK_DEADLOCK FALSE
