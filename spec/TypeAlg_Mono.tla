---------------------------- MODULE TypeAlg_Mono ----------------------------
(* C13(b): what a call of a generic function means, and what the compiler may
   specialise.  The program family (rendered by harness/talg_prog.py):

       foo(<slots>)            generic function; its parameters are whatever its argument
                               annotations mention, in order of first appearance
                               (checker/func_checker.py check_signature, tys/parsing.py)
       mid(<slots reversed>)   generic caller, passes everything on to foo
       main()                  concrete caller of mid

   slot kinds   <<"V", tv>>   x: T_tv                  value of a type variable
                <<"A", nv>>   xs: array[int, n_nv]     nat variable as array length
                <<"K">>       k: int @comptime         comptime const (must be monomorphised)
                <<"M">>       m: nat @comptime         comptime nat (stays a Hugr parameter)
                <<"D", tv>>   c: T_tv @comptime        comptime const of variable type
                <<"B", tv>>   b: G1[T_tv]              generic struct
                <<"G">>       t: Tag[B]                bool const parameter carried by a struct type

   main calls mid TWICE (rounds 1 and 2) with the same types but different constants, so mid
   and foo are instantiated at two different constant vectors in one compilation and each
   instance of mid must forward ITS constants to foo.

   Actions follow the compiler: the checker infers the instantiation of each call
   (expr_checker.synthesize_call: unify declared input types with the actual ones),
   CompilerContext.build_compiled_def decides per callee which arguments are
   monomorphised (partially_monomorphize_args, under the caller's current_mono_args) and
   which stay Hugr type parameters (compile_variable_idx).
   The spec then states the property: the generic program, the copy in which exactly the
   monomorphised parameters are substituted textually (rest generic) and the copy in
   which all are substituted must all produce `expected` (events), and their Hugr
   functions keep exactly `hugr` type parameters. *)
EXTENDS TypeAlg, Integers, Json

CONSTANTS MaxSlots,
          Only       \* "all" | "eq" | "zero": enumerate all cases / only the equal-arguments cases /
                     \* only the +0.0 vs -0.0 cases (see ValidCase)

TNames == <<"T0", "T1">>
NNames == <<"n0", "n1">>
XN == <<"x0", "x1", "x2", "x3">>
XSN == <<"xs0", "xs1", "xs2", "xs3">>
KN == <<"k0", "k1", "k2", "k3">>
MN == <<"m0", "m1", "m2", "m3">>
CNm == <<"c0", "c1", "c2", "c3">>
BN == <<"b0", "b1", "b2", "b3">>
GNm == <<"B0", "B1", "B2", "B3">>
TGN == <<"t0", "t1", "t2", "t3">>
Rounds == 1..2
NumTok == <<"0", "1", "2", "3", "4", "5", "6", "7", "8", "9">>     \* NumTok[n + 1]
Tok(n) == NumTok[n + 1]

SlotKinds == {<<"V", 0>>, <<"V", 1>>, <<"A", 0>>, <<"A", 1>>, <<"K">>, <<"M">>,
              <<"D", 0>>, <<"D", 1>>, <<"B", 0>>, <<"B", 1>>, <<"G">>}
UsesT(s) == s[1] \in {"V", "D", "B"}
UsesN(s) == s[1] = "A"
\* variables are numbered in order of first use
Canonical(ss) ==
    /\ \A j \in DOMAIN ss : (UsesT(ss[j]) /\ ss[j][2] = 1) => \E i \in 1..(j - 1) : UsesT(ss[i]) /\ ss[i][2] = 0
    /\ \A j \in DOMAIN ss : (UsesN(ss[j]) /\ ss[j][2] = 1) => \E i \in 1..(j - 1) : UsesN(ss[i]) /\ ss[i][2] = 0
SlotSeqs == {ss \in UNION {[1..k -> SlotKinds] : k \in 1..MaxSlots} : Canonical(ss)}

TVars(ss) == {ss[j][2] : j \in {i \in DOMAIN ss : UsesT(ss[i])}}
NVars(ss) == {ss[j][2] : j \in {i \in DOMAIN ss : UsesN(ss[i])}}
NeedsCD(ss, tv) == \E j \in DOMAIN ss : ss[j] = <<"D", tv>>

ArgsCD == {TInt, TFloat, TBool, TTup(<<TInt, TBool>>)}
ArgsL == {TFloat, TArr(TInt, NatC("2"))}
\* a case: slots, bound of each type variable, instantiation of each variable
\* (built inside-out so that TLC enumerates few rejected candidates; ValidCase states the
\* conditions again declaratively and is checked as an invariant: CasesValid)
KDCount(ss) == Cardinality({j \in DOMAIN ss : ss[j][1] \in {"K", "D"}})
SlotSeqsFor == {x \in SlotSeqs :
                   /\ (Only = "eq") => KDCount(x) >= 2
                   /\ (Only = "zero") => \E j \in DOMAIN x : x[j][1] = "D"}
BoundsFor(ss) == {f \in [TVars(ss) -> {"CD", "L"}] : \A tv \in TVars(ss) : NeedsCD(ss, tv) => f[tv] = "CD"}
TArgsFor(ss, bd, e) ==
    {f \in [TVars(ss) -> ArgsCD \cup ArgsL] :
        /\ \A tv \in TVars(ss) : f[tv] \in (IF bd[tv] = "CD" THEN ArgsCD ELSE ArgsL)
        /\ (TVars(ss) = {0, 1}) => (IF e THEN f[0] = f[1] ELSE f[0] # f[1])}
NArgsFor(ss) == {f \in [NVars(ss) -> {1, 2, 3}] :
                    \A nv \in NVars(ss) : f[nv] = (IF nv = 0 THEN 3 ELSE 1) \/ (nv = 0 /\ f[nv] = 2)}
EqFor(ss) == (IF Only = "eq" THEN {TRUE} ELSE IF Only = "zero" THEN {FALSE} ELSE BOOLEAN)
             \cap (IF KDCount(ss) >= 2 THEN BOOLEAN ELSE {FALSE})
ZeroFor(ss, ta, e) ==
    (IF Only = "zero" THEN {TRUE} ELSE IF Only = "eq" THEN {FALSE} ELSE BOOLEAN)
    \cap (IF ~e /\ \E j \in DOMAIN ss : ss[j][1] = "D" /\ ta[ss[j][2]] = TFloat THEN BOOLEAN ELSE {FALSE})
CaseIds ==
    UNION {UNION {UNION {UNION {{[slots |-> ss, bound |-> bd, targ |-> ta, narg |-> na, eq |-> e, zero |-> z]
                                  : na \in NArgsFor(ss), z \in ZeroFor(ss, ta, e)}
                                : ta \in TArgsFor(ss, bd, e)}
                         : bd \in BoundsFor(ss)}
                  : e \in EqFor(ss)}
           : ss \in SlotSeqsFor}
ValidCase(c) ==
    /\ \A tv \in TVars(c.slots) : c.targ[tv] \in (IF c.bound[tv] = "CD" THEN ArgsCD ELSE ArgsL)
    /\ \A tv \in TVars(c.slots) : NeedsCD(c.slots, tv) => c.bound[tv] = "CD"
    \* different variables get different arguments, so that a swap is visible ...
    /\ (TVars(c.slots) = {0, 1} /\ ~c.eq) => c.targ[0] # c.targ[1]
    \* ... except in the `eq` cases: there all comptime constants (and both type variables)
    \* are given EQUAL arguments - parameters are positions, not values, and a compiler
    \* that identifies monomorphised parameters by their argument goes wrong exactly here
    /\ c.eq => /\ KDCount(c.slots) >= 2
               /\ (TVars(c.slots) = {0, 1}) => c.targ[0] = c.targ[1]
    \* `zero` cases: a float @comptime constant is +0.0 in round 1 and -0.0 in round 2 - two
    \* different constants (1/x differs) that compare equal
    /\ c.zero => ~c.eq /\ \E j \in DOMAIN c.slots : c.slots[j][1] = "D" /\ c.targ[c.slots[j][2]] = TFloat
Cases == CaseIds

\* ---- signatures: check_signature ----------------------------------------------------
TBv(c, params, tv) ==        \* the bound variable for T_tv given the parameters so far
    LET k == CHOOSE j \in DOMAIN params : params[j][3] = TNames[tv + 1]
    IN BV(k - 1, TNames[tv + 1], c.bound[tv] = "CD", c.bound[tv] = "CD")
HasParam(params, name) == \E j \in DOMAIN params : params[j][3] = name
PIndex(params, name) == (CHOOSE j \in DOMAIN params : params[j][3] = name) - 1
OwnedIfLinear(t) == IF Copyable(t) THEN "" ELSE "owned"

\* parameters and inputs after parsing the annotations of `order` (a sequence of slot
\* positions) left to right; position numbers name the arguments
RECURSIVE ParseArgs(_, _, _, _)
ParseArgs(c, order, params, inputs) ==
    IF order = <<>> THEN [params |-> params, inputs |-> inputs]
    ELSE
      LET pos == Head(order)
          s == c.slots[pos]
          withT == IF UsesT(s) /\ ~HasParam(params, TNames[s[2] + 1])
                   THEN Append(params, TP(Len(params), TNames[s[2] + 1], c.bound[s[2]] = "CD", c.bound[s[2]] = "CD"))
                   ELSE params
          withN == IF UsesN(s) /\ ~HasParam(params, NNames[s[2] + 1])
                   THEN Append(params, CP(Len(params), NNames[s[2] + 1], TNat, FALSE))
                   ELSE params
      IN CASE s[1] = "V" ->
                LET t == TBv(c, withT, s[2])
                IN ParseArgs(c, Tail(order), withT, Append(inputs, <<t, OwnedIfLinear(t), XN[pos]>>))
           [] s[1] = "B" ->
                LET t == TSt("G1", <<ArgT(TBv(c, withT, s[2]))>>)
                IN ParseArgs(c, Tail(order), withT, Append(inputs, <<t, OwnedIfLinear(t), BN[pos]>>))
           [] s[1] = "A" ->
                LET t == TArr(TInt, BC(PIndex(withN, NNames[s[2] + 1]), NNames[s[2] + 1]))
                IN ParseArgs(c, Tail(order), withN, Append(inputs, <<t, "owned", XSN[pos]>>))
           [] s[1] = "K" ->
                ParseArgs(c, Tail(order), Append(params, CP(Len(params), KN[pos], TInt, TRUE)),
                          Append(inputs, <<TInt, "comptime", KN[pos]>>))
           [] s[1] = "M" ->
                ParseArgs(c, Tail(order), Append(params, CP(Len(params), MN[pos], TNat, TRUE)),
                          Append(inputs, <<TNat, "comptime", MN[pos]>>))
           [] s[1] = "D" ->
                LET t == TBv(c, withT, s[2])
                IN ParseArgs(c, Tail(order), Append(withT, CP(Len(withT), CNm[pos], t, TRUE)),
                             Append(inputs, <<t, "comptime", CNm[pos]>>))
           [] s[1] = "G" ->
                ParseArgs(c, Tail(order), Append(params, CP(Len(params), GNm[pos], TBool, FALSE)),
                          Append(inputs, <<TSt("Tag", <<ArgC(BC(Len(params), GNm[pos]))>>), "", TGN[pos]>>))

\* the returned components: every T-typed thing in slot order, then the int sum
RetOrder(c) == SeqFilter([j \in DOMAIN c.slots |-> j], [j \in DOMAIN c.slots |-> UsesT(c.slots[j])])
SigOf(c, order) ==
    LET pr == ParseArgs(c, order, <<>>, <<>>)
        comps == SeqMap(LAMBDA pos : TBv(c, pr.params, c.slots[pos][2]), RetOrder(c)) \o <<TInt>>
    IN [params |-> pr.params,
        inputs |-> pr.inputs,
        output |-> IF Len(comps) = 1 THEN TInt ELSE TTup(comps),
        cargs  |-> SeqMap(LAMBDA p : BC(p[2], p[3]),
                          SeqFilter(pr.params, [j \in DOMAIN pr.params |-> IsConstParam(pr.params[j]) /\ pr.params[j][5]]))]
FwdOrder(c) == [j \in DOMAIN c.slots |-> j]
RevOrder(c) == [j \in DOMAIN c.slots |-> Len(c.slots) + 1 - j]
FooSig(c) == SigOf(c, FwdOrder(c))
MidSig(c) == SigOf(c, RevOrder(c))

\* ---- the concrete arguments main passes in round r -------------------------------------
\* values are tagged: <<"int", n>> <<"half", n>> (= n/2) <<"negzero">> (= -0.0) <<"bool", b>>
\* <<"tup", <<v..>>>> <<"arr", <<v..>>>> <<"box", v>> <<"tag", b>>; position- and round-
\* dependent so that swapped arguments or a mixed-up instance show
ValOf(t, pos, r) ==
    CASE t[1] = "int" -> <<"int", 10 + pos + 100 * (r - 1)>>
      [] t[1] = "float" -> <<"half", 2 * pos + 1 + 20 * (r - 1)>>
      [] t[1] = "bool" -> <<"bool", (pos + r) % 2 = 1>>
      [] t[1] = "tup" -> <<"tup", << <<"int", 20 + pos + 100 * (r - 1)>>, <<"bool", (pos + r) % 2 = 0>> >> >>
      [] t[1] = "arr" -> <<"arr", << <<"int", 30 + pos + 100 * (r - 1)>>, <<"int", 40 + pos + 100 * (r - 1)>> >> >>
KVal(c, pos, r) == (IF c.eq \/ pos % 2 = 1 THEN 7 ELSE 0 - 3) + 10 * (r - 1)
MVal(pos, r) == 4 + pos + 10 * (r - 1)
GVal(c, pos, r) == IF c.eq THEN r % 2 = 1 ELSE (pos + r) % 2 = 0
ArrVals(c, pos, r) == [e \in 1..c.narg[c.slots[pos][2]] |-> <<"int", 100 * pos + e + 1000 * (r - 1)>>]
DVal(c, pos, r) ==
    LET t == c.targ[c.slots[pos][2]] IN
    IF c.zero /\ t = TFloat THEN (IF r = 1 THEN <<"half", 0>> ELSE <<"negzero">>)
    ELSE ValOf(t, IF c.eq THEN 0 ELSE pos, r)
ActualVal(c, pos, r) ==
    LET s == c.slots[pos] IN
    CASE s[1] = "V" -> ValOf(c.targ[s[2]], pos, r)
      [] s[1] = "D" -> DVal(c, pos, r)
      [] s[1] = "B" -> <<"box", ValOf(c.targ[s[2]], pos, r)>>
      [] s[1] = "A" -> <<"arr", ArrVals(c, pos, r)>>
      [] s[1] = "K" -> <<"int", KVal(c, pos, r)>>
      [] s[1] = "M" -> <<"nat", MVal(pos, r)>>
      [] s[1] = "G" -> <<"tag", GVal(c, pos, r)>>
ActualType(c, pos, r) ==
    LET s == c.slots[pos] IN
    CASE s[1] \in {"V", "D"} -> c.targ[s[2]]
      [] s[1] = "B" -> TSt("G1", <<ArgT(c.targ[s[2]])>>)
      [] s[1] = "A" -> TArr(TInt, CVal(TNat, <<"val", <<"nat", c.narg[s[2]]>> >>))
      [] s[1] = "K" -> TInt
      [] s[1] = "M" -> TNat
      [] s[1] = "G" -> TSt("Tag", <<ArgC(CVal(TBool, <<"val", <<"bool", GVal(c, pos, r)>> >>))>>)
\* the constant a comptime argument denotes in main (ConstValue(ty, v))
ActualConst(c, pos, r) == CVal(ActualType(c, pos, r), <<"val", ActualVal(c, pos, r)>>)

\* ---- inference: unify declared input types with actual ones (first-order matching) ------
Fail == {<<"fail">>}
RECURSIVE MatchT(_, _)
MatchC(pat, act) == IF pat[1] = "bc" THEN {<<pat[2], ArgC(act)>>} ELSE IF pat = act THEN {} ELSE Fail
MatchT(pat, act) ==
    CASE pat[1] = "bv" -> {<<pat[2], ArgT(act)>>}
      [] pat[1] = "tup" -> IF act[1] = "tup" /\ Len(act[3]) = Len(pat[3])
                           THEN UNION {MatchT(pat[3][k], act[3][k]) : k \in DOMAIN pat[3]} ELSE Fail
      [] pat[1] = "arr" -> IF act[1] = "arr" THEN MatchT(pat[2], act[2]) \cup MatchC(pat[3], act[3]) ELSE Fail
      [] pat[1] = "st" -> IF act[1] = "st" /\ act[2] = pat[2]
                          THEN UNION {IF pat[3][k][1] = "T" THEN MatchT(pat[3][k][2], act[3][k][2])
                                      ELSE MatchC(pat[3][k][2], act[3][k][2]) : k \in DOMAIN pat[3]}
                          ELSE Fail
      [] OTHER -> IF pat = act THEN {} ELSE Fail

\* sig: callee; actT/actC: per input position the actual type / for comptime inputs the
\* actual const.  Result: the instantiation (one argument per parameter); a failure has the wrong length.
Infer(sig, actT, actC) ==
    LET comptimeIdx == SeqFilter([j \in DOMAIN sig.inputs |-> j],
                                 [j \in DOMAIN sig.inputs |-> sig.inputs[j][2] = "comptime"])
        b == UNION {MatchT(sig.inputs[j][1], actT[j]) : j \in DOMAIN sig.inputs}
             \cup UNION {MatchC(sig.cargs[k], actC[comptimeIdx[k]]) : k \in DOMAIN sig.cargs}
        ok == /\ <<"fail">> \notin b
              /\ \A k \in DOMAIN sig.params : Cardinality({x \in b : x[1] = k - 1}) = 1
    IN IF ok THEN [k \in DOMAIN sig.params |-> (CHOOSE x \in b : x[1] = k - 1)[2]]
       ELSE [k \in 1..(Len(sig.params) + 1) |-> NoArg]
InferOk(sig, inst) == Len(inst) = Len(sig.params)

\* position in `order` of slot position pos
InputPos(order, pos) == CHOOSE j \in DOMAIN order : order[j] = pos

\* ---- the machine ------------------------------------------------------------------------
VARIABLES cs,                 \* the case
          sg,                 \* [foo, mid]: the parsed signatures
          midInst,            \* per round: inferred instantiation of main's call of mid
          fooInst,            \* inferred instantiation of mid's call of foo (mid's bound variables)
          midMono, fooMono,   \* per round: partial monomorphisations chosen by the compiler
          pc
vars == <<cs, sg, midInst, fooInst, midMono, fooMono, pc>>

Init == /\ cs \in Cases /\ sg = <<>> /\ midInst = <<>> /\ fooInst = <<>>
        /\ midMono = <<>> /\ fooMono = <<>> /\ pc = "parse"

\* RawFunctionDef.parse -> check_signature for foo and mid
Parse ==
    /\ pc = "parse"
    /\ sg' = [foo |-> FooSig(cs), mid |-> MidSig(cs)]
    /\ pc' = "check_main" /\ UNCHANGED <<cs, midInst, fooInst, midMono, fooMono>>

\* type checking the two calls `mid(...)` in main: all actuals are concrete
CheckMain ==
    /\ pc = "check_main"
    /\ midInst' = [r \in Rounds |->
                     Infer(sg.mid,
                           [j \in DOMAIN cs.slots |-> ActualType(cs, RevOrder(cs)[j], r)],
                           [j \in DOMAIN cs.slots |-> ActualConst(cs, RevOrder(cs)[j], r)])]
    /\ pc' = "check_mid" /\ UNCHANGED <<cs, sg, fooInst, midMono, fooMono>>

\* type checking `foo(...)` in mid: the actuals are mid's own inputs (types with mid's bound
\* variables; comptime arguments are mid's generic parameters: GenericParamValue)
CheckMid ==
    /\ pc = "check_mid"
    /\ LET m == sg.mid
           inOfSlot(pos) == m.inputs[InputPos(RevOrder(cs), pos)]
           constOfSlot(pos) == BC(PIndex(m.params, inOfSlot(pos)[3]), inOfSlot(pos)[3])
       IN fooInst' = Infer(sg.foo,
                           [j \in DOMAIN cs.slots |-> inOfSlot(j)[1]],
                           [j \in DOMAIN cs.slots |-> IF inOfSlot(j)[2] = "comptime" THEN constOfSlot(j) ELSE <<"none">>])
    /\ pc' = "mono_mid" /\ UNCHANGED <<cs, sg, midInst, midMono, fooMono>>

\* compiling main (current_mono_args = ()): build_compiled_def(mid, midInst[r]) per call
MonoMid ==
    /\ pc = "mono_mid"
    /\ midMono' = [r \in Rounds |-> MonoArgs(sg.mid.params, midInst[r])]
    /\ pc' = "mono_foo" /\ UNCHANGED <<cs, sg, midInst, fooInst, fooMono>>

\* compiling the instance of mid for round r under current_mono_args = midMono[r]:
\* build_compiled_def(foo, fooInst) - the same type arguments mean something different in
\* each instance of mid
MonoFoo ==
    /\ pc = "mono_foo"
    /\ fooMono' = [r \in Rounds |-> MonoArgs(sg.foo.params, SeqMap(LAMBDA a : NormA(a, midMono[r]), fooInst))]
    /\ pc' = "done" /\ UNCHANGED <<cs, sg, midInst, fooInst, midMono>>

Next == Parse \/ CheckMain \/ CheckMid \/ MonoMid \/ MonoFoo
Spec == Init /\ [][Next]_vars
Done == pc = "done"

\* ---- derived: what the three program variants are and must do ----------------------------
\* foo's instantiation seen from main: close fooInst with mid's instantiation
FooFull(r) == SeqMap(LAMBDA a : InstA(a, midInst[r]), fooInst)
IsOpen(a) == a = NoArg
ClosedArg(a) == IF a[1] = "T" THEN BoundIdxT(a[2]) = {} ELSE a[2][1] # "bc"

\* hand-specialised signature: substitute, then fix ownership annotations (a copyable
\* type cannot be @owned) - the textual copy a programmer would write
FixFlags(sig) ==
    [sig EXCEPT !.inputs = SeqMap(LAMBDA x : <<x[1], IF x[2] = "comptime" THEN x[2] ELSE OwnedIfLinear(x[1]), x[3]>>, sig.inputs)]
Special(sig, args) == FixFlags(InstPartial(sig, args))
SubstOf(sig, args) ==       \* parameter name -> argument, for the body text
    SeqFilter([k \in DOMAIN sig.params |-> <<sig.params[k][3], args[k]>>],
              [k \in DOMAIN sig.params |-> args[k] # NoArg])

\* expected events of round r
SumInts(vs) == LET RECURSIVE S(_) S(k) == IF k = 0 THEN 0 ELSE vs[k][2] + S(k - 1) IN S(Len(vs))
RECURSIVE SumOver(_, _, _)
SumOver(c, pos, r) ==
    IF pos = 0 THEN 0
    ELSE SumOver(c, pos - 1, r) +
         (CASE c.slots[pos][1] = "A" -> SumInts(ArrVals(c, pos, r))
            [] c.slots[pos][1] = "K" -> KVal(c, pos, r)
            [] OTHER -> 0)
Expected(c, r) ==
    LET foo == sg.foo
        consts == SeqFlatten([pos \in DOMAIN c.slots |->
                      CASE c.slots[pos][1] = "K" -> << <<KN[pos], <<"int", KVal(c, pos, r)>> >> >>
                        [] c.slots[pos][1] = "M" -> << <<MN[pos], <<"nat", MVal(pos, r)>> >> >>
                        [] c.slots[pos][1] = "G" -> << <<GNm[pos], <<"bool", GVal(c, pos, r)>> >> >>
                        [] OTHER -> <<>>])
        nats == SeqFlatten([k \in DOMAIN foo.params |->
                      IF foo.params[k][3] \in Range(NNames)
                      THEN << <<foo.params[k][3],
                                <<"nat", c.narg[CHOOSE nv \in NVars(c.slots) : NNames[nv + 1] = foo.params[k][3]]>> >> >>
                      ELSE <<>>])
        rets == SeqMap(LAMBDA pos : <<"r", IF c.slots[pos][1] = "B" THEN ActualVal(c, pos, r)[2] ELSE ActualVal(c, pos, r)>>,
                       RetOrder(c))
    IN consts \o nats \o rets \o << <<"r", <<"int", SumOver(c, Len(c.slots), r)>> >> >>

\* ---- properties ---------------------------------------------------------------------------
CasesValid == ValidCase(cs)
SigsScoped == pc # "parse" => ScopedSig(sg.foo) /\ ScopedSig(sg.mid)
\* inference finds an instantiation, and it is the one the case was built from
InferRecovers ==
    (pc \notin {"parse", "check_main"}) => \A r \in Rounds :
        /\ InferOk(sg.mid, midInst[r])
        /\ \A k \in DOMAIN midInst[r] :
              LET p == sg.mid.params[k] IN
              /\ ArgFits(p, midInst[r][k])
              /\ (p[3] \in Range(TNames)) =>
                    midInst[r][k] = ArgT(cs.targ[CHOOSE tv \in TVars(cs.slots) : TNames[tv + 1] = p[3]])
InferMidTotal == (pc \in {"mono_mid", "mono_foo", "done"}) => InferOk(sg.foo, fooInst)
\* "Mono-arguments should not refer to any bound variables" (assert in the code)
MonoClosed == Done => \A r \in Rounds :
                      /\ \A k \in DOMAIN midMono[r] : IsOpen(midMono[r][k]) \/ ClosedArg(midMono[r][k])
                      /\ \A k \in DOMAIN fooMono[r] : IsOpen(fooMono[r][k]) \/ ClosedArg(fooMono[r][k])
\* deciding foo's monomorphisation inside generic mid agrees with deciding it for the
\* closed instantiation: same positions, same values - per instance of mid
MonoComposes ==
    Done => \A r \in Rounds :
            LET direct == MonoArgs(sg.foo.params, FooFull(r))
            IN \A k \in DOMAIN fooMono[r] : fooMono[r][k] = direct[k]
\* two instances of mid that differ in a monomorphised constant call different instances of foo
InstancesFollow ==
    Done => \A k \in DOMAIN fooMono[1] :
               (fooMono[1][k] # NoArg /\ FooFull(1)[k] # FooFull(2)[k]) => fooMono[1][k] # fooMono[2][k]
\* specialising the monomorphised parameters first and the rest afterwards is the same as
\* specialising everything at once
PartialThenRest ==
    Done => \A r \in Rounds :
            InstPartial(InstPartial(sg.foo, fooMono[r]), RemArgs(FooFull(r), fooMono[r]))
            = InstPartial(sg.foo, FooFull(r))
\* Hugr indices of the open parameters are dense and order preserving
HugrIdxDense ==
    Done => \A r \in Rounds :
            LET open == {k \in DOMAIN fooMono[r] : fooMono[r][k] = NoArg}
            IN \A k \in open : HugrIdx(k - 1, fooMono[r]) = Cardinality({j \in open : j < k})
\* whatever stays open can be expressed in Hugr: type parameters and nat parameters only
OpenIsHugrExpressible ==
    Done => \A r \in Rounds : \A k \in DOMAIN fooMono[r] : fooMono[r][k] = NoArg =>
               LET p == InstBounds(sg.foo.params[k], FooFull(r)) IN IsTypeParam(p) \/ p[4] = TNat

RoundRec(r) ==
    [actuals |-> [j \in DOMAIN cs.slots |-> ActualVal(cs, j, r)],
     foo |-> [mono |-> fooMono[r], full |-> FooFull(r),
              partial |-> Special(sg.foo, fooMono[r]), closed |-> Special(sg.foo, FooFull(r)),
              psubst |-> SubstOf(sg.foo, fooMono[r]), csubst |-> SubstOf(sg.foo, FooFull(r)),
              hugr |-> HugrParams(sg.foo.params, fooMono[r])],
     mid |-> [mono |-> midMono[r], full |-> midInst[r],
              partial |-> Special(sg.mid, midMono[r]), closed |-> Special(sg.mid, midInst[r]),
              psubst |-> SubstOf(sg.mid, midMono[r]), csubst |-> SubstOf(sg.mid, midInst[r]),
              hugr |-> HugrParams(sg.mid.params, midMono[r])],
     expected |-> Expected(cs, r)]
Emit ==
    Done =>
      PrintT(ToJson([
        id |-> [slots |-> cs.slots, eq |-> cs.eq, zero |-> cs.zero, bound |-> [tv \in TVars(cs.slots) |-> cs.bound[tv]],
                targ |-> [tv \in TVars(cs.slots) |-> cs.targ[tv]], narg |-> [nv \in NVars(cs.slots) |-> cs.narg[nv]]],
        gen |-> [foo |-> sg.foo, mid |-> sg.mid],
        boxes |-> [tv \in TVars(cs.slots) |-> InstT(GStruct("G1").fields[1], <<ArgT(cs.targ[tv])>>)],
        rounds |-> [r \in Rounds |-> RoundRec(r)]]))
=============================================================================
