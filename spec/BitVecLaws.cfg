SPECIFICATION Spec
CONSTANTS
  NL = 2
  LB = 4
  FP = 4
  ExpsN = {2}
INVARIANT RingOps
INVARIANT TwosComplement
INVARIANT Bitwise
INVARIANT Shifts
INVARIANT ShiftCounts
INVARIANT Compare
INVARIANT DivModSigned
INVARIANT DivModUnsigned
INVARIANT DivModMixed
INVARIANT Power
INVARIANT Ranges
CHECK_DEADLOCK FALSE
