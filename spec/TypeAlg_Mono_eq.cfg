SPECIFICATION Spec
CONSTANTS
  MaxSlots = 3
  OnlyEq = TRUE
INVARIANT SigsScoped
INVARIANT InferRecovers
INVARIANT InferMidTotal
INVARIANT MonoClosed
INVARIANT MonoComposes
INVARIANT PartialThenRest
INVARIANT HugrIdxDense
INVARIANT OpenIsHugrExpressible
INVARIANT Emit
CHECK_DEADLOCK FALSE
