SPECIFICATION Spec
CONSTANTS
  NegLo = 4
  Hi = 4
  NegStepLo = 3
  StepHi = 3
  Width = 0
  Static = TRUE
  MaxStatic = 6
  Record = FALSE
INVARIANT PrefixOK
INVARIANT DoneOK
INVARIANT SizeOK
INVARIANT RangeLaw
INVARIANT ShiftLaw
INVARIANT ScaleLaw
CHECK_DEADLOCK FALSE
