SPECIFICATION Spec
CONSTANTS
  Files = {"A", "B"}
  MaxLine = 3
  MaxCol = 3
  NChunks = 16
INVARIANT Accept
CHECK_DEADLOCK FALSE
