SPECIFICATION TraceSpec
INVARIANT Verdict
INVARIANT TypeOK
PROPERTY NothingAfterPanic
PROPERTY OutputMonotone
CHECK_DEADLOCK FALSE
