\* thorough only: larger universe (two type variables, a const variable, tuples, functions with
\* flags, arrays), algorithm against the closure oracle; no brute force, no emission
SPECIFICATION Spec
CONSTANTS
  TVarNames = {"a", "b"}
  CVarNames = {"n"}
  TyAtomNames = {"int", "qubit"}
  NatVals = {0}
  UseTup1 = TRUE
  UseTup2 = TRUE
  UseFun = TRUE
  UseArr = TRUE
  Depth = 1
  StartDepth = 1
  MaxStart = 1
  GDepth = 0
  BruteForce = FALSE
INVARIANT Deterministic
INVARIANT SubInv
INVARIANT AgreeClosure
INVARIANT ResultUnifies
CHECK_DEADLOCK FALSE
