---------------------------- MODULE TypeAlg_Inst ----------------------------
(* C13(a): FunctionType.instantiate_partial as a state machine, one action per loop
   iteration of the code (tys/ty.py), checked against textual substitution in the
   named calculus (TypeAlg section 2) and against the composition law.

   A case is a generic signature plus two successive partial instantiations a1, a2
   (a2 addresses the parameters a1 left open).  The machine runs three jobs:
        job 1: sig  --a1-->  res[1]
        job 2: res[1] --a2--> res[2]
        job 3: sig  --(a1;a2)--> res[3]
   Signatures: every sequence of <= MaxParams parameters of the kinds
        T type parameter        N nat const parameter
        K int @comptime         M nat @comptime        D  c: T @comptime (T the nearest
                                                           type parameter to the left)
   in every order, bodies referring to every subset of the T/N/M parameters in two
   shapes (bare / nested under tuple, Option, array, Callable, generic struct).
   Arguments are closed and respect the parameter bounds (TypeAlg!ArgFits).

   Every finished case is printed (PrintT(ToJson ..)) and replayed by checks/C13.py into
   the real FunctionType.instantiate_partial. *)
EXTENDS TypeAlg, Json

CONSTANTS MaxParams,      \* 0..4
          Shapes,         \* subset of {1, 2}
          Rich,           \* BOOLEAN: larger argument sets
          WithNone,       \* BOOLEAN: None is a type argument also when ~Rich (its preserve flag)
          SecondStep      \* BOOLEAN: enumerate the second instantiation step (else a2 = nothing)

PNames == <<"P1", "P2", "P3", "P4">>
ANames == <<"a1", "a2", "a3", "a4">>
BNames == <<"b1", "b2", "b3", "b4">>
CNames == <<"c1", "c2", "c3", "c4">>

Kinds == {"T", "N", "K", "M", "D"}
NearestT(kinds, j) ==
    LET ts == {i \in 1..(j - 1) : kinds[i] = "T"}
    IN IF ts = {} THEN 0 ELSE CHOOSE i \in ts : \A i2 \in ts : i2 <= i
KindSeqs == {ks \in UNION {[1..k -> Kinds] : k \in 0..MaxParams} :
                \A j \in DOMAIN ks : ks[j] = "D" => NearestT(ks, j) # 0}

HasDep(kinds, k) == \E j \in DOMAIN kinds : kinds[j] = "D" /\ NearestT(kinds, j) = k
TCop(kinds, k) == HasDep(kinds, k) \/ k % 2 = 0
TDrop(kinds, k) == HasDep(kinds, k) \/ k % 3 # 1
BVOf(kinds, k) == BV(k - 1, PNames[k], TCop(kinds, k), TDrop(kinds, k))

ParamOf(kinds, k) ==
    CASE kinds[k] = "T" -> TP(k - 1, PNames[k], TCop(kinds, k), TDrop(kinds, k))
      [] kinds[k] = "N" -> CP(k - 1, PNames[k], TNat, FALSE)
      [] kinds[k] = "K" -> CP(k - 1, PNames[k], TInt, TRUE)
      [] kinds[k] = "M" -> CP(k - 1, PNames[k], TNat, TRUE)
      [] kinds[k] = "D" -> CP(k - 1, PNames[k], BVOf(kinds, NearestT(kinds, k)), TRUE)

Referable(kinds) == {k \in DOMAIN kinds : kinds[k] \in {"T", "N", "M"}}

InputsOf(kinds, S, shape, k) ==
    LET tsInS == {i \in S : kinds[i] = "T"}
        firstT == IF tsInS = {} THEN TInt
                  ELSE BVOf(kinds, CHOOSE i \in tsInS : \A i2 \in tsInS : i <= i2)
        own == IF kinds[k] \in {"K", "M", "D"}
               THEN << <<ParamOf(kinds, k)[4], "comptime", CNames[k]>> >> ELSE <<>>
        ref ==
          IF k \notin S THEN <<>>
          ELSE IF kinds[k] = "T" THEN
                 IF shape = 1 THEN << <<BVOf(kinds, k), "", ANames[k]>> >>
                 ELSE << <<TTup(<<BVOf(kinds, k), TOpt(BVOf(kinds, k))>>), "", ANames[k]>>,
                         <<TFn(<<BVOf(kinds, k)>>, BVOf(kinds, k)), "", BNames[k]>> >>
          ELSE \* N or M: a const parameter used as an array length
                 IF shape = 1 THEN << <<TArr(TInt, BC(k - 1, PNames[k])), "owned", ANames[k]>> >>
                 ELSE << <<TArr(firstT, BC(k - 1, PNames[k])), "owned", ANames[k]>>,
                         <<TSt("GN", <<ArgT(TBool), ArgC(BC(k - 1, PNames[k]))>>), "inout", BNames[k]>> >>
    IN own \o ref

MkSig(kinds, S, shape) ==
    LET n == Len(kinds)
        tsInS == {i \in S : kinds[i] = "T"}
        csInS == {i \in S : kinds[i] \in {"N", "M"}}
        outT == IF tsInS = {} THEN TInt
                ELSE BVOf(kinds, CHOOSE i \in tsInS : \A i2 \in tsInS : i <= i2)
        outC == IF csInS = {} THEN TNone
                ELSE LET j == CHOOSE i \in csInS : \A i2 \in csInS : i2 <= i
                     IN TArr(TFloat, BC(j - 1, PNames[j]))
    IN [params |-> [k \in 1..n |-> ParamOf(kinds, k)],
        inputs |-> SeqFlatten([k \in 1..n |-> InputsOf(kinds, S, shape, k)]),
        output |-> IF shape = 1 THEN (IF tsInS = {} THEN outC ELSE outT) ELSE TTup(<<outT, outC>>),
        cargs  |-> SeqFlatten([k \in 1..n |-> IF kinds[k] \in {"K", "M", "D"}
                                              THEN <<BC(k - 1, PNames[k])>> ELSE <<>>])]

ValidSigIds == {id \in UNION {{<<ks, S, sh>> : S \in SUBSET Referable(ks), sh \in Shapes} : ks \in KindSeqs} : TRUE}

\* ---- arguments -------------------------------------------------------------------
Unmark(t) == IF t[1] = "tup" THEN <<"tup", FALSE, t[3]>> ELSE IF t[1] = "none" THEN TNone ELSE t
Tok(t) == CASE t[1] = "int" -> "5" [] t[1] = "tup" -> "(1, True)" [] t[1] = "none" -> "None"
            [] t[1] = "nat" -> "3" [] OTHER -> "?"
TArgs == IF Rich THEN {TInt, TTup(<<TInt, TBool>>), TNone, TArr(TFloat, NatC("2"))}
         ELSE {TInt, TTup(<<TInt, TBool>>)} \cup (IF WithNone THEN {TNone} ELSE {})
NArgs == IF Rich THEN {NatC("0"), NatC("3")} ELSE {NatC("3")}
KArgs == IF Rich THEN {CVal(TInt, "5"), CVal(TInt, "-1")} ELSE {CVal(TInt, "5")}

\* the constants a const parameter of (closed) type ty can be instantiated with
ConstOpts(ty) ==
    IF ty = TNat THEN {ArgC(c) : c \in NArgs}
    ELSE IF ty = TInt THEN {ArgC(c) : c \in KArgs}
    ELSE {ArgC(CVal(Unmark(ty), Tok(ty)))}
Options(p, pre) ==
    {NoArg} \cup
    IF IsTypeParam(p) THEN {a \in {ArgT(t) : t \in TArgs} : ArgFits(p, a)}
    ELSE IF p[4][1] = "bv"         \* c: T - only once T is known (here: in the same vector)
         THEN (IF pre[p[4][2] + 1] = NoArg THEN {} ELSE ConstOpts(pre[p[4][2] + 1][2]))
    ELSE ConstOpts(p[4])

RECURSIVE ArgVecs(_, _)
ArgVecs(params, pre) ==
    IF Len(pre) = Len(params) THEN {pre}
    ELSE UNION {ArgVecs(params, Append(pre, o)) : o \in Options(params[Len(pre) + 1], pre)}

AllNone(a) == \A k \in DOMAIN a : a[k] = NoArg

\* (selftest only, substituted for TypeAlg!WithIdx by TypeAlg_Inst_bad.cfg: the index is not
\* shifted down - the off-by-k error the property is about)
WithIdxNoShift(p, k) == p

\* ---- the machine --------------------------------------------------------------------
VARIABLES cs,      \* [id, sig] the generic signature under test
          a1, a2,  \* the two partial instantiations (chosen by Pick1 / Pick2)
          job, i, full, rem,   \* loop state of instantiate_partial
          res, pc
vars == <<cs, a1, a2, job, i, full, rem, res, pc>>

JobSig == IF job = 2 THEN res[1] ELSE cs.sig
JobArgs == IF job = 1 THEN a1 ELSE a2

Init == /\ \E id \in ValidSigIds : cs = [id |-> id, sig |-> MkSig(id[1], id[2], id[3])]
        /\ a1 = <<>> /\ a2 = <<>>
        /\ job = 1 /\ i = 1 /\ full = <<>> /\ rem = <<>> /\ res = <<>> /\ pc = "pick"

\* the caller chooses which parameters to instantiate, and with what
Pick ==
    /\ pc = "pick"
    /\ IF job = 1 THEN a1' \in ArgVecs(cs.sig.params, <<>>) /\ a2' = a2
                  ELSE /\ a2' \in IF SecondStep THEN ArgVecs(res[1].params, <<>>)
                                     ELSE {[k \in DOMAIN res[1].params |-> NoArg]}
                       /\ a1' = a1
    /\ pc' = "loop" /\ UNCHANGED <<cs, job, i, full, rem, res>>

\* `if arg is None:` branch - the parameter stays, its index is shifted down
LoopKeep ==
    /\ pc = "loop" /\ i <= Len(JobSig.params) /\ JobArgs[i] = NoArg
    /\ LET st == IPKeep(JobSig.params[i], full, rem) IN full' = st.full /\ rem' = st.rem
    /\ i' = i + 1 /\ UNCHANGED <<cs, a1, a2, job, res, pc>>

\* an argument is provided
LoopInst ==
    /\ pc = "loop" /\ i <= Len(JobSig.params) /\ JobArgs[i] # NoArg
    /\ LET st == IPInst(JobArgs[i], full, rem) IN full' = st.full /\ rem' = st.rem
    /\ i' = i + 1 /\ UNCHANGED <<cs, a1, a2, job, res, pc>>

\* `inst = Instantiator(full_inst); return FunctionType(...)`
Transform ==
    /\ pc = "loop" /\ i > Len(JobSig.params)
    /\ res' = Append(res, IPTransform(JobSig, full, rem))
    /\ i' = 1 /\ full' = <<>> /\ rem' = <<>>
    /\ IF job = 1 THEN job' = 2 /\ pc' = "pick" ELSE job' = job /\ pc' = "done"
    /\ UNCHANGED <<cs, a1, a2>>

Next == Pick \/ LoopKeep \/ LoopInst \/ Transform
Spec == Init /\ [][Next]_vars

Done == pc = "done"
A12 == ComposeArgs(a1, a2)
\* ---- properties -----------------------------------------------------------------------
InputScoped == ScopedSig(cs.sig)
\* the action-shaped machine computes the operator TypeAlg!InstPartial
MachineIsOperator ==
    Done => res[1] = InstPartial(cs.sig, a1) /\ res[2] = InstPartial(res[1], a2)
\* de Bruijn instantiation = textual substitution in the named calculus
InstEqualsNamed ==
    Done => /\ res[1] = InstPartialNamed(cs.sig, a1)
            /\ res[2] = InstPartialNamed(res[1], a2)
\* instantiating in two steps = instantiating once with the composed arguments
CompositionLaw == Done => res[2] = InstPartial(cs.sig, A12)
IdentityLaw == (Done /\ AllNone(a1)) => res[1] = cs.sig
ResultScoped == Done => ScopedSig(res[1]) /\ ScopedSig(res[2])
FullIsClosed == (Done /\ \A k \in DOMAIN A12 : A12[k] # NoArg) => res[2].params = <<>>
\* the loop keeps |full| = i - 1 and |rem| = number of open positions so far
LoopShape == pc = "loop" =>
    /\ Len(full) = i - 1
    /\ Len(rem) = Cardinality({k \in 1..(i - 1) : JobArgs[k] = NoArg})

\* ---- emission for the replay ----------------------------------------------------------
\* one-step expectations are printed once per (signature, argument vector): by the case
\* whose second step instantiates nothing; two-step cases only name their vectors, the
\* expected result is the one-step entry of the composed vector (CompositionLaw).
Emit ==
    Done =>
      IF AllNone(a2)
      THEN (IF AllNone(a1)
            THEN PrintT(ToJson([kind |-> "sig", id |-> cs.id, sig |-> cs.sig, a |-> a1, r |-> res[1]]))
            ELSE PrintT(ToJson([kind |-> "one", id |-> cs.id, a |-> a1, r |-> res[1]])))
      ELSE PrintT(ToJson([kind |-> "two", id |-> cs.id, a1 |-> a1, a2 |-> a2, a12 |-> A12]))
=============================================================================
