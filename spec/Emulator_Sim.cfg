\* simulation: random histories of 6 steps (run with -simulate -depth 7)
SPECIFICATION Spec
CONSTANTS
  Seeds = {1, 2}
  ShotVals = {1, 2}
  OffVals = {1}
  IncVals = {2}
  MaxSteps = 6
  CopyOnSeed = TRUE
  Emit = TRUE
INVARIANT Immutable
INVARIANT Reproducible
INVARIANT FunctionOfValue
INVARIANT Out
CHECK_DEADLOCK FALSE
