---------------------------- MODULE TypeAlg_Class ----------------------------
(* C14: copy/drop classification.  Enumerates every type up to a nesting depth over
       int nat float bool str None qubit, four type variables (one per (copyable,
       droppable) bound), array[.,2], frozenarray[.,2], Option[.], Either[.,.], tuples, non-generic
       structs ("rec"), the generic structs of TypeAlg!GStruct and Callable types,
   classifies each with TypeAlg!Copyable/Droppable/WellFormed, checks the structural laws
   below on all of them and prints one record per type; checks/C14.py builds the same type
   from /repo (type parser, struct definitions, builtin type definitions) and compares
   .copyable/.droppable/.hugr_bound/to_hugr().type_bound(), acceptance (well-formedness)
   and - for affine types - the tket.guppy.drop operations of a compiled function that
   leaves such a value unused.

   Levels:  L1 = base types and variables
            L2 = L1 + every constructor applied to L1 (tuples up to TupW wide)
            L3 = L2 + unary constructors applied to all of L2
                    + pairs / two-field structs / Callables over Core (the unary
                      constructions over L1 and the narrow tuples)            (Depth = 3) *)
EXTENDS TypeAlg, Json

CONSTANTS Depth,      \* 2 or 3
          TupW        \* maximal tuple width over L1

VL == BV(0, "TL", FALSE, FALSE)
VC == BV(1, "TC", TRUE, FALSE)
VD == BV(2, "TD", FALSE, TRUE)
VCD == BV(3, "TCD", TRUE, TRUE)
L1 == {TInt, TNat, TFloat, TBool, TStr, TNone, TQubit, VL, VC, VD, VCD}
N2 == NatC("2")

Unary(S) ==
    {TArr(t, N2) : t \in S} \cup {TFArr(t, N2) : t \in S} \cup {TOpt(t) : t \in S}
    \cup {TSt(g, <<ArgT(t)>>) : g \in {"G1", "GQ", "GA", "GP", "GC", "GD", "GF"}, t \in S}
    \cup {TSt("GN", <<ArgT(t), ArgC(N2)>>) : t \in S}
Seqs(S, lo, hi) == UNION {[1..k -> S] : k \in lo..hi}
Tuples(S, lo, hi) == {TTup(s) : s \in Seqs(S, lo, hi)}
\* a non-generic struct cannot mention type variables (FreeTypeVarError)
Closed(S) == {x \in S : BoundIdxT(x) = {}}
Recs(S, lo, hi) == {TRec(s) : s \in Seqs(Closed(S), lo, hi)}
Fns(S) == {TFn(s, o) : s \in Seqs(S, 0, 1), o \in S}

Eithers(S, T) == {TEither(a, b) : a \in S, b \in T} \cup {TEither(b, a) : a \in S, b \in T}
\* sums with the affine (or linear) component in each variant position, also nested: these
\* are the types whose Hugr sum has the interesting row first, last, or one level down
SumParts == {TArr(TInt, N2), TOpt(TArr(TInt, N2)), TTup(<<TInt, TArr(TInt, N2)>>),
             TTup(<<TArr(TBool, N2), TInt>>), TEither(TArr(TInt, N2), TInt), TEither(TInt, TArr(TInt, N2)), VD}
SumOthers == {TInt, TNone, TArr(TBool, N2), TTup(<<TInt, TFloat>>), TQubit}
SumNest == Eithers(SumParts, SumOthers)
           \cup {TOpt(e) : e \in Eithers(SumParts, SumOthers)}
           \cup {TTup(<<TInt, e>>) : e \in Eithers(SumParts, {TInt, TNone})}
L2 == L1 \cup Unary(L1) \cup Tuples(L1, 0, TupW) \cup Recs(L1, 0, 2) \cup Fns(L1) \cup Eithers(L1, L1) \cup SumNest
Core == L1 \cup Unary(L1) \cup Tuples(L1, 1, 1) \cup Recs(L1, 1, 1)
L3 == L2 \cup Unary(L2) \cup Tuples(Core, 2, 2) \cup Recs(Core, 2, 2) \cup Fns(Core)
Types == IF Depth = 2 THEN L2 ELSE L3

VARIABLE t
Init == t \in Types
Next == UNCHANGED t
Spec == Init /\ [][Next]_t

\* ---- laws (checked on every enumerated type) ---------------------------------------------
\* tuples / Option: exactly when all elements are
TupleLaw == t[1] = "tup" =>
    /\ Copyable(t) = (\A k \in DOMAIN t[3] : Copyable(t[3][k]))
    /\ Droppable(t) = (\A k \in DOMAIN t[3] : Droppable(t[3][k]))
\* Either: exactly when both sides are
EitherLaw == t[1] = "either" =>
    /\ Copyable(t) = (Copyable(t[2]) /\ Copyable(t[3]))
    /\ Droppable(t) = (Droppable(t[2]) /\ Droppable(t[3]))
    /\ HugrRepCopyable(t) = (HugrRepCopyable(t[2]) /\ HugrRepCopyable(t[3]))
\* arrays are never copyable, droppable with their element
ArrayLaw == t[1] = "arr" => ~Copyable(t) /\ Droppable(t) = Droppable(t[2])
\* a well-formed frozenarray is both
FrozenLaw == (t[1] = "farr" /\ WellFormed(t)) => Copyable(t) /\ Droppable(t)
\* functions are both, whatever they mention
FnLaw == t[1] = "fn" => Copyable(t) /\ Droppable(t)
\* a qubit anywhere except under Callable makes the type linear
RECURSIVE HoldsQubit(_)
HoldsQubit(x) ==
    CASE x[1] = "qubit" -> TRUE
      [] x[1] = "tup" -> \E k \in DOMAIN x[3] : HoldsQubit(x[3][k])
      [] x[1] \in {"arr", "farr", "opt"} -> HoldsQubit(x[2])
      [] x[1] = "either" -> HoldsQubit(x[2]) \/ HoldsQubit(x[3])
      [] x[1] = "rec" -> \E k \in DOMAIN x[2] : HoldsQubit(x[2][k])
      [] x[1] = "st" -> x[2] = "GQ" \/ \E k \in DOMAIN x[3] : x[3][k][1] = "T" /\ HoldsQubit(x[3][k][2])
      [] OTHER -> FALSE
QubitLaw == HoldsQubit(t) => Linear(t)
\* generic struct: exactly when the instantiated fields and the type arguments are
StructLaw == t[1] = "st" =>
    LET fs == [k \in DOMAIN GStruct(t[2]).fields |-> InstT(GStruct(t[2]).fields[k], t[3])]
        targs == {t[3][k][2] : k \in {j \in DOMAIN t[3] : t[3][j][1] = "T"}}
    IN /\ Copyable(t) = ((\A k \in DOMAIN fs : Copyable(fs[k])) /\ \A a \in targs : Copyable(a))
       /\ Droppable(t) = ((\A k \in DOMAIN fs : Droppable(fs[k])) /\ \A a \in targs : Droppable(a))
\* bounds are sound: instantiating the variables with arguments that satisfy their bounds
\* never turns a copyable (droppable) type into a non-copyable (non-droppable) one
SoundInst == <<ArgT(TArr(TQubit, N2)), ArgT(TInt), ArgT(TArr(TInt, N2)), ArgT(TTup(<<TInt, TFloat>>))>>
BoundsSound ==
    /\ \A k \in 1..4 : ArgFits(<<"tp", k - 1, "x", <<VL, VC, VD, VCD>>[k][4], <<VL, VC, VD, VCD>>[k][5]>>, SoundInst[k])
    /\ WellFormed(t) =>
          /\ Copyable(t) => Copyable(InstT(t, SoundInst))
          /\ Droppable(t) => Droppable(InstT(t, SoundInst))
          /\ WellFormed(InstT(t, SoundInst))
\* the leaves that need a drop are exactly the affine leaves; a droppable value has no
\* linear leaf, a copyable value needs no drop at all
RECURSIVE AtPath(_, _)
AtPath(x, path) ==
    IF path = <<>> THEN x
    ELSE CASE x[1] = "tup" -> AtPath(x[3][Head(path) + 1], Tail(path))
           [] x[1] = "rec" -> AtPath(x[2][Head(path) + 1], Tail(path))
           [] x[1] = "st" -> AtPath(InstT(GStruct(x[2]).fields[Head(path) + 1], x[3]), Tail(path))
DropLaw ==
    (WellFormed(t) /\ Droppable(t)) =>
        LET ls == DropLeaves(t, <<>>)
        IN /\ \A k \in DOMAIN ls : Affine(AtPath(t, ls[k]))
           /\ Copyable(t) => ls = <<>>
           /\ (Affine(t) /\ ls = <<>>) => Phantoms(t) # {}
           /\ (ls # <<>>) <=> (DropWhole(t) # <<>>)
\* lowering never makes a copyable Guppy type linear in Hugr; the converse fails exactly for
\* phantom type arguments (the statement's "exactly when" is reported per type by C14.py)
HugrSafe == WellFormed(t) => (Copyable(t) => HugrRepCopyable(t))
HugrConverseOnlyPhantom ==
    (WellFormed(t) /\ HugrRepCopyable(t) /\ ~Copyable(t)) => Phantoms(t) # {}

\* some Either inside t has the part that needs a drop in its FIRST variant only
RECURSIVE SumFirst(_)
SumFirst(x) ==
    CASE x[1] = "either" -> (~HugrRepCopyable(x[2]) /\ HugrRepCopyable(x[3])) \/ SumFirst(x[2]) \/ SumFirst(x[3])
      [] x[1] = "tup" -> \E k \in DOMAIN x[3] : SumFirst(x[3][k])
      [] x[1] \in {"arr", "farr", "opt"} -> SumFirst(x[2])
      [] x[1] = "rec" -> \E k \in DOMAIN x[2] : SumFirst(x[2][k])
      [] x[1] = "st" -> \E k \in DOMAIN x[3] : x[3][k][1] = "T" /\ SumFirst(x[3][k][2])
      [] OTHER -> FALSE

Emit == PrintT(ToJson([t |-> t, wf |-> WellFormed(t), cop |-> Copyable(t), drop |-> Droppable(t),
                       hugrcop |-> HugrCopyable(t), sumfirst |-> SumFirst(t), repcop |-> HugrRepCopyable(t), phantoms |-> Phantoms(t),
                       leaves |-> IF WellFormed(t) /\ Affine(t) THEN DropLeaves(t, <<>>) ELSE <<>>,
                       whole |-> IF WellFormed(t) /\ Affine(t) THEN DropWhole(t) ELSE <<>>]))
=============================================================================
