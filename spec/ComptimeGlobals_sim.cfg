SPECIFICATION Spec
CONSTANTS
  NF = 3
  Mods = {"A", "B"}
  BindOptions = {{}, {"int"}, {"float"}, {"len"}, {"int", "float"}, {"int", "len"}, {"float", "len"}, {"int", "float", "len"}}
  Faults = {"none", "py_before", "guppy_before", "py_after", "guppy_after", "bad_return"}
  AllowNest = TRUE
  MaxCompiles = 3
  EmitHist = TRUE
INVARIANT Restored
INVARIANT StepsRestored
INVARIANT MockedInside
INVARIANT Untouched
INVARIANT OldIsInitOrMock
INVARIANT Emit
CHECK_DEADLOCK FALSE
