SPECIFICATION Spec
CONSTANTS
  NF = 3
  Mods = {"A", "B"}
  BindOptions = {{}, {"len=user"}, {"len=none"}, {"len=zero"}, {"float=user"}, {"float=user", "len=user"}, {"float=user", "len=none"}, {"float=user", "len=zero"}, {"float=none"}, {"float=none", "len=user"}, {"float=none", "len=none"}, {"float=none", "len=zero"}, {"float=zero"}, {"float=zero", "len=user"}, {"float=zero", "len=none"}, {"float=zero", "len=zero"}, {"int=user"}, {"int=user", "len=user"}, {"int=user", "len=none"}, {"int=user", "len=zero"}, {"int=user", "float=user"}, {"int=user", "float=user", "len=user"}, {"int=user", "float=user", "len=none"}, {"int=user", "float=user", "len=zero"}, {"int=user", "float=none"}, {"int=user", "float=none", "len=user"}, {"int=user", "float=none", "len=none"}, {"int=user", "float=none", "len=zero"}, {"int=user", "float=zero"}, {"int=user", "float=zero", "len=user"}, {"int=user", "float=zero", "len=none"}, {"int=user", "float=zero", "len=zero"}, {"int=none"}, {"int=none", "len=user"}, {"int=none", "len=none"}, {"int=none", "len=zero"}, {"int=none", "float=user"}, {"int=none", "float=user", "len=user"}, {"int=none", "float=user", "len=none"}, {"int=none", "float=user", "len=zero"}, {"int=none", "float=none"}, {"int=none", "float=none", "len=user"}, {"int=none", "float=none", "len=none"}, {"int=none", "float=none", "len=zero"}, {"int=none", "float=zero"}, {"int=none", "float=zero", "len=user"}, {"int=none", "float=zero", "len=none"}, {"int=none", "float=zero", "len=zero"}, {"int=zero"}, {"int=zero", "len=user"}, {"int=zero", "len=none"}, {"int=zero", "len=zero"}, {"int=zero", "float=user"}, {"int=zero", "float=user", "len=user"}, {"int=zero", "float=user", "len=none"}, {"int=zero", "float=user", "len=zero"}, {"int=zero", "float=none"}, {"int=zero", "float=none", "len=user"}, {"int=zero", "float=none", "len=none"}, {"int=zero", "float=none", "len=zero"}, {"int=zero", "float=zero"}, {"int=zero", "float=zero", "len=user"}, {"int=zero", "float=zero", "len=none"}, {"int=zero", "float=zero", "len=zero"}}
  Faults = {"none", "py_before", "guppy_before", "intr_before", "py_after", "guppy_after", "intr_after", "bad_return"}
  AllowNest = TRUE
  MaxCompiles = 3
  EmitHist = TRUE
INVARIANT Restored
INVARIANT StepsRestored
INVARIANT MockedInside
INVARIANT Untouched
INVARIANT OldIsInitOrMock
INVARIANT Emit
CHECK_DEADLOCK FALSE
