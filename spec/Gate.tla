-------------------------------- MODULE Gate --------------------------------
(* The experimental-feature gate of guppylang_internals/experimental.py (C33).

   Code mirrored (one action per critical step of the code):
     EXPERIMENTAL_FEATURES_ENABLED            -> flag      (process global, initially FALSE)
     enable_/disable_experimental_features
        .__init__   : self.original = flag ; flag = (kind = "enable")   -> Construct(kind)
        .__enter__  : pass
        .__exit__   : flag = self.original (returns None: exceptions propagate)
     `f()`           used as a plain call  = Construct, object dropped      -> Call(kind)
     `with f():`     (documented protocol) = Construct + push the object    -> Enter(kind)
     leaving the block normally / by an exception raised in the body        -> Exit(mode)
     check_lists_enabled / check_function_tensors_enabled /
     check_capturing_closures_enabled / check_modifiers_enabled, reached from
     `defn.check()` of a program using the feature                          -> Check(p)

   `stack` holds the live context-manager objects (their `original` field), innermost
   last.  `pre` is a ghost variable: the flag value observed just before each still
   open `with`; it states the property ("restore the previous setting on exit")
   independently of how the code implements it.  `hist` is the history with the
   expected observation after every step; complete histories (all blocks closed)
   are printed for replay against the real module (checks/C33.py).

   A history element is <<op, arg, flagAfter, outcome>> (all strings):
     <<"call",  kind, f, "">>            kind in {"enable","disable"}
     <<"enter", kind, f, "">>
     <<"exit",  mode, f, out>>           mode in {"normal","exc"}; out = "propagated"
                                         for "exc" (the exception leaves the block), "" else
     <<"check", prog, f, verdict>>       verdict = "acc" or "<error title>: <things>"      *)
EXTENDS Naturals, Sequences, FiniteSets, TLC, Json

CONSTANTS MaxLen,        \* history length bound (closing exits beyond it are free)
          MaxDepth,      \* nesting bound of with-blocks
          MaxChecks,     \* bound on Check steps per history
          Programs,      \* names of the probe programs used by Check
          FirstOps,      \* labels "<op>:<arg>" allowed as first step (sharding of the enumeration)
          EmitHist       \* TRUE: print complete histories (for replay)

\* ---- the gated features ------------------------------------------------------------
\* probe program -> the feature it uses ("none": control program without gated features)
ProgFeature ==
    [list_lit  |-> "Lists",  list_comp |-> "Lists", list_type |-> "Lists",
     tensor    |-> "Function tensors",  tensor_syn |-> "Function tensors",
     closure   |-> "Capturing closures",
     modifier  |-> "Modifiers",
     plain     |-> "none"]

Features == {"Lists", "Function tensors", "Capturing closures", "Modifiers"}

\* rendered title of the rejection: capturing closures are reported as `Unsupported`,
\* the other three as `Experimental feature` (experimental.py check_*_enabled)
Title(ft) == IF ft = "Capturing closures" THEN "Unsupported" ELSE "Experimental feature"

Verdict(p, fl) ==
    LET ft == ProgFeature[p] IN
    IF ft = "none" \/ fl THEN "acc" ELSE Title(ft) \o ": " \o ft

B2S(b) == IF b THEN "T" ELSE "F"

VARIABLES flag, stack, pre, hist, nchecks
vars == <<flag, stack, pre, hist, nchecks>>

Kinds == {"enable", "disable"}
Modes == {"normal", "exc"}

TypeOK ==
    /\ flag \in BOOLEAN
    /\ stack \in Seq([kind : Kinds, original : BOOLEAN])
    /\ pre \in Seq(BOOLEAN)
    /\ Len(stack) <= MaxDepth
    /\ nchecks \in 0..MaxChecks

Init ==
    /\ flag = FALSE          \* module-level default
    /\ stack = <<>>
    /\ pre = <<>>
    /\ hist = <<>>
    /\ nchecks = 0

Open == Len(hist) < MaxLen
\* sharding: the first step of a history must carry one of the labels in FirstOps
Allowed(op, arg) == hist # <<>> \/ (op \o ":" \o arg) \in FirstOps
AllFirstOps == {"call:enable", "call:disable", "enter:enable", "enter:disable"}
               \cup {"check:" \o p : p \in Programs}

\* __init__ of either class: remember the current value, then set the flag
NewFlag(kind) == kind = "enable"
NewObject(kind) == [kind |-> kind, original |-> flag]

Call(kind) ==
    /\ Open /\ Allowed("call", kind)
    /\ flag' = NewFlag(kind)
    /\ hist' = Append(hist, <<"call", kind, B2S(flag'), "">>)
    /\ UNCHANGED <<stack, pre, nchecks>>

Enter(kind) ==
    /\ Open /\ Allowed("enter", kind)
    /\ Len(stack) < MaxDepth
    /\ stack' = Append(stack, NewObject(kind))
    /\ pre' = Append(pre, flag)
    /\ flag' = NewFlag(kind)
    /\ hist' = Append(hist, <<"enter", kind, B2S(flag'), "">>)
    /\ UNCHANGED nchecks

\* __exit__ of the innermost live object; with mode "exc" the body raised and the
\* exception continues to propagate after __exit__ (it returns None)
Exit(mode) ==
    /\ Len(stack) > 0
    /\ flag' = stack[Len(stack)].original
    /\ stack' = SubSeq(stack, 1, Len(stack) - 1)
    /\ pre' = SubSeq(pre, 1, Len(pre) - 1)
    /\ hist' = Append(hist, <<"exit", mode, B2S(flag'),
                              IF mode = "exc" THEN "propagated" ELSE "">>)
    /\ UNCHANGED nchecks

Check(p) ==
    /\ Open /\ Allowed("check", p)
    /\ nchecks < MaxChecks
    /\ nchecks' = nchecks + 1
    /\ hist' = Append(hist, <<"check", p, B2S(flag), Verdict(p, flag)>>)
    /\ UNCHANGED <<flag, stack, pre>>

Next ==
    \/ \E k \in Kinds : Call(k) \/ Enter(k)
    \/ \E m \in Modes : Exit(m)
    \/ \E p \in Programs : Check(p)

Spec == Init /\ [][Next]_vars

\* ---- properties --------------------------------------------------------------------
IsExit == Len(stack') = Len(stack) - 1
IsCheck == nchecks' = nchecks + 1

\* "The enable and disable context managers restore the previous setting on exit,
\*  including nested and exceptional exits."
Restoration == [][IsExit => flag' = pre[Len(pre)]]_vars

\* the implementation's saved values are the previous settings (links stack to pre)
SavedIsPrevious ==
    /\ Len(stack) = Len(pre)
    /\ \A i \in 1..Len(stack) : stack[i].original = pre[i]

\* a check never touches the gate
CheckIsPure == [][IsCheck => UNCHANGED <<flag, stack>>]_vars

\* "rejected with an experimental-feature error unless experimental features are
\*  enabled when the program is checked"
GateLaw ==
    \A i \in 1..Len(hist) :
        hist[i][1] = "check" =>
            LET p == hist[i][2] IN
            (hist[i][4] = "acc") <=> (ProgFeature[p] = "none" \/ hist[i][3] = "T")

\* inside `with enable..():` right after entry the gate is open, inside `with disable..():` closed
EntrySets ==
    \A i \in 1..Len(hist) :
        hist[i][1] \in {"enter", "call"} => (hist[i][3] = "T") <=> (hist[i][2] = "enable")

\* ---- emission of complete histories for replay --------------------------------------
Complete == Len(hist) >= MaxLen /\ stack = <<>>
Emit == (EmitHist /\ Complete) => PrintT(ToJson(hist))
=============================================================================
