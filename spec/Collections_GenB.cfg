SPECIFICATION GenSpec
CONSTANTS
  Kinds = {"pq", "stack"}
  Caps = {1, 2, 3, 4}
  Prios = {0, 1, 2}
  Vals = {0, 1}
  UniqueVals = TRUE
  MaxOps = 6
  Record = TRUE
CHECK_DEADLOCK FALSE
