------------------------------- MODULE Coerce -------------------------------
(* C16: implicit numeric coercions only widen.

   Mirrors checker/expr_checker.py: check_type_against(act, exp) accepts when the types
   unify (here: are equal) and otherwise calls try_coerce_to, which inserts a call of the
   conversion method __int__ / __float__ of `act` iff both types are numeric and
   act.kind < exp.kind in  nat < int < float;  bool takes no part.
   State: one coercion site (pos, act, exp).  Actions: Unify, TryCoerce (the two steps of
   check_type_against).  The verdict of every site is printed for the harness, which
   compiles a program per site with /repo's compiler and compares (spec -> code); accepted
   sites are then run and their values validated by NumOps_Trace (ops co_int / co_float
   and the binary operators).

   Positions: where an expression of type act meets an expected type exp
     assign (annotated assignment), ret, arg, tuple (element of an annotated tuple),
     array (later element of array(...) whose first element has type exp), array_ann,
     reassign, aug (x: exp; x += a; x used at exp), meth_<op> (argument of an explicit dunder call on
     a receiver of type exp); literal sites lit_int, lit_negint, lit_float, lit_bool
     (act = type the literal gets from python_value_to_guppy_type under hint exp).          *)
EXTENDS Integers, Sequences, TLC, Json

Types == {"nat", "int", "float", "bool"}
Num   == {"nat", "int", "float"}
Rank(t) == CASE t = "nat" -> 1 [] t = "int" -> 2 [] t = "float" -> 3 [] OTHER -> 0
Leq(t, u) == t = u \/ (t \in Num /\ u \in Num /\ Rank(t) <= Rank(u))
Join(t, u) == IF Rank(t) >= Rank(u) THEN t ELSE u

ValuePos == {"assign", "ret", "arg", "tuple", "array", "array_ann", "reassign"}
MethOps  == {"add", "sub", "mul", "truediv", "floordiv", "mod", "pow", "lt", "eq", "ge"}
MethPos  == {"meth_" \o m : m \in MethOps} \cup {"aug"}
LitPos   == {"lit_int", "lit_negint", "lit_float", "lit_bool"}
Pos      == ValuePos \cup MethPos \cup LitPos

\* type of a literal under the hint exp (python_value_to_guppy_type)
LitType(p, exp) ==
    CASE p = "lit_int"    -> IF exp = "nat" THEN "nat" ELSE "int"
      [] p = "lit_negint" -> "int"
      [] p = "lit_float"  -> "float"
      [] p = "lit_bool"   -> "bool"

Sites == {s \in [pos : Pos, act : Types, exp : Types] :
            /\ s.pos \in LitPos => s.act = LitType(s.pos, s.exp)
            /\ s.pos \in MethPos => s.exp \in Num}

VARIABLES site, pc, verdict, conv
vars == <<site, pc, verdict, conv>>
Init == site \in Sites /\ pc = "unify" /\ verdict = "?" /\ conv = "none"
Unify ==
    /\ pc = "unify"
    /\ IF site.act = site.exp THEN verdict' = "accept" /\ pc' = "done"
       ELSE verdict' = "?" /\ pc' = "coerce"
    /\ UNCHANGED <<site, conv>>
TryCoerce ==
    /\ pc = "coerce"
    /\ IF site.act \in Num /\ site.exp \in Num /\ Rank(site.act) < Rank(site.exp)
       THEN verdict' = "accept" /\ conv' = "__" \o site.exp \o "__"
       ELSE verdict' = "reject" /\ conv' = "none"
    /\ pc' = "done"
    /\ UNCHANGED site
Next == Unify \/ TryCoerce
Spec == Init /\ [][Next]_vars

\* ---- properties ----------------------------------------------------------------
\* the statement: accepted iff act <= exp; a conversion is inserted only upwards
OnlyWidens == pc = "done" => /\ (verdict = "accept") <=> Leq(site.act, site.exp)
                             /\ conv # "none" => Rank(site.act) < Rank(site.exp)
                             /\ (verdict = "accept" /\ site.act # site.exp) => conv = "__" \o site.exp \o "__"
\* Leq is a partial order with joins (design-level sanity of the lattice)
Lattice == \A t, u, v \in Types :
             /\ Leq(t, t)
             /\ (Leq(t, u) /\ Leq(u, t)) => t = u
             /\ (Leq(t, u) /\ Leq(u, v)) => Leq(t, v)
             /\ (t \in Num /\ u \in Num) => (Leq(t, Join(t, u)) /\ Leq(u, Join(t, u))
                                             /\ ((Leq(t, v) /\ Leq(u, v)) => Leq(Join(t, u), v)))
Emit == pc = "done" => PrintT(ToJson([pos |-> site.pos, act |-> site.act, exp |-> site.exp,
                                      accept |-> verdict = "accept", conv |-> conv]))
=============================================================================
