--------------------------- MODULE Quantum_Trace ---------------------------
(* C20, code -> spec (branching trace validation) and evaluation of harness-sampled circuits.
   Input (JSON file named by env VERIF_TRACE): a list of recorded executions
       [prep |-> index into QuantumDefs!Preps, ops |-> <<operation records>>]
   where every measurement-like operation carries the outcome b that the compiled program
   actually reported (0/1), or -1 when the program cannot see it (reset).  The spec walks
   the operations with the actions of module Quantum:
     * a gate applies its documented matrix;
     * an observed outcome must have non-zero probability in the spec state, otherwise the
       trace is rejected ([bad |-> case, at |-> position]);
     * a hidden outcome branches over both possible outcomes.
   Every way of consuming the whole trace reports [accepted |-> case, st |-> exact final state];
   checks/C20.py then requires the recorded state_result to be proportional to one of them. *)
EXTENDS QuantumDefs, Json, IOUtils

Cases == JsonDeserialize(IOEnv.VERIF_TRACE)
ASSUME PrintT(ToJson([preps |-> Preps]))

VARIABLES cid, pos, st
vars == <<cid, pos, st>>
NotStarted == [k |-> -1, a |-> <<>>]
OpsOf(c) == Cases[c].ops

Init == cid \in 1..Len(Cases) /\ pos = 0 /\ st = NotStarted

Prepare == /\ pos = 0
           /\ st' = RunFrom(ZeroState, Preps[Cases[cid].prep], 1)
           /\ pos' = 1 /\ cid' = cid

GateStep == /\ pos \in 1..Len(OpsOf(cid)) /\ IsGate(OpsOf(cid)[pos])
            /\ st' = ApplyGate(st, OpsOf(cid)[pos])
            /\ pos' = pos + 1 /\ cid' = cid

\* observed outcome
MeasStep == LET op == OpsOf(cid)[pos] IN
            /\ pos \in 1..Len(OpsOf(cid)) /\ ~IsGate(op) /\ op.b \in {0, 1}
            /\ cid' = cid
            /\ IF Possible(st, op.qs[1], op.b)
               THEN st' = ApplyMeas(st, op) /\ pos' = pos + 1
               ELSE /\ PrintT(ToJson([bad |-> cid, at |-> pos, why |-> "outcome has probability 0 in the spec state"]))
                    /\ st' = st /\ pos' = -1

\* hidden outcome (reset): both branches
HiddenStep == LET op == OpsOf(cid)[pos] IN
              /\ pos \in 1..Len(OpsOf(cid)) /\ ~IsGate(op) /\ op.b = -1
              /\ \E bb \in {0, 1} :
                    /\ Possible(st, op.qs[1], bb)
                    /\ st' = ProjectReset(st, op.qs[1], bb)
              /\ pos' = pos + 1 /\ cid' = cid

Next == Prepare \/ GateStep \/ MeasStep \/ HiddenStep
Spec == Init /\ [][Next]_vars

Accept == (pos >= 1 /\ pos = Len(OpsOf(cid)) + 1) => PrintT(ToJson([accepted |-> cid, st |-> OutState(st)]))
=============================================================================
