SPECIFICATION Spec
CONSTANTS
  NL = 3
  LB = 2
  FP = 3
  ExpsN = {0, 3}
INVARIANT RingOps
INVARIANT TwosComplement
INVARIANT Bitwise
INVARIANT Shifts
INVARIANT ShiftCounts
INVARIANT Compare
INVARIANT DivModSigned
INVARIANT DivModUnsigned
INVARIANT DivModMixed
INVARIANT Power
INVARIANT Ranges
INVARIANT DyadicNorm
INVARIANT DyadicRing
INVARIANT DyadicInt
INVARIANT DyadicDiv
INVARIANT DyadicRound
INVARIANT DyadicPow
CHECK_DEADLOCK FALSE
