SPECIFICATION Spec
CONSTANTS
  MaxParams = 3
  Shapes = {1,2}
  Rich = TRUE
  WithNone = FALSE
  SecondStep = TRUE
INVARIANT InputScoped
INVARIANT MachineIsOperator
INVARIANT InstEqualsNamed
INVARIANT CompositionLaw
INVARIANT IdentityLaw
INVARIANT ResultScoped
INVARIANT FullIsClosed
INVARIANT LoopShape
INVARIANT Emit
CHECK_DEADLOCK FALSE
