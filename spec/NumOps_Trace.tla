---------------------------- MODULE NumOps_Trace ----------------------------
(* Trace validation for C04 / C16: every call of a compiled Guppy numeric function on
   the reference interpreter is one event
      [f |-> form index, a, b |-> operands, tr |-> result type the compiler chose,
       r |-> result, end |-> "ret" | "panic", pd, pt, pv |-> CPython's result: required?, type, value]
   (forms and events are read from the JSON file named by VERIF_TRACE).
   For each event the spec computes NumOps!Expected and
     - cross-checks it against CPython (field py): a mismatch is printed as
       {"oracle": i}  -> the harness stops with a machinery failure;
     - if the result is required (def), demands  end = "ret", tr = ty and r = v;
       otherwise prints {"bad": i, "exp": Expected}.
   Values travel as flat tuples <<limb1..limbNL, s, e, x>> (smaller JSON) and are turned
   into NumOps value records here.
   Each chunk walks its events in order and prints {"accepted": k, ok, skip} at its end,
   so the harness knows every event was evaluated and how many were required.       *)
EXTENDS Integers, Sequences, TLC, Json, IOUtils

CONSTANTS NL, LB, FP, NChunks
INSTANCE NumOps

Trace == JsonDeserialize(IOEnv.VERIF_TRACE)
Forms == Trace.forms
Evs   == Trace.events
N     == Len(Evs)

VARIABLES k, i, nok, nskip       \* chunk, position, required / not required events so far
vars == <<k, i, nok, nskip>>
First(kk) == ((kk - 1) * N) \div NChunks + 1
Last(kk)  == (kk * N) \div NChunks

Val(t) == [w |-> SubSeq(t, 1, NL), s |-> t[NL + 1], e |-> t[NL + 2], x |-> t[NL + 3]]
Exp(ev) == Expected(Forms[ev.f], Val(ev.a), Val(ev.b))
OracleOk(ev, ex) ==
    /\ ex.def = (ev.pd = 1)
    /\ ex.def => (ex.ty = ev.pt /\ ValEq(ex.ty, ex.v, Val(ev.pv)))
ImplOk(ev, ex) ==
    ex.def => (ev.end = "ret" /\ ev.tr = ex.ty /\ ValEq(ex.ty, ex.v, Val(ev.r)))

Init == k \in 1..NChunks /\ i = First(k) /\ nok = 0 /\ nskip = 0
CheckEvent ==
    /\ i <= Last(k)
    /\ LET ev == Evs[i]
           ex == Exp(ev)
       IN  /\ IF OracleOk(ev, ex) THEN TRUE ELSE PrintT(ToJson([oracle |-> i - 1, exp |-> ex]))
           /\ IF ImplOk(ev, ex) THEN TRUE ELSE PrintT(ToJson([bad |-> i - 1, exp |-> ex]))
           /\ nok' = nok + (IF ex.def THEN 1 ELSE 0)
           /\ nskip' = nskip + (IF ex.def THEN 0 ELSE 1)
    /\ i' = i + 1
    /\ k' = k
Spec == Init /\ [][CheckEvent]_vars
Done == i = Last(k) + 1
Accept == Done => PrintT(ToJson([accepted |-> k, ok |-> nok, skip |-> nskip]))
=============================================================================
