SPECIFICATION Spec
CONSTANTS
  MaxPoints = 6
  MaxRank = 4
INVARIANT Emit
CHECK_DEADLOCK FALSE
