------------------------------- MODULE NumOps -------------------------------
(* Python's numeric semantics for the operators and builtins Guppy offers on
   nat / int / float / bool (guppylang/std/num.py, std/bool.py), as a function
       Expected(form, a, b)  =  [def, ty, v]
   def : is the result required?  (the property's side conditions: divisor # 0,
         shift count in [0, W), exponent >= 0, float->int conversion in range; plus
         the limits of this model, see below)
   ty  : type of the result, v : its value.
   Integer results are Python's unbounded result reduced modulo 2^W (signed range
   for int, [0, 2^W) for nat).  Everything is computed on limbs by BitVec64.

   How an operand pair is interpreted (mirrors ExprSynthesizer._synthesize_binary +
   try_coerce_to in checker/expr_checker.py): the operation happens at the join J of
   the operand types in  nat < int < float  (a non-negative int literal on the right
   of a nat adopts nat); operands are implicitly widened to J.  The property (C16)
   only promises a widened value equal to the original when it is REPRESENTABLE in J,
   so results are required only if
     - nat -> int : value < 2^(W-1), for the operations that are not ring
       homomorphisms modulo 2^W (division, modulo, >>, comparisons, true division);
       + - * ** << & | ^ are required for every operand (wrap-around makes them agree);
     - nat/int -> float : the integer is exactly representable with FP bits.
   Floats are exact dyadic rationals; a float result is required only if the exact
   result is representable (then IEEE's correctly rounded result IS the exact one).
   float // and % are required only if the aligned numerator of x/y has at most FP
   bits (then floor(round(x/y)) = floor(x/y), so Guppy's (x/y).__floor__() and
   Python's fmod-based algorithm must agree).  float ** is required only for small
   non-negative integral exponents.  -0.0 and 0.0 are identified; nan/inf never
   equal a required result.

   Values are records [w |-> word, s |-> 0..1, e |-> Int, x |-> 0..1]:
     nat/int/bool: w = the machine word (bool: 0 or 1);  float: (-1)^s * w * 2^e,
     x = 1 for nan/inf.
   A form is [op, ta, tb, blit, lneg]; unary forms have tb = "none"; blit = 1: the right
   operand is an int literal, lneg = 1: that literal is negative.                  *)
EXTENDS Integers, Sequences

CONSTANTS NL, LB, FP
INSTANCE BitVec64

Rank(t) == CASE t = "nat" -> 1 [] t = "int" -> 2 [] t = "float" -> 3 [] OTHER -> 0
IsNum(t) == Rank(t) > 0
Leq(t, u) == t = u \/ (IsNum(t) /\ IsNum(u) /\ Rank(t) <= Rank(u))       \* implicit coercion t -> u allowed
Join(t, u) == IF Rank(t) >= Rank(u) THEN t ELSE u

ZeroVal == [w |-> BvZero, s |-> 0, e |-> 0, x |-> 0]
Undef   == [def |-> FALSE, ty |-> "none", v |-> ZeroVal]
RWord(ty, wd) == [def |-> TRUE, ty |-> ty, v |-> [w |-> wd, s |-> 0, e |-> 0, x |-> 0]]
RBool(p) == RWord("bool", IF p THEN BvOne ELSE BvZero)
RFloat(d) == IF DRepr(d) THEN [def |-> TRUE, ty |-> "float",
                               v |-> [w |-> Fit(d.m, NL), s |-> d.s, e |-> d.e, x |-> 0]]
             ELSE Undef
RIf(c, r) == IF c THEN r ELSE Undef

\* exact value of an operand of type t
ZVal(t, v) == IF t = "int" THEN ZOfS(v.w) ELSE ZOfU(v.w)
DVal(t, v) == IF t = "float" THEN DMk(v.s, v.w, v.e) ELSE DOfZ(ZVal(t, v))

\* operating type of a form on these operands
OpType(f) ==
    IF f.tb = "none" THEN f.ta
    ELSE IF f.blit = 1 /\ f.ta = "nat" /\ f.tb = "int" /\ f.lneg = 0 THEN "nat"
    ELSE Join(f.ta, f.tb)

Rel(op, c) == CASE op = "==" -> c = 0 [] op = "!=" -> c # 0 [] op = "<" -> c < 0
                [] op = "<=" -> c <= 0 [] op = ">" -> c > 0 [] op = ">=" -> c >= 0
IsCmp(op) == op \in {"==", "!=", "<", "<=", ">", ">="}

(***************************************************************************)
(* integer operations at J in {nat, int}                                    *)
(***************************************************************************)
\* implicit widening nat -> int keeps the value
CoOk(t, v, J) == (t = "nat" /\ J = "int") => ~BvIsNeg(v.w)
ZAt(J, v) == IF J = "int" THEN ZOfS(v.w) ELSE ZOfU(v.w)

IntBin(op, J, f, a, b) ==
    LET co == CoOk(f.ta, a, J) /\ CoOk(f.tb, b, J)
        k  == ShiftCount(b.w)
        za == ZAt(J, a)
        zb == ZAt(J, b)
        nz == ~NIsZero(b.w)
    IN  CASE op = "+"  -> RWord(J, BvAdd(a.w, b.w))
          [] op = "-"  -> RWord(J, BvSub(a.w, b.w))
          [] op = "*"  -> RWord(J, BvMul(a.w, b.w))
          [] op = "&"  -> RWord(J, BvAnd(a.w, b.w))
          [] op = "|"  -> RWord(J, BvOr(a.w, b.w))
          [] op = "^"  -> RWord(J, BvXor(a.w, b.w))
          [] op = "<<" -> RIf(k >= 0, RWord(J, BvShl(a.w, k)))
          [] op = ">>" -> RIf(k >= 0 /\ co, RWord(J, IF J = "int" THEN BvAshr(a.w, k) ELSE BvLshr(a.w, k)))
          [] op \in {"**", "pow"} -> RIf(J = "nat" \/ ~BvIsNeg(b.w), RWord(J, BvPow(a.w, b.w)))
          [] op \in {"//", "divmod0"} -> RIf(nz /\ co, RWord(J, ZWrap(ZDivMod(za, zb)[1])))
          [] op \in {"%", "divmod1"}  -> RIf(nz /\ co, RWord(J, ZWrap(ZDivMod(za, zb)[2])))
          [] op = "/"  -> LET da == DOfZ(za)
                              db == DOfZ(zb)
                          IN  RIf(nz /\ co /\ DRepr(da) /\ DRepr(db) /\ DDivExact(da, db), RFloat(DDiv(da, db)))
          [] IsCmp(op) -> RIf(co, RBool(Rel(op, ZCmp(za, zb))))
          [] OTHER -> Undef

IntUn(op, J, a) ==
    CASE op = "neg"   -> RIf(J = "int", RWord(J, BvNeg(a.w)))
      [] op = "pos"   -> RWord(J, a.w)
      [] op = "inv"   -> RWord(J, BvNot(a.w))
      [] op = "abs"   -> RWord(J, IF J = "int" /\ BvIsNeg(a.w) THEN BvNeg(a.w) ELSE a.w)
      [] op = "not"   -> RBool(NIsZero(a.w))
      [] op = "bool"  -> RBool(~NIsZero(a.w))
      [] op = "int"   -> RWord("int", a.w)                       \* value mod 2^W in the signed range
      [] op = "nat"   -> RWord("nat", a.w)                       \* value mod 2^W in [0, 2^W)
      [] op = "float" -> RFloat(DRound(DOfZ(ZAt(J, a))))         \* correctly rounded
      [] op \in {"floor", "ceil", "trunc"} -> RWord(J, a.w)
      \* implicit coercions (C16): value must be preserved, required when representable
      [] op = "co_nat"   -> RIf(J = "nat", RWord("nat", a.w))
      [] op = "co_int"   -> RIf(J = "int" \/ ~BvIsNeg(a.w), RWord("int", a.w))
      [] op = "co_float" -> RFloat(DRound(DOfZ(ZAt(J, a))))
      [] OTHER -> Undef

(***************************************************************************)
(* float operations (exact dyadic arithmetic)                               *)
(***************************************************************************)
CoF(t, d) == t = "float" \/ DRepr(d)       \* implicit widening to float keeps the value
\* small non-negative integral exponent as a TLC integer, or -1
SmallExp(d) == IF DIsZero(d) THEN 0
               ELSE IF d.s = 0 /\ d.e >= 0 /\ d.e + DBits(d) <= 7 THEN NToInt(DTruncZ(d).mag)
               ELSE -1
FloorDivOk(x, y) == ~DIsZero(y) /\ DAlignable(x, y) /\ DQuotNumBits(x, y) <= FP
FMod(x, y) == LET q == DOfZ(DFloorDivZ(x, y)) IN DSub(x, DMul(q, y))

FloatBin(op, f, a, b) ==
    LET x  == DVal(f.ta, a)
        y  == DVal(f.tb, b)
        co == CoF(f.ta, x) /\ CoF(f.tb, y)
        n  == SmallExp(y)
    IN  CASE op = "+" -> RIf(co /\ DAlignable(x, y), RFloat(DAdd(x, y)))
          [] op = "-" -> RIf(co /\ DAlignable(x, y), RFloat(DSub(x, y)))
          [] op = "*" -> RIf(co /\ DMulOk(x, y), RFloat(DMul(x, y)))
          [] op = "/" -> RIf(co /\ ~DIsZero(y) /\ DDivExact(x, y), RFloat(DDiv(x, y)))
          [] op \in {"//", "divmod0"} -> RIf(co /\ FloorDivOk(x, y), RFloat(DOfZ(DFloorDivZ(x, y))))
          [] op \in {"%", "divmod1"}  -> RIf(co /\ FloorDivOk(x, y), RFloat(FMod(x, y)))
          [] op \in {"**", "pow"} -> RIf(co /\ n >= 0 /\ DPowOk(x, n), RFloat(DPow(x, n)))
          [] IsCmp(op) -> RIf(co /\ DAlignable(x, y), RBool(Rel(op, DCmp(x, y))))
          [] OTHER -> Undef

FloatUn(op, a) ==
    LET x == DMk(a.s, a.w, a.e)
        t == DTruncZ(x)
    IN  CASE op = "neg"   -> RFloat(DNeg(x))
          [] op = "pos"   -> RFloat(x)
          [] op = "abs"   -> RFloat(DAbs(x))
          [] op = "not"   -> RBool(DIsZero(x))
          [] op = "bool"  -> RBool(~DIsZero(x))
          [] op = "int"   -> RIf(DIntOk(x) /\ ZInS(t), RWord("int", ZWrap(t)))    \* truncation, in range
          [] op = "nat"   -> RIf(DIntOk(x) /\ ZInU(t), RWord("nat", ZWrap(t)))
          [] op \in {"float", "co_float"} -> RFloat(x)
          [] op = "floor" -> RIf(DIntOk(x), RFloat(DOfZ(DFloorZ(x))))
          [] op = "ceil"  -> RIf(DIntOk(x), RFloat(DOfZ(DCeilZ(x))))
          [] OTHER -> Undef

(***************************************************************************)
(* bool                                                                     *)
(***************************************************************************)
BoolOp(op, a, b) ==
    LET p == a.w[1] = 1
        q == b.w[1] = 1
    IN  CASE op = "&"  -> RBool(p /\ q)
          [] op = "|"  -> RBool(p \/ q)
          [] op = "^"  -> RBool(p # q)
          [] op = "==" -> RBool(p = q)
          [] op = "!=" -> RBool(p # q)
          [] op = "not"  -> RBool(~p)
          [] op = "bool" -> RBool(p)
          [] op = "int"  -> RWord("int", a.w)
          [] op = "nat"  -> RWord("nat", a.w)
          [] OTHER -> Undef

Expected(f, a, b) ==
    LET J == OpType(f)
    IN  IF f.ta = "bool" THEN BoolOp(f.op, a, b)
        ELSE IF J = "float" THEN (IF f.tb = "none" THEN FloatUn(f.op, a) ELSE FloatBin(f.op, f, a, b))
        ELSE IF f.tb = "none" THEN IntUn(f.op, J, a)
        ELSE IntBin(f.op, J, f, a, b)

\* equality of a required value with an observed one
ValEq(ty, v, r) ==
    IF ty = "float"
    THEN r.x = 0 /\ LET x == DMk(v.s, v.w, v.e)
                        y == DMk(r.s, r.w, r.e)
                    IN  DAlignable(x, y) /\ DEq(x, y)
    ELSE v.w = r.w

(***************************************************************************)
(* integer literals (C17): z is [neg, mag] with a wide magnitude            *)
(***************************************************************************)
LitAccept(ty, z) == IF ty = "nat" THEN ZInU(z) ELSE ZInS(z)
LitWord(z) == ZWrap(z)
=============================================================================
