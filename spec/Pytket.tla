------------------------------- MODULE Pytket -------------------------------
(* C26: what a Guppy function made from a pytket circuit (guppy.load_pytket / @guppy.pytket)
   does to the CALLER's qubits, and which signatures fit it.  Reuses the exact gate semantics
   of QuantumDefs (module Quantum).

   A circuit is built the way a user builds it: registers are created in some order
   (`Shapes`: creation order deliberately different from lexicographic order), operations
   refer to circuit units by creation index, rotation angles are constants or expressions in
   the symbols "x", "y" (half-turns).  The wrapper function
   (guppylang_internals/definition/pytket_circuits.py: _signature_from_circuit, compile_outer)
   takes the qubits in LEXICOGRAPHIC order of (register name, index), then one angle per free
   symbol in LEXICOGRAPHIC order of the symbol names, and returns one bool per classical bit in
   lexicographic order (false unless written by a Measure).  With use_arrays there is one
   array per register / one array of angles / one bool array per classical register.

   State: `shape`, `ops` (the circuit so far), `st` (exact state of the caller's NQ qubits,
   caller qubit p = p-th argument), `bits` (classical bits by creation index).  Actions:
   Prepare (the caller puts its qubits into pairwise different states), Step(op) (append a
   gate / Measure with an outcome of non-zero probability / Reset).  Every reachable circuit
   prints itself with the expected bools and final state (Emit); checks/C26.py builds the
   pytket circuit, loads it three ways, runs the compiled HUGR and compares.

   Mode "enum": all circuits of <= Depth operations over every shape.
   Mode "cases": circuits listed in the JSON file VERIF_CASES (sampled by the harness over
   the enumerated operations); TLC supplies every measurement branch and the expectation.
   Mode "perm": the parameter-binding family PermCases: circuits with 3 and 4 symbols, one
   rotation per symbol, the symbols FIRST OCCURRING in every permutation of their lexicographic
   order (3 symbols) / in several non-involutive ones (4 symbols), each on its own qubits or
   chained on one qubit; the caller's k-th angle argument (distinct values) must reach the
   symbol of lexicographic rank k whatever the occurrence order.
   Signatures: `Stubs` lists for every shape candidate stub signatures / array call shapes with
   the verdict accept <=> it is exactly the circuit's shape (printed once per shape). *)
EXTENDS QuantumDefs, Json, IOUtils, SequencesExt

CONSTANTS Depth, Mode

Letters == <<"a", "b", "c", "m", "p", "q", "w", "x", "y", "z">>      \* lexicographic order of the names used
Rank(s) == CHOOSE i \in 1..Len(Letters) : Letters[i] = s

\* registers in CREATION order: <<name, size>>
Shapes == <<
    [q |-> << <<"b", 2>>, <<"a", 1>> >>,             c |-> << <<"z", 1>>, <<"m", 1>> >>],
    [q |-> << <<"q", 3>> >>,                         c |-> << <<"c", 2>> >>],
    [q |-> << <<"b", 1>>, <<"a", 1>> >>,             c |-> <<>>],
    [q |-> << <<"q", 2>> >>,                         c |-> << <<"c", 1>> >>],
    [q |-> << <<"a", 1>> >>,                         c |-> << <<"c", 1>> >>],
    [q |-> << <<"a", 1>>, <<"b", 2>> >>,             c |-> << <<"m", 1>>, <<"z", 1>> >>],
    [q |-> << <<"p", 1>>, <<"q", 1>>, <<"a", 1>> >>, c |-> << <<"y", 2>> >>] >>

\* units <<name, index>> in creation order
RECURSIVE UnitSeq(_, _, _)
UnitSeq(regs, r, i) == IF r > Len(regs) THEN <<>>
                     ELSE IF i >= regs[r][2] THEN UnitSeq(regs, r + 1, 0)
                     ELSE << <<regs[r][1], i>> >> \o UnitSeq(regs, r, i + 1)
Flat(regs) == UnitSeq(regs, 1, 0)
Less(u, v) == Rank(u[1]) < Rank(v[1]) \/ (u[1] = v[1] /\ u[2] < v[2])
\* 0-based position of creation-order unit c (0-based) in the lexicographic order
LexPos(regs, c) == LET us == Flat(regs) IN Cardinality({k \in 1..Len(us) : Less(us[k], us[c + 1])})
NUnits(regs) == Len(Flat(regs))
\* creation index (0-based) of the unit at lexicographic position p (0-based)
AtLex(regs, p) == CHOOSE c \in 0..(NUnits(regs) - 1) : LexPos(regs, c) = p
\* register sizes in lexicographic order of the names
LexSizes(regs) == LET n == Len(regs)
                      pos(r) == Cardinality({k \in 1..n : Rank(regs[k][1]) < Rank(regs[r][1])})
                  IN [p \in 1..n |-> regs[CHOOSE r \in 1..n : pos(r) = p - 1][2]]

\* angles: <<"t", n>> = n/4 half-turns; <<"sym", s>> = s; <<"sym2", s>> = 2*s; <<"symp", s>> = s + 1/4
Syms == {"x", "y"}
AngleSpecs == {<<"t", 1>>, <<"t", 3>>} \cup {<<k, s>> : k \in {"sym", "sym2", "symp"}, s \in Syms}
SymsOf(ops) == {op.a[1][2] : op \in {ops[i] : i \in {j \in 1..Len(ops) : Len(ops[j].a) = 1 /\ ops[j].a[1][1] # "t"}}}
\* the caller passes angle(k/4) for the k-th symbol in lexicographic order: x -> pi/4, y -> pi/2 when both occur
ParamPos(ops, s) == Cardinality({v \in SymsOf(ops) : Rank(v) < Rank(s)}) + 1
ParamNames(ops) == LET S == SymsOf(ops) IN [p \in 1..Cardinality(S) |-> CHOOSE s \in S : ParamPos(ops, s) = p]
\* value in units of pi/4 once the parameters are bound
AngleT(ops, a) == IF a[1] = "t" THEN a[2]
                  ELSE LET v == ParamPos(ops, a[2]) IN
                       IF a[1] = "sym" THEN v ELSE IF a[1] = "sym2" THEN 2 * v ELSE v + 1

PGates0 == Gates0
PGates1 == {"rx", "ry", "rz"}
PGates2 == {"cx", "cy", "cz"}
\* operations available on a shape; qs and bit are CREATION indices
COp(g, qs, a, bit, b) == [g |-> g, qs |-> qs, a |-> a, bit |-> bit, b |-> b]
Inj(n, k) == IF k = 1 THEN {<<p>> : p \in 0..(n - 1)}
             ELSE IF k = 2 THEN {<<p, q>> : p, q \in 0..(n - 1)} \ {<<p, p>> : p \in 0..(n - 1)}
             ELSE {qs \in {<<p, q, r>> : p, q, r \in 0..(n - 1)} : Distinct(qs)}
ShapeOps(sh) == LET n == NUnits(sh.q) nb == NUnits(sh.c) IN
    {COp(g, qs, <<>>, -1, -1) : g \in PGates0, qs \in Inj(n, 1)}
    \cup {COp(g, qs, <<a>>, -1, -1) : g \in PGates1, qs \in Inj(n, 1), a \in AngleSpecs}
    \cup (IF n >= 2 THEN {COp(g, qs, <<>>, -1, -1) : g \in PGates2, qs \in Inj(n, 2)}
                         \cup {COp("crz", qs, <<a>>, -1, -1) : qs \in Inj(n, 2), a \in AngleSpecs} ELSE {})
    \cup (IF n >= 3 THEN {COp("toffoli", qs, <<>>, -1, -1) : qs \in Inj(n, 3)} ELSE {})
    \cup {COp("measure", qs, <<>>, bit, b) : qs \in Inj(n, 1), bit \in 0..(nb - 1), b \in {0, 1}}
    \cup {COp("reset", qs, <<>>, -1, b) : qs \in Inj(n, 1), b \in {0, 1}}

\* ------------------------------------------------------------------ parameter-binding family
\* occ = the symbols in order of first occurrence.  rank j |-> lexicographic rank of occ[j] is a
\* permutation of 1..n; a wrapper that applies it the wrong way round (its inverse) is only
\* wrong when the permutation is not an involution.
OccRank(occ, j) == Cardinality({i \in 1..Len(occ) : Rank(occ[i]) < Rank(occ[j])}) + 1
NonInvolutive(occ) == \E j \in 1..Len(occ) : OccRank(occ, OccRank(occ, j)) # j
Perms3 == {p \in {<<r, s, t>> : r, s, t \in {"x", "y", "z"}} : Distinct(p)}          \* all 6
Perms4 == {<<"z", "x", "w", "y">>, <<"x", "y", "z", "w">>, <<"y", "z", "w", "x">>, <<"x", "w", "z", "y">>,
           <<"y", "w", "x", "z">>, <<"z", "y", "x", "w">>}
PermLayouts == {"own", "chain"}
PermShapes == {1, 2}                    \* b[2],a[1] (creation order # lexicographic order) and q[3]
\* the k-th occurring symbol: rz (k odd) / rx (k even) on its own qubit (k-1) mod 3, or all on qubit 0
PermOp(occ, k, layout) == COp(IF k % 2 = 1 THEN "rz" ELSE "rx", <<IF layout = "own" THEN (k - 1) % 3 ELSE 0>>,
                              <<<<"sym", occ[k]>>>>, -1, -1)
PermCaseSet == {[shape |-> sh, occ |-> p, layout |-> l, ops |-> [k \in 1..Len(p) |-> PermOp(p, k, l)]] :
                   sh \in PermShapes, p \in Perms3 \cup Perms4, l \in PermLayouts}
PermCases == SetToSeq(PermCaseSet)
\* vacuity guard: all 6 orders of 3 symbols, and non-involutive orders for both 3 and 4 symbols
ASSUME PermFamilyIsDiscriminating ==
    /\ Cardinality(Perms3) = 6
    /\ \E p \in Perms3 : NonInvolutive(p)
    /\ Cardinality({p \in Perms4 : NonInvolutive(p)}) >= 3
    /\ \E p \in Perms3 \cup Perms4 : ~NonInvolutive(p)                    \* controls that must also pass

Cases == IF Mode = "perm" THEN PermCases ELSE JsonDeserialize(IOEnv.VERIF_CASES)
\* the candidates for position k of case c: measurement/reset outcomes branch
CaseOps(c, k) == LET op == Cases[c].ops[k] IN
                 IF op.g \in {"measure", "reset"} THEN {[op EXCEPT !.b = 0], [op EXCEPT !.b = 1]} ELSE {op}

VARIABLES cid, shape, ops, st, bits
vars == <<cid, shape, ops, st, bits>>
NotStarted == [k |-> -1, a |-> <<>>]
Sh == Shapes[shape]

Init == /\ IF Mode = "enum" THEN cid = 0 /\ shape \in 1..Len(Shapes)
                            ELSE cid \in 1..Len(Cases) /\ shape = Cases[cid].shape
        /\ ops = <<>> /\ st = NotStarted
        /\ bits = [j \in 0..(NUnits(Shapes[shape].c) - 1) |-> 0]

Prepare == /\ st = NotStarted
           /\ st' = RunFrom(ZeroState, PrepProduct, 1)
           /\ UNCHANGED <<cid, shape, ops, bits>>

\* the whole circuit acts on the caller's qubits: creation index c sits at argument LexPos(c).
\* A symbol's value depends on which symbols the FINISHED circuit uses, so the state is
\* recomputed from the whole operation list.
CallerQs(qs) == [i \in DOMAIN qs |-> LexPos(Sh.q, qs[i])]
QOp(all, op) == IF op.g \in {"measure", "reset"} THEN MOp(IF op.g = "measure" THEN "project_z" ELSE "reset",
                                                         LexPos(Sh.q, op.qs[1]), "p", op.b)
                ELSE Op(op.g, CallerQs(op.qs), [i \in DOMAIN op.a |-> Lit(AngleT(all, op.a[i]))], "p")
RECURSIVE RunC(_, _, _)
RunC(s, all, i) == IF i > Len(all) THEN s
                   ELSE LET q == QOp(all, all[i]) IN
                        IF ~Enabled(s, q) THEN NotStarted ELSE RunC(ApplyOp(s, q), all, i + 1)
Prepared == RunFrom(ZeroState, PrepProduct, 1)

Step(op) == /\ st # NotStarted
            /\ LET all == Append(ops, op) s2 == RunC(Prepared, all, 1) IN
               /\ s2 # NotStarted                        \* every recorded outcome has non-zero probability
               /\ st' = s2
               /\ ops' = all
            /\ bits' = IF op.g = "measure" THEN [bits EXCEPT ![op.bit] = op.b] ELSE bits
            /\ UNCHANGED <<cid, shape>>

Next == \/ Prepare
        \/ Mode = "enum" /\ Len(ops) < Depth /\ \E op \in ShapeOps(Sh) : Step(op)
        \/ Mode \in {"cases", "perm"} /\ Len(ops) < Len(Cases[cid].ops) /\ \E op \in CaseOps(cid, Len(ops) + 1) : Step(op)
Spec == Init /\ [][Next]_vars

\* returned bools: classical bits in lexicographic order
Bools == [p \in 1..NUnits(Sh.c) |-> bits[AtLex(Sh.c, p - 1)]]
Complete == IF Mode = "enum" THEN st # NotStarted ELSE st # NotStarted /\ Len(ops) = Len(Cases[cid].ops)
Emit == Complete => PrintT(ToJson([cid |-> cid, shape |-> shape, ops |-> ops, params |-> ParamNames(ops),
                                   bools |-> Bools, st |-> OutState(st)]))

\* ------------------------------------------------------------------ signatures
\* a stub  def f(q: qubit x nq, a: angle x np) -> bool x nb  (variant "plain"), or with the first
\* qubit @owned / the first angle typed float; it fits iff it is exactly the circuit's shape
Fits(nq, np, nb, cand) == cand.v = "plain" /\ cand.nq = nq /\ cand.np = np /\ cand.nb = nb
StubCands(nq, np, nb) ==
    {x \in {[v |-> "plain", nq |-> a, np |-> b, nb |-> c] :
                a \in {k \in {nq - 1, nq, nq + 1} : k >= 0}, b \in {k \in {np - 1, np, np + 1} : k >= 0},
                c \in {k \in {nb - 1, nb, nb + 1} : k >= 0}} :
        (IF x.nq = nq THEN 0 ELSE 1) + (IF x.np = np THEN 0 ELSE 1) + (IF x.nb = nb THEN 0 ELSE 1) <= 1}
    \cup (IF nq >= 1 THEN {[v |-> "owned", nq |-> nq, np |-> np, nb |-> nb]} ELSE {})
    \cup (IF np >= 1 THEN {[v |-> "float", nq |-> nq, np |-> np, nb |-> nb]} ELSE {})
\* array call shapes: sizes of the qubit arrays passed, in argument order
ArrayCands(sizes) == {sizes}
    \cup {[sizes EXCEPT ![i] = @ + 1] : i \in DOMAIN sizes}
    \cup (IF Len(sizes) >= 2 THEN {[i \in DOMAIN sizes |-> sizes[Len(sizes) + 1 - i]]} ELSE {})
    \cup (IF Len(sizes) >= 2 THEN {SubSeq(sizes, 1, Len(sizes) - 1)} ELSE {})
\* printed for the circuit  [shape, one rz per symbol in `syms`]
StubReport(s, syms) == LET sh == Shapes[s] nq == NUnits(sh.q) nb == NUnits(sh.c) np == Cardinality(syms)
                           ls == LexSizes(sh.q) IN
    [stubs |-> s, syms |-> syms,
     sig |-> [nq |-> nq, np |-> np, nb |-> nb, qsizes |-> ls, csizes |-> LexSizes(sh.c)],
     cands |-> {[c |-> c, accept |-> Fits(nq, np, nb, c)] : c \in StubCands(nq, np, nb)},
     calls |-> {[sizes |-> a, accept |-> a = ls] : a \in ArrayCands(ls)}]
ASSUME PrintT(ToJson([prep |-> PrepProduct, shapes |-> Shapes]))
ASSUME Mode = "perm" =>
    PrintT(ToJson([family |-> [i \in 1..Len(PermCases) |->
                      [cid |-> i, occ |-> PermCases[i].occ, layout |-> PermCases[i].layout,
                       noninvolutive |-> NonInvolutive(PermCases[i].occ)]]]))
ASSUME Mode = "enum" =>
    \A s \in 1..Len(Shapes) : \A syms \in {{}, {"y"}, {"x", "y"}} : PrintT(ToJson(StubReport(s, syms)))
=============================================================================
