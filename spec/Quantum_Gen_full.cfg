SPECIFICATION Spec
CONSTANTS
  NQ = 3
  Depth = 1
  Level1 = "full"
  Level2 = "none"
  PrepSet = {1, 2, 3}
INVARIANT Emit
CHECK_DEADLOCK FALSE
