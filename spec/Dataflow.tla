------------------------------ MODULE Dataflow ------------------------------
(* The two dataflow analyses of guppylang_internals/cfg/analysis.py as the code runs
   them (CFG.analyze: both with include_unreachable = True), one action per worklist
   iteration, with the worklist order left nondeterministic (the property quantifies over
   every visiting order; the code itself now pops the lowest/highest block index, and the
   guarded hook _verif.pick lets the harness drive it through any order), plus the
   declarative path-based solutions they are supposed to compute.

     mode = "live"    BackwardAnalysis.run for LivenessAnalysis
                      value of a block: dict  variable -> evidence block
     mode = "assign"  ForwardAnalysis.run for AssignmentAnalysis
                      value of a block: <<definitely assigned, maybe assigned>>

   A batch of graphs is read from JSON (IOEnv.VERIF_IN).  Graph record:
     n          number of blocks (1..n; block 1 is the entry)
     succ       succ[b]  = sequence of successor blocks (order matters for evidence)
     dsucc      dsucc[b] = sequence of dummy (never-taken) successors
     used       used[b]  = sequence of variables read in b before being assigned in b
     assigned   assigned[b] = sequence of variables assigned in b
     nvars      variables are 1..nvars
     predef     variables definitely assigned before the entry (function arguments)
     premaybe   variables maybe assigned before the entry (superset of predef)
     inout      borrowed variables: initial liveness value of EVERY block (the code
                passes them as LivenessAnalysis(initial=...))
     iev        evidence block of the initial liveness value (the exit block's index, 0 = none)
     iu         include_unreachable flag of the liveness pass (TRUE in CFG.analyze, FALSE
                for the capture analysis of nested functions in cfg/bb.py)
   Serves C09 (schedule independence, equality with the path solution), C10
   (evidence determinism), C08 (what "defined on all/some paths" means). *)
EXTENDS Naturals, Sequences, FiniteSets, TLC, Json, IOUtils

CONSTANT TrackEvidence    \* FALSE: evidence blocks are abstracted away (C09 view)

Input == JsonDeserialize(IOEnv.VERIF_IN)
Graphs == Input.graphs

VARIABLES g, mode, queue, vb, va
vars == <<g, mode, queue, vb, va>>

Set(s) == {s[i] : i \in 1..Len(s)}
G == Graphs[g]
Blocks == 1..G.n
Vars == 1..G.nvars
Succ(b) == Set(G.succ[b])
DSucc(b) == Set(G.dsucc[b])
IU == G.iu
AllSucc(b) == IF IU THEN Succ(b) \cup DSucc(b) ELSE Succ(b)
Pred(b) == {p \in Blocks : b \in Succ(p)}
DPred(b) == {p \in Blocks : b \in DSucc(p)}
AllPred(b) == IF IU THEN Pred(b) \cup DPred(b) ELSE Pred(b)
Used(b) == Set(G.used[b])
Ass(b) == Set(G.assigned[b])
PreDef == Set(G.predef)
PreMaybe == Set(G.premaybe)
Inout == Set(G.inout)
AllVarsCode == UNION {Ass(b) : b \in Blocks} \cup PreDef   \* AssignmentAnalysis.all_vars

Ev(b) == IF TrackEvidence THEN b ELSE 0

---------------------------------------------------------------------------
(* Liveness: values are functions (dicts) from a set of variables to evidence *)
Keys(d) == DOMAIN d
EmptyDict == [x \in {} |-> 0]
Merge(d1, d2) ==          \* python:  d1 | d2   (right operand wins)
    [x \in DOMAIN d1 \cup DOMAIN d2 |-> IF x \in DOMAIN d2 THEN d2[x] ELSE d1[x]]
Restrict(d, S) == [x \in DOMAIN d \cap S |-> d[x]]

\* LivenessAnalysis.join(*ts): res = {}; for t in ts: res |= t
RECURSIVE JoinLive(_)
JoinLive(ts) == IF ts = <<>> THEN EmptyDict
                ELSE Merge(JoinLive(SubSeq(ts, 1, Len(ts) - 1)), ts[Len(ts)])

LiveSuccSeq(b) == IF IU THEN G.succ[b] \o G.dsucc[b] ELSE G.succ[b]  \* bb.successors (+ bb.dummy_successors)
LiveAfter(b) == JoinLive([i \in 1..Len(LiveSuccSeq(b)) |-> vb[LiveSuccSeq(b)[i]]])
\* apply_bb: {x: bb for x in used} | {x: b for x, b in live_after.items() if x not in assigned}
ApplyLive(after, b) == Merge([x \in Used(b) |-> Ev(b)], Restrict(after, Vars \ Ass(b)))

InitLive == [x \in Inout |-> Ev(G.iev)]        \* evidence = the exit block in the code (iev; 0 when the graph has none)

PopLive(b) ==
    LET before == ApplyLive(LiveAfter(b), b) IN
    /\ mode = "live"
    /\ b \in queue
    /\ IF Keys(before) # Keys(vb[b])           \* eq() compares key sets only
       THEN /\ vb' = [vb EXCEPT ![b] = before]
            /\ queue' = (queue \ {b}) \cup AllPred(b)   \* queue.update(bb.predecessors [+ dummy_predecessors])
       ELSE /\ vb' = vb
            /\ queue' = queue \ {b}
    /\ UNCHANGED <<g, mode, va>>

---------------------------------------------------------------------------
(* Assignment: values are pairs <<def, maybe>> *)
JoinAssign(S) ==                               \* S: set of predecessor blocks
    IF S = {} THEN <<PreDef, PreDef>>          \* join() of nothing
    ELSE << {x \in AllVarsCode \cup PreMaybe : \A p \in S : x \in va[p][1]},
            UNION {va[p][2] : p \in S} >>
ApplyAssign(v, b) == <<v[1] \cup Ass(b), v[2] \cup Ass(b)>>
InitAssign == <<AllVarsCode, PreMaybe>>

PopAssign(b) ==
    LET before == JoinAssign(AllPred(b))       \* predecessors + dummy_predecessors
        after  == ApplyAssign(before, b) IN
    /\ mode = "assign"
    /\ b \in queue
    /\ vb' = [vb EXCEPT ![b] = before]
    /\ IF after # va[b]
       THEN /\ va' = [va EXCEPT ![b] = after]
            /\ queue' = (queue \ {b}) \cup AllSucc(b)   \* queue.update(bb.successors [+ dummy_successors])
       ELSE /\ va' = va
            /\ queue' = queue \ {b}
    /\ UNCHANGED <<g, mode>>

---------------------------------------------------------------------------
InitFor(gg, m) ==
    /\ g = gg
    /\ mode = m
    /\ queue = 1..Graphs[gg].n
    /\ IF m = "live"
       THEN /\ vb = [b \in 1..Graphs[gg].n |-> [x \in Set(Graphs[gg].inout) |-> Ev(Graphs[gg].iev)]]
            /\ va = <<>>
       ELSE LET allv == UNION {Set(Graphs[gg].assigned[b]) : b \in 1..Graphs[gg].n} \cup Set(Graphs[gg].predef)
                i == <<allv, Set(Graphs[gg].premaybe)>> IN
            /\ vb = [b \in 1..Graphs[gg].n |-> i]
            /\ va = [b \in 1..Graphs[gg].n |-> <<i[1] \cup Set(Graphs[gg].assigned[b]), i[2] \cup Set(Graphs[gg].assigned[b])>>]

Init == \E gg \in 1..Len(Graphs), m \in {"live", "assign"} : InitFor(gg, m)

Pop(b) == PopLive(b) \/ PopAssign(b)
Next == \E b \in queue : Pop(b)
Spec == Init /\ [][Next]_vars /\ WF_vars(Next)

---------------------------------------------------------------------------
(* Declarative (path-based) solutions.  A "path" follows real and dummy edges, as
   include_unreachable = True makes the code do. *)

\* least fixpoint of a monotone set transformer on blocks, by at most n rounds
\* (the previous iterate is named once: TLC re-evaluates a recursive function at every application)
Lfp(S, k, F(_)) == LET it[i \in 0..k] == IF i = 0 THEN S ELSE LET prev == it[i - 1] IN prev \cup F(prev) IN it[k]

\* x is read on some path from b before being reassigned
PathLive(x) ==
    LET F(S) == {b \in Blocks : x \notin Ass(b) /\ AllSucc(b) \cap S # {}} IN
    Lfp({b \in Blocks : x \in Used(b)}, G.n, F)
\* x is dead at b: not read before reassignment on ANY (finite or infinite) path from b
Dead(x) ==
    LET F(S) == {b \in Blocks : x \notin Used(b) /\ (x \in Ass(b) \/ AllSucc(b) \subseteq S)} IN
    Lfp({}, G.n + 1, F)
(* Named deviation `InoutAlwaysLive`: a borrowed variable is deliberately kept live along
   paths that never reach the exit (analysis started from `inout_live` everywhere), i.e.
   for x in Inout the code computes the greatest solution: live unless provably dead. *)
DeclLive(b) == {x \in Vars : IF x \in Inout THEN b \notin Dead(x) ELSE b \in PathLive(x)}

NoPred == {b \in Blocks : AllPred(b) = {}}
\* blocks reachable from a predecessor-less block along a path on which x is never assigned
\* (not counting the block itself), starting without x
NotDef(x) ==
    LET F(S) == {b \in Blocks : \E p \in AllPred(b) : p \in S /\ x \notin Ass(p)} IN
    Lfp({r \in NoPred : x \notin PreDef}, G.n, F)
DeclDef(b) == {x \in AllVarsCode : b \notin NotDef(x)}

\* lfp-maybe: some path from an assignment of x reaches b
MaybeLfp(x) ==
    LET F(S) == {b \in Blocks : \E p \in AllPred(b) : x \in Ass(p) \/ p \in S} IN
    Lfp({}, G.n + 1, F)
\* for x in PreMaybe the iteration starts from "maybe everywhere": greatest solution, whose
\* complement is: every backward path is finite, ends in a pred-less block without x, and
\* never crosses an assignment of x
NotMaybe(x) ==
    LET F(S) == {b \in Blocks : AllPred(b) # {} /\ \A p \in AllPred(b) : p \in S /\ x \notin Ass(p)} IN
    Lfp({r \in NoPred : x \notin PreDef}, G.n + 1, F)
DeclMaybe(b) == {x \in Vars : IF x \in PreMaybe THEN b \notin NotMaybe(x)
                                ELSE (b \in MaybeLfp(x) \/ (b \in NoPred /\ x \in PreDef))}

---------------------------------------------------------------------------
Done == queue = {}

\* C09: whatever the visiting order, the result is the path-based solution
LiveCorrect   == (Done /\ mode = "live")   => \A b \in Blocks : Keys(vb[b]) = DeclLive(b)
DefCorrect    == (Done /\ mode = "assign") => \A b \in Blocks : vb[b][1] = DeclDef(b)
MaybeCorrect  == (Done /\ mode = "assign") => \A b \in Blocks : vb[b][2] = DeclMaybe(b)

\* verdict extraction: report instead of stopping (used by the harness on big batches)
ReportWrong ==
    Done =>
      IF mode = "live"
      THEN (\A b \in Blocks : Keys(vb[b]) = DeclLive(b))
           \/ PrintT(ToJson([graph |-> g, wrong |-> "live",
                             got |-> [b \in Blocks |-> Keys(vb[b])], want |-> [b \in Blocks |-> DeclLive(b)]]))
      ELSE ((\A b \in Blocks : vb[b][1] = DeclDef(b) /\ vb[b][2] = DeclMaybe(b))
           \/ PrintT(ToJson([graph |-> g, wrong |-> "assign",
                             got |-> [b \in Blocks |-> vb[b]],
                             want |-> [b \in Blocks |-> <<DeclDef(b), DeclMaybe(b)>>]])))

\* C10: final states with their evidence, one line per distinct final state
ReportFinal == (Done /\ mode = "live") =>
    PrintT(ToJson([graph |-> g, final |-> [b \in Blocks |-> [x \in Vars |-> IF x \in Keys(vb[b]) THEN vb[b][x] ELSE 0 - 1]]]))

\* Termination as a variant: every iteration either changes a value in its monotone
\* direction (bounded) or shrinks the worklist.
LivePotential == Cardinality({<<b, x>> \in Blocks \X Vars :
                     IF x \in Inout THEN x \in Keys(vb[b]) ELSE x \notin Keys(vb[b])})
AssignPotential == Cardinality({<<b, x>> \in Blocks \X Vars : x \in va[b][1]})
                 + Cardinality({<<b, x>> \in Blocks \X Vars :
                     IF x \in PreMaybe THEN x \in va[b][2] ELSE x \notin va[b][2]})
Measure == (IF mode = "live" THEN LivePotential ELSE AssignPotential) * (G.n + 1) + Cardinality(queue)
Variant == [][Measure' < Measure]_vars
Terminates == <>Done
=============================================================================
