SPECIFICATION Spec
CONSTANTS
  MaxWith = 3
  MaxOuter = 1
  MaxInner = 2
  CrossConstructs = TRUE
INVARIANT Report
INVARIANT WalkAgreesWithRule
INVARIANT MonotoneInCallee
INVARIANT AntitoneInContext
INVARIANT ClassicalCallsAllowed
INVARIANT ExemptCallsAllowed
INVARIANT NoContextAcceptsAll
INVARIANT FullyUnitaryCalleeAllowed
INVARIANT OnlyDaggerRestrictsConstructs
INVARIANT PositionIrrelevantForCalls
INVARIANT DoubleDaggerCancels
INVARIANT EnclosingOnlyAdds
CHECK_DEADLOCK FALSE
