SPECIFICATION Spec
CONSTANTS
  MaxParams = 2
  Shapes = {1,2}
  Rich = FALSE
  WithNone = TRUE
  SecondStep = TRUE
  WithIdx <- WithIdxNoShift
INVARIANT InputScoped
INVARIANT MachineIsOperator
INVARIANT InstEqualsNamed
INVARIANT CompositionLaw
INVARIANT IdentityLaw
INVARIANT ResultScoped
INVARIANT FullIsClosed
INVARIANT LoopShape
CHECK_DEADLOCK FALSE
