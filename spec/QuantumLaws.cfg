SPECIFICATION Spec
CONSTANTS
  NQ = 1
  MaxT = 4
INVARIANT Unitarity
INVARIANT CHDocstringMatrixIsNotUnitary
INVARIANT Paulis
INVARIANT Phases
INVARIANT RotationAnchors
INVARIANT RotationGroup
INVARIANT QSystem1
INVARIANT TwoQubit
INVARIANT TwoQubitAngle
INVARIANT ThreeQubit
INVARIANT Projectors
CHECK_DEADLOCK FALSE
