----------------------------- MODULE TypePrint -----------------------------
(* Printed types read back as the same type (guppylang_internals/tys/printing.py TypePrinter,
   tys/parsing.py type_from_ast / arg_from_ast).

   Types are the tagged tuples of module Unify (first-order part):
     <<"num", k>> <<"none">> <<"tup", <<..>>>> <<"opq", name, <<args>>>> <<"struct", name, <<args>>>>
     <<"nat", k>> (const argument)
   Text is a sequence of tokens <<"id", name>> | <<"p", punctuation>> | <<"n", number>>.

   Specified here:
   * Parse: the grammar of Guppy type annotations as a recursive-descent reader over tokens.
     It follows what Python's expression syntax does to the text before arg_from_ast sees it:
     parentheses around a single expression vanish, "(a,)" "(a, b)" "()" are tuple displays, and
     a subscript whose slice is one tuple display has the display's elements as its arguments
     (X[(a, b)] is X[a, b]).  Instantiate mirrors TypeDef.check_instantiate (arity and kinds).
   * RefPrint: a reference printer (tuple displays, and the `tuple[..]` form where a display
     would be taken apart by a subscript).  TLC checks the law Parse(RefPrint(t)) = t on the
     whole universe, which both validates Parse and shows the property is satisfiable.
   * the universe of first-order types (Universe), enumerated by TLC and emitted with
     RefPrint(t) for the replay into the real printer and parser.
   * the naming half: NameUniverse, types with quantified (forall) function components and
     existential variables with clashing display names; Walk reads the names the real
     printer chose off the token stream, following the type; NamesOK = every variable has one
     name and distinct variables have distinct names.
   Serves C31. *)
EXTENDS Naturals, Sequences, FiniteSets, TLC, Json

CONSTANTS
    AtomNames,     \* atomic types: "int","nat","float","none","bool","str","qubit","S0"
    NatVals,       \* const arguments
    MaxTup,        \* tuple arity 0..MaxTup at the outer levels
    MaxTupDeep,    \* tuple arity at the innermost level
    Depth,         \* nesting depth of the universe
    Opq1, Opq2,    \* one-argument / (type, nat)-argument opaque and struct constructors in use
    NameDepth      \* 0: naming universe off, 1: on

\* ---------------------------------------------------------------- terms ----------------
Tag(t) == t[1]
IsConstTerm(t) == Tag(t) \in {"nat", "boolc", "cv", "cbv"}
AtomTerm(n) == CASE n \in {"int", "nat", "float"} -> <<"num", n>>
                 [] n = "none" -> <<"none">>
                 [] n = "S0" -> <<"struct", "S0", <<>>>>
                 [] OTHER -> <<"opq", n, <<>>>>
StructNames == {"S0", "G", "G2"}
Mk(name, args) == IF name \in StructNames THEN <<"struct", name, args>> ELSE <<"opq", name, args>>

RECURSIVE NonCopy(_)
NonCopy(t) ==
    CASE Tag(t) = "tup" -> \E i \in DOMAIN t[2] : NonCopy(t[2][i])
      [] Tag(t) = "opq" -> \/ t[2] \in {"qubit", "array"}
                           \/ \E i \in DOMAIN t[3] : ~IsConstTerm(t[3][i]) /\ NonCopy(t[3][i])
      [] Tag(t) = "struct" -> \/ t[2] = "G2"       \* G2 has an array field: never copyable
                              \/ \E i \in DOMAIN t[3] : ~IsConstTerm(t[3][i]) /\ NonCopy(t[3][i])
      [] OTHER -> FALSE

\* ---------------------------------------------------------------- tokens ---------------
P(c)  == <<"p", c>>
Id(n) == <<"id", n>>
N(k)  == <<"n", k>>
Tok(w, i) == IF i >= 1 /\ i <= Len(w) THEN w[i] ELSE <<"eof", "">>
IsP(w, i, c) == Tok(w, i)[1] = "p" /\ Tok(w, i)[2] = c

\* ---------------------------------------------------------------- Parse ----------------
Err == [ok |-> FALSE, t |-> <<"err">>, i |-> 0, disp |-> FALSE]
Ok(t, i, d) == [ok |-> TRUE, t |-> t, i |-> i, disp |-> d]
IsTy(t) == Tag(t) \in {"num", "none", "tup", "opq", "struct"}
AllTy(s) == \A k \in DOMAIN s : IsTy(s[k])

\* TypeDef.check_instantiate: arity and kinds of the arguments
Instantiate(name, a) ==
    CASE name \in {"int", "nat", "float"} -> IF a = <<>> THEN <<"num", name>> ELSE <<"err">>
      [] name = "None" -> IF a = <<>> THEN <<"none">> ELSE <<"err">>
      [] name \in {"bool", "str", "qubit"} -> IF a = <<>> THEN <<"opq", name, <<>>>> ELSE <<"err">>
      [] name = "S0" -> IF a = <<>> THEN <<"struct", "S0", <<>>>> ELSE <<"err">>
      [] name = "tuple" -> IF AllTy(a) THEN <<"tup", a>> ELSE <<"err">>
      [] name \in {"Option", "G"} -> IF Len(a) = 1 /\ IsTy(a[1]) THEN Mk(name, a) ELSE <<"err">>
      [] name \in {"array", "G2"} ->
            IF Len(a) = 2 /\ IsTy(a[1]) /\ Tag(a[2]) = "nat" THEN Mk(name, a) ELSE <<"err">>
      [] name = "frozenarray" ->
            IF Len(a) = 2 /\ IsTy(a[1]) /\ ~NonCopy(a[1]) /\ Tag(a[2]) = "nat" THEN Mk(name, a) ELSE <<"err">>
      [] OTHER -> <<"err">>

RECURSIVE PExpr(_, _), PTupleRest(_, _, _), PSliceRest(_, _, _)
\* the rest of a tuple display after "e1 ," : elements so far in els
PTupleRest(w, i, els) ==
    IF IsP(w, i, ")") THEN (IF AllTy(els) THEN Ok(<<"tup", els>>, i + 1, TRUE) ELSE Err)
    ELSE LET r == PExpr(w, i) IN
         IF ~r.ok THEN Err
         ELSE IF IsP(w, r.i, ",") THEN PTupleRest(w, r.i + 1, Append(els, r.t))
         ELSE IF IsP(w, r.i, ")") THEN
              (IF AllTy(Append(els, r.t)) THEN Ok(<<"tup", Append(els, r.t)>>, r.i + 1, TRUE) ELSE Err)
         ELSE Err
\* the rest of a subscript slice after "e1 ," : returns the argument list in field t
PSliceRest(w, i, els) ==
    IF IsP(w, i, "]") THEN Ok(els, i + 1, FALSE)
    ELSE LET r == PExpr(w, i) IN
         IF ~r.ok THEN Err
         ELSE IF IsP(w, r.i, ",") THEN PSliceRest(w, r.i + 1, Append(els, r.t))
         ELSE IF IsP(w, r.i, "]") THEN Ok(Append(els, r.t), r.i + 1, FALSE)
         ELSE Err
PExpr(w, i) ==
    LET k == Tok(w, i) IN
    IF k[1] = "n" THEN Ok(<<"nat", k[2]>>, i + 1, FALSE)
    ELSE IF IsP(w, i, "(") THEN
        IF IsP(w, i + 1, ")") THEN Ok(<<"tup", <<>>>>, i + 2, TRUE)
        ELSE LET r == PExpr(w, i + 1) IN
             IF ~r.ok THEN Err
             ELSE IF IsP(w, r.i, ")") THEN Ok(r.t, r.i + 1, r.disp)       \* ( e ) is e
             ELSE IF IsP(w, r.i, ",") THEN PTupleRest(w, r.i + 1, <<r.t>>)
             ELSE Err
    ELSE IF k[1] = "id" THEN
        IF k[2] \in {"True", "False"} THEN Ok(<<"boolc", k[2]>>, i + 1, FALSE)
        ELSE IF IsP(w, i + 1, "[") THEN
            LET r == PExpr(w, i + 2) IN
            IF ~r.ok THEN Err
            ELSE LET s == IF IsP(w, r.i, "]")
                          THEN Ok(IF r.disp THEN r.t[2] ELSE <<r.t>>, r.i + 1, FALSE)  \* X[(a, b)] is X[a, b]
                          ELSE IF IsP(w, r.i, ",") THEN PSliceRest(w, r.i + 1, <<r.t>>)
                          ELSE Err
                 IN IF ~s.ok THEN Err
                    ELSE LET t == Instantiate(k[2], s.t) IN IF t = <<"err">> THEN Err ELSE Ok(t, s.i, FALSE)
        ELSE LET t == Instantiate(k[2], <<>>) IN IF t = <<"err">> THEN Err ELSE Ok(t, i + 1, FALSE)
    ELSE Err

Parse(w) == LET r == PExpr(w, 1) IN
            IF r.ok /\ r.i = Len(w) + 1 /\ IsTy(r.t) THEN r.t ELSE <<"err">>

\* ---------------------------------------------------------------- RefPrint -------------
RECURSIVE Join(_, _)
Join(parts, sep) == IF parts = <<>> THEN <<>>
                    ELSE IF Len(parts) = 1 THEN parts[1]
                    ELSE parts[1] \o sep \o Join(Tail(parts), sep)
Comma == <<P(",")>>

RECURSIVE RP(_, _)
\* sole = TRUE: t is the only argument of a subscript, where a tuple display would be taken apart
RP(t, sole) ==
    CASE Tag(t) = "num" -> <<Id(t[2])>>
      [] Tag(t) = "none" -> <<Id("None")>>
      [] Tag(t) = "nat" -> <<N(t[2])>>
      [] Tag(t) = "tup" ->
            IF sole THEN <<Id("tuple"), P("[")>>
                         \o (IF t[2] = <<>> THEN <<P("("), P(")")>>
                             ELSE Join([k \in DOMAIN t[2] |-> RP(t[2][k], Len(t[2]) = 1)], Comma))
                         \o <<P("]")>>
            ELSE IF Len(t[2]) = 0 THEN <<P("("), P(")")>>
            ELSE IF Len(t[2]) = 1 THEN <<P("(")>> \o RP(t[2][1], FALSE) \o <<P(","), P(")")>>
            ELSE <<P("(")>> \o Join([k \in DOMAIN t[2] |-> RP(t[2][k], FALSE)], Comma) \o <<P(")")>>
      [] Tag(t) \in {"opq", "struct"} ->
            IF t[3] = <<>> THEN <<Id(t[2])>>
            ELSE <<Id(t[2]), P("[")>>
                 \o Join([k \in DOMAIN t[3] |-> RP(t[3][k], Len(t[3]) = 1)], Comma) \o <<P("]")>>
RefPrint(t) == RP(t, FALSE)

\* ---------------------------------------------------------------- universe -------------
Atoms == {AtomTerm(n) : n \in AtomNames}
Consts == {<<"nat", k>> : k \in NatVals}
Tuples(S, n) == UNION {{<<"tup", s>> : s \in [1..k -> S]} : k \in 0..n}
RECURSIVE Types(_)
Types(d) ==
    IF d = 0 THEN Atoms
    ELSE LET S == Types(d - 1) IN
         S \cup Tuples(S, IF d = 1 THEN MaxTupDeep ELSE MaxTup)
           \cup {Mk(o, <<x>>) : o \in Opq1, x \in S}
           \cup UNION {{Mk(o, <<x, c>>) : x \in {y \in S : o # "frozenarray" \/ ~NonCopy(y)}, c \in Consts} : o \in Opq2}
Universe == Types(Depth)

\* ---------------------------------------------------------------- naming half ----------
(* Types with binders:  <<"gfun", uid, <<<<display, kind>>..>>, body>>  a function quantified over
   its params (kind "type" | "nat"), body = <<ins, out>> over <<"b", uid, idx>> (own params),
   existentials <<"ex", id, display>>, atoms, arrays, tuples.  Printed by TypePrinter as
   "forall T, n: nat. ins -> out" (in parentheses inside a row). *)
RECURSIVE Walk(_, _, _, _)
\* follows the printed form of t from position i; reads variable names from the tokens.
\* returns [ok, i, names] with names a set of <<variable identity, printed name>>
WOk(i, nm) == [ok |-> TRUE, i |-> i, names |-> nm]
WErr == [ok |-> FALSE, i |-> 0, names |-> {}]
RECURSIVE WalkSeq(_, _, _, _)
\* comma separated sequence of items (each inside a row); k = next item
WalkSeq(items, w, i, k) ==
    IF k > Len(items) THEN WOk(i, {})
    ELSE LET r == Walk(items[k], w, i, TRUE) IN
         IF ~r.ok THEN WErr
         ELSE IF k = Len(items) THEN r
         ELSE IF ~IsP(w, r.i, ",") THEN WErr
         ELSE LET q == WalkSeq(items, w, r.i + 1, k + 1) IN
              IF q.ok THEN WOk(q.i, r.names \cup q.names) ELSE WErr
RECURSIVE WalkParams(_, _, _, _, _)
WalkParams(uid, ps, w, i, k) ==
    IF k > Len(ps) THEN WOk(i, {})
    ELSE IF Tok(w, i)[1] # "id" THEN WErr
    ELSE LET nm == {<<<<"b", uid, k - 1>>, <<"", Tok(w, i)[2]>>>>}
             j == IF ps[k][2] = "nat" THEN i + 3 ELSE i + 1      \* "n : nat"
             okk == ps[k][2] # "nat" \/ (IsP(w, i + 1, ":") /\ Tok(w, i + 2) = Id("nat"))
         IN IF ~okk THEN WErr
            ELSE IF k = Len(ps) THEN WOk(j, nm)
            ELSE IF ~IsP(w, j, ",") THEN WErr
            ELSE LET q == WalkParams(uid, ps, w, j + 1, k + 1) IN
                 IF q.ok THEN WOk(q.i, nm \cup q.names) ELSE WErr
Walk(t, w, i, inrow) ==
    CASE Tag(t) = "num" -> IF Tok(w, i) = Id(t[2]) THEN WOk(i + 1, {}) ELSE WErr
      [] Tag(t) = "none" -> IF Tok(w, i) = Id("None") THEN WOk(i + 1, {}) ELSE WErr
      [] Tag(t) = "nat" -> IF Tok(w, i) = N(t[2]) THEN WOk(i + 1, {}) ELSE WErr
      [] Tag(t) = "b" -> IF Tok(w, i)[1] = "id" THEN WOk(i + 1, {<<t, <<"", Tok(w, i)[2]>>>>}) ELSE WErr
      [] Tag(t) = "ex" -> IF IsP(w, i, "?") /\ Tok(w, i + 1)[1] = "id"
                          THEN WOk(i + 2, {<<<<"ex", t[2]>>, <<"?", Tok(w, i + 1)[2]>>>>}) ELSE WErr
      [] Tag(t) = "tup" -> IF ~IsP(w, i, "(") THEN WErr
                           ELSE LET r == WalkSeq(t[2], w, i + 1, 1) IN
                                IF r.ok /\ IsP(w, r.i, ")") THEN WOk(r.i + 1, r.names) ELSE WErr
      [] Tag(t) = "opq" -> IF Tok(w, i) # Id(t[2]) THEN WErr
                           ELSE IF t[3] = <<>> THEN WOk(i + 1, {})
                           ELSE IF ~IsP(w, i + 1, "[") THEN WErr
                           ELSE LET r == WalkSeq(t[3], w, i + 2, 1) IN
                                IF r.ok /\ IsP(w, r.i, "]") THEN WOk(r.i + 1, r.names) ELSE WErr
      [] Tag(t) = "gfun" ->
            LET ps == t[3]
                ins == t[4][1]
                out == t[4][2]
                i0 == IF inrow THEN i + 1 ELSE i
                a == IF ps = <<>> THEN WOk(i0, {})
                     ELSE IF Tok(w, i0) # Id("forall") THEN WErr
                     ELSE LET q == WalkParams(t[2], ps, w, i0 + 1, 1) IN
                          IF q.ok /\ IsP(w, q.i, ".") THEN WOk(q.i + 1, q.names) ELSE WErr
            IN IF (inrow /\ ~IsP(w, i, "(")) \/ ~a.ok THEN WErr
               ELSE LET par == Len(ins) # 1
                        b == IF par /\ ~IsP(w, a.i, "(") THEN WErr
                             ELSE WalkSeq(ins, w, IF par THEN a.i + 1 ELSE a.i, 1)
                        bi == IF par THEN b.i + 1 ELSE b.i
                    IN IF ~b.ok \/ (par /\ ~IsP(w, b.i, ")")) \/ ~IsP(w, bi, "->") THEN WErr
                       ELSE LET c == Walk(out, w, bi + 1, TRUE) IN
                            IF ~c.ok \/ (inrow /\ ~IsP(w, c.i, ")")) THEN WErr
                            ELSE WOk(IF inrow THEN c.i + 1 ELSE c.i, a.names \cup b.names \cup c.names)
      [] OTHER -> WErr

ReadNames(t, w) == LET r == Walk(t, w, 1, FALSE) IN
                   IF r.ok /\ r.i = Len(w) + 1 THEN r.names ELSE {<<<<"unreadable">>, <<"", "">>>>}
\* every variable has exactly one printed name, distinct variables have distinct names
NamesOK(nm) == /\ \A p \in nm : p[1] # <<"unreadable">>
               /\ \A p \in nm, q \in nm : (p[1] = q[1]) <=> (p[2] = q[2])
Clashes(nm) == {<<p, q>> \in nm \X nm : p # q /\ ((p[1] = q[1]) # (p[2] = q[2]))}

\* bodies of the quantified functions of the naming universe, over the function's own params
B(u, k) == <<"b", u, k>>
Bodies(u, ps) ==
    IF Len(ps) = 1 THEN {<<<<B(u, 0)>>, B(u, 0)>>, <<<<B(u, 0), <<"num", "int">>>>, <<"tup", <<B(u, 0), B(u, 0)>>>>>>}
    ELSE IF ps[2][2] = "nat" THEN {<<<<<<"opq", "array", <<B(u, 0), B(u, 1)>>>>>>, B(u, 0)>>}
    ELSE {<<<<B(u, 0), B(u, 1)>>, B(u, 0)>>, <<<<B(u, 1)>>, <<"tup", <<B(u, 0), B(u, 1)>>>>>>}
ParamLists == {<<<<"T", "type">>>>, <<<<"U", "type">>>>,
               <<<<"T", "type">>, <<"n", "nat">>>>, <<<<"T", "type">>, <<"T", "type">>>>, <<<<"U", "type">>, <<"T", "type">>>>}
GFuns(u) == UNION {{<<"gfun", u, ps, b>> : b \in Bodies(u, ps)} : ps \in ParamLists}
Exs == {<<"ex", 1, "T">>, <<"ex", 2, "T">>, <<"ex", 3, "U">>}
Comp(u) == GFuns(u) \cup Exs \cup {<<"num", "int">>}
NameUniverse ==
    IF NameDepth = 0 THEN {}
    ELSE GFuns(1)
         \cup {<<"tup", <<x, y>>>> : x \in Comp(1), y \in Comp(2)}
         \cup {<<"tup", <<x, y, z>>>> : x \in GFuns(1), y \in {<<"ex", 1, "T">>, <<"gfun", 2, <<<<"T", "type">>>>, <<<<B(2, 0)>>, B(2, 0)>>>>}, z \in GFuns(3)}
         \cup {<<"gfun", 9, <<>>, <<<<x>>, y>>>> : x \in GFuns(1), y \in GFuns(2)}

\* ---------------------------------------------------------------- model ----------------
VARIABLES ty, phase
vars == <<ty, phase>>
Init == ty \in Universe \cup NameUniverse /\ phase = 0
Next == phase = 0 /\ phase' = 1 /\ ty' = ty
Spec == Init /\ [][Next]_vars

IsNameCase == Tag(ty) = "gfun" \/ (Tag(ty) = "tup" /\ \E k \in DOMAIN ty[2] : Tag(ty[2][k]) \in {"gfun", "ex"})

\* the law: the reference printing reads back as the same type
RefRoundTrip == (phase = 1 /\ ~IsNameCase) => Parse(RefPrint(ty)) = ty
\* one JSON line per case for the replay into the real printer/parser
Emit == phase = 1 => PrintT(ToJson(IF IsNameCase THEN [kind |-> "names", t |-> ty]
                                   ELSE [kind |-> "type", t |-> ty, ref |-> RefPrint(ty)]))
=============================================================================
