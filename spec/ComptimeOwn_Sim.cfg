\* simulation: random bodies of <= 4 statements (run with -simulate -depth 8)
SPECIFICATION Spec
CONSTANTS
  Types = {"Q", "I", "F", "O", "AQ", "AI", "TQ", "SQ", "SA", "TA"}
  Origins = {"owned", "borrowed", "local"}
  MutOps = {"append", "extend", "insert", "pop", "popuse", "remove", "clear", "sort", "reverse", "setitem", "setalias", "delitem", "iadd", "imul1", "imul2", "reinit"}
  MaxOps = 4
  Emit = TRUE
INVARIANT LinearOnce
INVARIANT NoOwnedMutation
INVARIANT RegistryExact
INVARIANT Rejected
INVARIANT Out
CHECK_DEADLOCK FALSE
