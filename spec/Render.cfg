SPECIFICATION Spec
CONSTANTS
  MaxLead = 12
  OptLead = 4
  PrefixCtx = 2
  Indents = {0, 14}
  Bodies <- MCBodies
  MaxLines = 2
  Bases = {1}
  FillShape <- MCFill
INVARIANT InSource
INVARIANT TrimSafe
INVARIANT TrimLeavesOpt
INVARIANT TrimOnlyExcess
INVARIANT RowsAreSource
INVARIANT NumbersIncrease
INVARIANT NumbersShown
INVARIANT ElidedIffMiddle
INVARIANT MarkFollowsSrc
INVARIANT MarkersExact
INVARIANT MarkersInside
INVARIANT SpanColsInterval
INVARIANT LabelOnLastMark
INVARIANT GutterFits
INVARIANT Emit
CHECK_DEADLOCK FALSE
