SPECIFICATION Spec
CONSTANTS
  NegLo = 6
  Hi = 6
  NegStepLo = 3
  StepHi = 3
  Width = 0
  Static = TRUE
  MaxStatic = 6
  Record = TRUE
INVARIANT PrefixOK
INVARIANT DoneOK
INVARIANT SizeOK
CHECK_DEADLOCK FALSE
