---------------------------- MODULE BitVecLaws ----------------------------
(* Design-level check of BitVec64: the limb operators are compared with TLC's
   native integer arithmetic and with the algebraic laws of Python's integer
   semantics, exhaustively over ALL pairs of words at a small width (same
   operators, only the constants NL/LB/FP differ from the 64-bit instance).
   BitVecLaws.cfg   : W = 8 (2 limbs x 4 bits)   - word / integer laws          (thorough)
   BitVecLawsD.cfg  : W = 6 (3 limbs x 2 bits), FP = 3 - all laws incl. dyadic ("float"),
                      exponents {-2, 0, 3}                                        (thorough)
   BitVecLawsQ.cfg  : as D with exponents {-2, 1}                                 (quick)  *)
EXTENDS Integers, Sequences, TLC

CONSTANTS NL, LB, FP,
          ExpsN      \* exponents (shifted by +2: cfg files cannot hold negative numbers) of the dyadic laws
INSTANCE BitVec64

VARIABLES a, b, ph
vars == <<a, b, ph>>
Word == [1..NL -> 0..(B - 1)]
\* two phases so that the W^2 pairs are successor states (checked by all workers)
Init == a \in Word /\ b = Zero(NL) /\ ph = 0
Next == ph = 0 /\ ph' = 1 /\ a' = a /\ b' \in Word
Spec == Init /\ [][Next]_vars

\* ---- native views -------------------------------------------------------------
M == 2^W
RECURSIVE NatOf(_, _)
NatOf(x, i) == IF i > Len(x) THEN 0 ELSE x[i] + B * NatOf(x, i + 1)
U(x) == NatOf(x, 1)                                   \* unsigned value
S(x) == IF U(x) >= M \div 2 THEN U(x) - M ELSE U(x)   \* signed value
ZI(z) == IF z.neg THEN -U(z.mag) ELSE U(z.mag)        \* Z -> native
Mod(n, m) == ((n % m) + m) % m
Sgn(n) == IF n > 0 THEN 1 ELSE IF n < 0 THEN -1 ELSE 0
Abs(n) == IF n < 0 THEN -n ELSE n
PyDiv(x, y) == IF y > 0 THEN x \div y ELSE (-x) \div (-y)        \* floor(x / y)
PyMod(x, y) == x - y * PyDiv(x, y)
RECURSIVE NPow(_, _)
NPow(x, n) == IF n = 0 THEN 1 ELSE x * NPow(x, n - 1)
RECURSIVE PowMod(_, _)
PowMod(x, n) == IF n = 0 THEN 1 % M
                ELSE LET h == PowMod(x, n \div 2)
                     IN  (((h * h) % M) * (IF n % 2 = 1 THEN x ELSE 1)) % M

\* ---- ring and bitwise ---------------------------------------------------------
L_RingOps ==
    /\ U(BvAdd(a, b)) = (U(a) + U(b)) % M
    /\ U(BvSub(a, b)) = Mod(U(a) - U(b), M)
    /\ U(BvMul(a, b)) = (U(a) * U(b)) % M
    /\ U(BvNeg(a)) = Mod(-U(a), M)
    /\ S(BvAdd(a, b)) = S(ZWrap(ZAdd(ZOfS(a), ZOfS(b))))
    /\ ZI(ZAdd(ZOfS(a), ZOfS(b))) = S(a) + S(b)
    /\ ZI(ZSub(ZOfS(a), ZOfU(b))) = S(a) - U(b)
    /\ ZI(ZMul(ZOfS(a), ZOfS(b))) = S(a) * S(b)
L_TwosComplement ==
    /\ BvNeg(a) = BvAdd(BvNot(a), BvOne)
    /\ BvSub(a, b) = BvAdd(a, BvNeg(b))
    /\ BvIsNeg(a) <=> S(a) < 0
    /\ ZWrap(ZOfS(a)) = a /\ ZWrap(ZOfU(a)) = a
    /\ ZI(ZOfS(a)) = S(a) /\ ZI(ZOfU(a)) = U(a)
    /\ U(a) - S(a) \in {0, M}
L_Bitwise ==
    /\ \A j \in 0..(W - 1) :
          /\ NBit(BvAnd(a, b), j) = NBit(a, j) * NBit(b, j)
          /\ NBit(BvOr(a, b), j) = Max(NBit(a, j), NBit(b, j))
          /\ NBit(BvXor(a, b), j) = (NBit(a, j) + NBit(b, j)) % 2
          /\ NBit(BvNot(a), j) = 1 - NBit(a, j)
    /\ BvAdd(BvAnd(a, b), BvOr(a, b)) = BvAdd(a, b)
    /\ BvXor(a, b) = BvSub(BvOr(a, b), BvAnd(a, b))
    /\ S(BvNot(a)) = -S(a) - 1
L_Shifts ==
    \A k \in 0..(W - 1) :
       /\ U(BvShl(a, k)) = (U(a) * 2^k) % M
       /\ U(BvLshr(a, k)) = U(a) \div 2^k
       /\ S(BvAshr(a, k)) = S(a) \div 2^k                 \* floor: Python's >> on negatives
       /\ BvShl(a, k) = BvMul(a, BvShl(BvOne, k))
L_ShiftCounts ==
    ShiftCount(a) = IF U(a) < W THEN U(a) ELSE -1
L_Compare ==
    /\ ZCmp(ZOfS(a), ZOfS(b)) = Sgn(S(a) - S(b))
    /\ ZCmp(ZOfU(a), ZOfU(b)) = Sgn(U(a) - U(b))
    /\ ZCmp(ZOfU(a), ZOfS(b)) = Sgn(U(a) - S(b))
    /\ NCmp(a, b) = Sgn(U(a) - U(b))
    /\ NBitLen(a) = (CHOOSE n \in 0..W : U(a) < 2^n /\ (n = 0 \/ U(a) >= 2^(n - 1)))
\* Python's // and %: q = floor(x/y), x = q*y + r, r has the sign of y, |r| < |y|
L_DivModSigned ==
    U(b) # 0 =>
      LET qr == ZDivMod(ZOfS(a), ZOfS(b))
          q  == ZI(qr[1])
          r  == ZI(qr[2])
      IN  /\ q = PyDiv(S(a), S(b)) /\ r = PyMod(S(a), S(b))
          /\ S(a) = q * S(b) + r
          /\ (r = 0 \/ Sgn(r) = Sgn(S(b))) /\ Abs(r) < Abs(S(b))
          /\ BvAdd(BvMul(ZWrap(qr[1]), b), ZWrap(qr[2])) = a          \* holds on words too
L_DivModUnsigned ==
    U(b) # 0 =>
      LET qr == ZDivMod(ZOfU(a), ZOfU(b))
      IN  /\ ZI(qr[1]) = U(a) \div U(b) /\ ZI(qr[2]) = U(a) % U(b)
          /\ U(NDivMod(a, b, NL)[1]) = U(a) \div U(b) /\ U(NDivMod(a, b, NL)[2]) = U(a) % U(b)
L_DivModMixed ==
    S(b) # 0 =>
      LET qr == ZDivMod(ZOfU(a), ZOfS(b))
      IN  ZI(qr[1]) = PyDiv(U(a), S(b)) /\ ZI(qr[2]) = PyMod(U(a), S(b))
L_Power ==
    /\ U(BvPow(a, b)) = PowMod(U(a), U(b))
    /\ BvPow(a, BvZero) = BvOne
\* ranges of wide integers (products leave the word)
L_Ranges ==
    LET p == ZMul(ZOfS(a), ZOfS(b))
        s == ZAdd(ZOfU(a), ZOfU(b))
    IN  /\ ZInS(p) <=> (-(M \div 2) <= S(a) * S(b) /\ S(a) * S(b) < M \div 2)
        /\ ZInU(p) <=> (0 <= S(a) * S(b) /\ S(a) * S(b) < M)
        /\ ZInU(s) <=> U(a) + U(b) < M
        /\ ZInS(s) <=> U(a) + U(b) < M \div 2
        /\ ZInS(ZOfS(a)) /\ ZInU(ZOfU(a))
        /\ ZInS(ZNeg(ZOfU(a))) <=> U(a) <= M \div 2
        /\ U(ZWrap(p)) = Mod(S(a) * S(b), M)

\* ---- dyadic rationals: value * 2^K is a native integer --------------------------
K == 4                          \* scale; exponents in Exps are >= -2
Exps == {e - 2 : e \in ExpsN}
DV(d, k) == (IF d.s = 1 THEN -1 ELSE 1) * U(d.m) * 2^(d.e + k)     \* d * 2^k
X(ea) == DMk(IF S(a) < 0 THEN 1 ELSE 0, ZOfS(a).mag, ea)
Y(eb) == DMk(IF S(b) < 0 THEN 1 ELSE 0, ZOfS(b).mag, eb)
XV(ea) == S(a) * 2^(ea + K)
YV(eb) == S(b) * 2^(eb + K)
OddPart(n) == CHOOSE o \in 1..Abs(n) : o % 2 = 1 /\ \E j \in 0..W : o * 2^j = Abs(n)
L_DyadicNorm ==
    \A ea \in Exps : /\ DV(X(ea), K) = XV(ea)
                     /\ (S(a) # 0 => X(ea).m[1] % 2 = 1)
                     /\ DBits(X(ea)) = (IF S(a) = 0 THEN 0 ELSE NBitLen(NOfInt(OddPart(S(a)), NL)))
L_DyadicRing ==
    \A ea, eb \in Exps :
       /\ DAlignable(X(ea), Y(eb))
       /\ DV(DAdd(X(ea), Y(eb)), K) = XV(ea) + YV(eb)
       /\ DV(DSub(X(ea), Y(eb)), K) = XV(ea) - YV(eb)
       /\ DMulOk(X(ea), Y(eb))
       /\ DV(DMul(X(ea), Y(eb)), 2 * K) = XV(ea) * YV(eb)
       /\ DCmp(X(ea), Y(eb)) = Sgn(XV(ea) - YV(eb))
L_DyadicInt ==
    \A ea \in Exps :
       /\ ZI(DFloorZ(X(ea))) = XV(ea) \div 2^K
       /\ ZI(DCeilZ(X(ea))) = -((-XV(ea)) \div 2^K)
       /\ ZI(DTruncZ(X(ea))) = Sgn(XV(ea)) * (Abs(XV(ea)) \div 2^K)
L_DyadicDiv ==
    S(b) # 0 => \A ea, eb \in Exps :
       /\ DDivExact(X(ea), Y(eb)) <=> (S(a) % OddPart(S(b)) = 0)
       /\ DDivExact(X(ea), Y(eb)) => DEq(DMul(DDiv(X(ea), Y(eb)), Y(eb)), X(ea))
       /\ ZI(DFloorDivZ(X(ea), Y(eb))) = PyDiv(XV(ea), YV(eb))
\* round-to-nearest-even to FP significant bits, characterised without the algorithm
L_DyadicRound ==
    LET n  == S(a)
        bl == NBitLen(ZOfS(a).mag)
        r  == DRound(DOfZ(ZOfS(a)))
        rv == DV(r, 0)
    IN  /\ DRepr(r)
        /\ DRepr(DOfZ(ZOfS(a))) <=> (n = 0 \/ NBitLen(NOfInt(OddPart(n), NL)) <= FP)
        /\ IF bl <= FP THEN r.e >= 0 /\ rv = n
           ELSE LET ulp == 2^(bl - FP)
                IN  /\ r.e >= 0 /\ rv % ulp = 0
                    /\ 2 * Abs(rv - n) <= ulp
                    /\ (2 * Abs(rv - n) = ulp => (rv \div ulp) % 2 = 0)
L_DyadicPow ==
    \A n \in 0..3 : DPowOk(X(0), n) => DV(DPow(X(0), n), 0) = NPow(S(a), n)

\* ---- the invariants named in the cfg files (evaluated on every pair) ----------------
RingOps == ph = 1 => L_RingOps
TwosComplement == ph = 1 => L_TwosComplement
Bitwise == ph = 1 => L_Bitwise
Shifts == ph = 1 => L_Shifts
ShiftCounts == ph = 1 => L_ShiftCounts
Compare == ph = 1 => L_Compare
DivModSigned == ph = 1 => L_DivModSigned
DivModUnsigned == ph = 1 => L_DivModUnsigned
DivModMixed == ph = 1 => L_DivModMixed
Power == ph = 1 => L_Power
Ranges == ph = 1 => L_Ranges
DyadicNorm == ph = 1 => L_DyadicNorm
DyadicRing == ph = 1 => L_DyadicRing
DyadicInt == ph = 1 => L_DyadicInt
DyadicDiv == ph = 1 => L_DyadicDiv
DyadicRound == ph = 1 => L_DyadicRound
DyadicPow == ph = 1 => L_DyadicPow
=============================================================================
