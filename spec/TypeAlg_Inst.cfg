SPECIFICATION Spec
CONSTANTS
  MaxParams = 3
  Shapes = {2}
  Rich = FALSE
  WithNone = FALSE
  SecondStep = FALSE
INVARIANT InputScoped
INVARIANT MachineIsOperator
INVARIANT InstEqualsNamed
INVARIANT CompositionLaw
INVARIANT IdentityLaw
INVARIANT ResultScoped
INVARIANT FullIsClosed
INVARIANT LoopShape
INVARIANT Emit
CHECK_DEADLOCK FALSE
