---------------------------- MODULE QuantumLaws ----------------------------
(* Complete matrix facts about the gate semantics of QuantumDefs (C20), checked exactly by TLC:
   every documented matrix is unitary for every angle value t*pi/4, and the usual operator
   identities hold.  An operator identity is checked on every basis state of the NQ-qubit
   register and for every qubit assignment, which by linearity proves it as a matrix identity.
   The "state" is just the pair of angle values (a, b) so that TLC spreads the work over its
   workers; every law is an INVARIANT of QuantumLaws.cfg. *)
EXTENDS QuantumDefs

CONSTANT MaxT                    \* angle values a, b range over -MaxT..MaxT (units of pi/4)
VARIABLES a, b
vars == <<a, b>>
Ts == (0 - MaxT)..MaxT
NoVal == 99
\* a is chosen first, then b: the (a, b) states are then generated - and their invariants
\* evaluated - by different TLC workers
Init == a = NoVal /\ b = NoVal
Next == \/ a = NoVal /\ a' \in Ts /\ b' = b
        \/ a # NoVal /\ b = NoVal /\ b' \in Ts /\ a' = a
Spec == Init /\ [][Next]_vars
Ready == a # NoVal /\ b # NoVal          \* laws with angles are evaluated in these states
Once == a = 0 /\ b = 0                   \* laws without angles in this one ...
\* ... or, when there are several values of a, spread over the states (k, 0) for TLC's workers
At(k) == a = (IF MaxT >= 1 THEN k ELSE 0) /\ b = 0

\* ring-valued matrices
RECURSIVE ESum(_, _)
ESum(e, m) == IF m > Len(e) THEN ZeroC
              ELSE AddC(IF e[m][1] = 1 THEN RotC(OneC, e[m][2]) ELSE NegC(RotC(OneC, e[m][2])), ESum(e, m + 1))
RMat(M) == TLCEval([r \in 1..Len(M.m) |-> [c \in 1..Len(M.m) |-> Norm(R(ESum(M.m[r][c], 1), M.k))]])
RECURSIVE DotCol(_, _, _, _, _)
DotCol(A, B, r, c, m) == \* sum_m conj(A[m][r]) * B[m][c]
    IF m > Len(A) THEN Zero ELSE Add(Mul(Conj(A[m][r]), B[m][c]), DotCol(A, B, r, c, m + 1))
IsUnitary(M) == LET A == RMat(M) IN
    \A r, c \in 1..Len(M.m) : Norm(DotCol(A, A, r, c, 1)) = IF r = c THEN One ELSE Zero

\* U^dagger U = 1 for every documented matrix (angles a, b and the half-angle partners a + 8k)
OnceA == Ready /\ b = 0                  \* laws with one angle: once per value of a
Unitarity ==
    /\ At(-1) => \A g \in GateNames : NAngles(g) = 0 => IsUnitary(Mat(g, <<>>))
    /\ OnceA => \A g \in GateNames : NAngles(g) = 1 => IsUnitary(Mat(g, <<a>>)) /\ IsUnitary(Mat(g, <<a + 8>>))
    /\ Ready => IsUnitary(Mat("phased_x", <<a, b>>))
\* the CH matrix exactly as printed in its docstring (1/sqrt2 in front of all 16 entries) is
\* NOT unitary; QuantumDefs!MCH is the controlled-H the text describes
CHDocstringMatrixIsNotUnitary == Once => ~IsUnitary(MCHAsPrinted) /\ IsUnitary(MCH)

G(g, qs, ts) == Op(g, qs, [i \in DOMAIN ts |-> Lit(ts[i])], "p")
RECURSIVE Seq2(_, _, _)
Seq2(s, gs, i) == IF i > Len(gs) THEN s ELSE Seq2(ApplyGate(s, gs[i]), gs, i + 1)
\* gs and hs (applied left to right) are the same operator
Same(gs, hs) == \A k \in Index : StEq(Seq2(Basis(k), gs, 1), Seq2(Basis(k), hs, 1))
\* gs = zeta^j * hs
SamePh(gs, hs, j) == \A k \in Index :
    LET u == Seq2(Basis(k), hs, 1)
    IN StEq(Seq2(Basis(k), gs, 1), St(u.k, [i \in DOMAIN u.a |-> RotC(u.a[i], j)]))
g1(g, q) == G(g, <<q>>, <<>>)

Paulis == Once => \A q \in Qubits :
    /\ Same(<<g1("h", q), g1("z", q), g1("h", q)>>, <<g1("x", q)>>)                \* HZH = X
    /\ Same(<<g1("h", q), g1("h", q)>>, <<>>)
    /\ Same(<<g1("x", q), g1("x", q)>>, <<>>)
    /\ SamePh(<<g1("y", q)>>, <<g1("z", q), g1("x", q)>>, 4)                       \* Y = i XZ
Phases == At(1) => \A q \in Qubits :
    /\ Same(<<g1("s", q), g1("s", q)>>, <<g1("z", q)>>)                            \* S^2 = Z
    /\ Same(<<g1("t", q), g1("t", q)>>, <<g1("s", q)>>)                            \* T^2 = S
    /\ SamePh(<<g1("v", q), g1("v", q)>>, <<g1("x", q)>>, 12)                      \* V^2 = -iX
    /\ Same(<<g1("s", q), g1("sdg", q)>>, <<>>)
    /\ Same(<<g1("t", q), g1("tdg", q)>>, <<>>)
    /\ Same(<<g1("v", q), g1("vdg", q)>>, <<>>)
RotationAnchors == At(-1) => \A q \in Qubits :
    /\ SamePh(<<G("rx", <<q>>, <<4>>)>>, <<g1("x", q)>>, 12)                        \* Rx(pi) = -iX
    /\ SamePh(<<G("ry", <<q>>, <<4>>)>>, <<g1("y", q)>>, 12)
    /\ SamePh(<<G("rz", <<q>>, <<4>>)>>, <<g1("z", q)>>, 12)
    /\ Same(<<g1("v", q)>>, <<G("rx", <<q>>, <<2>>)>>)                              \* V = Rx(pi/2)
    /\ SamePh(<<G("rz", <<q>>, <<1>>)>>, <<g1("t", q)>>, 15)                        \* Rz(pi/4) = e^{-i pi/8} T
    /\ SamePh(<<G("rz", <<q>>, <<2>>)>>, <<g1("s", q)>>, 14)
RotationGroup == Ready => \A q \in Qubits :
    /\ Same(<<G("rz", <<q>>, <<a>>), G("rz", <<q>>, <<b>>)>>, <<G("rz", <<q>>, <<a + b>>)>>)
    /\ Same(<<G("rx", <<q>>, <<a>>), G("rx", <<q>>, <<b>>)>>, <<G("rx", <<q>>, <<a + b>>)>>)
    /\ Same(<<G("ry", <<q>>, <<a>>), G("ry", <<q>>, <<b>>)>>, <<G("ry", <<q>>, <<a + b>>)>>)
    /\ Same(<<G("rx", <<q>>, <<a>>)>>, <<g1("h", q), G("rz", <<q>>, <<a>>), g1("h", q)>>)          \* Rx = H Rz H
    /\ Same(<<G("ry", <<q>>, <<a>>)>>, <<g1("sdg", q), G("rx", <<q>>, <<a>>), g1("s", q)>>)        \* Ry = S Rx Sdg
\* qsystem: PhasedX(a, b) = Rz(b) Rx(a) Rz(-b) as its docstring says; qsystem rz = rz
QSystem1 == Ready => \A q \in Qubits :
    /\ Same(<<G("phased_x", <<q>>, <<a, b>>)>>,
            <<G("rz", <<q>>, <<0 - b>>), G("rx", <<q>>, <<a>>), G("rz", <<q>>, <<b>>)>>)
    /\ Same(<<G("qrz", <<q>>, <<a>>)>>, <<G("rz", <<q>>, <<a>>)>>)

TwoQubit == (At(1) /\ NQ >= 2) => \A qs \in Assign(2) : LET c == qs[1] t == qs[2] IN
    /\ Same(<<G("cx", qs, <<>>), G("cx", qs, <<>>)>>, <<>>)
    /\ Same(<<G("cz", qs, <<>>)>>, <<G("cz", <<t, c>>, <<>>)>>)                     \* CZ symmetric
    /\ Same(<<G("cz", qs, <<>>)>>, <<g1("h", t), G("cx", qs, <<>>), g1("h", t)>>)
    /\ Same(<<G("cy", qs, <<>>)>>, <<g1("sdg", t), G("cx", qs, <<>>), g1("s", t)>>)
    \* CX with swapped roles = conjugation by H on both qubits
    /\ Same(<<G("cx", <<t, c>>, <<>>)>>,
            <<g1("h", c), g1("h", t), G("cx", qs, <<>>), g1("h", c), g1("h", t)>>)
    \* the library's decomposition of CH: ry(target, -pi/4); cz; ry(target, pi/4)
    /\ Same(<<G("ch", qs, <<>>)>>, <<G("ry", <<t>>, <<-1>>), G("cz", qs, <<>>), G("ry", <<t>>, <<1>>)>>)
    /\ Same(<<G("ch", qs, <<>>), G("ch", qs, <<>>)>>, <<>>)
    \* CH applies H to the target iff the control is set
    /\ Same(<<g1("x", c), G("ch", qs, <<>>), g1("x", c), G("ch", qs, <<>>)>>, <<g1("h", t)>>)
    /\ Same(<<G("zz_max", qs, <<>>)>>, <<G("zz_phase", qs, <<2>>)>>)
TwoQubitAngle == (OnceA /\ NQ >= 2) => \A qs \in Assign(2) : LET c == qs[1] t == qs[2] IN
    /\ Same(<<G("crz", qs, <<a>>), G("crz", qs, <<0 - a>>)>>, <<>>)
    \* CRz(a) applies Rz(a) to the target iff the control is set: together with its
    \* control-flipped copy it is Rz(a) on the target
    /\ Same(<<g1("x", c), G("crz", qs, <<a>>), g1("x", c), G("crz", qs, <<a>>)>>, <<G("rz", <<t>>, <<a>>)>>)
    \* ZZPhase(a) = CX Rz_t(a) CX, symmetric in its qubits
    /\ Same(<<G("zz_phase", qs, <<a>>)>>, <<G("cx", qs, <<>>), G("rz", <<t>>, <<a>>), G("cx", qs, <<>>)>>)
    /\ Same(<<G("zz_phase", qs, <<a>>)>>, <<G("zz_phase", <<t, c>>, <<a>>)>>)

ThreeQubit == (Once /\ NQ >= 3) => \A qs \in Assign(3) : LET c1 == qs[1] c2 == qs[2] t == qs[3] IN
    /\ Same(<<G("toffoli", qs, <<>>), G("toffoli", qs, <<>>)>>, <<>>)
    /\ Same(<<G("toffoli", qs, <<>>)>>, <<G("toffoli", <<c2, c1, t>>, <<>>)>>)       \* controls symmetric
    \* Toffoli applies CX(c2, t) iff c1 is set
    /\ Same(<<g1("x", c1), G("toffoli", qs, <<>>), g1("x", c1), G("toffoli", qs, <<>>)>>,
            <<G("cx", <<c2, t>>, <<>>)>>)

\* measurement facts on basis states and uniform superpositions
Projectors == At(-1) => \A q \in Qubits, k \in Index, v \in {0, 1} :
    LET s == Seq2(Basis(k), <<g1("h", q)>>, 1) IN
    /\ Possible(Basis(k), q, v) <=> Bit(k, q) = v
    /\ Possible(s, q, v)
    /\ ~Possible(ProjectReset(s, q, v), q, 1)
    /\ REq(Add(NormSq(Project(s, q, 0)), NormSq(Project(s, q, 1))), One)
=============================================================================
