SPECIFICATION Spec
CONSTANTS
  NQ = 3
  Depth = 1
  Level1 = "core"
  Level2 = "none"
  PrepSet = {2}
INVARIANT Emit
CHECK_DEADLOCK FALSE
