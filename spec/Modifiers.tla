----------------------------- MODULE Modifiers -----------------------------
(* C25 - modifier blocks lower to the matching modifier operations.

   A case is a Guppy function whose body is one `with` statement (or two nested ones)
   carrying a stack of modifier items over {dagger, control(q), control(q, q'),
   control(array), control(array[0]), power(var), power(literal), power(g(q)) - an exponent
   computed by a call that borrows a qubit the body also uses} around a body that uses
   captured qubits, a captured qubit array and a captured classical value.

   Two descriptions of the lowering are given and compared by TLC:

   (1) Expected(stack) - the property statement.  `with m1, ..., mk: body` means, as in
       Python, `with m1: (with m2: ... body)`: the body function is wrapped by ONE
       modifier operation PER item, the first item outermost.  Read from the
       CallIndirect back to the LoadFunc the operations are therefore m1, ..., mk in source
       order; a Control operation has the arity of its item and receives that item's
       qubits, a Power operation receives that item's exponent.

   (2) the algorithm of the implementation, one action per step of
       cfg/builder.py CFGBuilder.visit_With -> nodes.py ModifiedBlock.push_modifier
       (items are sorted into three lists) and compiler/modifier_compiler.py
       compile_modified_block (EmitDagger by parity, EmitPower per power item, EmitControl per
       control item - each prepending its array to the function type -, PrepareArgs in source
       order of the control items, Call).

   Classes(stack) names the stack shapes on which (2) cannot agree with (1); TLC checks
   that the classification is exact (Lowered = Expected  <=>  Classes = {}) and that the
   algorithm preserves the op counts, arities, and the hand-over order of control qubits.
   Every finished case is printed with both chains, its classes, the expected plumbing of
   captured variables (route of every qubit through the call and back) and the expected
   contents of the wrapped functions; checks/C25.py compiles the rendered program with
   /repo's guppylang, projects the HUGR (harness/uni_hugr.py) and compares. *)
EXTENDS Naturals, Sequences, FiniteSets, TLC, Json

CONSTANTS MaxLen,         \* longest stack of a single (non-nested) with
          MaxLenNew,      \* longest stack that contains control(array[0]) or power(g(q)) items
          MaxOuter,       \* longest outer stack of a nested with
          MaxInner,       \* longest inner stack of a nested with
          Bodies,         \* bodies used with single blocks
          NestedBodies    \* bodies used with nested blocks

BaseKinds == {"D", "C1", "C2", "CA", "PV", "PL"}
Kinds == BaseKinds \cup {"CS", "PG"}      \* CS = control(s[0]), PG = power(g(q))
Min(a, b) == IF a < b THEN a ELSE b
Stacks(n) == UNION {[1..k -> BaseKinds] : k \in 1..n} \cup UNION {[1..k -> Kinds] : k \in 1..Min(n, MaxLenNew)}

\* names by item position (positions of an inner stack continue after the outer one)
QA == <<"a1", "a2", "a3", "a4">>      \* first qubit of a control item
QB == <<"b1", "b2", "b3", "b4">>      \* second qubit of a two-qubit control item
QR == <<"r1", "r2", "r3", "r4">>      \* array[qubit, 3] of an array control item
QS == <<"s1", "s2", "s3", "s4">>      \* array[qubit, 2] whose element 0 is a control (control(s[0]))
PK == <<"k1", "k2", "k3", "k4">>      \* nat variable of a power item
PLit == <<"#2", "#3", "#4", "#5">>    \* literal exponent of a power item (position + 1)

Mod(op, arity, src, isarr, opnd) == [op |-> op, arity |-> arity, src |-> src, isarr |-> isarr, opnd |-> opnd]
Item(kind, p) ==
    CASE kind = "D"  -> Mod("Dagger", 0, <<>>, FALSE, "-")
      [] kind = "C1" -> Mod("Control", 1, <<QA[p]>>, FALSE, "-")
      [] kind = "C2" -> Mod("Control", 2, <<QA[p], QB[p]>>, FALSE, "-")
      [] kind = "CA" -> Mod("Control", 3, <<QR[p]>>, TRUE, "-")
      [] kind = "CS" -> Mod("Control", 1, <<QS[p] \o "[0]">>, FALSE, "-")
      [] kind = "PG" -> Mod("Power", 0, <<>>, FALSE, "g(q)")
      [] kind = "PV" -> Mod("Power", 0, <<>>, FALSE, PK[p])
      [] kind = "PL" -> Mod("Power", 0, <<>>, FALSE, PLit[p])
Items(stack, base) == [i \in 1..Len(stack) |-> Item(stack[i], base + i)]

Reverse(s) == [i \in 1..Len(s) |-> s[Len(s) + 1 - i]]
Sel(s, op) == SelectSeq(s, LAMBDA m : m.op = op)
CountOp(s, op) == Len(Sel(s, op))

\* ---- (1) the property ---------------------------------------------------------------------
Expected(stack, base) == Items(stack, base)     \* outermost first = source order

\* ---- shapes on which the implementation's normal form differs ------------------------------
Before(stack, x, y) == \E i, j \in DOMAIN stack : i < j /\ stack[i] \in x /\ stack[j] \in y
Ctl == {"C1", "C2", "CA", "CS"}
Pow == {"PV", "PL", "PG"}
Arity(k) == CASE k = "C1" -> 1 [] k = "C2" -> 2 [] k = "CA" -> 3 [] k = "CS" -> 1 [] OTHER -> 0
CtlArities(stack) == LET c == SelectSeq(stack, LAMBDA k : k \in Ctl) IN [i \in 1..Len(c) |-> Arity(c[i])]
\* exponents of the power items, abstractly: every var/literal item has its own, all g(q) items the same
PowKeys(stack) == LET idx == SelectSeq([i \in 1..Len(stack) |-> i], LAMBDA i : stack[i] \in Pow)
                  IN [n \in 1..Len(idx) |-> IF stack[idx[n]] = "PG" THEN 0 ELSE idx[n]]
\* fixed: the variant of the control emission (see variable ctlfix below)
Classes(stack, fixed) ==
    (IF Cardinality({i \in DOMAIN stack : stack[i] = "D"}) >= 2 THEN {"dagger-repeated"} ELSE {})
    \cup (IF Before(stack, {"D"}, Ctl) THEN {"dagger-before-control"} ELSE {})
    \cup (IF Before(stack, {"D"}, Pow) THEN {"dagger-before-power"} ELSE {})
    \cup (IF Before(stack, Pow, Ctl) THEN {"power-before-control"} ELSE {})
    \cup (IF PowKeys(stack) # Reverse(PowKeys(stack)) THEN {"power-repeated"} ELSE {})
    \cup (IF ~fixed /\ CtlArities(stack) # Reverse(CtlArities(stack)) THEN {"control-arities-crossed"} ELSE {})

StackFlags(stack) ==
    (IF Cardinality({i \in DOMAIN stack : stack[i] = "D"}) % 2 = 1 THEN {"D"} ELSE {})
    \cup (IF \E i \in DOMAIN stack : stack[i] \in Ctl THEN {"C"} ELSE {})
    \cup (IF \E i \in DOMAIN stack : stack[i] \in Pow THEN {"P"} ELSE {})
FlagValue(S) == (IF "C" \in S THEN 1 ELSE 0) + (IF "D" \in S THEN 2 ELSE 0) + (IF "P" \in S THEN 4 ELSE 0)

\* ---- bodies ---------------------------------------------------------------------------------
\* an op: gate/callee name and its operands; q, r qubits, qs array[qubit, 2], kk int
Op(g, args) == [g |-> g, args |-> args]
BodyOps(b) ==
    CASE b = "empty" -> <<>>
      [] b = "h"     -> <<Op("H", <<"q">>)>>
      [] b = "cx_u"  -> <<Op("CX", <<"q", "r">>), Op("call:u", <<"q", "kk">>), Op("H", <<"r">>)>>
      [] b = "arr"   -> <<Op("call:ua", <<"qs">>), Op("H", <<"q">>), Op("call:u", <<"q", "kk">>)>>
LinearNames == {"q", "r", "qs"}
BodyVars(b) == UNION {{BodyOps(b)[i].args[j] : j \in DOMAIN BodyOps(b)[i].args} : i \in DOMAIN BodyOps(b)}
BodyLinear(b) == BodyVars(b) \cap LinearNames
BodyClassical(b) == BodyVars(b) \ LinearNames

\* route events (as produced by harness/uni_hugr.py View.route)
Ev(t, d, slot, elem, g, pos) == [t |-> t, d |-> d, slot |-> slot, elem |-> elem, g |-> g, pos |-> pos]
NoElem == 99
Uses(b, v) ==       \* gates met by variable v, in body order, with the operand position
    LET ops == BodyOps(b)
        idx == SelectSeq([i \in 1..Len(ops) |-> i], LAMBDA i : \E j \in DOMAIN ops[i].args : ops[i].args[j] = v)
    IN [n \in 1..Len(idx) |-> Ev("gate", 0, 0, 0, ops[idx[n]].g,
                                  (CHOOSE j \in DOMAIN ops[idx[n]].args : ops[idx[n]].args[j] = v) - 1)]

\* control variables of a block (the function parameters borrowed by its control items) and
\* the call slot / element through which each travels; slot = index among the control items
ItemVars(kind, p) == CASE kind = "C1" -> <<QA[p]>> [] kind = "C2" -> <<QA[p], QB[p]>>
                       [] kind = "CA" -> <<QR[p]>> [] kind = "CS" -> <<QS[p]>> [] OTHER -> <<>>
Range(f) == {f[x] : x \in DOMAIN f}
CtlIdx(stack) == SelectSeq([i \in 1..Len(stack) |-> i], LAMBDA i : stack[i] \in Ctl)
CtlNames(stack, base) == UNION {Range(ItemVars(stack[i], base + i)) : i \in {j \in DOMAIN stack : stack[j] \in Ctl}}
CtlEvent(stack, base, v, depth) ==
    LET idx == CtlIdx(stack)
        s == CHOOSE s \in DOMAIN idx : v \in Range(ItemVars(stack[idx[s]], base + idx[s]))
        vs == ItemVars(stack[idx[s]], base + idx[s])
        e == CHOOSE e \in DOMAIN vs : vs[e] = v
    IN Ev("ctrl", depth, s - 1, IF stack[idx[s]] = "CA" THEN NoElem ELSE e - 1, "-", 0)
PowVars(stack, base) == {Items(stack, base)[i].opnd : i \in {j \in DOMAIN stack : stack[j] = "PV"}}
NumPG(stack) == Cardinality({i \in DOMAIN stack : stack[i] = "PG"})
HasPG(stack) == NumPG(stack) > 0
GCalls(n) == [k \in 1..n |-> Ev("gate", 0, 0, 0, "call:g", 0)]      \* g(q) evaluated n times

\* ---- cases --------------------------------------------------------------------------------------
Case(outer, inner, body) == [outer |-> outer, inner |-> inner, body |-> body]
Nested(c) == Len(c.inner) > 0
\* captured (non-control) inputs of each block's call: set of names
Captured(c) ==
    LET no == Len(c.outer)
        inner == BodyVars(c.body)
    IN IF Nested(c)
       THEN << CtlNames(c.inner, no) \cup PowVars(c.inner, no) \cup (IF HasPG(c.inner) THEN {"q"} ELSE {}) \cup inner,
               inner >>
       ELSE << inner >>
\* expected route of every linear variable: control qubits enter their block's call in their
\* slot; body variables are captured by every enclosing block; q additionally passes through
\* g(q) once per power(g(q)) item, where that item is evaluated (before the call of its block)
Routes(c) ==
    LET no == Len(c.outer)
        oc == CtlNames(c.outer, 0)
        ic == IF Nested(c) THEN CtlNames(c.inner, no) ELSE {}
        bl == BodyLinear(c.body) \cup (IF HasPG(c.outer) \/ HasPG(c.inner) THEN {"q"} ELSE {})
        cap(d) == Ev("cap", d, 0, 0, "-", 0)
        qin(v, l) == v \in Captured(c)[l]
    IN [v \in oc \cup ic \cup bl |->
          IF v \in oc THEN <<CtlEvent(c.outer, 0, v, 0)>>
          ELSE IF v \in ic THEN <<cap(0), CtlEvent(c.inner, no, v, 1)>>
          ELSE (IF v = "q" THEN GCalls(NumPG(c.outer)) ELSE <<>>)
               \o (IF qin(v, 1) THEN <<cap(0)>> ELSE <<>>)
               \o (IF Nested(c) /\ v = "q" THEN GCalls(NumPG(c.inner)) ELSE <<>>)
               \o (IF Nested(c) /\ qin(v, 2) THEN <<cap(1)>> ELSE <<>>)
               \o (IF v \in BodyLinear(c.body) THEN Uses(c.body, v) ELSE <<>>)]
GateNames(b) == [i \in DOMAIN BodyOps(b) |-> BodyOps(b)[i].g]

\* ---- (2) the implementation's algorithm -----------------------------------------------------------
\* ctlfix selects between two variants of EmitControl: FALSE = the pinned implementation (control
\* items wrapped in source order, i.e. the first control innermost, while the arrays are handed over
\* in source order); TRUE = control items wrapped last-to-first (first control outermost), which is
\* the repair proposed for the crossed arities.  Both variants are explored and printed; the
\* conformance check accepts the compiled chain of either (and reports the classes of that one).
\* qver / capver model the rebinding of the captured qubit q: evaluating g(q) for a power operand
\* rebinds q to the call's output (qver + 1); the implementation reads the wires of the captured
\* variables (ReadCaptured) BEFORE it compiles the power operands, so the call consumes a stale
\* wire of q whenever q is both captured and borrowed by an operand (linok = FALSE).
VARIABLES pc, cs, ctlfix, lvl, i, dag, ctl, pow, fn, fnin, args, res, qver, capver
vars == <<pc, cs, ctlfix, lvl, i, dag, ctl, pow, fn, fnin, args, res, qver, capver>>

CurStack == IF lvl = 1 THEN cs.outer ELSE cs.inner
CurBase == IF lvl = 1 THEN 0 ELSE Len(cs.outer)
CurItems == Items(CurStack, CurBase)

Init == /\ pc = "outer" /\ cs = Case(<<>>, <<>>, "empty") /\ ctlfix \in BOOLEAN /\ lvl = 1 /\ i = 1
        /\ dag = <<>> /\ ctl = <<>> /\ pow = <<>> /\ fn = <<>> /\ fnin = <<>> /\ args = <<>> /\ res = <<>>
        /\ qver = 0 /\ capver = 0

ChooseOuter == /\ pc = "outer"
               /\ \E s \in Stacks(MaxLen) : cs' = [cs EXCEPT !.outer = s]
               /\ pc' = "inner"
               /\ UNCHANGED <<ctlfix, lvl, i, dag, ctl, pow, fn, fnin, args, res, qver, capver>>
ChooseInnerBody ==
    /\ pc = "inner"
    /\ \/ \E b \in Bodies : cs' = [cs EXCEPT !.body = b]
       \/ /\ Len(cs.outer) <= MaxOuter
          /\ \E s \in Stacks(MaxInner), b \in NestedBodies : cs' = [cs EXCEPT !.inner = s, !.body = b]
    /\ pc' = "push"
    /\ UNCHANGED <<ctlfix, lvl, i, dag, ctl, pow, fn, fnin, args, res, qver, capver>>

\* ModifiedBlock.push_modifier: items are sorted by kind into three lists
Push == /\ pc = "push"
        /\ IF i <= Len(CurItems)
           THEN /\ dag' = IF CurItems[i].op = "Dagger" THEN Append(dag, CurItems[i]) ELSE dag
                /\ ctl' = IF CurItems[i].op = "Control" THEN Append(ctl, CurItems[i]) ELSE ctl
                /\ pow' = IF CurItems[i].op = "Power" THEN Append(pow, CurItems[i]) ELSE pow
                /\ i' = i + 1 /\ pc' = pc
           ELSE /\ pc' = "read" /\ i' = 1 /\ UNCHANGED <<dag, ctl, pow>>
        /\ UNCHANGED <<cs, ctlfix, lvl, fn, fnin, args, res, qver, capver>>
\* `args = [dfg[v] for v in captured]` - placed before "Apply modifiers" in compile_modified_block
ReadCaptured == /\ pc = "read"
                /\ capver' = qver
                /\ pc' = "dagger"
                /\ UNCHANGED <<cs, ctlfix, lvl, i, dag, ctl, pow, fn, fnin, args, res, qver>>
\* `if modified_block.has_dagger()` - one DaggerModifier iff the number of daggers is odd
EmitDagger == /\ pc = "dagger"
              /\ fn' = IF Len(dag) % 2 = 1 THEN Append(fn, Mod("Dagger", 0, <<>>, FALSE, "-")) ELSE fn
              /\ pc' = "power"
              /\ UNCHANGED <<cs, ctlfix, lvl, i, dag, ctl, pow, fnin, args, res, qver, capver>>
\* `for power in modified_block.power` - in source order, applied on top of each other
EmitPower == /\ pc = "power"
             /\ IF i <= Len(pow)
                THEN /\ fn' = Append(fn, Mod("Power", 0, <<>>, FALSE, pow[i].opnd)) /\ i' = i + 1 /\ pc' = pc
                     /\ qver' = IF pow[i].opnd = "g(q)" THEN qver + 1 ELSE qver      \* g(q) rebinds q
                ELSE fn' = fn /\ i' = 1 /\ pc' = "control" /\ qver' = qver
             /\ UNCHANGED <<cs, ctlfix, lvl, dag, ctl, pow, fnin, args, res, capver>>
\* `for control in modified_block.control` - the new array type is PREPENDED to the inputs
EmitControl == /\ pc = "control"
               /\ IF i <= Len(ctl)
                  THEN /\ LET k == IF ctlfix THEN Len(ctl) + 1 - i ELSE i IN
                          /\ fn' = Append(fn, Mod("Control", ctl[k].arity, <<>>, FALSE, "-"))
                          /\ fnin' = <<ctl[k].arity>> \o fnin
                       /\ i' = i + 1 /\ pc' = pc
                  ELSE fn' = fn /\ fnin' = fnin /\ i' = 1 /\ pc' = "args"
               /\ UNCHANGED <<cs, ctlfix, lvl, dag, ctl, pow, args, res, qver, capver>>
\* "Prepare control arguments": one array per control item, in source order
PrepareArgs == /\ pc = "args"
               /\ args' = [k \in 1..Len(ctl) |-> [src |-> ctl[k].src, isarr |-> ctl[k].isarr]]
               /\ pc' = "call"
               /\ UNCHANGED <<cs, ctlfix, lvl, i, dag, ctl, pow, fn, fnin, res, qver, capver>>
\* observable chain of the emitted call: ops outermost first; the k-th Control op (counted
\* from the outside) owns input slot k of the call and therefore receives args[k]
Lowered ==
    LET out == Reverse(fn)
        rank(n) == Len(Sel(SubSeq(out, 1, n), "Control"))
    IN [n \in 1..Len(out) |->
          IF out[n].op = "Control"
          THEN Mod("Control", out[n].arity, args[rank(n)].src, args[rank(n)].isarr, "-")
          ELSE out[n]]
Call == /\ pc = "call"
        /\ res' = Append(res, [chain |-> Lowered, fnin |-> fnin,
                               argar |-> [k \in 1..Len(args) |-> IF args[k].isarr THEN 3 ELSE Len(args[k].src)],
                               linok |-> ("q" \notin Captured(cs)[lvl]) \/ capver = qver])
        /\ IF lvl = 1 /\ Nested(cs)
           THEN /\ lvl' = 2 /\ pc' = "push" /\ i' = 1
                /\ dag' = <<>> /\ ctl' = <<>> /\ pow' = <<>> /\ fn' = <<>> /\ fnin' = <<>> /\ args' = <<>>
                /\ qver' = 0 /\ capver' = 0
           ELSE /\ pc' = "done" /\ UNCHANGED <<lvl, i, dag, ctl, pow, fn, fnin, args, qver, capver>>
        /\ UNCHANGED <<cs, ctlfix>>
Next == ChooseOuter \/ ChooseInnerBody \/ Push \/ ReadCaptured \/ EmitDagger \/ EmitPower \/ EmitControl \/ PrepareArgs \/ Call
Spec == Init /\ [][Next]_vars

\* ---- what is printed for the conformance check ------------------------------------------------------
StackOf(l) == IF l = 1 THEN cs.outer ELSE cs.inner
BaseOf(l) == IF l = 1 THEN 0 ELSE Len(cs.outer)
Levels == IF Nested(cs) THEN {1, 2} ELSE {1}
Report == pc = "done" =>
    PrintT(ToJson([case |-> cs, ctlfix |-> ctlfix,
                   expected |-> [l \in Levels |-> Expected(StackOf(l), BaseOf(l))],
                   lowered |-> [l \in Levels |-> res[l].chain],
                   welltyped |-> [l \in Levels |-> res[l].fnin = res[l].argar],
                   linearok |-> [l \in Levels |-> res[l].linok],
                   mayreject |-> (\E x \in Range(cs.outer) \cup Range(cs.inner) : x = "CS"),
                   classes |-> [l \in Levels |-> Classes(StackOf(l), ctlfix)],
                   unitary |-> [l \in Levels |-> FlagValue(StackFlags(StackOf(l)))],
                   routes |-> Routes(cs),
                   captured |-> Captured(cs),
                   bodyops |-> GateNames(cs.body),
                   body |-> BodyOps(cs.body)]))

\* ---- properties of the algorithm, checked by TLC ---------------------------------------------------------
Done == pc = "done"
\* the classification of deviating shapes is exact
ClassesExact == Done => \A l \in Levels :
    (res[l].chain = Expected(StackOf(l), BaseOf(l))) <=> (Classes(StackOf(l), ctlfix) = {})
\* the call is well typed exactly when the control arities are not crossed
WellTypedIffNotCrossed == Done => \A l \in Levels :
    (res[l].fnin = res[l].argar) <=> ("control-arities-crossed" \notin Classes(StackOf(l), ctlfix))
\* what the algorithm does preserve
ControlsPreserved == Done => \A l \in Levels :
    LET e == Sel(Expected(StackOf(l), BaseOf(l)), "Control")
        m == Sel(res[l].chain, "Control")
    IN /\ Len(m) = Len(e)
       /\ \A k \in DOMAIN m : m[k].src = e[k].src /\ m[k].isarr = e[k].isarr      \* hand-over in source order
       /\ \A k \in DOMAIN m : m[k].arity = e[IF ctlfix THEN k ELSE Len(e) + 1 - k].arity   \* arities reversed unless fixed
PowersPreserved == Done => \A l \in Levels :
    LET e == Sel(Expected(StackOf(l), BaseOf(l)), "Power")
        m == Sel(res[l].chain, "Power")
    IN Len(m) = Len(e) /\ \A k \in DOMAIN m : m[k].opnd = e[Len(e) + 1 - k].opnd
\* the repaired variant always produces a well-typed call
FixIsWellTyped == (Done /\ ctlfix) => \A l \in Levels : res[l].fnin = res[l].argar
\* the stale-wire defect arises exactly when an operand borrows the captured q
StaleWireExact == Done => \A l \in Levels :
    res[l].linok <=> ~(HasPG(StackOf(l)) /\ "q" \in Captured(cs)[l])
DaggerByParity == Done => \A l \in Levels :
    CountOp(res[l].chain, "Dagger") = CountOp(Expected(StackOf(l), BaseOf(l)), "Dagger") % 2
\* the flags recorded for the block agree with the operations emitted
FlagsAgreeWithOps == Done => \A l \in Levels :
    /\ ("D" \in StackFlags(StackOf(l))) <=> (CountOp(res[l].chain, "Dagger") = 1)
    /\ ("C" \in StackFlags(StackOf(l))) <=> (CountOp(res[l].chain, "Control") > 0)
    /\ ("P" \in StackFlags(StackOf(l))) <=> (CountOp(res[l].chain, "Power") > 0)
\* normal form of the emitted chain: controls, then powers, then at most one dagger
NormalForm == Done => \A l \in Levels : \A a, b \in DOMAIN res[l].chain :
    a < b => <<res[l].chain[a].op, res[l].chain[b].op>> \in
             {<<"Control", "Control">>, <<"Control", "Power">>, <<"Control", "Dagger">>,
              <<"Power", "Power">>, <<"Power", "Dagger">>}
=============================================================================
