----------------------------- MODULE Modifiers -----------------------------
(* C25 - modifier blocks lower to the matching modifier operations.

   A case is a Guppy function whose body is one `with` statement (or two nested ones)
   carrying a stack of modifier items over {dagger, control(q), control(q, q'),
   control(array), power(var), power(literal)} around a body that uses captured qubits,
   a captured qubit array and a captured classical value.

   Two descriptions of the lowering are given and compared by TLC:

   (1) Expected(stack) - the property statement.  `with m1, ..., mk: body` means, as in
       Python, `with m1: (with m2: ... body)`: the body function is wrapped by ONE
       modifier operation PER item, the first item outermost.  Read from the
       CallIndirect back to the LoadFunc the operations are therefore m1, ..., mk in source
       order; a Control operation has the arity of its item and receives that item's
       qubits, a Power operation receives that item's exponent.

   (2) the algorithm of the implementation, one action per step of
       cfg/builder.py CFGBuilder.visit_With -> nodes.py ModifiedBlock.push_modifier
       (items are sorted into three lists) and compiler/modifier_compiler.py
       compile_modified_block (EmitDagger by parity, EmitPower per power item, EmitControl per
       control item - each prepending its array to the function type -, PrepareArgs in source
       order of the control items, Call).

   Classes(stack) names the stack shapes on which (2) cannot agree with (1); TLC checks
   that the classification is exact (Lowered = Expected  <=>  Classes = {}) and that the
   algorithm preserves the op counts, arities, and the hand-over order of control qubits.
   Every finished case is printed with both chains, its classes, the expected plumbing of
   captured variables (route of every qubit through the call and back) and the expected
   contents of the wrapped functions; checks/C25.py compiles the rendered program with
   /repo's guppylang, projects the HUGR (harness/uni_hugr.py) and compares. *)
EXTENDS Naturals, Sequences, FiniteSets, TLC, Json

CONSTANTS MaxLen,         \* longest stack of a single (non-nested) with
          MaxOuter,       \* longest outer stack of a nested with
          MaxInner,       \* longest inner stack of a nested with
          Bodies,         \* bodies used with single blocks
          NestedBodies    \* bodies used with nested blocks

Kinds == {"D", "C1", "C2", "CA", "PV", "PL"}
Stacks(n) == UNION {[1..k -> Kinds] : k \in 1..n}

\* names by item position (positions of an inner stack continue after the outer one)
QA == <<"a1", "a2", "a3", "a4">>      \* first qubit of a control item
QB == <<"b1", "b2", "b3", "b4">>      \* second qubit of a two-qubit control item
QR == <<"r1", "r2", "r3", "r4">>      \* array[qubit, 3] of an array control item
PK == <<"k1", "k2", "k3", "k4">>      \* nat variable of a power item
PLit == <<"#2", "#3", "#4", "#5">>    \* literal exponent of a power item (position + 1)

Mod(op, arity, src, isarr, opnd) == [op |-> op, arity |-> arity, src |-> src, isarr |-> isarr, opnd |-> opnd]
Item(kind, p) ==
    CASE kind = "D"  -> Mod("Dagger", 0, <<>>, FALSE, "-")
      [] kind = "C1" -> Mod("Control", 1, <<QA[p]>>, FALSE, "-")
      [] kind = "C2" -> Mod("Control", 2, <<QA[p], QB[p]>>, FALSE, "-")
      [] kind = "CA" -> Mod("Control", 3, <<QR[p]>>, TRUE, "-")
      [] kind = "PV" -> Mod("Power", 0, <<>>, FALSE, PK[p])
      [] kind = "PL" -> Mod("Power", 0, <<>>, FALSE, PLit[p])
Items(stack, base) == [i \in 1..Len(stack) |-> Item(stack[i], base + i)]

Reverse(s) == [i \in 1..Len(s) |-> s[Len(s) + 1 - i]]
Sel(s, op) == SelectSeq(s, LAMBDA m : m.op = op)
CountOp(s, op) == Len(Sel(s, op))

\* ---- (1) the property ---------------------------------------------------------------------
Expected(stack, base) == Items(stack, base)     \* outermost first = source order

\* ---- shapes on which the implementation's normal form differs ------------------------------
Before(stack, x, y) == \E i, j \in DOMAIN stack : i < j /\ stack[i] \in x /\ stack[j] \in y
Ctl == {"C1", "C2", "CA"}
Pow == {"PV", "PL"}
Arity(k) == CASE k = "C1" -> 1 [] k = "C2" -> 2 [] k = "CA" -> 3 [] OTHER -> 0
CtlArities(stack) == LET c == SelectSeq(stack, LAMBDA k : k \in Ctl) IN [i \in 1..Len(c) |-> Arity(c[i])]
\* fixed: the variant of the control emission (see variable ctlfix below)
Classes(stack, fixed) ==
    (IF Cardinality({i \in DOMAIN stack : stack[i] = "D"}) >= 2 THEN {"dagger-repeated"} ELSE {})
    \cup (IF Before(stack, {"D"}, Ctl) THEN {"dagger-before-control"} ELSE {})
    \cup (IF Before(stack, {"D"}, Pow) THEN {"dagger-before-power"} ELSE {})
    \cup (IF Before(stack, Pow, Ctl) THEN {"power-before-control"} ELSE {})
    \cup (IF Cardinality({i \in DOMAIN stack : stack[i] \in Pow}) >= 2 THEN {"power-repeated"} ELSE {})
    \cup (IF ~fixed /\ CtlArities(stack) # Reverse(CtlArities(stack)) THEN {"control-arities-crossed"} ELSE {})

StackFlags(stack) ==
    (IF Cardinality({i \in DOMAIN stack : stack[i] = "D"}) % 2 = 1 THEN {"D"} ELSE {})
    \cup (IF \E i \in DOMAIN stack : stack[i] \in Ctl THEN {"C"} ELSE {})
    \cup (IF \E i \in DOMAIN stack : stack[i] \in Pow THEN {"P"} ELSE {})
FlagValue(S) == (IF "C" \in S THEN 1 ELSE 0) + (IF "D" \in S THEN 2 ELSE 0) + (IF "P" \in S THEN 4 ELSE 0)

\* ---- bodies ---------------------------------------------------------------------------------
\* an op: gate/callee name and its operands; q, r qubits, qs array[qubit, 2], kk int
Op(g, args) == [g |-> g, args |-> args]
BodyOps(b) ==
    CASE b = "empty" -> <<>>
      [] b = "h"     -> <<Op("H", <<"q">>)>>
      [] b = "cx_u"  -> <<Op("CX", <<"q", "r">>), Op("call:u", <<"q", "kk">>), Op("H", <<"r">>)>>
      [] b = "arr"   -> <<Op("call:ua", <<"qs">>), Op("H", <<"q">>), Op("call:u", <<"q", "kk">>)>>
LinearNames == {"q", "r", "qs"}
BodyVars(b) == UNION {{BodyOps(b)[i].args[j] : j \in DOMAIN BodyOps(b)[i].args} : i \in DOMAIN BodyOps(b)}
BodyLinear(b) == BodyVars(b) \cap LinearNames
BodyClassical(b) == BodyVars(b) \ LinearNames

\* route events (as produced by harness/uni_hugr.py View.route)
Ev(t, d, slot, elem, g, pos) == [t |-> t, d |-> d, slot |-> slot, elem |-> elem, g |-> g, pos |-> pos]
NoElem == 99
Uses(b, v) ==       \* gates met by variable v, in body order, with the operand position
    LET ops == BodyOps(b)
        idx == SelectSeq([i \in 1..Len(ops) |-> i], LAMBDA i : \E j \in DOMAIN ops[i].args : ops[i].args[j] = v)
    IN [n \in 1..Len(idx) |-> Ev("gate", 0, 0, 0, ops[idx[n]].g,
                                  (CHOOSE j \in DOMAIN ops[idx[n]].args : ops[idx[n]].args[j] = v) - 1)]

\* control variables of a block: name -> <<slot, elem>>; slot = index among the control items
CtlItems(stack, base) == Sel(Items(stack, base), "Control")
CtlNames(stack, base) == UNION {{CtlItems(stack, base)[s].src[e] : e \in DOMAIN CtlItems(stack, base)[s].src}
                                : s \in DOMAIN CtlItems(stack, base)}
CtlEvent(stack, base, v, depth) ==
    LET c == CtlItems(stack, base)
        s == CHOOSE s \in DOMAIN c : \E e \in DOMAIN c[s].src : c[s].src[e] = v
        e == CHOOSE e \in DOMAIN c[s].src : c[s].src[e] = v
    IN Ev("ctrl", depth, s - 1, IF c[s].isarr THEN NoElem ELSE e - 1, "-", 0)
PowVars(stack, base) == {Items(stack, base)[i].opnd : i \in {j \in DOMAIN stack : stack[j] = "PV"}}

\* ---- cases --------------------------------------------------------------------------------------
Case(outer, inner, body) == [outer |-> outer, inner |-> inner, body |-> body]
Nested(c) == Len(c.inner) > 0
\* expected route of every linear variable
Routes(c) ==
    LET no == Len(c.outer)
        oc == CtlNames(c.outer, 0)
        ic == IF Nested(c) THEN CtlNames(c.inner, no) ELSE {}
        bl == BodyLinear(c.body)
        cap(d) == Ev("cap", d, 0, 0, "-", 0)
    IN [v \in oc \cup ic \cup bl |->
          IF v \in oc THEN <<CtlEvent(c.outer, 0, v, 0)>>
          ELSE IF v \in ic THEN <<cap(0), CtlEvent(c.inner, no, v, 1)>>
          ELSE IF Nested(c) THEN <<cap(0), cap(1)>> \o Uses(c.body, v)
          ELSE <<cap(0)>> \o Uses(c.body, v)]
\* captured (non-control) inputs of each block's call: set of names
Captured(c) ==
    LET no == Len(c.outer)
        inner == BodyVars(c.body)
    IN IF Nested(c)
       THEN << CtlNames(c.inner, no) \cup PowVars(c.inner, no) \cup inner, inner >>
       ELSE << inner >>
GateNames(b) == [i \in DOMAIN BodyOps(b) |-> BodyOps(b)[i].g]

\* ---- (2) the implementation's algorithm -----------------------------------------------------------
\* ctlfix selects between two variants of EmitControl: FALSE = the pinned implementation (control
\* items wrapped in source order, i.e. the first control innermost, while the arrays are handed over
\* in source order); TRUE = control items wrapped last-to-first (first control outermost), which is
\* the repair proposed for the crossed arities.  Both variants are explored and printed; the
\* conformance check accepts the compiled chain of either (and reports the classes of that one).
VARIABLES pc, cs, ctlfix, lvl, i, dag, ctl, pow, fn, fnin, args, res
vars == <<pc, cs, ctlfix, lvl, i, dag, ctl, pow, fn, fnin, args, res>>

CurStack == IF lvl = 1 THEN cs.outer ELSE cs.inner
CurBase == IF lvl = 1 THEN 0 ELSE Len(cs.outer)
CurItems == Items(CurStack, CurBase)

Init == /\ pc = "outer" /\ cs = Case(<<>>, <<>>, "empty") /\ ctlfix \in BOOLEAN /\ lvl = 1 /\ i = 1
        /\ dag = <<>> /\ ctl = <<>> /\ pow = <<>> /\ fn = <<>> /\ fnin = <<>> /\ args = <<>> /\ res = <<>>

ChooseOuter == /\ pc = "outer"
               /\ \E s \in Stacks(MaxLen) : cs' = [cs EXCEPT !.outer = s]
               /\ pc' = "inner"
               /\ UNCHANGED <<ctlfix, lvl, i, dag, ctl, pow, fn, fnin, args, res>>
ChooseInnerBody ==
    /\ pc = "inner"
    /\ \/ \E b \in Bodies : cs' = [cs EXCEPT !.body = b]
       \/ /\ Len(cs.outer) <= MaxOuter
          /\ \E s \in Stacks(MaxInner), b \in NestedBodies : cs' = [cs EXCEPT !.inner = s, !.body = b]
    /\ pc' = "push"
    /\ UNCHANGED <<ctlfix, lvl, i, dag, ctl, pow, fn, fnin, args, res>>

\* ModifiedBlock.push_modifier: items are sorted by kind into three lists
Push == /\ pc = "push"
        /\ IF i <= Len(CurItems)
           THEN /\ dag' = IF CurItems[i].op = "Dagger" THEN Append(dag, CurItems[i]) ELSE dag
                /\ ctl' = IF CurItems[i].op = "Control" THEN Append(ctl, CurItems[i]) ELSE ctl
                /\ pow' = IF CurItems[i].op = "Power" THEN Append(pow, CurItems[i]) ELSE pow
                /\ i' = i + 1 /\ pc' = pc
           ELSE /\ pc' = "dagger" /\ i' = 1 /\ UNCHANGED <<dag, ctl, pow>>
        /\ UNCHANGED <<cs, ctlfix, lvl, fn, fnin, args, res>>
\* `if modified_block.has_dagger()` - one DaggerModifier iff the number of daggers is odd
EmitDagger == /\ pc = "dagger"
              /\ fn' = IF Len(dag) % 2 = 1 THEN Append(fn, Mod("Dagger", 0, <<>>, FALSE, "-")) ELSE fn
              /\ pc' = "power"
              /\ UNCHANGED <<cs, ctlfix, lvl, i, dag, ctl, pow, fnin, args, res>>
\* `for power in modified_block.power` - in source order, applied on top of each other
EmitPower == /\ pc = "power"
             /\ IF i <= Len(pow)
                THEN fn' = Append(fn, Mod("Power", 0, <<>>, FALSE, pow[i].opnd)) /\ i' = i + 1 /\ pc' = pc
                ELSE fn' = fn /\ i' = 1 /\ pc' = "control"
             /\ UNCHANGED <<cs, ctlfix, lvl, dag, ctl, pow, fnin, args, res>>
\* `for control in modified_block.control` - the new array type is PREPENDED to the inputs
EmitControl == /\ pc = "control"
               /\ IF i <= Len(ctl)
                  THEN /\ LET k == IF ctlfix THEN Len(ctl) + 1 - i ELSE i IN
                          /\ fn' = Append(fn, Mod("Control", ctl[k].arity, <<>>, FALSE, "-"))
                          /\ fnin' = <<ctl[k].arity>> \o fnin
                       /\ i' = i + 1 /\ pc' = pc
                  ELSE fn' = fn /\ fnin' = fnin /\ i' = 1 /\ pc' = "args"
               /\ UNCHANGED <<cs, ctlfix, lvl, dag, ctl, pow, args, res>>
\* "Prepare control arguments": one array per control item, in source order
PrepareArgs == /\ pc = "args"
               /\ args' = [k \in 1..Len(ctl) |-> [src |-> ctl[k].src, isarr |-> ctl[k].isarr]]
               /\ pc' = "call"
               /\ UNCHANGED <<cs, ctlfix, lvl, i, dag, ctl, pow, fn, fnin, res>>
\* observable chain of the emitted call: ops outermost first; the k-th Control op (counted
\* from the outside) owns input slot k of the call and therefore receives args[k]
Lowered ==
    LET out == Reverse(fn)
        rank(n) == Len(Sel(SubSeq(out, 1, n), "Control"))
    IN [n \in 1..Len(out) |->
          IF out[n].op = "Control"
          THEN Mod("Control", out[n].arity, args[rank(n)].src, args[rank(n)].isarr, "-")
          ELSE out[n]]
Call == /\ pc = "call"
        /\ res' = Append(res, [chain |-> Lowered, fnin |-> fnin,
                               argar |-> [k \in 1..Len(args) |-> IF args[k].isarr THEN 3 ELSE Len(args[k].src)]])
        /\ IF lvl = 1 /\ Nested(cs)
           THEN /\ lvl' = 2 /\ pc' = "push" /\ i' = 1
                /\ dag' = <<>> /\ ctl' = <<>> /\ pow' = <<>> /\ fn' = <<>> /\ fnin' = <<>> /\ args' = <<>>
           ELSE /\ pc' = "done" /\ UNCHANGED <<lvl, i, dag, ctl, pow, fn, fnin, args>>
        /\ UNCHANGED <<cs, ctlfix>>
Next == ChooseOuter \/ ChooseInnerBody \/ Push \/ EmitDagger \/ EmitPower \/ EmitControl \/ PrepareArgs \/ Call
Spec == Init /\ [][Next]_vars

\* ---- what is printed for the conformance check ------------------------------------------------------
StackOf(l) == IF l = 1 THEN cs.outer ELSE cs.inner
BaseOf(l) == IF l = 1 THEN 0 ELSE Len(cs.outer)
Levels == IF Nested(cs) THEN {1, 2} ELSE {1}
Report == pc = "done" =>
    PrintT(ToJson([case |-> cs, ctlfix |-> ctlfix,
                   expected |-> [l \in Levels |-> Expected(StackOf(l), BaseOf(l))],
                   lowered |-> [l \in Levels |-> res[l].chain],
                   welltyped |-> [l \in Levels |-> res[l].fnin = res[l].argar],
                   classes |-> [l \in Levels |-> Classes(StackOf(l), ctlfix)],
                   unitary |-> [l \in Levels |-> FlagValue(StackFlags(StackOf(l)))],
                   routes |-> Routes(cs),
                   captured |-> Captured(cs),
                   bodyops |-> GateNames(cs.body),
                   body |-> BodyOps(cs.body)]))

\* ---- properties of the algorithm, checked by TLC ---------------------------------------------------------
Done == pc = "done"
\* the classification of deviating shapes is exact
ClassesExact == Done => \A l \in Levels :
    (res[l].chain = Expected(StackOf(l), BaseOf(l))) <=> (Classes(StackOf(l), ctlfix) = {})
\* the call is well typed exactly when the control arities are not crossed
WellTypedIffNotCrossed == Done => \A l \in Levels :
    (res[l].fnin = res[l].argar) <=> ("control-arities-crossed" \notin Classes(StackOf(l), ctlfix))
\* what the algorithm does preserve
ControlsPreserved == Done => \A l \in Levels :
    LET e == Sel(Expected(StackOf(l), BaseOf(l)), "Control")
        m == Sel(res[l].chain, "Control")
    IN /\ Len(m) = Len(e)
       /\ \A k \in DOMAIN m : m[k].src = e[k].src /\ m[k].isarr = e[k].isarr      \* hand-over in source order
       /\ \A k \in DOMAIN m : m[k].arity = e[IF ctlfix THEN k ELSE Len(e) + 1 - k].arity   \* arities reversed unless fixed
PowersPreserved == Done => \A l \in Levels :
    LET e == Sel(Expected(StackOf(l), BaseOf(l)), "Power")
        m == Sel(res[l].chain, "Power")
    IN Len(m) = Len(e) /\ \A k \in DOMAIN m : m[k].opnd = e[Len(e) + 1 - k].opnd
\* the repaired variant always produces a well-typed call
FixIsWellTyped == (Done /\ ctlfix) => \A l \in Levels : res[l].fnin = res[l].argar
DaggerByParity == Done => \A l \in Levels :
    CountOp(res[l].chain, "Dagger") = CountOp(Expected(StackOf(l), BaseOf(l)), "Dagger") % 2
\* the flags recorded for the block agree with the operations emitted
FlagsAgreeWithOps == Done => \A l \in Levels :
    /\ ("D" \in StackFlags(StackOf(l))) <=> (CountOp(res[l].chain, "Dagger") = 1)
    /\ ("C" \in StackFlags(StackOf(l))) <=> (CountOp(res[l].chain, "Control") > 0)
    /\ ("P" \in StackFlags(StackOf(l))) <=> (CountOp(res[l].chain, "Power") > 0)
\* normal form of the emitted chain: controls, then powers, then at most one dagger
NormalForm == Done => \A l \in Levels : \A a, b \in DOMAIN res[l].chain :
    a < b => <<res[l].chain[a].op, res[l].chain[b].op>> \in
             {<<"Control", "Control">>, <<"Control", "Power">>, <<"Control", "Dagger">>,
              <<"Power", "Power">>, <<"Power", "Dagger">>}
=============================================================================
