------------------------------ MODULE Quantum ------------------------------
(* C20 (and the gate semantics reused by C26): what a circuit built from the Guppy quantum
   standard library does to a register of NQ qubits.

   State: `st` the exact state vector (QuantumDefs: amplitudes in
   Z[e^{i pi/8}]/sqrt2^k, kept canonical, un-normalised after measurements), `meas` = were there measurement-like
   operations so far (0/1), `last` the last operation, `n` the program length.
   Actions, one per kind of library call:
     Gate(op)      a call of guppylang.std.quantum.{h,x,y,z,s,sdg,t,tdg,v,vdg,rx,ry,rz,cx,cy,
                   cz,ch,crz,toffoli} or guppylang.std.qsystem.{phased_x,zz_max,zz_phase,rz}
                   : st' = (documented matrix on the listed qubits) st
     Meas(op)      project_z / measure / measure_and_reset with outcome b, enabled only when
                   b has non-zero probability; st' = projection (then |0> for the resetting ones)
     Reset(op)     reset: the same with the outcome hidden (branching)
   Mirrors: the @hugr_op(quantum_op(..)) bindings and RotationCompiler (angle.halfturns ->
   tket rotation) of std/quantum, float(angle) radians of std/qsystem, angles.py arithmetic.

   Checked here by TLC (Quantum.cfg, exhaustive over all programs of <= Depth operations from
   MCOps): the invariants below on every reachable state.  The complete matrix facts
   (unitarity of every documented matrix for every angle value, the usual gate identities as
   operator identities) are in QuantumLaws.tla. *)
EXTENDS QuantumDefs

CONSTANTS Depth,        \* maximal program length explored
          MCGates,      \* gate names explored by the model checker
          MCTs          \* angle values (units of pi/4) explored

VARIABLES st, last, meas, n
vars == <<st, last, meas, n>>

MCTsDefault == {1, 2, -3}        \* (cfg files cannot write negative numbers)
MCTsQuick == {1, -3}
MCTsQuick1 == {-3}
MCOps == GateOps(MCGates, MCTs, {"p"})
NoOp == [g |-> "none"]

Init == st = ZeroState /\ last = NoOp /\ meas = 0 /\ n = 0

Tick == n < Depth /\ n' = n + 1

Gate(op) == /\ Tick
            /\ st' = NormState(ApplyGate(st, op))
            /\ last' = op
            /\ UNCHANGED meas

Meas(op) == /\ Tick
            /\ ~Hidden(op.g)
            /\ Possible(st, op.qs[1], op.b)
            /\ st' = NormState(ApplyMeas(st, op))
            /\ last' = op
            /\ meas' = 1

Reset(op) == /\ Tick
             /\ Hidden(op.g)
             /\ Possible(st, op.qs[1], op.b)
             /\ st' = NormState(ApplyMeas(st, op))
             /\ last' = op
             /\ meas' = 1

Next == \/ \E op \in MCOps : Gate(op)
        \/ \E op \in MeasOps({"p"}) : Meas(op)
        \/ \E op \in MeasOps({"p"}) : Reset(op)

Spec == Init /\ [][Next]_vars

\* ------------------------------------------------------------------ invariants
TypeOK == /\ st.k \in Nat /\ Len(st.a) = Dim
          /\ st = NormState(st)                       \* states are kept in canonical form

\* gates preserve the norm: without measurements the state has norm exactly 1
NormPreserved == meas = 0 => NormSq(st) = One

\* a measurement splits the weight of the state into the weights of its two branches
BranchWeights == \A q \in Qubits :
    REq(Add(NormSq(Project(st, q, 0)), NormSq(Project(st, q, 1))), NormSq(st))

\* some outcome is always possible, never a zero state
NeverZero == \E i \in Index : st.a[i + 1] # ZeroC

\* measuring again gives the same outcome and changes nothing
Repeatable == \A q \in Qubits, b \in {0, 1} :
    Possible(st, q, b) => /\ ~Possible(Project(st, q, b), q, 1 - b)
                          /\ Project(Project(st, q, b), q, b) = Project(st, q, b)

\* after reset / measure-and-reset the qubit is |0>
LastResetIsZero == last.g \in MeasNames \ {"project_z"} => ~Possible(st, last.qs[1], 1)
=============================================================================
