SPECIFICATION GenSpec
CONSTANTS
  Kinds = {"int", "qubit"}
  Ns = {2, 3}
  Pad = 2
  MaxOps = 5
  Terms = {"index", "unpack", "starL", "starR", "starM", "starLL", "starRR", "iter", "comp", "copy"}
  Record = TRUE
CHECK_DEADLOCK FALSE
ACTION_CONSTRAINT LatePanic
