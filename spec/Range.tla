-------------------------------- MODULE Range --------------------------------
(* range() of guppylang (C18):  /repo/guppylang/src/guppylang/std/iter.py

     Range(next, stop, step).__next__ :
         end = (next >= stop) if step >= 0 else (next <= stop)
         if end: nothing()  else: some((next, Range(next + step, stop, step)))
     _range1(stop) = Range(0, stop, 1)      _range2(start, stop) = Range(start, stop, 1)
     _range3(start, stop, step) = Range(start, stop, step)
     _range_comptime(stop: nat @comptime) = SizedIter[Range, stop](Range(0, stop, 1))

   Two descriptions and the link between them:
     * PyRange(a, b, c) - Python's range as a sequence (declarative; the oracle),
     * the iterator as a state machine (`nxt` = Range.next; actions Yield / Stop),
       with `next + step` either exact (Width = 0) or two's-complement wrapping at
       Width bits (the arithmetic Guppy's int actually has, scaled down).
   TLC checks, for every call in the configured box:
       PrefixOK   what the iterator has yielded is always a prefix of PyRange,
       DoneOK     when it stops it has yielded exactly PyRange,
       SizeOK     the static size promised by _range_comptime is the number yielded,
       RangeLaw   PyRange is the maximal arithmetic progression inside [a, b) / (b, a],
       ShiftLaw   PyRange(a+d, b+d, c) = PyRange(a, b, c) + d     (justifies anchoring
                  small offsets at +-2^63 when the expectations are replayed),
       ScaleLaw   PyRange(k a, k b, k c) = k PyRange(a, b, c)     (justifies replaying a
                  Width-bit box scaled by 2^(64-Width)).
   With Width > 0 the first yield that leaves PyRange is reported as a witness record
   (`diverges`) instead of failing the run: this is what the model of the code with
   wrapping addition predicts.
   With Record = TRUE every call is printed with the sequence it must yield
   (replayed on the compiled code by checks/C18.py). *)
EXTENDS Integers, Sequences, TLC, Json

\* (TLC configuration files cannot hold negative numbers: lower bounds are given negated)
CONSTANTS NegLo, Hi,          \* start, stop range over -NegLo..Hi
          NegStepLo, StepHi,  \* steps range over (-NegStepLo..StepHi) \ {0}
          Width,              \* 0: exact integers; W > 0: next + step wraps at W bits
          Static, MaxStatic,  \* Static: also comptime sizes 0..MaxStatic (mode "static")
          Record

Lo == 0 - NegLo
Steps == ((0 - NegStepLo)..StepHi) \ {0}
Shifts == {0 - 7, 5, 1000000, 0 - 1000000}     \* parameters of ShiftLaw / ScaleLaw
Scales == {1, 2, 1000}

Max(x, y) == IF x >= y THEN x ELSE y
CeilDiv(p, q) == (p + q - 1) \div q                    \* q > 0
RLen(a, b, c) == IF c > 0 THEN Max(0, CeilDiv(b - a, c)) ELSE Max(0, CeilDiv(a - b, 0 - c))
PyRange(a, b, c) == [j \in 1..RLen(a, b, c) |-> a + (j - 1) * c]

Range1(b) == PyRange(0, b, 1)
Range2(a, b) == PyRange(a, b, 1)

Wrap(x) == IF Width = 0 THEN x
           ELSE ((x + 2 ^ (Width - 1)) % (2 ^ Width)) - 2 ^ (Width - 1)

VARIABLES mode, start, stop, step, size, nxt, out, pc
vars == <<mode, start, stop, step, size, nxt, out, pc>>

Init ==
    /\ \/ /\ mode = "iter"
          /\ start \in Lo..Hi /\ stop \in Lo..Hi /\ step \in Steps
          /\ size = 0 - 1
       \/ /\ mode = "static"                       \* _range_comptime(stop)
          /\ Static
          /\ start = 0 /\ stop \in 0..MaxStatic /\ step = 1
          /\ size = stop
    /\ nxt = start
    /\ out = <<>>
    /\ pc = "iter"

AtEnd == IF step >= 0 THEN nxt >= stop ELSE nxt <= stop
Expected == PyRange(start, stop, step)
InExpected == Len(out) < Len(Expected) /\ Expected[Len(out) + 1] = nxt

Yield ==
    /\ pc = "iter" /\ ~AtEnd
    /\ IF Width > 0 /\ ~InExpected
       THEN /\ PrintT(ToJson([diverges |-> <<start, stop, step>>, after |-> out, extra |-> nxt]))
            /\ pc' = "diverged"
            /\ UNCHANGED <<out, nxt>>
       ELSE /\ out' = Append(out, nxt)
            /\ nxt' = Wrap(nxt + step)
            /\ UNCHANGED pc
    /\ UNCHANGED <<mode, start, stop, step, size>>

Stop ==
    /\ pc = "iter" /\ AtEnd
    /\ pc' = "done"
    /\ UNCHANGED <<mode, start, stop, step, size, nxt, out>>

Forms == {"r3"} \cup (IF step = 1 THEN {"r2"} ELSE {}) \cup (IF step = 1 /\ start = 0 THEN {"r1"} ELSE {})
Targets == {m \in {size - 1, size, size + 1} : m >= 0}

Finish ==
    /\ Record /\ pc = "done"
    /\ IF mode = "iter"
       THEN PrintT(ToJson([call |-> <<start, stop, step>>, forms |-> Forms, expect |-> Expected]))
       ELSE PrintT(ToJson([static |-> stop, size |-> size, expect |-> Expected,
                           accept |-> {m \in Targets : m = size}, reject |-> {m \in Targets : m # size}]))
    /\ pc' = "emitted"
    /\ UNCHANGED <<mode, start, stop, step, size, nxt, out>>

Next == Yield \/ Stop \/ Finish
Spec == Init /\ [][Next]_vars

\* ------------------------------------ laws -------------------------------------
IsPrefix(s, t) == Len(s) <= Len(t) /\ \A j \in 1..Len(s) : s[j] = t[j]
PrefixOK == pc # "diverged" => IsPrefix(out, Expected)
DoneOK == pc \in {"done", "emitted"} => out = Expected
SizeOK == (mode = "static" /\ pc \in {"done", "emitted"}) => Len(out) = size

Inside(x) == IF step > 0 THEN start <= x /\ x < stop ELSE stop < x /\ x <= start
RangeLaw ==
    LET s == Expected IN
    /\ \A j \in 1..Len(s) : Inside(s[j]) /\ s[j] = start + (j - 1) * step
    /\ ~Inside(start + Len(s) * step)
    /\ Range1(stop) = PyRange(0, stop, 1) /\ Range2(start, stop) = PyRange(start, stop, 1)

ShiftLaw == \A d \in Shifts :
    PyRange(start + d, stop + d, step) = [j \in 1..Len(Expected) |-> Expected[j] + d]
ScaleLaw == \A k \in Scales :
    PyRange(k * start, k * stop, k * step) = [j \in 1..Len(Expected) |-> k * Expected[j]]
=============================================================================
