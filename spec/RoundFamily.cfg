SPECIFICATION Spec
CONSTANTS
  NL = 4
  LB = 16
  FP = 53
INVARIANT InRange
INVARIANT KindsHitClasses
INVARIANT Emit
CHECK_DEADLOCK FALSE
