------------------------------ MODULE Scoping ------------------------------
(* Path semantics of local-variable scoping for the structured fragment of Guppy
   (property C08).  A program is a JSON AST (a batch is read from IOEnv.VERIF_IN),
   stored as a table of statement lists: `lists[1]` is the body of main and the
   fields a / b of a compound statement are indices of its child lists (this
   keeps the states small; it is the same tree);
   `Init` picks one program, the actions execute it statement by statement along
   EVERY control-flow path: the value of every branch / loop condition is ignored
   (both outcomes are successors), exactly Python's view of scoping.

   State:  pid    index of the program in the batch
           stack  continuation: frames "seq" (statement list li + position i),
                  "loop" (an active while/for statement = lists[li][i]), "fn" (body
                  of a nested function definition being explored, with the saved
                  outer env sv)
           env    per variable its status on THIS path:
                    "undef"    never assigned on this path
                    "int"/"bool"  type of the last assignment on this path
                    "unbound"  inside a nested function: the name is local to the
                               nested function (assigned somewhere in its body,
                               Python's rule) but not yet assigned on this path
                    "any"      assigned from an erroneous value (poison: the path
                               already carries a witness; nothing more is reported
                               about this variable until it is reassigned)

   Statements (field k): asg v t | cpy v s | use v | comp v u | if c a b | while c a |
   for v a | break | continue | ret | def a.   `comp` is an assignment of a comprehension
   `array(e for v in range(3))` to an untracked name: the target v is local to the
   comprehension (Python 3 scoping; it may coincide with an enclosing local, whose binding
   is unaffected and which is not a local of an enclosing nested function because of it);
   if the element expression reads an outer variable u (u # v, else u = "-") that is a use.   `c` is "c" (an opaque boolean
   parameter) or a variable name (then evaluating the condition is a use).
   A nested `def` reads outer variables by their status at the definition site
   (Guppy captures by value there); its body is explored as if called at once.

   Dead code (statements after one that always jumps) is modelled as the code treats it
   (cfg/builder.py visit_stmts + the pruning pass of CFGBuilder.build): the statement
   after a jumping statement S is entered along a never-taken ("dummy") edge from the
   block in which S started, i.e. with the environment S itself started with (action
   DeadEdge, sets `dead`).  The analyses follow dummy edges (include_unreachable), so
   reads in dead code must be defined along these edges.  Jumps from unreachable code
   back into reachable code are pruned: a dead path stops where it would enter a program
   point that live paths reach (the join after an `if`, a live loop's head or tail).
   Frames remember whether the construct they belong to was entered live (`lv`).
   Inside a nested function `dead` is relative to the nested function's own CFG.

   Output (verdict extraction): every reachable state that is about to READ a
   variable prints the fact [id, v, l, st, d] (variable, line of the read, status, and
   d = "live" | "dead" (read sits in dead code of main, or in a nested function defined in
   dead code) | "inner" (dead code of a nested function)).
   The union S(id, v, l) of statuses over all paths is classified by `Kinds`
   (module ScopingVerdict evaluates it with TLC):
     "never"  : read reachable, variable unassigned on every path reaching it
     "maybe"  : unassigned on some path, assigned on another
     "types"  : two paths reach the read with different types (use after a join)
     "unbound": a nested function reads its own local before assigning it
   No witness = the program must be accepted (for these reasons).

   Mirrors: cfg/builder.py (shape of paths: visit_If/While/For/Break/Continue/Return,
   for = `while True` + break before the target is assigned), cfg/analysis.py
   (LivenessAnalysis, AssignmentAnalysis: def/maybe assigned), checker/cfg_checker.py
   (check_bb: VarNotDefinedError / VarMaybeNotDefinedError, check_rows_match:
   BranchTypeError), checker/func_checker.py check_nested_func_def (captures). *)
EXTENDS Naturals, Sequences, FiniteSets, TLC, Json, IOUtils

CONSTANTS Vars            \* tracked variable names

Progs == JsonDeserialize(IOEnv.VERIF_IN)

VARIABLES pid, stack, env, dead
vars == <<pid, stack, env, dead>>

Types == {"int", "bool"}
NoEnv == [v \in Vars |-> "undef"]
\* t: "main" | "arm" (of an if) | "body" (of a loop) | "fbody" (of a nested function): statement
\*    list li at position i;  "loop": active loop statement lists[li][i];  "fn": nested function
\*    being explored, sv/dd = environment and `dead` of the definition site.
\* lv: the construct (if / loop) was entered by a live path
Frame(t, li, i, sv, lv, dd) == [t |-> t, li |-> li, i |-> i, sv |-> sv, lv |-> lv, dd |-> dd]
IsSeq(t) == t \in {"main", "arm", "body", "fbody"}
L == Progs[pid].lists

\* names assigned anywhere in statement list li: the locals of a function body
RECURSIVE AssignedIn(_)
AssignedIn(li) ==
    UNION { LET s == L[li][j] IN
              CASE s.k \in {"asg", "cpy"} -> {s.v}
                [] s.k = "for"   -> {s.v} \cup AssignedIn(s.a)
                [] s.k = "if"    -> AssignedIn(s.a) \cup AssignedIn(s.b)
                [] s.k = "while" -> AssignedIn(s.a)
                [] OTHER         -> {}
            : j \in 1..Len(L[li]) }

\* the CFG builder's view: visiting statement s yields no open block (visit_* returns None);
\* a list yields none iff its last statement yields none
RECURSIVE BJumps(_)
BJumpsList(li) == Len(L[li]) > 0 /\ BJumps(L[li][Len(L[li])])
BJumps(s) == CASE s.k \in {"break", "continue", "ret"} -> TRUE
               [] s.k = "if" -> BJumpsList(s.a) /\ BJumpsList(s.b)
               [] OTHER -> FALSE
\* can control really fall off the end of list li (entered live)?
RECURSIVE Falls(_)
FallsStmt(s) == CASE s.k \in {"break", "continue", "ret"} -> FALSE
                  [] s.k = "if" -> Falls(s.a) \/ Falls(s.b)
                  [] OTHER -> TRUE
Falls(li) == \A j \in 1..Len(L[li]) : FallsStmt(L[li][j])

Depth == Len(stack)
Top == stack[Depth]
Pop(st) == SubSeq(st, 1, Len(st) - 1)
Advance(st) == [st EXCEPT ![Len(st)].i = @ + 1]
AtStmt == Depth > 0 /\ IsSeq(Top.t) /\ Top.i <= Len(L[Top.li])
Cur == L[Top.li][Top.i]
AtLoop == Depth > 0 /\ Top.t = "loop"
Loop == L[Top.li][Top.i]
\* index of the innermost frame of kind t (0 if none)
Innermost(t) == LET J == {j \in 1..Depth : stack[j].t = t}
                IN IF J = {} THEN 0 ELSE CHOOSE j \in J : \A k \in J : k <= j

Init == /\ pid \in 1..Len(Progs)
        /\ stack = <<Frame("main", 1, 1, NoEnv, TRUE, FALSE)>>
        /\ env = NoEnv
        /\ dead = FALSE

Assign == /\ AtStmt /\ Cur.k = "asg"
          /\ env' = [env EXCEPT ![Cur.v] = Cur.t]
          /\ stack' = Advance(stack)
          /\ UNCHANGED <<pid, dead>>

Copy == /\ AtStmt /\ Cur.k = "cpy"
        /\ env' = [env EXCEPT ![Cur.v] = IF env[Cur.s] \in Types THEN env[Cur.s] ELSE "any"]
        /\ stack' = Advance(stack)
        /\ UNCHANGED <<pid, dead>>

Use == /\ AtStmt /\ Cur.k = "use"
       /\ stack' = Advance(stack)
       /\ UNCHANGED <<pid, env, dead>>

\* comprehension: its target lives in the comprehension's own scope, nothing outside changes
Comp == /\ AtStmt /\ Cur.k = "comp"
        /\ stack' = Advance(stack)
        /\ UNCHANGED <<pid, env, dead>>

\* the condition value is ignored: both branches are paths
IfThen == /\ AtStmt /\ Cur.k = "if"
          /\ stack' = Append(Advance(stack), Frame("arm", Cur.a, 1, NoEnv, ~dead, FALSE))
          /\ UNCHANGED <<pid, env, dead>>
IfElse == /\ AtStmt /\ Cur.k = "if"
          /\ stack' = Append(Advance(stack), Frame("arm", Cur.b, 1, NoEnv, ~dead, FALSE))
          /\ UNCHANGED <<pid, env, dead>>

LoopStart == /\ AtStmt /\ Cur.k \in {"while", "for"}
             /\ stack' = Append(Advance(stack), Frame("loop", Top.li, Top.i, NoEnv, ~dead, FALSE))
             /\ UNCHANGED <<pid, env, dead>>
\* loop head: (while) the condition is evaluated, then body or exit;
\* (for) exit happens before the target is assigned, otherwise target := int
LoopEnter == /\ AtLoop
             /\ stack' = Append(stack, Frame("body", Loop.a, 1, NoEnv, ~dead, FALSE))
             /\ env' = IF Loop.k = "for" /\ Loop.v \in Vars
                       THEN [env EXCEPT ![Loop.v] = "int"] ELSE env
             /\ UNCHANGED <<pid, dead>>
LoopExit == /\ AtLoop
            /\ stack' = Pop(stack)
            /\ UNCHANGED <<pid, env, dead>>
\* a jump out of dead code into a live loop's head / tail is pruned from the CFG: the path ends
Break == /\ AtStmt /\ Cur.k = "break"
         /\ LET j == Innermost("loop") IN
            stack' = IF dead /\ stack[j].lv THEN <<>> ELSE SubSeq(stack, 1, j - 1)
         /\ UNCHANGED <<pid, env, dead>>
Continue == /\ AtStmt /\ Cur.k = "continue"
            /\ LET j == Innermost("loop") IN
               stack' = IF dead /\ stack[j].lv THEN <<>> ELSE SubSeq(stack, 1, j)
            /\ UNCHANGED <<pid, env, dead>>
\* return leaves the innermost function: the nested one (outer env restored) or the program
Return == /\ AtStmt /\ Cur.k = "ret"
          /\ LET j == Innermost("fn") IN
             IF j = 0 THEN stack' = <<>> /\ env' = env /\ dead' = dead
             ELSE stack' = SubSeq(stack, 1, j - 1) /\ env' = stack[j].sv /\ dead' = stack[j].dd
          /\ UNCHANGED pid
\* never-taken edge into the code that follows a jumping statement: it leaves the block in which
\* that statement started, so the dead code sees the environment the statement started with
DeadEdge == /\ AtStmt /\ BJumps(Cur) /\ Top.i < Len(L[Top.li])
            /\ stack' = Advance(stack)
            /\ dead' = TRUE
            /\ UNCHANGED <<pid, env>>
\* end of a statement list.  A dead path stops where it would flow into a point live paths reach:
\* the join after an `if` that was entered live and that some arm really falls out of, or the
\* head of a loop that was entered live (those CFG edges are pruned)
EndSeq == /\ Depth > 0 /\ IsSeq(Top.t) /\ Top.i > Len(L[Top.li])
          /\ LET intoLive ==
                   CASE Top.t = "arm"  -> LET par == stack[Depth - 1]
                                              s == L[par.li][par.i - 1]
                                          IN Top.lv /\ (Falls(s.a) \/ Falls(s.b))
                     [] Top.t = "body" -> stack[Depth - 1].lv
                     [] OTHER -> FALSE
             IN stack' = IF dead /\ intoLive THEN <<>> ELSE Pop(stack)
          /\ UNCHANGED <<pid, env, dead>>

\* nested function definition: names assigned in the body are its locals; all other
\* names are read from the environment at the definition site; the body has its own CFG
DefFun == /\ AtStmt /\ Cur.k = "def"
          /\ stack' = Advance(stack) \o <<Frame("fn", 0, 0, env, TRUE, dead), Frame("fbody", Cur.a, 1, NoEnv, TRUE, FALSE)>>
          /\ env' = [v \in Vars |-> IF v \in AssignedIn(Cur.a) THEN "unbound" ELSE env[v]]
          /\ dead' = FALSE
          /\ UNCHANGED pid
EndFun == /\ Depth > 0 /\ Top.t = "fn"
          /\ stack' = Pop(stack)
          /\ env' = Top.sv
          /\ dead' = Top.dd
          /\ UNCHANGED pid

Next == \/ Assign \/ Copy \/ Use \/ Comp \/ IfThen \/ IfElse \/ LoopStart \/ LoopEnter \/ LoopExit
        \/ Break \/ Continue \/ Return \/ DeadEdge \/ EndSeq \/ DefFun \/ EndFun
Spec == Init /\ [][Next]_vars

\* ---- observation: which variable (if any) is read in this state -----------------
ReadsVar == IF AtStmt THEN
                CASE Cur.k = "use" -> <<Cur.v, Cur.l>>
                  [] Cur.k = "cpy" -> <<Cur.s, Cur.l>>
                  [] Cur.k = "comp" /\ Cur.u \in Vars /\ Cur.u # Cur.v -> <<Cur.u, Cur.l>>
                  [] Cur.k = "if" /\ Cur.c \in Vars -> <<Cur.c, Cur.l>>
                  [] OTHER -> <<>>
            ELSE IF AtLoop /\ Loop.k = "while" /\ Loop.c \in Vars THEN <<Loop.c, Loop.l>>
            ELSE <<>>
InFun == Innermost("fn") > 0
Deadness == IF InFun /\ dead THEN "inner"
            ELSE IF dead \/ (InFun /\ stack[Innermost("fn")].dd) THEN "dead" ELSE "live"

\* always-true invariants that report facts
EmitFacts == ReadsVar # <<>> =>
    PrintT(ToJson([id |-> Progs[pid].id, v |-> ReadsVar[1], l |-> ReadsVar[2], st |-> env[ReadsVar[1]], d |-> Deadness]))
\* a comprehension whose target has the name of a tracked variable (status of that variable here)
EmitShadow == (AtStmt /\ Cur.k = "comp" /\ Cur.v \in Vars) =>
    PrintT(ToJson([id |-> Progs[pid].id, shadow |-> Cur.v, l |-> Cur.l, sh |-> env[Cur.v], d |-> Deadness]))
EmitDone == stack = <<>> => PrintT(ToJson([done |-> Progs[pid].id]))

\* ---- sanity of the model itself -------------------------------------------------
TypeOK == /\ pid \in 1..Len(Progs)
          /\ dead \in BOOLEAN
          /\ \A v \in Vars : env[v] \in {"undef", "int", "bool", "unbound", "any"}
\* break/continue always find their loop inside the current function
JumpsWellFormed == (AtStmt /\ Cur.k \in {"break", "continue"}) => Innermost("loop") > Innermost("fn")
\* "unbound" exists only while a nested function body is explored (or the path has just ended there)
UnboundOnlyInFun == (stack # <<>> /\ \E v \in Vars : env[v] = "unbound") => Innermost("fn") > 0
\* a live path is never inside a construct that was entered dead
LiveInsideLive == ~dead => \A j \in (Innermost("fn") + 1)..Depth : stack[j].t \in {"arm", "body", "loop"} => stack[j].lv

\* ---- classification of the statuses observed at one read over all paths ----------
\* ("any" is an assignment too: Guppy counts `vb = va` as assigning vb even if va is undefined)
Assigned == Types \cup {"any"}
Kinds(S) ==
    (IF "undef" \in S /\ S \cap Assigned = {} THEN {"never"} ELSE {}) \cup
    (IF "undef" \in S /\ S \cap Assigned # {} THEN {"maybe"} ELSE {}) \cup
    (IF Types \subseteq S THEN {"types"} ELSE {}) \cup
    (IF "unbound" \in S THEN {"unbound"} ELSE {})
=============================================================================
