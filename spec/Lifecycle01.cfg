SPECIFICATION Spec
INVARIANT TypeOK
INVARIANT Ordered
INVARIANT Report
CHECK_DEADLOCK FALSE
