--------------------------- MODULE ComptimeGlobals ---------------------------
(* Module namespaces under comptime tracing (C23).

   Code mirrored:
     tracing/builtins_mock.py  mock_builtins(f):
         old = {x: f.__globals__[x] for x in mock if x in f.__globals__}     \
         f.__globals__.update(mock)                                           > BeginTrace
         try: yield
         finally:  for x in mock: if x not in old: del f.__globals__[x]       \
                   f.__globals__.update(old)                                  > ExitNormal / ExitRaise
     tracing/function.py  trace_function: runs the Python body under mock_builtins, then
         checks the returned value (a wrong return type raises a GuppyError *after* the
         mock context was left)                                               -> BadReturn
     compiler/core.py  CompilerContext.compile: `compiled` set + LIFO `worklist`
         (dict.popitem); a Guppy-level call `g()` inside a traced body only registers g
         (build_compiled_def) and g is traced later from the worklist          -> CallStep, BeginTrace
     a nested top-level compile `g.compile_function()` executed by a traced body is a
         new CompilerContext whose traces nest inside the running one          -> NestStep

   A session: a set-up phase fixes where the comptime functions f1..fN live (modules A/B),
   which of int/float/len the user has bound in each module, and each function's body
       rec(f.0); [fault]; [call g | nest g | try-nest g]; rec(f.1); [fault]; return [wrong type]
   and then up to MaxCompiles top-level compile() calls run.  `glob[m][n]` is what name n
   is bound to in module m: "absent", the user's own value - "user" (a function / string /
   float object), "none" (the value None) or "zero" (the value 0) - or "mock".
   A user binding is written "<name>=<kind>" in the BindOptions sets.
   `stack` is the control stack: compile invocations ("ctx") and live traces ("frame").

   Property: whenever no trace is live (depth 0) every module namespace equals the
   initial one, in every behaviour, including all raising ones (Restored); inside a trace
   the traced function's module sees the mocks (MockedInside).
   Complete sessions are printed (EmitHist) and replayed on real modules by checks/C23.py:
   the module __dict__ snapshot after each top-level compile, the outcome, and the
   classification of the three names seen by rec() inside the bodies are compared.      *)
EXTENDS Naturals, Sequences, FiniteSets, TLC, Json

CONSTANTS NF,            \* number of comptime functions f1..fNF
          Mods,          \* module names, "A" always present
          BindOptions,   \* allowed sets of user bindings "<name>=<kind>" per module
          Faults,        \* allowed fault kinds of a body
          AllowNest,     \* BOOLEAN: bodies may run nested compile()s
          MaxCompiles,   \* top-level compile() calls per session
          EmitHist

Names == {"int", "float", "len"}
Fns == 1..NF
\* py: an ordinary Python exception; guppy: a Guppy error raised inside the body; intr: a
\* BaseException that is not an Exception (KeyboardInterrupt: Ctrl-C while tracing)
AllFaults == {"none", "py_before", "guppy_before", "intr_before", "py_after", "guppy_after", "intr_after",
              "bad_return"}
ASSUME Faults \subseteq AllFaults /\ "A" \in Mods

\* what a body does between its two observation points
CallOpts(f) ==
    {<<"none", 0>>} \cup {<<"call", g>> : g \in Fns}
    \cup (IF AllowNest THEN {<<k, g>> : k \in {"nest", "nestcatch"}, g \in {h \in Fns : h > f}} ELSE {})

AllMock == [n \in Names |-> "mock"]

VARIABLES phase,      \* "place" -> "bind" -> "script" -> "run"
          place,      \* [Fns -> Mods]
          bind,       \* [Mods -> BindOptions]  the user's bindings of the shadowed names
          script,     \* sequence over Fns of [call, fault]
          glob,       \* [Mods -> [Names -> {"absent","user","mock"}]]
          stack,      \* control stack, innermost last
          exc,        \* "none" or the kind of the exception being propagated
          cur,        \* record of the running top-level step
          hist        \* completed top-level steps
vars == <<phase, place, bind, script, glob, stack, exc, cur, hist>>

Kinds == {"user", "none", "zero"}     \* kinds of values a user binds to a shadowed name
BoundKind(b, n) ==                    \* b: a set of "<name>=<kind>" strings
    IF \E k \in Kinds : (n \o "=" \o k) \in b
    THEN CHOOSE k \in Kinds : (n \o "=" \o k) \in b
    ELSE "absent"
InitGlob == [m \in Mods |-> [n \in Names |-> BoundKind(bind[m], n)]]

Init ==
    /\ phase = "place"
    /\ place = <<>> /\ bind = <<>> /\ script = <<>>
    /\ glob = <<>> /\ stack = <<>> /\ exc = "none"
    /\ cur = <<>> /\ hist = <<>>

\* ---- set-up phase (the environment chooses the session) ----------------------------
SetPlace ==
    /\ phase = "place"
    /\ \E p \in [Fns -> Mods] : p[1] = "A" /\ place' = p
    /\ phase' = "bind"
    /\ UNCHANGED <<bind, script, glob, stack, exc, cur, hist>>

SetBind ==
    /\ phase = "bind"
    /\ \E b \in [Mods -> BindOptions] : bind' = b
    /\ phase' = "script"
    /\ UNCHANGED <<place, script, glob, stack, exc, cur, hist>>

\* A body has one call slot, so "f may start g" is a partial function; a session is
\* well-formed (terminates; the real code would recurse forever otherwise) iff no cycle of
\* that relation goes through a nested compile.
Target(sc, f) == IF sc[f].call[1] = "none" THEN 0 ELSE sc[f].call[2]
RECURSIVE Reaches(_, _, _, _)
Reaches(sc, a, b, k) ==       \* b reachable from a in <= k steps
    a = b \/ (k > 0 /\ Target(sc, a) # 0 /\ Reaches(sc, Target(sc, a), b, k - 1))
WellFormed(sc) ==
    \A f \in Fns : sc[f].call[1] \in {"nest", "nestcatch"} => ~Reaches(sc, sc[f].call[2], f, NF)

SetScript ==
    /\ phase = "script"
    /\ LET f == Len(script) + 1 IN
       /\ \E c \in CallOpts(f), ft \in Faults :
              /\ script' = Append(script, [call |-> c, fault |-> ft])
              /\ f = NF => WellFormed(script')
       /\ IF f = NF THEN phase' = "run" /\ glob' = InitGlob
                    ELSE phase' = "script" /\ glob' = glob
    /\ UNCHANGED <<place, bind, stack, exc, cur, hist>>

\* ---- run phase ---------------------------------------------------------------------
Top == stack[Len(stack)]
Pop(s) == SubSeq(s, 1, Len(s) - 1)
Ctx(f, catch) == [t |-> "ctx", compiled |-> {f}, work |-> <<f>>, catch |-> catch]
Running == phase = "run" /\ stack # <<>> /\ exc = "none"
Obs(tag) == [tag |-> tag, g |-> glob]

\* top-level f.compile_function()
StartCompile(f) ==
    /\ phase = "run" /\ stack = <<>> /\ Len(hist) < MaxCompiles
    /\ stack' = <<Ctx(f, FALSE)>>
    /\ cur' = [entry |-> f, obs |-> <<>>]
    /\ UNCHANGED <<phase, place, bind, script, glob, exc, hist>>

\* worklist.popitem() + trace_function + mock_builtins.__enter__
BeginTrace ==
    /\ Running /\ Top.t = "ctx" /\ Top.work # <<>>
    /\ LET g == Top.work[Len(Top.work)]
           m == place[g] IN
       /\ stack' = Append([stack EXCEPT ![Len(stack)].work = Pop(Top.work)],
                          [t |-> "frame", f |-> g, old |-> glob[m], pc |-> 0])
       /\ glob' = [glob EXCEPT ![m] = AllMock]
    /\ UNCHANGED <<phase, place, bind, script, exc, cur, hist>>

SetPc(pc) == stack' = [stack EXCEPT ![Len(stack)].pc = pc]
InFrame(pc) == Running /\ Top.t = "frame" /\ Top.pc = pc
Tag(f, k) == <<f, k>>

\* rec("f.0") / rec("f.1"): the body records what it sees
ObsStep ==
    /\ \E pc \in {0, 3} :
        /\ InFrame(pc)
        /\ cur' = [cur EXCEPT !.obs = Append(@, Obs(Tag(Top.f, IF pc = 0 THEN 0 ELSE 1)))]
        /\ SetPc(pc + 1)
    /\ UNCHANGED <<phase, place, bind, script, glob, exc, hist>>

\* a fault placed before / after the call: the body raises
FaultStep ==
    /\ \E pc \in {1, 4} :
        /\ InFrame(pc)
        /\ LET ft == script[Top.f].fault
               mine == IF pc = 1 THEN {"py_before", "guppy_before", "intr_before"}
                                 ELSE {"py_after", "guppy_after", "intr_after"} IN
           IF ft \in mine
           THEN exc' = (IF ft \in {"py_before", "py_after"} THEN "py"
                        ELSE IF ft \in {"intr_before", "intr_after"} THEN "intr" ELSE "guppy") /\ stack' = stack
           ELSE exc' = exc /\ SetPc(pc + 1)
    /\ UNCHANGED <<phase, place, bind, script, glob, cur, hist>>

\* index of the compile invocation that runs the top frame (the entry right below it)
\* Guppy-level call g(): build_compiled_def registers g once
CallStep ==
    /\ InFrame(2)
    /\ LET c == script[Top.f].call
           ci == Len(stack) - 1 IN
       CASE c[1] = "none" -> SetPc(3)
         [] c[1] = "call" ->
              stack' = [stack EXCEPT
                          ![Len(stack)].pc = 3,
                          ![ci].compiled = @ \cup {c[2]},
                          ![ci].work = IF c[2] \in stack[ci].compiled THEN @ ELSE Append(@, c[2])]
         [] c[1] \in {"nest", "nestcatch"} ->      \* g.compile_function() inside the body
              stack' = Append([stack EXCEPT ![Len(stack)].pc = 3], Ctx(c[2], c[1] = "nestcatch"))
    /\ UNCHANGED <<phase, place, bind, script, glob, exc, cur, hist>>

Restore(fr) == glob' = [glob EXCEPT ![place[fr.f]] = fr.old]

\* body returns: mock_builtins finally-clause on the normal path; then the return check
ExitNormal ==
    /\ InFrame(5)
    /\ Restore(Top)
    /\ stack' = Pop(stack)
    /\ exc' = IF script[Top.f].fault = "bad_return" THEN "bad_return" ELSE "none"
    /\ UNCHANGED <<phase, place, bind, script, cur, hist>>

\* an exception passes through a live trace: mock_builtins finally-clause
ExitRaise ==
    /\ phase = "run" /\ stack # <<>> /\ exc # "none" /\ Top.t = "frame"
    /\ Restore(Top)
    /\ stack' = Pop(stack)
    /\ UNCHANGED <<phase, place, bind, script, exc, cur, hist>>

FinishStep(outcome) ==
    /\ hist' = Append(hist, [entry |-> cur.entry, outcome |-> outcome, obs |-> cur.obs, after |-> glob])
    /\ cur' = <<>>

\* worklist empty: CompilerContext.compile returns
EndCompile ==
    /\ Running /\ Top.t = "ctx" /\ Top.work = <<>>
    /\ stack' = Pop(stack)
    /\ IF Len(stack) = 1 THEN FinishStep("ok") ELSE UNCHANGED <<cur, hist>>
    /\ UNCHANGED <<phase, place, bind, script, glob, exc>>

\* an exception leaves a compile invocation: top level -> the step fails with it;
\* nested -> it arrives in the invoking body, which catches it (try-nest) or not
AbortCompile ==
    /\ phase = "run" /\ stack # <<>> /\ exc # "none" /\ Top.t = "ctx"
    /\ stack' = Pop(stack)
    /\ IF Len(stack) = 1
       THEN FinishStep(exc) /\ exc' = "none"
       ELSE /\ UNCHANGED <<cur, hist>>
            /\ exc' = IF Top.catch THEN "none" ELSE exc
    /\ UNCHANGED <<phase, place, bind, script, glob>>

Next ==
    \/ SetPlace \/ SetBind \/ SetScript
    \/ \E f \in Fns : StartCompile(f)
    \/ BeginTrace \/ ObsStep \/ FaultStep \/ CallStep
    \/ ExitNormal \/ ExitRaise \/ EndCompile \/ AbortCompile

Spec == Init /\ [][Next]_vars

\* ---- properties --------------------------------------------------------------------
Frames == {i \in 1..Len(stack) : stack[i].t = "frame"}
Depth == Cardinality(Frames)

\* "leaves the defining module's global namespace exactly as it was before ... when
\*  tracing succeeds, when it raises, and when comptime functions call each other"
Restored == (phase = "run" /\ Depth = 0) => glob = InitGlob

\* every completed top-level step ended with the initial namespaces
StepsRestored == \A i \in 1..Len(hist) : hist[i].after = InitGlob

\* while a body runs, its own module shows the mocks
MockedInside ==
    (phase = "run" /\ stack # <<>> /\ Top.t = "frame" /\ exc = "none") => glob[place[Top.f]] = AllMock

\* a module none of whose functions is being traced is untouched
Untouched ==
    phase = "run" =>
        \A m \in Mods : (\A i \in Frames : place[stack[i].f] # m) => glob[m] = InitGlob[m]

\* saved dictionaries never contain anything but what was there: a frame's `old` is the
\* initial namespace or (re-entrant trace of the same module) the mocks
OldIsInitOrMock ==
    phase = "run" => \A i \in Frames : stack[i].old \in {InitGlob[place[stack[i].f]], AllMock}

\* ---- emission ------------------------------------------------------------------------
Complete == phase = "run" /\ stack = <<>> /\ Len(hist) = MaxCompiles
Emit == (EmitHist /\ Complete) =>
            PrintT(ToJson([place |-> place, bind |-> bind, script |-> script, steps |-> hist]))
=============================================================================
