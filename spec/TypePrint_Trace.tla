-------------------------- MODULE TypePrint_Trace --------------------------
(* Validates observations of the real printer (str(ty) = TypePrinter) and the real annotation
   parser (type_from_ast) against module TypePrint.
   Input (JSON, env VERIF_TRACE): a sequence of records
     kind = "type":  [id, t, w, back, refback]
          t        the type (first-order term) the real object was built from
          w        tokens of str(ty) as printed by the real TypePrinter
          back     projection of type_from_ast(parse(str(ty))), or <<"err">> if it was rejected
          refback  the same for the specification's reference printing RefPrint(t)
     kind = "names": [id, t, w]   t a type with quantified function components / existentials
   Verdicts (one JSON line per record):
     "ok"
     "reference-form-misread"     the real parser does not read RefPrint(t) as t
     "print-denotes-other-type"   back # t and by the annotation grammar w denotes Parse(w) # t
     "parser-misreads-print"      back # t although by the annotation grammar w denotes t
     "names-clash"                a variable printed under two names or two variables under one
     "print-unreadable"           the printed text does not follow the printed form of t *)
EXTENDS Naturals, Sequences, FiniteSets, TLC, Json, IOUtils

CONSTANTS AtomNames, NatVals, MaxTup, MaxTupDeep, Depth, Opq1, Opq2, NameDepth
VARIABLES ty, phase
vars == <<ty, phase>>
T == INSTANCE TypePrint

Obs == JsonDeserialize(IOEnv.VERIF_TRACE)

\* `ty` holds the index of the observation here
Init == ty \in 1..Len(Obs) /\ phase = 0
Next == phase = 0 /\ phase' = 1 /\ ty' = ty
Spec == Init /\ [][Next]_vars

O == Obs[ty]
TypeVerdict ==
    LET o == O p == T!Parse(o.w) IN
    [id |-> o.id,
     kind |-> IF o.refback # o.t THEN "reference-form-misread"
              ELSE IF o.back = o.t THEN "ok"
              ELSE IF p = o.t THEN "parser-misreads-print" ELSE "print-denotes-other-type",
     denotes |-> p,
     grammar_agrees |-> (p = o.back)]
NamesVerdict ==
    LET o == O nm == T!ReadNames(o.t, o.w) IN
    [id |-> o.id,
     kind |-> IF \E p \in nm : p[1] = <<"unreadable">> THEN "print-unreadable"
              ELSE IF T!NamesOK(nm) THEN "ok" ELSE "names-clash",
     names |-> nm,
     clashes |-> T!Clashes(nm)]
Report == phase = 1 => PrintT(ToJson(IF O.kind = "type" THEN TypeVerdict ELSE NamesVerdict))
=============================================================================
