---------------------------- MODULE Spans_Trace ----------------------------
(* Validates observations recorded from the real Span.__contains__ / __and__
   (one record per call, with arguments and result) against module Spans.
   Record: [op |-> "in"|"locin"|"and", a |-> span|loc, b |-> span, r |-> result]
   Locations arrive as <<file, line, col>>, spans as <<loc, loc>>,
   results as BOOLEAN, or for "and" as <<>> (None) or a span. *)
EXTENDS Naturals, Sequences, TLC, Json, IOUtils

CONSTANTS Files, MaxLine, MaxCol, NChunks
S == INSTANCE Spans WITH a <- <<>>, b <- <<>>, c <- <<>>

Obs == JsonDeserialize(IOEnv.VERIF_TRACE)

Expected(o) ==
    CASE o.op = "in"    -> S!SpanIn(o.a, o.b)
      [] o.op = "locin" -> S!LocIn(o.a, o.b)
      [] o.op = "and"   -> S!Meet(o.a, o.b)

VARIABLES k, i            \* chunk, position
vars == <<k, i>>
N == Len(Obs)
First(kk) == ((kk - 1) * N) \div NChunks + 1
Last(kk)  == (kk * N) \div NChunks

Init == k \in 1..NChunks /\ i = First(k)
Step == /\ i <= Last(k)
        /\ i' = i + 1
        /\ k' = k
        /\ IF Obs[i].r = Expected(Obs[i]) THEN TRUE
           ELSE PrintT(ToJson([bad |-> i - 1, expected |-> Expected(Obs[i])]))
Done == i = Last(k) + 1
Spec == Init /\ [][Step]_vars
\* every chunk is consumed to its end
Accept == Done => PrintT(ToJson([accepted |-> k, upto |-> i - 1]))
=============================================================================
