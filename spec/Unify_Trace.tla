---------------------------- MODULE Unify_Trace ----------------------------
(* Validates observations of the real `unify` (and of generic calls checked by the real
   type checker) against module Unify.
   Input (JSON, env VERIF_TRACE): a sequence of records
     [id, s, t, start |-> <<<<var, term>>, ...>>, calls, obs]
   obs = <<"none">>                     unify returned None
       | <<"subst", <<<<var, term>>..>>>> unify returned this dict
       | <<"exc", name>>                unify raised (RecursionError = did not terminate)
       | <<"accept">> | <<"reject", cls>> a call f(args) of a generic function whose parameter
                                        types are s and whose argument types are t (s, t tuples)
   For each record the algorithm of Unify runs on the problem (same actions, via INSTANCE),
   the closure oracle is evaluated, and the terminal state compares with the observation:
     verdict "none"  <=> obs none / reject (a call is also rejected when a copyable variable
                          would be instantiated with a non-copyable type)
     verdict "unif"  <=> obs subst / accept, and the returned dict is acyclic, makes both sides
                          and the start bindings identical, and the specification's mgu is an
                          instance of it (so it is most general)
     verdict "amb"   =>  out of scope (see Unify.HeadRel), reported as "skip".
   One JSON line is printed per record (kind = "ok" | "skip" | a mismatch class). *)
EXTENDS Naturals, Sequences, FiniteSets, TLC, Json, IOUtils

CONSTANTS TVarNames, CVarNames, TyAtomNames, NatVals, UseTup1, UseTup2, UseFun, UseArr,
          Depth, StartDepth, MaxStart, GDepth, BruteForce
VARIABLES prob, orc, work, sub, status, steps
vars == <<prob, orc, work, sub, status, steps>>

U == INSTANCE Unify

Obs == JsonDeserialize(IOEnv.VERIF_TRACE)

ProbOf(i) == [id |-> Obs[i].id, s |-> Obs[i].s, t |-> Obs[i].t,
              start |-> U!SeqToSubst(Obs[i].start), calls |-> Obs[i].calls, obs |-> Obs[i].obs]

Init == \E i \in 1..Len(Obs) : U!InitOf(ProbOf(i))
Next == U!Next
Spec == Init /\ [][Next]_vars

Verdict == IF U!OracleVerdict = "amb" THEN "amb" ELSE status

\* the specification's mgu is an instance of the returned substitution sg
MoreGeneral(sg) ==
    \A x \in U!ProbVars(prob) \cup DOMAIN sg :
        U!Resolve(sub, U!Resolve(sg, x)) = U!Resolve(sub, x)

\* program level: the instantiation must also respect the bounds of copyable variables
CallOK == /\ Verdict = "unif"
          /\ \A v \in U!ProbVars(prob) : (v[1] = "ev" /\ v[3] = "c") => ~U!NonCopy(U!Resolve(sub, v))

Kind0 ==
    LET o == prob.obs IN
    IF ~U!AgreeClosure THEN "spec-disagree"
    ELSE IF Verdict = "amb" THEN "skip"
    ELSE CASE o[1] = "none"   -> IF Verdict = "none" THEN "ok" ELSE "missed-unifier"
           [] o[1] = "exc"    -> IF o[2] = "RecursionError" THEN "nontermination" ELSE "exception"
           [] o[1] = "subst"  ->
                LET sg == U!SeqToSubst(o[2]) IN
                IF ~U!Acyclic(sg) THEN "cyclic-result"
                ELSE IF Verdict = "none" THEN "spurious-unifier"
                ELSE IF ~U!Solves(sg, prob) THEN "not-a-unifier"
                ELSE IF ~MoreGeneral(sg) THEN "not-most-general"
                ELSE "ok"
           [] o[1] = "accept" -> IF CallOK THEN "ok" ELSE "accepted-without-instantiation"
           [] o[1] = "reject" -> IF ~CallOK THEN "ok" ELSE "rejected-despite-instantiation"
           [] OTHER -> "bad-observation"

\* an otherwise conforming call must also stay within a call budget relative to the
\* specification's own number of steps (termination with a bound, not just eventually)
\* (where the specification fails early the code may legitimately look at other arguments first:
\*  there the bound is quadratic in the number of distinct subterms of the problem)
Budget == IF status = "unif" THEN 4 * steps + 8
          ELSE LET n == Cardinality(U!ProbNodes(prob)) IN 8 * n * n + 16
Kind == IF Kind0 = "ok" /\ prob.calls > Budget THEN "step-budget" ELSE Kind0

Report == U!Done => PrintT(ToJson([id |-> prob.id, kind |-> Kind, verdict |-> Verdict, why |-> U!Why,
                                   mgu |-> IF status = "unif" THEN U!SubstToSet(sub) ELSE {},
                                   steps |-> steps]))
\* the start substitution handed to the code must itself be consistent (precondition)
StartOK == status = "idle" => (U!Acyclic(prob.start) \/ PrintT(ToJson([id |-> prob.id, kind |-> "bad-input"])))
=============================================================================
