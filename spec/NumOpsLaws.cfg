SPECIFICATION Spec
CONSTANTS
  NL = 3
  LB = 2
  FP = 3
INVARIANT Laws
CHECK_DEADLOCK FALSE
