SPECIFICATION Spec
CONSTANTS
  NL = 4
  LB = 16
  FP = 53
  NChunks = 32
INVARIANT Accept
CHECK_DEADLOCK FALSE
