SPECIFICATION Spec
CONSTANTS
  NChunks = 16
INVARIANT Accept
CHECK_DEADLOCK FALSE
