SPECIFICATION Spec
CONSTANTS
  NQ = 3
  Depth = 0
  Mode = "cases"
INVARIANT Emit
CHECK_DEADLOCK FALSE
