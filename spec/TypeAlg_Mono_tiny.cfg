SPECIFICATION Spec
CONSTANTS
  MaxSlots = 1
  OnlyEq = FALSE
INVARIANT SigsScoped
INVARIANT InferRecovers
INVARIANT InferMidTotal
INVARIANT MonoClosed
INVARIANT MonoComposes
INVARIANT PartialThenRest
INVARIANT HugrIdxDense
INVARIANT OpenIsHugrExpressible
INVARIANT Emit
CHECK_DEADLOCK FALSE
