---------------------------- MODULE ComptimeOwn ----------------------------
(* Ownership during comptime tracing (guppylang_internals/tracing), property C22.

   A comptime body works on one subject value `x` of a chosen type and origin
   (owned argument / borrowed argument / created locally).  The state mirrors what
   the tracer keeps:
     heap    - the Python-level objects: "leaf" = GuppyObject (one wire) with its
               `_used` flag and the copyable/droppable class of its type
               (lin = qubit; aff = non-copyable but droppable, a value that stays ONE
               traced object: an opaque affine type and Option[array[int, 2]]; cpy = int).
               A leaf is fresh or used; a second use of a non-copyable leaf is an error
               whatever its droppability; an unused aff leaf may be dropped, a lin one not;
               "tuple" = Python tuple, "list" = list / frozenlist (field frozen),
               "struct" = GuppyStructObject (field frozen).  Node 1 is `x`.
               (tracing/unpacking.py unpack_guppy_object builds exactly this from an
               argument, with frozen = "argument is not borrowed", recursively.)
     unused  - TracingState.unused_undroppable_objs (ids of non-droppable leaves whose
               `_used` flag is not set)
   One action per statement of the body:
     Use(p)     f(<p>) with f taking its argument @owned        (function.py trace_call)
     Borrow(p)  f(<p>) with f borrowing its argument            (trace_call + unpacking.py update_packed_value)
     UseTup(op) the subject (a single traced object) moved into a tuple argument: f((x, x)) / f((x, <fresh>))
     Mut(op,p)  a mutating list method / item assignment on the list at p  (frozenlist.py);
                every way Python offers to change a list in place: the 11 methods and
                operators frozenlist overrides plus re-initialisation l.__init__(...)
     SetAttr    attribute assignment on the struct at p         (GuppyStructObject.__setattr__)
     Finish(r)  `return <r>`, `return x, x` or falling off the end            (function.py trace_function:
                pack + use the return value, pack + use every borrowed argument and
                compare its type, then the leak check)
   Packing a Python value into a Guppy value (unpacking.py guppy_object_from_py) is the
   event sequence PackEv: it uses every leaf in the order the code does, fails on an
   empty list and on a struct field whose type changed; `_use_wire` (object.py) fails
   when a non-copyable leaf is used again.  Paths p are index sequences below x.

   The verdict of a finished body is "ok" or "error" (reason reuse / leak / frozen /
   shape) together with the place where the error is raised: errAt = k > 0 means statement
   k of the body raises (the second use, the mutation), errAt = 0 means the error is
   reported when the function returns.
   Ghost variables (consumed, mutOwned) state the property itself and TLC checks that the
   flag-and-registry mechanism enforces it:
     LinearOnce       accepted => every non-droppable leaf was consumed exactly once and
                      every non-copyable one at most once (borrowing does not consume)
     NoOwnedMutation  accepted => no mutator was applied to a value derived from an
                      owned argument
     Rejected         a finished body that left a non-droppable leaf unconsumed, consumed it
                      twice, or mutated owned data has verdict error
     RegistryExact    the registry is exactly the set of unused non-droppable leaves
   With Emit = TRUE every finished body is printed with its verdict; checks/C22.py renders
   it as a @guppy.comptime function, compiles it with /repo and compares. *)
EXTENDS Naturals, Sequences, FiniteSets, TLC, Json

CONSTANTS Types,      \* subset of {"Q","I","F","O","AQ","AI","TQ","SQ","SA","TA"}
          Origins,    \* subset of {"owned","borrowed","local"}
          MutOps,     \* list mutators explored
          MaxOps,
          Emit

AllMutOps == {"append", "extend", "insert", "pop", "popuse", "remove", "clear", "sort", "reverse",
              "setitem", "setalias", "delitem", "iadd", "imul1", "imul2", "reinit"}
ASSUME MutOps \subseteq AllMutOps
AttrOps == {"setattr_same", "setattr_fresh", "setattr_alias"}
Paths == {<<>>, <<1>>, <<2>>, <<1, 1>>, <<1, 2>>}
RetPaths == {<<>>, <<1>>}
NoRet == <<0>>
RetPair == <<9>>      \* `return x, x` (x a single traced object)
TupOps == {"usepair", "usewith"}

Leaf(c)       == [k |-> "leaf",   cls |-> c, used |-> FALSE, items |-> <<>>, frozen |-> FALSE, own |-> FALSE]
Node(k, c, s) == [k |-> k,        cls |-> c, used |-> FALSE, items |-> s,    frozen |-> FALSE, own |-> FALSE]

\* the value of each subject type as unpack_guppy_object lays it out (lists have length 2)
Layout(t) ==
    CASE t = "Q"  -> <<Leaf("lin")>>
      [] t = "I"  -> <<Leaf("cpy")>>
      [] t = "F"  -> <<Leaf("aff")>>
      [] t = "O"  -> <<Leaf("aff")>>    \* Option[array[int, 2]]: affine, not unpacked, stays ONE traced object
      [] t = "AQ" -> <<Node("list", "lin", <<2, 3>>), Leaf("lin"), Leaf("lin")>>
      [] t = "AI" -> <<Node("list", "cpy", <<2, 3>>), Leaf("cpy"), Leaf("cpy")>>
      [] t = "TQ" -> <<Node("tuple", "-", <<2, 3>>), Leaf("lin"), Leaf("lin")>>
      [] t = "SQ" -> <<Node("struct", "-", <<2, 3>>), Leaf("lin"), Leaf("lin")>>
      [] t = "SA" -> <<Node("struct", "-", <<2, 3>>), Node("list", "lin", <<4, 5>>), Leaf("lin"),
                       Leaf("lin"), Leaf("lin")>>
      [] t = "TA" -> <<Node("tuple", "-", <<2, 3>>), Node("list", "lin", <<4, 5>>), Leaf("lin"),
                       Leaf("lin"), Leaf("lin")>>

\* copyable types cannot be borrowed (a plain `x: int` argument)
ValidSubject(t, o) == ~(t = "I" /\ o = "borrowed")

VARIABLES ty, origin, heap, unused, prog, done, verdict, reason, errAt, ret, rshape,
          consumed, mutOwned
vars == <<ty, origin, heap, unused, prog, done, verdict, reason, errAt, ret, rshape, consumed, mutOwned>>

Ids == 1..Len(heap)
IsLeaf(id) == heap[id].k = "leaf"
NonDroppable(h, id) == h[id].k = "leaf" /\ h[id].cls = "lin"
NonCopyable(h, id) == h[id].k = "leaf" /\ h[id].cls # "cpy"

Init ==
    /\ ty \in Types /\ origin \in Origins /\ ValidSubject(ty, origin)
    /\ heap = [i \in 1..Len(Layout(ty)) |->
                 [Layout(ty)[i] EXCEPT !.frozen = (origin = "owned" /\ Layout(ty)[i].k \in {"list", "struct"}),
                                       !.own = (origin = "owned")]]
    /\ unused = {i \in 1..Len(Layout(ty)) : Layout(ty)[i].k = "leaf" /\ Layout(ty)[i].cls = "lin"}
    /\ prog = <<>> /\ done = FALSE /\ verdict = "ok" /\ reason = "-" /\ errAt = 0
    /\ ret = NoRet /\ rshape = <<>>
    /\ consumed = [i \in 1..Len(Layout(ty)) |-> 0]
    /\ mutOwned = FALSE

\* ---- paths ---------------------------------------------------------------------
RECURSIVE Res(_, _, _)
Res(h, id, p) ==
    IF p = <<>> THEN id
    ELSE IF h[id].k = "leaf" \/ Head(p) > Len(h[id].items) THEN 0
    ELSE Res(h, h[id].items[Head(p)], Tail(p))
At(p) == Res(heap, 1, p)

RECURSIVE Cat(_, _, _)
Cat(F(_), s, i) == IF i > Len(s) THEN <<>> ELSE F(s[i]) \o Cat(F, s, i + 1)

\* all leaves below a node, left to right, with repetitions
RECURSIVE LeavesOf(_, _)
LeavesOf(h, id) == IF h[id].k = "leaf" THEN <<id>>
                   ELSE LET F(c) == LeavesOf(h, c) IN Cat(F, h[id].items, 1)
\* all list nodes below a node
RECURSIVE ListsOf(_, _)
ListsOf(h, id) == IF h[id].k = "leaf" THEN {}
                  ELSE (IF h[id].k = "list" THEN {id} ELSE {})
                       \cup UNION {ListsOf(h, h[id].items[i]) : i \in 1..Len(h[id].items)}

\* shape of a value (for the return annotation): leaf class, or <<kind, <<shapes>>>>
RECURSIVE Shape(_, _)
Shape(h, id) == IF h[id].k = "leaf" THEN <<h[id].cls>>
                ELSE <<h[id].k, [i \in 1..Len(h[id].items) |-> Shape(h, h[id].items[i])]>>

\* ---- guppy_object_from_py as an event sequence ------------------------------------
UseEv(c) == <<[e |-> "use", l |-> c]>>
Fail(r)  == <<[e |-> r, l |-> 0]>>
RECURSIVE PackEv(_, _)
PackEv(h, id) ==
    LET nd == h[id] IN
    CASE nd.k = "leaf" -> <<>>
      [] nd.k \in {"tuple", "list"} ->
            IF nd.k = "list" /\ nd.items = <<>> THEN Fail("empty")
            ELSE LET Sub(c) == PackEv(h, c)
                     Own(c) == IF h[c].k = "leaf" THEN UseEv(c) ELSE <<>>
                 IN Cat(Sub, nd.items, 1) \o Cat(Own, nd.items, 1)
      [] nd.k = "struct" ->
            LET Fld(c) == PackEv(h, c)
                          \o (IF h[c].k = "list" /\ Len(h[c].items) # 2 THEN Fail("fieldtype") ELSE <<>>)
                          \o (IF h[c].k = "leaf" THEN UseEv(c) ELSE <<>>)
            IN Cat(Fld, nd.items, 1)
\* packing a value and handing the packed object on (call argument / return value)
PassEv(h, id) == PackEv(h, id) \o (IF h[id].k = "leaf" THEN UseEv(id) ELSE <<>>)

\* GuppyObject._use_wire over an event sequence: -> [ok, why, h]
RECURSIVE RunEv(_, _, _)
RunEv(evs, i, h) ==
    IF i > Len(evs) THEN [ok |-> TRUE, why |-> "-", h |-> h]
    ELSE LET ev == evs[i] IN
         IF ev.e # "use" THEN [ok |-> FALSE, why |-> "shape", h |-> h]
         ELSE IF h[ev.l].used /\ h[ev.l].cls # "cpy" THEN [ok |-> FALSE, why |-> "reuse", h |-> h]
         ELSE RunEv(evs, i + 1, [h EXCEPT ![ev.l].used = TRUE])

UsedNow(h0, h1) == {i \in 1..Len(h0) : h0[i].k = "leaf" /\ h1[i].used /\ ~h0[i].used}
Bump(cn, evs) == [i \in DOMAIN cn |-> cn[i] + Cardinality({j \in 1..Len(evs) : evs[j].e = "use" /\ evs[j].l = i})]

Stmt(op, p) == prog' = Append(prog, [op |-> op, p |-> p])
\* the statement being executed raises: errAt = its (1-based) position in the body
Error(why) == /\ done' = TRUE /\ verdict' = "error" /\ reason' = why /\ errAt' = Len(prog) + 1
              /\ UNCHANGED <<ret, rshape>>
Live == ~done /\ Len(prog) < MaxOps
Keep == UNCHANGED <<done, verdict, reason, errAt, ret, rshape>>

\* ---- statements ---------------------------------------------------------------------
Use(p) ==
    /\ Live /\ At(p) # 0
    /\ Stmt("use", p)
    /\ LET evs == PassEv(heap, At(p))
           r == RunEv(evs, 1, heap)
       IN IF r.ok
          THEN /\ heap' = r.h
               /\ unused' = unused \ {i \in Ids : r.h[i].used}
               /\ consumed' = Bump(consumed, evs)
               /\ Keep
          ELSE /\ Error(r.why) /\ UNCHANGED <<heap, unused, consumed>>
    /\ UNCHANGED <<ty, origin, mutOwned>>

Borrow(p) ==
    /\ Live /\ At(p) # 0
    /\ ~(IsLeaf(At(p)) /\ heap[At(p)].cls = "cpy")
    /\ Stmt("borrow", p)
    /\ LET evs == PassEv(heap, At(p))
           r == RunEv(evs, 1, heap)
           ls == {LeavesOf(heap, At(p))[j] : j \in 1..Len(LeavesOf(heap, At(p)))}
       IN IF r.ok
          THEN \* update_packed_value: every leaf gets its new wire, its flag is reset and it is registered again
               /\ heap' = [i \in Ids |-> IF i \in ls THEN [heap[i] EXCEPT !.used = FALSE] ELSE heap[i]]
               /\ unused' = unused \cup {i \in ls : NonDroppable(heap, i)}
               /\ Keep
          ELSE /\ Error(r.why) /\ UNCHANGED <<heap, unused>>
    /\ UNCHANGED <<ty, origin, consumed, mutOwned>>

Fresh(c) == Leaf(c)
Rev(s) == [i \in 1..Len(s) |-> s[Len(s) + 1 - i]]
Front(s) == SubSeq(s, 1, Len(s) - 1)

\* effect of a list method on an unfrozen list with items s; f = id of a freshly made element
NeedsFresh(op) == op \in {"append", "extend", "insert", "setitem", "iadd"}
MinLen(op) == CASE op \in {"pop", "popuse", "remove", "setitem", "delitem"} -> 1
                [] op = "setalias" -> 2
                [] OTHER -> 0
ListEffect(op, s, f) ==
    CASE op \in {"append", "extend", "iadd"} -> Append(s, f)
      [] op = "insert"   -> <<f>> \o s
      [] op \in {"pop", "popuse"} -> Front(s)
      [] op \in {"remove", "delitem"} -> Tail(s)
      [] op = "clear"    -> <<>>
      [] op \in {"sort", "imul1"} -> s
      [] op \in {"reverse", "reinit"} -> Rev(s)      \* reinit: l.__init__(l[::-1])
      [] op = "setitem"  -> <<f>> \o Tail(s)
      [] op = "setalias" -> <<s[2]>> \o Tail(s)
      [] op = "imul2"    -> s \o s

Mut(op, p) ==
    /\ Live /\ At(p) # 0 /\ heap[At(p)].k = "list"
    /\ Len(heap[At(p)].items) >= MinLen(op)
    /\ Stmt(op, p)
    /\ mutOwned' = (mutOwned \/ heap[At(p)].own)
    /\ LET id == At(p)
           nd == heap[id]
           f == Len(heap) + 1
           h1 == IF NeedsFresh(op) THEN Append(heap, Fresh(nd.cls)) ELSE heap
           u1 == IF NeedsFresh(op) /\ nd.cls = "lin" THEN unused \cup {f} ELSE unused
           c1 == IF NeedsFresh(op) THEN Append(consumed, 0) ELSE consumed
       IN IF nd.frozen
          THEN \* frozenlist: every mutator raises (arguments were evaluated first)
               /\ Error("frozen") /\ heap' = h1 /\ unused' = u1 /\ consumed' = c1
          ELSE LET h2 == [h1 EXCEPT ![id].items = ListEffect(op, nd.items, f)] IN
               IF op = "popuse"
               THEN LET l == nd.items[Len(nd.items)]
                        r == RunEv(UseEv(l), 1, h2)
                    IN IF r.ok THEN /\ heap' = r.h /\ unused' = u1 \ {l}
                                    /\ consumed' = Bump(c1, UseEv(l)) /\ Keep
                       ELSE /\ Error(r.why) /\ heap' = h2 /\ unused' = u1 /\ consumed' = c1
               ELSE /\ heap' = h2 /\ unused' = u1 /\ consumed' = c1 /\ Keep
    /\ UNCHANGED <<ty, origin>>

\* attribute assignment on the struct at p; always targets its last field
SetAttr(op, p) ==
    /\ Live /\ At(p) # 0 /\ heap[At(p)].k = "struct"
    /\ LET nd == heap[At(p)]
           last == nd.items[Len(nd.items)]
       IN /\ (op = "setattr_fresh" => heap[last].k = "leaf")
          /\ (op = "setattr_alias" => heap[last].k = "leaf" /\ heap[nd.items[1]].k = "leaf")
    /\ Stmt(op, p)
    /\ mutOwned' = (mutOwned \/ heap[At(p)].own)
    /\ LET id == At(p)
           nd == heap[id]
           n == Len(nd.items)
           f == Len(heap) + 1
           fresh == op = "setattr_fresh"
           h1 == IF fresh THEN Append(heap, Fresh(heap[nd.items[n]].cls)) ELSE heap
           u1 == IF fresh /\ heap[nd.items[n]].cls = "lin" THEN unused \cup {f} ELSE unused
           c1 == IF fresh THEN Append(consumed, 0) ELSE consumed
           v == CASE op = "setattr_same" -> nd.items[n]
                  [] op = "setattr_fresh" -> f
                  [] op = "setattr_alias" -> nd.items[1]
       IN IF nd.frozen
          THEN /\ Error("frozen") /\ heap' = h1 /\ unused' = u1 /\ consumed' = c1
          ELSE /\ heap' = [h1 EXCEPT ![id].items = [nd.items EXCEPT ![n] = v]]
               /\ unused' = u1 /\ consumed' = c1 /\ Keep
    /\ UNCHANGED <<ty, origin>>

\* the subject, a single traced object, moved into a tuple that is handed to an @owned parameter:
\* usepair f((x, x)), usewith f((x, <fresh>)); guppy_object_from_py uses the elements left to right
UseTup(op) ==
    /\ Live /\ IsLeaf(1)
    /\ Stmt(op, <<>>)
    /\ LET fresh == op = "usewith"
           f == Len(heap) + 1
           h1 == IF fresh THEN Append(heap, Fresh(heap[1].cls)) ELSE heap
           u1 == IF fresh /\ heap[1].cls = "lin" THEN unused \cup {f} ELSE unused
           c1 == IF fresh THEN Append(consumed, 0) ELSE consumed
           evs == UseEv(1) \o UseEv(IF fresh THEN f ELSE 1)
           r == RunEv(evs, 1, h1)
       IN IF r.ok
          THEN /\ heap' = r.h
               /\ unused' = u1 \ {i \in 1..Len(r.h) : r.h[i].used}
               /\ consumed' = Bump(c1, evs)
               /\ Keep
          ELSE /\ Error(r.why) /\ heap' = h1 /\ unused' = u1 /\ consumed' = c1
    /\ UNCHANGED <<ty, origin, mutOwned>>

\* ---- end of the function (trace_function after the Python body returned) ------------------
Finish(r) ==
    /\ ~done
    /\ r = NoRet \/ (r = RetPair /\ IsLeaf(1)) \/ (r \in RetPaths /\ At(r) # 0)
    /\ done' = TRUE /\ ret' = r
    /\ rshape' = IF r = NoRet THEN <<>>
                 ELSE IF r = RetPair THEN <<"tuple", <<Shape(heap, 1), Shape(heap, 1)>>>>
                 ELSE Shape(heap, At(r))
    /\ LET evs1 == IF r = NoRet THEN <<>>
                   ELSE IF r = RetPair THEN UseEv(1) \o UseEv(1)
                   ELSE PassEv(heap, At(r))
           r1 == RunEv(evs1, 1, heap)
           \* borrowed argument: implicitly returned, and its type must be unchanged
           evs2 == IF origin = "borrowed" THEN PassEv(r1.h, 1) ELSE <<>>
           r2 == RunEv(evs2, 1, r1.h)
           lenok == origin = "borrowed" => \A l \in ListsOf(heap, 1) : Len(heap[l].items) = 2
           u2 == unused \ {i \in Ids : r2.h[i].used}
       IN IF ~r1.ok THEN /\ verdict' = "error" /\ reason' = r1.why /\ UNCHANGED <<heap, unused, consumed>>
          ELSE IF ~r2.ok THEN /\ verdict' = "error" /\ reason' = r2.why /\ UNCHANGED <<heap, unused, consumed>>
          ELSE /\ heap' = r2.h /\ unused' = u2
               /\ consumed' = Bump(Bump(consumed, evs1), evs2)
               /\ IF ~lenok THEN verdict' = "error" /\ reason' = "shape"
                  ELSE IF u2 # {} THEN verdict' = "error" /\ reason' = "leak"
                  ELSE verdict' = "ok" /\ reason' = "-"
    /\ UNCHANGED <<ty, origin, prog, mutOwned, errAt>>   \* errAt = 0: raised after the body returned

DoUse     == \E p \in Paths : Use(p)
DoBorrow  == \E p \in Paths : Borrow(p)
DoMut     == \E p \in Paths, op \in MutOps : Mut(op, p)
DoSetAttr == \E p \in Paths, op \in AttrOps : SetAttr(op, p)
DoUseTup  == \E op \in TupOps : UseTup(op)
DoFinish  == \E r \in RetPaths \cup {NoRet, RetPair} : Finish(r)
Next == DoUse \/ DoBorrow \/ DoUseTup \/ DoMut \/ DoSetAttr \/ DoFinish
Spec == Init /\ [][Next]_vars

\* ---- the property, stated on the ghost variables -------------------------------------------
Accepted == done /\ verdict = "ok"
LinearOnce ==
    Accepted => \A i \in Ids : IsLeaf(i) =>
        /\ (heap[i].cls = "lin" => consumed[i] = 1)
        /\ (heap[i].cls = "aff" => consumed[i] <= 1)
NoOwnedMutation == Accepted => ~mutOwned
\* the registry is exactly the set of unused non-droppable leaves
RegistryExact == ~done => unused = {i \in Ids : NonDroppable(heap, i) /\ ~heap[i].used}
\* conversely: a body that consumed a linear leaf twice or never, or mutated owned data, is an error
Rejected == (done /\ (\/ mutOwned
                      \/ \E i \in Ids : IsLeaf(i) /\ heap[i].cls = "lin" /\ consumed[i] # 1
                      \/ \E i \in Ids : IsLeaf(i) /\ heap[i].cls = "aff" /\ consumed[i] > 1))
            => verdict = "error"

Case == [ty |-> ty, origin |-> origin, prog |-> prog, ret |-> ret, rshape |-> rshape,
         verdict |-> verdict, reason |-> reason, at |-> errAt]
Out == (Emit /\ done) => PrintT(ToJson(Case))
=============================================================================
