SPECIFICATION Spec
CONSTANTS
  NQ = 3
  Depth = 1
  Mode = "enum"
INVARIANT Emit
CHECK_DEADLOCK FALSE
