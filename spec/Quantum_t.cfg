SPECIFICATION Spec
CONSTANTS
  NQ = 2
  Depth = 2
  MCGates = {"h", "x", "y", "s", "t", "tdg", "v", "rx", "ry", "rz", "cx", "cy", "cz", "ch", "crz", "zz_max", "zz_phase", "phased_x", "qrz"}
  MCTs <- MCTsDefault
INVARIANT TypeOK
INVARIANT NormPreserved
INVARIANT BranchWeights
INVARIANT NeverZero
INVARIANT Repeatable
INVARIANT LastResetIsZero
CHECK_DEADLOCK FALSE
