----------------------------- MODULE Linearity -----------------------------
(* C06 (and the accept verdict used by C01): declarative PATH SEMANTICS of ownership
   for the core fragment of Guppy: assignments, owned and borrowed calls, if / while with
   opaque (run-time) conditions, break / continue / return, tuples and struct fields.

   What is modelled.  A batch of structured programs (ASTs) is read from JSON.  `Init`
   picks one program; TLC then executes it along EVERY control-flow path (conditions are
   chosen nondeterministically, loops are unrolled until the finite state graph is
   closed).  The state is, per leaf place (variable / tuple element / struct field of
   qubit type), one of
        "U"  never assigned on this path        "O"  holds a live value
        "M"  value consumed / moved / lent out  ("X" only in the final blanked state)
   plus the control stack `k` (statement lists and loop markers).  Every step that breaks
   the ownership discipline records WITNESSES in `w`:
        use_moved           a place is used (consumed, moved, returned, borrowed) while "M"
        use_undef           ... while "U" (also: field assignment into an unbound variable)
        overwrite           assignment to a place that still holds a live value
        leak                function exit (return / end of body) with a live local/owned value
        borrowed_moved      a borrowed parameter is consumed / moved / returned as a whole
        borrowed_unrestored a leaf of a borrowed parameter is not "O" at function exit
        borrow_shadowed     assignment to a borrowed parameter
        temp_borrow / temp_expr / temp_proj   an unnamed linear value is dropped
        missing_return      end of body reached in a function that must return a value
   A program is ACCEPTED by the specification iff no behaviour records a witness.

   What it mirrors.  This is deliberately NOT the algorithm of
   guppylang_internals/checker/linearity_checker.py (per-basic-block scopes `used_local` /
   `used_parent` + a second place-level liveness pass in `check_cfg_linearity`); it is the
   path condition that algorithm has to decide (property C06).  Rules taken from the code
   and from tests/error/{linear,inout}_errors:
     * arguments are evaluated left to right; a place lent to a borrowing parameter is
       unavailable until that call returns (`_visit_call_args` / `_reassign_inout_args`);
     * a borrowed parameter may only be re-borrowed as a whole (NotOwnedError) and may not be
       assigned (BorrowShadowedError); its struct fields / tuple elements MAY be moved out
       but have to be put back before every exit (BorrowSubPlaceUsedError);
     * assignment evaluates the value first, then overwrites the targets left to right
       (`visit_Assign` / `_check_assign_targets`);
     * unreachable statements (after return/break/continue) are not on any path.
   Conditions are opaque, so every syntactic path is feasible; `while True` is excluded.

   Input (env VERIF_IN): [funcs |-> [name |-> [modes |-> <<"B"|"O",..>>, ret |-> "none"|"bool"|"lin"]],
                          progs |-> << [id, vars |-> [name |-> [ty, kind]], ret, body] >>]
   types  [k |-> "qubit"] | [k |-> "tuple"|"struct", fn |-> <<names>>, el |-> <<types>>]
   exprs  [e |-> "place", p |-> <<"s","a">>] | [e |-> "new"] | [e |-> "opaque"] | [e |-> "none"]
        | [e |-> "call", f, args] | [e |-> "tuple"|"struct", els] | [e |-> "proj", of |-> expr]
   stmts  [k |-> "assign", tgts |-> <<paths>>, val] | [k |-> "expr", val] | [k |-> "pass"]
        | [k |-> "if", c, then, else] | [k |-> "while", c, body] | "break" | "continue"
        | [k |-> "return", val]                      (every statement has a unique id) *)
EXTENDS Naturals, Sequences, FiniteSets, TLC, Json, IOUtils

Batch == JsonDeserialize(IOEnv.VERIF_IN)
Progs == Batch.progs
Funcs == Batch.funcs

VARIABLES pid,   \* index of the program under execution
          pc,    \* "run" | "done"
          k,     \* control stack (top = last element)
          st,    \* leaf place -> "U" | "O" | "M"
          w      \* witnesses recorded by the last step
vars == <<pid, pc, k, st, w>>

P == Progs[pid]

-----------------------------------------------------------------------------
(* places *)
RECURSIVE LeavesOf(_, _)
LeavesOf(path, ty) ==
    IF ty.k = "qubit" THEN {path}
    ELSE UNION { LeavesOf(Append(path, ty.fn[i]), ty.el[i]) : i \in 1..Len(ty.el) }

AllLeaves(prog) == UNION { LeavesOf(<<v>>, prog.vars[v].ty) : v \in DOMAIN prog.vars }
IsPrefix(p, l)  == Len(p) <= Len(l) /\ SubSeq(l, 1, Len(p)) = p
Under(s, p)     == { l \in DOMAIN s : IsPrefix(p, l) }
Kind(prog, p)   == prog.vars[p[1]].kind            \* "local" | "owned" | "borrowed"
Wit(kind, p, at) == [kind |-> kind, p |-> p, at |-> at]

-----------------------------------------------------------------------------
(* expression evaluation: acc = [st, w, lent];  mode "O" = ownership leaves the place,
   "B" = lent to a borrowing parameter until the enclosing call returns *)
UsePlace(prog, p, mode, at, acc) ==
    IF Kind(prog, p) = "borrowed" /\ Len(p) = 1 /\ mode = "O"
    THEN [acc EXCEPT !.w = @ \cup {Wit("borrowed_moved", p, at)}]
    ELSE LET ls == Under(acc.st, p) IN
         [acc EXCEPT
            !.w  = @ \cup { Wit(IF acc.st[l] = "U" THEN "use_undef" ELSE "use_moved", l, at)
                            : l \in { x \in ls : acc.st[x] # "O" } },
            !.st = [l \in DOMAIN acc.st |-> IF l \in ls THEN "M" ELSE acc.st[l]]]

RECURSIVE Eval(_, _, _, _), EvalArgs(_, _, _, _, _, _), EvalEls(_, _, _, _, _)

Eval(prog, e, at, acc) ==
    CASE e.e = "place" -> UsePlace(prog, e.p, "O", at, acc)
      [] e.e \in {"new", "opaque", "none"} -> acc
      [] e.e \in {"tuple", "struct"} -> EvalEls(prog, e.els, 1, at, acc)
      [] e.e = "proj" ->   \* component of an unnamed aggregate: the siblings are dropped
            [Eval(prog, e.of, at, acc) EXCEPT !.w = @ \cup {Wit("temp_proj", <<>>, at)}]
      [] e.e = "call" ->
            LET r == EvalArgs(prog, e.args, Funcs[e.f].modes, 1, at, [acc EXCEPT !.lent = {}]) IN
            \* the call returns: everything lent to it is owned by the caller again
            [st   |-> [l \in DOMAIN r.st |->
                         IF \E p \in r.lent : IsPrefix(p, l) THEN "O" ELSE r.st[l]],
             w    |-> r.w,
             lent |-> acc.lent]

EvalEls(prog, els, i, at, acc) ==
    IF i > Len(els) THEN acc
    ELSE EvalEls(prog, els, i + 1, at, Eval(prog, els[i], at, acc))

EvalArgs(prog, args, modes, i, at, acc) ==
    IF i > Len(args) THEN acc
    ELSE LET a == args[i]
             nxt == IF modes[i] = "B"
                    THEN IF a.e = "place"
                         THEN [UsePlace(prog, a.p, "B", at, acc) EXCEPT !.lent = @ \cup {a.p}]
                         ELSE \* a temporary lent to a borrowing parameter is lost afterwards
                              [Eval(prog, a, at, acc) EXCEPT !.w = @ \cup {Wit("temp_borrow", <<>>, at)}]
                    ELSE Eval(prog, a, at, acc)
         IN EvalArgs(prog, args, modes, i + 1, at, nxt)

Droppable(e) == \/ e.e \in {"opaque", "none"}
                \/ e.e = "call" /\ Funcs[e.f].ret \in {"none", "bool"}

Acc0 == [st |-> st, w |-> {}, lent |-> {}]

-----------------------------------------------------------------------------
(* assignment targets, left to right *)
RECURSIVE AssignTargets(_, _, _, _, _)
AssignTargets(prog, tgts, i, at, acc) ==
    IF i > Len(tgts) THEN acc
    ELSE LET p  == tgts[i]
             ls == Under(acc.st, p)
             rootleaves == Under(acc.st, <<p[1]>>)
             w1 == IF Kind(prog, p) = "borrowed" /\ Len(p) = 1
                   THEN {Wit("borrow_shadowed", p, at)} ELSE {}
             w2 == IF Len(p) > 1 /\ \A l \in rootleaves : acc.st[l] = "U"
                   THEN {Wit("use_undef", p, at)} ELSE {}
             w3 == { Wit("overwrite", l, at) : l \in { x \in ls : acc.st[x] = "O" } }
         IN AssignTargets(prog, tgts, i + 1, at,
               [acc EXCEPT !.w  = @ \cup w1 \cup w2 \cup w3,
                           !.st = [l \in DOMAIN acc.st |-> IF l \in ls THEN "O" ELSE acc.st[l]]])

(* function exit: locals and owned parameters must hold nothing, borrowed ones everything *)
ExitWitnesses(prog, s, at) ==
    { Wit("leak", l, at) : l \in { x \in DOMAIN s : Kind(prog, x) # "borrowed" /\ s[x] = "O" } }
    \cup
    { Wit("borrowed_unrestored", l, at) : l \in { x \in DOMAIN s : Kind(prog, x) = "borrowed" /\ s[x] # "O" } }

Blank(s) == [l \in DOMAIN s |-> "X"]

-----------------------------------------------------------------------------
(* control stack *)
NoExpr == [e |-> "none"]
SeqF(b)  == [f |-> "seq",  b |-> b, i |-> 1, c |-> NoExpr, at |-> 0]
LoopF(s) == [f |-> "loop", b |-> s.body, i |-> 0, c |-> s.c, at |-> s.id]
Top      == k[Len(k)]
Pop(kk)  == SubSeq(kk, 1, Len(kk) - 1)
Advance(kk) == [kk EXCEPT ![Len(kk)].i = @ + 1]
AtStmt   == pc = "run" /\ k # <<>> /\ Top.f = "seq" /\ Top.i <= Len(Top.b)
Cur      == Top.b[Top.i]
InnerLoop(kk) == CHOOSE j \in 1..Len(kk) : kk[j].f = "loop" /\ \A m \in (j+1)..Len(kk) : kk[m].f # "loop"
InLoop(kk)    == \E j \in 1..Len(kk) : kk[j].f = "loop"

Init == /\ pid \in 1..Len(Progs)
        /\ pc = "run"
        /\ k = <<SeqF(Progs[pid].body)>>
        /\ st = [l \in AllLeaves(Progs[pid]) |-> IF Kind(Progs[pid], l) = "local" THEN "U" ELSE "O"]
        /\ w = {}

\* target = value : evaluate the value (moves), then overwrite the targets
Assign == /\ AtStmt /\ Cur.k = "assign"
          /\ LET r == AssignTargets(P, Cur.tgts, 1, Cur.id, Eval(P, Cur.val, Cur.id, Acc0)) IN
             st' = r.st /\ w' = r.w
          /\ k' = Advance(k) /\ UNCHANGED <<pid, pc>>

\* expression statement: h(q), discard(q), ... ; a non-droppable result is lost
ExprStmt == /\ AtStmt /\ Cur.k = "expr"
            /\ LET r == Eval(P, Cur.val, Cur.id, Acc0) IN
               /\ st' = r.st
               /\ w' = r.w \cup (IF Droppable(Cur.val) THEN {} ELSE {Wit("temp_expr", <<>>, Cur.id)})
            /\ k' = Advance(k) /\ UNCHANGED <<pid, pc>>

Pass == /\ AtStmt /\ Cur.k = "pass"
        /\ k' = Advance(k) /\ w' = {} /\ UNCHANGED <<pid, pc, st>>

\* if: evaluate the condition, then either branch
If == /\ AtStmt /\ Cur.k = "if"
      /\ LET r == Eval(P, Cur.c, Cur.id, Acc0) IN st' = r.st /\ w' = r.w
      /\ \/ k' = Append(Advance(k), SeqF(Cur.then))
         \/ k' = Append(Advance(k), SeqF(Cur.else))
      /\ UNCHANGED <<pid, pc>>

While == /\ AtStmt /\ Cur.k = "while"
         /\ k' = Append(Advance(k), LoopF(Cur))
         /\ w' = {} /\ UNCHANGED <<pid, pc, st>>

\* loop head: evaluate the condition, then enter the body once more or leave
LoopHead == /\ pc = "run" /\ k # <<>> /\ Top.f = "loop"
            /\ LET r == Eval(P, Top.c, Top.at, Acc0) IN st' = r.st /\ w' = r.w
            /\ \/ k' = Append(k, SeqF(Top.b))
               \/ k' = Pop(k)
            /\ UNCHANGED <<pid, pc>>

Break == /\ AtStmt /\ Cur.k = "break" /\ InLoop(k)
         /\ k' = SubSeq(k, 1, InnerLoop(k) - 1)
         /\ w' = {} /\ UNCHANGED <<pid, pc, st>>

Continue == /\ AtStmt /\ Cur.k = "continue" /\ InLoop(k)
            /\ k' = SubSeq(k, 1, InnerLoop(k))
            /\ w' = {} /\ UNCHANGED <<pid, pc, st>>

EndSeq == /\ pc = "run" /\ k # <<>> /\ Top.f = "seq" /\ Top.i > Len(Top.b)
          /\ k' = Pop(k) /\ w' = {} /\ UNCHANGED <<pid, pc, st>>

Return == /\ AtStmt /\ Cur.k = "return"
          /\ LET r == Eval(P, Cur.val, Cur.id, Acc0) IN
             w' = r.w \cup ExitWitnesses(P, r.st, Cur.id)
          /\ st' = Blank(st) /\ k' = <<>> /\ pc' = "done" /\ UNCHANGED pid

FallOff == /\ pc = "run" /\ k = <<>>
           /\ w' = ExitWitnesses(P, st, 0) \cup (IF P.ret # "none" THEN {Wit("missing_return", <<>>, 0)} ELSE {})
           /\ st' = Blank(st) /\ k' = <<>> /\ pc' = "done" /\ UNCHANGED pid

Next == \/ Assign \/ ExprStmt \/ Pass \/ If \/ While \/ LoopHead \/ Break
        \/ Continue \/ EndSeq \/ Return \/ FallOff
Spec == Init /\ [][Next]_vars

-----------------------------------------------------------------------------
TypeOK == /\ pc \in {"run", "done"}
          /\ \A l \in DOMAIN st : st[l] \in {"U", "O", "M", "X"}
          /\ pc = "done" => k = <<>>
\* borrowed parameters are never unassigned
BorrowedBound == pc = "run" => \A l \in DOMAIN st : Kind(P, l) = "borrowed" => st[l] # "U"

\* the property of ONE program (used by Linearity_One.cfg: a counterexample is the witness path)
NoWitness == w = {}

\* verdict extraction for a batch: always TRUE, reports witnesses and completed programs
Report == /\ w # {} => PrintT(ToJson([id |-> P.id, w |-> w]))
          /\ pc = "done" => PrintT(ToJson([id |-> P.id, done |-> TRUE]))
=============================================================================
